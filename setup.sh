#!/bin/sh
# Build the framework from files on disk only (offline): regenerate coq/Gen from /repo,
# create the Makefile, build every .vo (full build, no -vos/-vok).
set -e
cd "$(dirname "$0")"
HERE="$(pwd)"
export PYTHONPATH="${VERIF_REPO:-/repo}" PYTHONHASHSEED=0 PYTHONDONTWRITEBYTECODE=1
mkdir -p coq/Gen coq/cases evidence replays
/venv/bin/python - <<'PY'
import sys
import os
sys.path.insert(0, os.path.join(os.getcwd(), 'harness'))
import common
ok, log = common.regen()
print(log)
rc, out = common.build()
print(out[-3000:])
sys.exit(0 if rc == 0 else 1)
PY
