#!/bin/sh
# Build the framework from files on disk only (offline): regenerate coq/Gen from /repo,
# create the Makefile, build every .vo (full build, no -vos/-vok).
set -e
cd "$(dirname "$0")"
HERE="$(pwd)"
export PYTHONPATH="${VERIF_REPO:-/repo}" PYTHONHASHSEED=0 PYTHONDONTWRITEBYTECODE=1
mkdir -p coq/Gen coq/cases evidence replays
/venv/bin/python - <<'PY'
import sys
import os
sys.path.insert(0, os.path.join(os.getcwd(), 'harness'))
import common
ok, log = common.regen()
print(log)
rc, out = common.build()
print(out[-3000:])
# A proof that no longer builds is a finding of the individual check (which rebuilds its own
# targets and reports it with a replay), not a reason to run no check at all.
if rc != 0:
    print('setup: the full build did not complete; the checks will report which obligations are broken')
sys.exit(0)
PY
