#!/usr/bin/env python3
"""tools/keep_seeds.py <results log> [<results log> ...]: file the seeded changes that tools/try_seed.sh
exercised under /verif/seeded/<seed>/ (patch.diff, demo.py, meta.json) and rewrite /verif/seeded/README.md.

A results log is the concatenated output of try_seed.sh runs, each preceded by a line `=== <seed>`.
meta.json keeps the author's fields (property, summary, needs, files, ...) and gains
  ran:      the commands that were run against the change
  outcome:  per check: number of VIOLATION lines, whether one carried a concrete failing input, wall time
  caught_by / missed_by"""
import json
import os
import re
import shutil
import sys

HERE = os.path.dirname(os.path.dirname(os.path.abspath(__file__)))
SRC = '/tmp/seed_out'


def parse(log):
    seeds = {}
    cur = None
    for line in open(log):
        line = line.rstrip('\n')
        m = re.match(r'^=== (\S+)$', line)
        if m:
            cur = m.group(1)
            if cur != 'DONE':
                seeds[cur] = {'checks': {}, 'demo_changed': None, 'demo_unchanged': None, 'applies': True}
            continue
        if cur is None or cur == 'DONE':
            continue
        s = seeds[cur]
        if line.startswith('PATCH DOES NOT APPLY'):
            s['applies'] = False
        m = re.match(r'^demo exit on (changed|unchanged) tree: (\d+)', line)
        if m:
            s['demo_' + m.group(1)] = int(m.group(2))
        m = re.match(r'^\[(C\d\d)\] VIOLATION property=\S+ replay=(\S+)(.*)$', line)
        if m:
            c = s['checks'].setdefault(m.group(1), {'violations': 0, 'with_input': 0, 'replays': []})
            c['violations'] += 1
            if 'no-failing-input-found' not in m.group(3):
                c['with_input'] += 1
            c['replays'].append(os.path.basename(m.group(2)) + m.group(3))
        m = re.match(r'^\[(C\d\d)\] C\d\d: tier=(\S+) .* wall=([\d.]+)s', line)
        if m:
            c = s['checks'].setdefault(m.group(1), {'violations': 0, 'with_input': 0, 'replays': []})
            c['tier'] = m.group(2)
            c['wall_s'] = float(m.group(3))
    return seeds


def main():
    results = {}
    for log in sys.argv[1:]:
        results.update(parse(log))
    out_root = os.path.join(HERE, 'seeded')
    os.makedirs(out_root, exist_ok=True)
    for seed, r in sorted(results.items()):
        src = os.path.join(SRC, seed)
        if not os.path.isdir(src):
            continue
        dst = os.path.join(out_root, seed)
        os.makedirs(dst, exist_ok=True)
        for f in ('patch.diff', 'demo.py'):
            shutil.copy(os.path.join(src, f), os.path.join(dst, f))
        meta = json.load(open(os.path.join(src, 'meta.json')))
        meta['seed'] = seed
        meta['ran'] = ['git apply patch.diff in a scratch worktree of /repo at HEAD (tools/try_seed.sh)',
                       'PYTHONPATH=<tree> /venv/bin/python demo.py on the changed and on the unchanged tree'] + \
                      ['VERIF_REPO=<tree> ./check %s --tier %s' % (c, v.get('tier', 'quick')) for c, v in sorted(r['checks'].items())]
        meta['demo_changed_exit_confirmed'] = r['demo_changed']
        meta['demo_unchanged_exit_confirmed'] = r['demo_unchanged']
        meta['outcome'] = r['checks']
        meta['caught_by'] = sorted(c for c, v in r['checks'].items() if v['violations'] > 0)
        meta['caught_with_failing_input_by'] = sorted(c for c, v in r['checks'].items() if v['with_input'] > 0)
        meta['missed_by'] = sorted(c for c, v in r['checks'].items() if v['violations'] == 0)
        json.dump(meta, open(os.path.join(dst, 'meta.json'), 'w'), indent=1)
    # README table from everything filed so far
    rows = []
    for seed in sorted(os.listdir(out_root)):
        mp = os.path.join(out_root, seed, 'meta.json')
        if not os.path.isfile(mp):
            continue
        m = json.load(open(mp))
        rows.append('| %s | %s | %s | %s | %s | %s |' % (
            seed, m.get('property', ''), (m.get('summary', '') or '').replace('|', '/')[:220],
            ', '.join('%s (%d, %d with input)' % (c, v['violations'], v['with_input']) for c, v in sorted(m.get('outcome', {}).items()) if v['violations']) or '-',
            ', '.join(m.get('missed_by', [])) or '-',
            'yes' if m.get('demo_changed_exit_confirmed') == 1 and m.get('demo_unchanged_exit_confirmed') == 0 else 'NO'))
    with open(os.path.join(out_root, 'README.md'), 'w') as f:
        f.write('# Seeded changes\n\nEach directory: `patch.diff` (applies to /repo HEAD with `git apply`), `demo.py` (exit 1 on the changed tree, 0 on /repo), '
                '`meta.json` (what the change is, what it needs to manifest, what was run, outcome).  Re-run one with `tools/try_seed.sh seeded/<seed> [checks]`.\n\n'
                '| seed | property | change | caught by (VIOLATION lines, of which with a concrete failing input) | run and missed by | demo confirmed |\n|---|---|---|---|---|---|\n')
        f.write('\n'.join(rows) + '\n')
    print('filed', len(results), 'seeds;', len(rows), 'in README')


if __name__ == '__main__':
    main()
