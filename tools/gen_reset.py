"""py2coq generator for C17 (history independence): which fields of the long-lived objects are
brought back to their initial value by the method that starts a new compile / a new run.

For each class below: the attributes assigned in __init__ (self.X = ...), and the attributes the
reset method re-initialises -- by assignment, by X.clear(), by X.reset(...), by calling
self.__init__(), or through another method of the same class that the reset method calls.
An attribute that is neither reset nor on the allow-list of fields that no compile / run
changes (or that are re-assigned before every use) is a GAP.  Gen/ResetGen.v lists the gaps;
Props/C17.v requires the list to be empty."""
import ast
import os
from py2coq_core import *

# (file, class, reset method, fields that need no reset with the reason)
TARGETS = [
    ('bardolph/parser/parse.py', 'Parser', 'parse', {
        '_lexer': 'never-read',
        '_command_map': 'constant: table of bound methods, never written after construction',
        '_token_trace': 'constant: debug switch, never written after construction',
        '_op_code': 'written by _action before every read in _all_operand/_default_operand/_operand_list/_zone_range',
        '_context': 'cleared through Context.clear (checked separately)',
        '_code_gen': 'cleared through CodeGen.clear (checked separately)',
    }),
    ('bardolph/parser/context.py', 'Context', 'clear', {
        '_loop_depth': 'never-read',
    }),
    ('bardolph/parser/code_gen.py', 'CodeGen', 'clear', {}),
    ('bardolph/vm/machine.py', 'Machine', 'reset', {
        '_clock': 'service object; its time line is restarted by Clock.start at the beginning of run',
        '_program': 'assigned by run before the first instruction',
        '_reg': 'reset through Registers.reset',
        '_call_stack': 'reset through CallStack.reset',
        '_vm_io': 'reset through VmIo.reset',
        '_vm_math': 'reset through VmMath.reset',
        '_vm_discover': 'constant: stateless helper (reads registers and call stack only), never re-assigned',
        '_fn_table': 'constant: table of bound methods, never written after construction',
        '_keep_running': 're-armed by prepare() when a run is started and in the finally clause of run',
    }),
    ('bardolph/vm/machine.py', 'Registers', 'reset', {}),
    ('bardolph/vm/vm_io.py', 'VmIo', 'reset', {
        '_call_stack': 'constant: shared object reset by Machine.reset',
        '_reg': 'constant: shared object reset by Machine.reset',
    }),
    ('bardolph/vm/vm_math.py', 'VmMath', 'reset', {
        '_call_stack': 'constant: shared object reset by Machine.reset',
        '_reg': 'constant: shared object reset by Machine.reset',
    }),
]

# sub-objects whose own reset must be called by the owner's reset method: (owner class, attribute, method)
DELEGATED = [
    ('Parser', '_context', 'clear'), ('Parser', '_code_gen', 'clear'),
    ('Machine', '_reg', 'reset'), ('Machine', '_call_stack', 'reset'), ('Machine', '_vm_io', 'reset'), ('Machine', '_vm_math', 'reset'),
]


def self_attr(node):
    return node.attr if (isinstance(node, ast.Attribute) and isinstance(node.value, ast.Name) and node.value.id == 'self') else None


# assigning a fresh container (deque(), {}, [], SymbolTable() ...) re-initialises the field just like .clear()
def assigned_attrs(fn):
    out = set()
    for n in ast.walk(fn):
        if isinstance(n, (ast.Assign, ast.AugAssign, ast.AnnAssign)):
            targets = n.targets if isinstance(n, ast.Assign) else [n.target]
            for t in targets:
                for el in (t.elts if isinstance(t, ast.Tuple) else [t]):
                    a = self_attr(el)
                    if a:
                        out.add(a)
    return out


def attr_uses(cls, attr):
    """(number of reads, number of writes outside __init__) of self.<attr> in the class"""
    reads = writes = 0
    for fn in cls.body:
        if not isinstance(fn, ast.FunctionDef):
            continue
        for n in ast.walk(fn):
            if isinstance(n, ast.Attribute) and self_attr(n) == attr:
                if isinstance(n.ctx, ast.Load):
                    reads += 1
                elif fn.name != '__init__':
                    writes += 1
    return reads, writes


def exemption_holds(cls, attr, reason):
    """the checkable kinds of exemption: never-read (no load anywhere in the class; augmented assignments count as
    writes only) and constant (no store outside __init__)"""
    reads, writes = attr_uses(cls, attr)
    if reason.startswith('never-read'):
        return reads == 0
    if reason.startswith('constant:'):
        return writes == 0
    return True


def reset_effects(cls, method, seen=None):
    """attributes re-initialised by cls.method, and the (attr, method) calls it makes on sub-objects"""
    seen = seen or set()
    if method in seen:
        return set(), set()
    seen.add(method)
    fn = find_func(cls.body, method)
    attrs = set(assigned_attrs(fn))
    calls = set()
    for n in ast.walk(fn):
        if isinstance(n, ast.Call) and isinstance(n.func, ast.Attribute):
            recv = n.func.value
            a = self_attr(recv)
            if a is not None:
                if n.func.attr in ('clear',):
                    attrs.add(a)
                calls.add((a, n.func.attr))
            elif isinstance(recv, ast.Name) and recv.id == 'self':
                if n.func.attr == '__init__':
                    attrs |= assigned_attrs(find_func(cls.body, '__init__'))
                elif any(isinstance(m, ast.FunctionDef) and m.name == n.func.attr for m in cls.body):
                    a2, c2 = reset_effects(cls, n.func.attr, seen)
                    attrs |= a2
                    calls |= c2
    return attrs, calls


def gen_reset(repo):
    gaps = []
    table = []
    trees = {}
    per_class = {}
    for path, cname, method, allow in TARGETS:
        if path not in trees:
            trees[path] = ast.parse(open(os.path.join(repo, path)).read())
        cls = find_class(trees[path], cname)
        init = assigned_attrs(find_func(cls.body, '__init__'))
        reset, calls = reset_effects(cls, method)
        per_class[cname] = calls
        for a in sorted(init):
            if a in reset:
                kind = 'reset'
            elif a in allow and exemption_holds(cls, a, allow[a]):
                kind = 'exempt'
            else:
                kind = 'GAP'
                gaps.append('%s.%s' % (cname, a))
            table.append('%s.%s:%s' % (cname, a, kind))
    calls = []
    for owner, attr, meth in DELEGATED:
        if (attr, meth) not in per_class.get(owner, set()):
            gaps.append('%s.%s.%s() not called' % (owner, attr, meth))
        else:
            calls.append('%s.%s.%s' % (owner, attr, meth))
    out = ['(* GENERATED by tools/py2coq.py (gen_reset.py) -- do not edit. *)',
           'From Coq Require Import String List.', 'Open Scope string_scope.', 'Import ListNotations.', '',
           'Definition reset_table : list string := [%s].' % '; '.join(coq_string(t) for t in table),
           'Definition reset_calls : list string := [%s].' % '; '.join(coq_string(t) for t in calls),
           'Definition reset_gaps : list string := [%s].' % '; '.join(coq_string(g) for g in gaps)]
    return '\n'.join(out) + '\n'


GENERATORS = {'ResetGen.v': gen_reset}
