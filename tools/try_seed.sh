#!/bin/sh
# tools/try_seed.sh <seed dir> [check ids...]: apply a seeded change to a scratch worktree of /repo
# (/tmp/seedtree, reset to /repo's HEAD first), confirm its demo fails there, run the named checks
# (default: the seed's property) with VERIF_REPO pointing at it, and reset the worktree.
d="$1"; shift
T=/tmp/seedtree
[ -d $T ] || git -C /repo worktree add -q $T HEAD
git -C $T checkout -q --detach $(git -C /repo rev-parse HEAD) && git -C $T checkout -q -- . && git -C $T clean -fdq
prop=$(python3 -c "import json,sys; print(json.load(open('$d/meta.json'))['property'])")
checks="${*:-$prop}"
git -C $T apply "$d/patch.diff" || { echo "PATCH DOES NOT APPLY: $d"; exit 2; }
( cd $T && PYTHONPATH=$T /venv/bin/python "$d/demo.py" >/dev/null 2>&1; echo "demo exit on changed tree: $?" )
for c in $checks; do
  ( cd /verif && VERIF_REPO=$T ./check $c 2>&1 | grep "VIOLATION\|KNOWN\|tier=" | sed "s/^/[$c] /" )
done
git -C $T checkout -q -- . && git -C $T clean -fdq
( cd $T && PYTHONPATH=$T /venv/bin/python "$d/demo.py" >/dev/null 2>&1; echo "demo exit on unchanged tree: $?" )
