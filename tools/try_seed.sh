#!/bin/sh
# tools/try_seed.sh <seed dir> [check ids...]: apply a seeded change to a scratch worktree of /repo
# (/tmp/seedtree, reset to /repo's HEAD first), confirm its demo fails there, run the named checks
# (default: the seed's property) from a private copy of /verif (/tmp/vseed, so that the regenerated
# coq/Gen and the .vo files of the working copy are left alone) with VERIF_REPO pointing at the
# scratch tree, and reset the worktree.
d="$1"; shift
T=${SEEDTREE:-/tmp/seedtree}
V=${VSEED:-/tmp/vseed}
[ -d $T ] || git -C /repo worktree add -q --detach $T HEAD
git -C $T checkout -q --detach $(git -C /repo rev-parse HEAD) && git -C $T checkout -q -- . && git -C $T clean -fdq
mkdir -p $V && rsync -a --delete --exclude .git --exclude replays --exclude coq/cases --exclude evidence /verif/ $V/
mkdir -p $V/evidence $V/replays
prop=$(python3 -c "import json,sys; print(json.load(open('$d/meta.json'))['property'])")
checks="${*:-$prop}"
git -C $T apply "$d/patch.diff" || { echo "PATCH DOES NOT APPLY: $d"; exit 2; }
( cd $T && PYTHONPATH=$T /venv/bin/python "$d/demo.py" >/dev/null 2>&1; echo "demo exit on changed tree: $?" )
for c in $checks; do
  ( cd $V && VERIF_REPO=$T ./check $c 2>&1 | grep "VIOLATION\|KNOWN\|tier=" | sed "s/^/[$c] /" )
done
git -C $T checkout -q -- . && git -C $T clean -fdq
( cd $T && PYTHONPATH=$T /venv/bin/python "$d/demo.py" >/dev/null 2>&1; echo "demo exit on unchanged tree: $?" )
