"""py2coq generator for the output path (C19): bardolph/lib/std_out_output.py,
bardolph/lib/injection.py, bardolph/vm/vm_io.py, bardolph/parser/io_parser.py and the
places in bardolph/vm/machine.py and bardolph/controller/light_module.py that use them.

Nothing here is arithmetic, so nothing is translated expression by expression.  The
hand-written model (coq/Io/Output.v) is tied to the source the same way the hand-written
parts of Time/TimePattern.v are: the normalised text of every modelled method is compared
with the text(s) the model was written from, and the outcome is emitted as `shape_*`
booleans.  Where two texts are accepted (the pinned one and the repaired one) the model
branches on the boolean, so that the model of the pinned tree expresses the pinned
behaviour; lemmas in Io/OutputProofs.v require the repaired shapes, so the proofs break on
the pinned tree.  A method whose text is none of the accepted ones gets `false` for all
its flags and `shape_<method>_known = false`.
"""
import ast
import os
from py2coq_core import find_class, find_func


def norm(src):
    return ast.unparse(ast.parse(src))


def fn_src(fn):
    body = [s for s in fn.body
            if not (isinstance(s, ast.Expr) and isinstance(s.value, ast.Constant) and isinstance(s.value.value, str))]
    return '\n'.join(ast.unparse(s) for s in body)


def module_func(tree, name):
    for n in tree.body:
        if isinstance(n, ast.FunctionDef) and n.name == name:
            return n
    raise KeyError('function %s not found' % name)


def parse_file(repo, rel):
    return ast.parse(open(os.path.join(repo, rel)).read())


# ---------------------------------------------------------------------------
# accepted texts

SINK_INIT = norm("self._line_pending = False")
SINK_OUT_PINNED = norm("""
if self._line_pending:
    print(' ', end='')
self._line_pending = True
print(output, end='')
""")
SINK_OUT_TRACKS_NL = norm("""
if self._line_pending:
    print(' ', end='')
self._line_pending = not str(output).endswith('\\n')
print(output, end='')
""")
SINK_NEWLINE = norm("""
print()
self._line_pending = False
""")
SINK_FLUSH_PINNED = norm("""
if self._line_pending:
    self.newline()
""")
SINK_FLUSH_FORGETS = norm("self._line_pending = False")
CONFIGURE_CLASS = norm("bind(StdOutOutput).to(i_lib.Output)")
CONFIGURE_INSTANCE = norm("bind_instance(StdOutOutput()).to(i_lib.Output)")

VMIO_INIT = norm("""
self._call_stack = call_stack
self._reg = reg
self._unnamed = []
""")
_VMIO_OUT = """
match inst.param0:
    case IoOp.LITERAL:
        self._unnamed.append(inst.param1)
    case IoOp.REGISTER:
        self._unnamed.append(self._reg.get_by_enum(inst.param1))
    case IoOp.PRINT:
        if len(self._unnamed) > 0:
            %s
    case IoOp.PRINT_END:
        output.newline()
    case IoOp.PRINTF:
        self._printf(inst)
    case _:
        logging.error("print command internal error: {}".format(inst.param0))
"""
# PRINT writes the first pending value and clears the list (pinned) / writes the value
# pushed last and removes only it (repaired, D39)
VMIO_OUT_FIRST = norm(_VMIO_OUT % "output.out(self._unnamed[0])\n            self._unnamed.clear()")
VMIO_OUT_LAST = norm(_VMIO_OUT % "output.out(self._unnamed.pop())")
# reset: pinned (no injection) / repaired D38 (also forgets an open line of the sink)
VMIO_RESET_PLAIN = norm("self._unnamed.clear()")
VMIO_RESET_FLUSHES = norm("self._unnamed.clear()\noutput.flush()")
VMIO_FLUSH_FLUSHES = norm("""
for remaining in self._unnamed:
    output.out(remaining)
output.flush()
self.reset()
""")
VMIO_FLUSH_PLAIN = norm("""
for remaining in self._unnamed:
    output.out(remaining)
self.reset()
""")
VMIO_PRINTF_ALL = norm("""
format_str = inst.param1.replace('\\\\n', '\\n')
named = {}
for field in string.Formatter().parse(format_str):
    name = field[1]
    if name is not None and len(name) > 0 and not name.isdecimal():
        reg = Register.from_string(name)
        if reg is not None:
            named[name] = self._reg.get_by_enum(reg)
        else:
            named[name] = self._call_stack.get_variable(name)
output.out(format_str.format(*self._unnamed, **named))
self._unnamed.clear()
""")
VMIO_PRINTF_LAST_K = norm("""
format_str = inst.param1.replace('\\\\n', '\\n')
named = {}
num_unnamed = 0
for field in string.Formatter().parse(format_str):
    name = field[1]
    if name is None:
        continue
    if len(name) == 0 or name.isdecimal():
        num_unnamed += 1
    else:
        reg = Register.from_string(name)
        if reg is not None:
            named[name] = self._reg.get_by_enum(reg)
        else:
            named[name] = self._call_stack.get_variable(name)
first = max(0, len(self._unnamed) - num_unnamed)
unnamed = self._unnamed[first:]
del self._unnamed[first:]
output.out(format_str.format(*unnamed, **named))
""")

PARSER_PRINT = norm("""
self.next_token()
if self.at_rvalue():
    if not self._out_rvalue():
        return False
    self.code_gen.add_instruction(OpCode.OUT, IoOp.PRINT)
return True
""")
PARSER_PRINTLN = norm("""
if not self.print():
    return False
self.code_gen.add_instruction(OpCode.OUT, IoOp.PRINT_END)
return True
""")
_PRINTF_HEAD = """
self.next_token()
format_str = self.current_str
if len(format_str) == 0:
    return self.token_error('Expected format specifier, got {}')
self.next_token()
"""
_PRINTF_COUNT = """
num_unnamed = sum((1 for field in string.Formatter().parse(format_str) if field[1] is not None and (len(field[1]) == 0 or field[1].isdecimal())))
"""
_PRINTF_TAIL = """
for field in range(0, num_unnamed):
    if not self._out_rvalue():
        return False
self.code_gen.add_instruction(OpCode.OUT, IoOp.PRINTF, format_str)
return True
"""
PARSER_PRINTF_PINNED = norm(_PRINTF_HEAD + _PRINTF_COUNT + _PRINTF_TAIL)
PARSER_PRINTF_GUARDED = norm(_PRINTF_HEAD + """
try:
    num_unnamed = sum((1 for field in string.Formatter().parse(format_str) if field[1] is not None and (len(field[1]) == 0 or field[1].isdecimal())))
except ValueError as ex:
    return self.trigger_error('Bad format string: {}'.format(ex))
""" + _PRINTF_TAIL)
PARSER_OUT_RVALUE = norm("""
if not self.rvalue():
    return False
self.code_gen.add_instruction(OpCode.OUT, IoOp.REGISTER, Register.RESULT)
if end is not None:
    self.code_gen.add_instruction(OpCode.OUT, IoOp.LITERAL, end)
return True
""")

INJ_BINDER_TO = norm("_providers[interface] = self._constructor")
INJ_OBJECT_BINDER_TO = norm("_providers[interface] = lambda: self._instance")
INJ_PROVIDE = norm("""
if interface not in _providers:
    msg = 'interface {}'.format(interface)
    raise UnboundException(msg)
return _providers[interface]()
""")
INJ_INJECT = norm("""
def fn_wrapper(fn):

    @functools.wraps(fn)
    def param_wrapper(*args, **kwargs):
        return fn(*args, provide(interface), **kwargs)
    return param_wrapper
return fn_wrapper
""")
INJ_BIND = norm("return Binder(implementation)")
INJ_BIND_INSTANCE = norm("return ObjectBinder(implementor)")


def has_inject_output(fn):
    return any(ast.unparse(d) == 'inject(Output)' for d in fn.decorator_list)


def calls_in(stmts, text):
    """Indices (in the statement list) of the expression statements whose text is `text`."""
    return [i for i, s in enumerate(stmts) if isinstance(s, ast.Expr) and ast.unparse(s.value) == text]


def output_shape(repo):
    shape = {}
    # ---- StdOutOutput and its binding
    tree = parse_file(repo, 'bardolph/lib/std_out_output.py')
    cls = find_class(tree, 'StdOutOutput')
    names = {n.name for n in cls.body if isinstance(n, ast.FunctionDef)}
    shape['sink_methods_known'] = names == {'__init__', 'out', 'newline', 'flush'}
    init = fn_src(find_func(cls.body, '__init__'))
    out = fn_src(find_func(cls.body, 'out'))
    newline = fn_src(find_func(cls.body, 'newline'))
    flush = fn_src(find_func(cls.body, 'flush'))
    conf = fn_src(module_func(tree, 'configure'))
    shape['sink_init'] = init == SINK_INIT
    shape['sink_out_always_pending'] = out == SINK_OUT_PINNED
    shape['sink_out_tracks_newline'] = out == SINK_OUT_TRACKS_NL
    shape['sink_out_known'] = out in (SINK_OUT_PINNED, SINK_OUT_TRACKS_NL)
    shape['sink_newline'] = newline == SINK_NEWLINE
    shape['sink_flush_ends_line'] = flush == SINK_FLUSH_PINNED
    shape['sink_flush_forgets'] = flush == SINK_FLUSH_FORGETS
    shape['sink_flush_known'] = flush in (SINK_FLUSH_PINNED, SINK_FLUSH_FORGETS)
    shape['bind_class'] = conf == CONFIGURE_CLASS
    shape['bind_instance'] = conf == CONFIGURE_INSTANCE
    shape['bind_known'] = conf in (CONFIGURE_CLASS, CONFIGURE_INSTANCE)
    # ---- injection: bind = constructor called on every provide; bind_instance = one object
    tree = parse_file(repo, 'bardolph/lib/injection.py')
    binder = find_class(tree, 'Binder')
    obinder = find_class(tree, 'ObjectBinder')
    shape['injection'] = (
        fn_src(find_func(binder.body, 'to')) == INJ_BINDER_TO
        and fn_src(find_func(obinder.body, 'to')) == INJ_OBJECT_BINDER_TO
        and fn_src(module_func(tree, 'provide')) == INJ_PROVIDE
        and fn_src(module_func(tree, 'inject')) == INJ_INJECT
        and fn_src(module_func(tree, 'bind')) == INJ_BIND
        and fn_src(module_func(tree, 'bind_instance')) == INJ_BIND_INSTANCE)
    # ---- VmIo
    tree = parse_file(repo, 'bardolph/vm/vm_io.py')
    cls = find_class(tree, 'VmIo')
    names = {n.name for n in cls.body if isinstance(n, ast.FunctionDef)}
    shape['vmio_methods_known'] = names == {'__init__', 'out', 'reset', 'flush', '_printf'}
    f_out = find_func(cls.body, 'out')
    f_flush = find_func(cls.body, 'flush')
    f_printf = find_func(cls.body, '_printf')
    f_reset = find_func(cls.body, 'reset')
    shape['vmio_init'] = fn_src(find_func(cls.body, '__init__')) == VMIO_INIT
    t_out, t_reset, t_flush, t_printf = fn_src(f_out), fn_src(f_reset), fn_src(f_flush), fn_src(f_printf)
    shape['vmio_print_takes_first'] = t_out == VMIO_OUT_FIRST and has_inject_output(f_out)
    shape['vmio_print_takes_last'] = t_out == VMIO_OUT_LAST and has_inject_output(f_out)
    shape['vmio_out_known'] = shape['vmio_print_takes_first'] or shape['vmio_print_takes_last']
    shape['vmio_reset_plain'] = t_reset == VMIO_RESET_PLAIN and not f_reset.decorator_list
    shape['vmio_reset_flushes_sink'] = t_reset == VMIO_RESET_FLUSHES and has_inject_output(f_reset)
    shape['vmio_reset_known'] = shape['vmio_reset_plain'] or shape['vmio_reset_flushes_sink']
    shape['vmio_flush_flushes_sink'] = t_flush == VMIO_FLUSH_FLUSHES and has_inject_output(f_flush)
    shape['vmio_flush_plain'] = t_flush == VMIO_FLUSH_PLAIN and has_inject_output(f_flush)
    shape['vmio_flush_known'] = shape['vmio_flush_flushes_sink'] or shape['vmio_flush_plain']
    shape['vmio_printf_takes_all'] = t_printf == VMIO_PRINTF_ALL and has_inject_output(f_printf)
    shape['vmio_printf_takes_last_k'] = t_printf == VMIO_PRINTF_LAST_K and has_inject_output(f_printf)
    shape['vmio_printf_known'] = shape['vmio_printf_takes_all'] or shape['vmio_printf_takes_last_k']
    # ---- IoParser
    tree = parse_file(repo, 'bardolph/parser/io_parser.py')
    cls = find_class(tree, 'IoParser')
    printf = fn_src(find_func(cls.body, 'printf'))
    shape['parser_print'] = fn_src(find_func(cls.body, 'print')) == PARSER_PRINT
    shape['parser_println'] = fn_src(find_func(cls.body, 'println')) == PARSER_PRINTLN
    shape['parser_printf'] = printf in (PARSER_PRINTF_PINNED, PARSER_PRINTF_GUARDED)
    shape['parser_printf_guarded'] = printf == PARSER_PRINTF_GUARDED
    shape['parser_out_rvalue'] = fn_src(find_func(cls.body, '_out_rvalue')) == PARSER_OUT_RVALUE
    # ---- Machine: every OUT instruction goes to VmIo.out; run() flushes after the loop,
    #      inside the try (so an exception skips it); reset() clears the pending values or not
    tree = parse_file(repo, 'bardolph/vm/machine.py')
    cls = find_class(tree, 'Machine')
    shape['machine_out'] = fn_src(find_func(cls.body, '_out')) == norm("self._vm_io.out(self.current_inst)")
    run = find_func(cls.body, 'run')
    tries = [s for s in run.body if isinstance(s, ast.Try)]
    ok = False
    if len(tries) == 1 and not calls_in(run.body, 'self._vm_io.flush()'):
        body = tries[0].body
        flushes = calls_in(body, 'self._vm_io.flush()')
        whiles = [i for i, s in enumerate(body) if isinstance(s, ast.While)]
        ok = (len(flushes) == 1 and len(whiles) == 1 and whiles[0] < flushes[0]
              and 'vm_io' not in ast.unparse(body[whiles[0]])
              and all('_vm_io' not in ast.unparse(h) for h in tries[0].handlers)
              and all('_vm_io' not in ast.unparse(s) for s in tries[0].finalbody))
    shape['machine_run_flushes_last'] = ok
    reset = find_func(cls.body, 'reset')
    shape['machine_reset_clears_io'] = len(calls_in(reset.body, 'self._vm_io.reset()')) == 1
    # ---- the production set-up binds the standard-output sink
    tree = parse_file(repo, 'bardolph/controller/light_module.py')
    conf = module_func(tree, 'configure')
    shape['light_module_binds_stdout'] = len(calls_in(conf.body, 'std_out_output.configure()')) == 1
    return shape


def gen_output(repo):
    shape = output_shape(repo)
    out = ['(* GENERATED by tools/py2coq.py (gen_output) from bardolph/lib/std_out_output.py, lib/injection.py,',
           '   vm/vm_io.py, parser/io_parser.py, vm/machine.py, controller/light_module.py -- do not edit. *)',
           '']
    for k in sorted(shape):
        out.append('Definition shape_%s : bool := %s.' % (k, 'true' if shape[k] else 'false'))
    return '\n'.join(out) + '\n'


GENERATORS = {
    'OutputGen.v': gen_output,
}
