"""py2coq: fail-closed translator from a small Python subset to Coq (Gallina).

Regenerates /verif/coq/Gen/*.v from /repo's current sources on every run, so that
the theorems proved about those definitions are re-checked against what the code
says now.  Anything outside the accepted subset raises Unsupported: the caller
then reports the translator tie as broken (never silently skips).

Accepted subset (see DESIGN 5.1): module/class string and numeric constants;
Enum classes with auto(); dict/tuple literals of constants; functions whose body
is a sequence of  `if`/`elif`/`else`, `return`, assignments to fresh locals,
the accumulate pattern `X = set(); for v in range(a, b): if c: X.add(v)`;
expressions over ints, floats, strings, booleans: comparison chains, `in`/`not in`
on tuples and strings, `and`/`or`/`not`, arithmetic, `len`, `int`, `float`,
`round`, `max`, `min`, constant subscripts, `str.isdigit/isdecimal`,
`"{:02d}".format(n)`, conditional expressions.

Types: 'int' (Z), 'float' (PrimFloat), 'str' (string), 'bool', 'intset' (list Z).
"""
import ast
import os
import sys


class Unsupported(Exception):
    pass


def fail(node, why):
    line = getattr(node, 'lineno', '?')
    raise Unsupported('line {}: {} ({})'.format(line, why, ast.dump(node)[:120]))


def coq_string(s):
    for ch in s:
        if ord(ch) > 126 or (ord(ch) < 32):
            raise Unsupported('non printable-ASCII character in string constant %r' % s)
    return '"' + s.replace('"', '""') + '"'


def coq_z(n):
    return '(%d)' % n if n < 0 else '%d' % n


def coq_float(x):
    import math
    if math.isinf(x) or math.isnan(x):
        raise Unsupported('inf/nan literal')
    h = float(x).hex()
    return '(%s)%%float' % h


class Expr:
    """Expression translator with a small type inference."""

    def __init__(self, env, consts=None, funcs=None, float_mode=False):
        self.env = dict(env)          # name -> type
        self.consts = consts or {}    # dotted name -> (coq text, type)
        self.funcs = funcs or {}      # python callee name -> (coq name, [argtypes], rettype)
        self.float_mode = float_mode

    def tr(self, n):
        m = getattr(self, 'tr_' + type(n).__name__, None)
        if m is None:
            fail(n, 'unsupported expression')
        return m(n)

    # leaves
    def tr_Constant(self, n):
        v = n.value
        if isinstance(v, bool):
            return ('true' if v else 'false', 'bool')
        if isinstance(v, int):
            return (coq_z(v), 'int')
        if isinstance(v, float):
            return (coq_float(v), 'float')
        if isinstance(v, str):
            return (coq_string(v), 'str')
        fail(n, 'constant type')

    def tr_Name(self, n):
        if n.id in self.env:
            return (n.id, self.env[n.id])
        if n.id in self.consts:
            return self.consts[n.id]
        fail(n, 'unknown name')

    def tr_Attribute(self, n):
        dotted = self.dotted(n)
        if dotted in self.consts:
            return self.consts[dotted]
        fail(n, 'unknown attribute')

    def dotted(self, n):
        if isinstance(n, ast.Name):
            return n.id
        if isinstance(n, ast.Attribute):
            return self.dotted(n.value) + '.' + n.attr
        fail(n, 'not a dotted name')

    def tr_Tuple(self, n):
        fail(n, 'bare tuple')

    # coercions
    def as_float(self, t):
        s, ty = t
        if ty == 'float':
            return s
        if ty == 'int':
            return '(z2f %s)' % s
        raise Unsupported('cannot use %s as float: %s' % (ty, s))

    def as_bool(self, t, node):
        s, ty = t
        if ty == 'bool':
            return s
        if ty == 'str':
            return '(negb (String.eqb %s ""))' % s
        if ty == 'int':
            return '(negb (Z.eqb %s 0))' % s
        fail(node, 'truthiness of ' + ty)

    # operators
    def tr_BoolOp(self, n):
        parts = [self.as_bool(self.tr(v), v) for v in n.values]
        op = ' && ' if isinstance(n.op, ast.And) else ' || '
        return ('(' + op.join(parts) + ')', 'bool')

    def tr_UnaryOp(self, n):
        if isinstance(n.op, ast.Not):
            return ('(negb %s)' % self.as_bool(self.tr(n.operand), n), 'bool')
        if isinstance(n.op, ast.USub):
            s, ty = self.tr(n.operand)
            if ty == 'int':
                return ('(Z.opp %s)' % s, 'int')
            if ty == 'float':
                return ('(PrimFloat.opp %s)' % s, 'float')
        fail(n, 'unary operator')

    def tr_BinOp(self, n):
        a, b = self.tr(n.left), self.tr(n.right)
        opn = type(n.op).__name__
        if a[1] == 'int' and b[1] == 'int' and opn in ('Add', 'Sub', 'Mult'):
            f = {'Add': 'Z.add', 'Sub': 'Z.sub', 'Mult': 'Z.mul'}[opn]
            return ('(%s %s %s)' % (f, a[0], b[0]), 'int')
        if 'float' in (a[1], b[1]) or (opn == 'Div' and a[1] in ('int', 'float')):
            fa, fb = self.as_float(a), self.as_float(b)
            f = {'Add': 'PrimFloat.add', 'Sub': 'PrimFloat.sub', 'Mult': 'PrimFloat.mul',
                 'Div': 'PrimFloat.div', 'Mod': 'py_fmod'}.get(opn)
            if f is None:
                fail(n, 'float operator')
            return ('(%s %s %s)' % (f, fa, fb), 'float')
        fail(n, 'binary operator on %s,%s' % (a[1], b[1]))

    def cmp1(self, op, a, b, node):
        opn = type(op).__name__
        if opn in ('In', 'NotIn'):
            r = self.contains(a, b, node)
            return r if opn == 'In' else '(negb %s)' % r
        ta, tb = a[1], b[1]
        if ta == 'str' and tb == 'str' and opn in ('Eq', 'NotEq'):
            r = '(String.eqb %s %s)' % (a[0], b[0])
            return r if opn == 'Eq' else '(negb %s)' % r
        if ta == 'int' and tb == 'int':
            f = {'Eq': 'Z.eqb', 'Lt': 'Z.ltb', 'LtE': 'Z.leb', 'Gt': 'Z.gtb', 'GtE': 'Z.geb'}.get(opn)
            if opn == 'NotEq':
                return '(negb (Z.eqb %s %s))' % (a[0], b[0])
            if f:
                return '(%s %s %s)' % (f, a[0], b[0])
        if 'float' in (ta, tb) and ta in ('int', 'float') and tb in ('int', 'float'):
            fa, fb = self.as_float(a), self.as_float(b)
            if opn == 'Lt':
                return '(PrimFloat.ltb %s %s)' % (fa, fb)
            if opn == 'LtE':
                return '(PrimFloat.leb %s %s)' % (fa, fb)
            if opn == 'Gt':
                return '(PrimFloat.ltb %s %s)' % (fb, fa)
            if opn == 'GtE':
                return '(PrimFloat.leb %s %s)' % (fb, fa)
            if opn == 'Eq':
                return '(PrimFloat.eqb %s %s)' % (fa, fb)
        fail(node, 'comparison %s on %s,%s' % (opn, ta, tb))

    def contains(self, a, b_node_or_pair, node):
        b = b_node_or_pair
        if isinstance(b, tuple) and b[1] == 'str' and a[1] == 'str':
            return '(substr_in %s %s)' % (a[0], b[0])
        if isinstance(b, tuple) and b[1] == 'intlist' and a[1] == 'int':
            return '(zmem %s %s)' % (a[0], b[0])
        if isinstance(b, tuple) and b[1] == 'strlist' and a[1] == 'str':
            return '(smem %s %s)' % (a[0], b[0])
        fail(node, 'membership test')

    def tr_Compare(self, n):
        operands = [n.left] + list(n.comparators)
        tvals = []
        for i, o in enumerate(operands):
            if isinstance(o, ast.Tuple) and i > 0 and isinstance(n.ops[i - 1], (ast.In, ast.NotIn)):
                elts = [self.tr(e) for e in o.elts]
                tys = {t for _, t in elts}
                if tys == {'int'}:
                    tvals.append(('[' + '; '.join(s for s, _ in elts) + ']', 'intlist'))
                elif tys == {'str'}:
                    tvals.append(('[' + '; '.join(s for s, _ in elts) + ']', 'strlist'))
                else:
                    fail(o, 'mixed tuple')
            else:
                tvals.append(self.tr(o))
        parts = []
        for i, op in enumerate(n.ops):
            parts.append(self.cmp1(op, tvals[i], tvals[i + 1], n))
        if len(parts) == 1:
            return (parts[0], 'bool')
        return ('(' + ' && '.join(parts) + ')', 'bool')

    def tr_IfExp(self, n):
        c = self.as_bool(self.tr(n.test), n.test)
        a, b = self.tr(n.body), self.tr(n.orelse)
        if a[1] != b[1]:
            if {a[1], b[1]} == {'int', 'float'}:
                return ('(if %s then %s else %s)' % (c, self.as_float(a), self.as_float(b)), 'float')
            fail(n, 'branches of different type')
        return ('(if %s then %s else %s)' % (c, a[0], b[0]), a[1])

    def tr_Subscript(self, n):
        v = self.tr(n.value)
        idx = n.slice
        if v[1] == 'str' and isinstance(idx, ast.Constant) and isinstance(idx.value, int) and idx.value >= 0:
            return ('(py_index %s %d)' % (v[0], idx.value), 'str')
        if v[1] == 'color' and isinstance(idx, ast.Constant) and isinstance(idx.value, int) and 0 <= idx.value < 4:
            return ('(c%d %s)' % (idx.value, v[0]), 'float')
        fail(n, 'subscript')

    def tr_Call(self, n):
        f = n.func
        if n.keywords:
            fail(n, 'keyword arguments')
        if isinstance(f, ast.Name):
            name = f.id
            args = [self.tr(a) for a in n.args]
            if name == 'len' and len(args) == 1 and args[0][1] == 'str':
                return ('(zlen %s)' % args[0][0], 'int')
            if name == 'int' and len(args) == 1 and args[0][1] == 'str':
                return ('(py_int %s)' % args[0][0], 'int')
            if name == 'float' and len(args) == 1:
                return (self.as_float(args[0]), 'float')
            if name == 'round' and len(args) == 1:
                return ('(py_round %s)' % self.as_float(args[0]), 'rounded')
            if name in ('max', 'min') and len(args) == 2:
                # Python: max(a, b) = b if b > a else a ; min(a, b) = b if b < a else a
                return ('(py_%s %s %s)' % (name, self.as_float(args[0]), self.as_float(args[1])), 'float')
            if name in self.funcs:
                cn, argtys, rt = self.funcs[name]
                if len(argtys) != len(args):
                    fail(n, 'arity')
                out = []
                for (s, t), want in zip(args, argtys):
                    out.append(self.as_float((s, t)) if want == 'float' else s)
                    if want != 'float' and t != want:
                        fail(n, 'argument type')
                return ('(%s %s)' % (cn, ' '.join(out)), rt)
            fail(n, 'call of ' + name)
        if isinstance(f, ast.Attribute):
            if f.attr in ('isdigit', 'isdecimal') and not n.args:
                v = self.tr(f.value)
                if v[1] == 'str':
                    return ('(str_%s %s)' % (f.attr, v[0]), 'bool')
            if f.attr == 'format' and isinstance(f.value, ast.Constant) and f.value.value == '{:02d}' and len(n.args) == 1:
                a = self.tr(n.args[0])
                if a[1] == 'int':
                    return ('(fmt_02d %s)' % a[0], 'str')
            dotted = None
            try:
                dotted = self.dotted(f)
            except Unsupported:
                pass
            if dotted is not None:
                short = dotted.split('.')[-1]
                for key in (dotted, short):
                    if key in self.funcs:
                        cn, argtys, rt = self.funcs[key]
                        args = [self.tr(a) for a in n.args]
                        if len(argtys) != len(args):
                            fail(n, 'arity')
                        for (s, t), want in zip(args, argtys):
                            if t != want:
                                fail(n, 'argument type')
                        return ('(%s %s)' % (cn, ' '.join(s for s, _ in args)), rt)
        fail(n, 'call')


def is_self_attr(node, attr=None):
    return (isinstance(node, ast.Attribute) and isinstance(node.value, ast.Name)
            and node.value.id == 'self' and (attr is None or node.attr == attr))


class Body:
    """Translate a statement list in 'return style' to one Coq expression."""

    def __init__(self, ex, rettype, self_attr=None):
        self.ex = ex
        self.rettype = rettype
        self.self_attr = self_attr  # when set, `self.<attr> = E` acts as `return E`

    def block(self, stmts, rest=None):
        """Translate stmts; `rest` is the Coq text that follows when stmts fall through."""
        if not stmts:
            if rest is None:
                raise Unsupported('control reaches the end of a function without a return')
            return rest
        s, tail = stmts[0], stmts[1:]
        if isinstance(s, ast.Expr) and isinstance(s.value, ast.Constant) and isinstance(s.value.value, str):
            return self.block(tail, rest)   # docstring
        if isinstance(s, ast.Return):
            if s.value is None:
                fail(s, 'bare return')
            return self.ret(s.value)
        if isinstance(s, ast.If):
            c = self.ex.as_bool(self.ex.tr(s.test), s.test)
            after = self.block(tail, rest) if (tail or rest is not None) else None
            then = self.block(s.body, after)
            if s.orelse:
                els = self.block(s.orelse, after)
            else:
                if after is None:
                    raise Unsupported('if without else at end of function')
                els = after
            return '(if %s\n   then %s\n   else %s)' % (c, then, els)
        if isinstance(s, ast.Assign) and len(s.targets) == 1:
            tgt = s.targets[0]
            # accumulate pattern:  X = set() ; for v in range(a, b): if c: X.add(v)
            if (self.is_set_ctor(s.value) and tail and isinstance(tail[0], ast.For)
                    and (is_self_attr(tgt, self.self_attr) or isinstance(tgt, ast.Name))):
                expr = self.accumulate(tgt, tail[0])
                if is_self_attr(tgt, self.self_attr):
                    if tail[1:]:
                        fail(s, 'statements after accumulate on self attribute')
                    return expr
                self.ex.env[tgt.id] = 'intset'
                return '(let %s := %s in\n   %s)' % (tgt.id, expr, self.block(tail[1:], rest))
            if is_self_attr(tgt, self.self_attr):
                if tail:
                    fail(s, 'statements after assignment to self attribute')
                return self.ret(s.value)
            if isinstance(tgt, ast.Name):
                v = self.ex.tr(s.value)
                if tgt.id in self.ex.env and self.ex.env[tgt.id] != v[1]:
                    # rebinding with another type (e.g. raw_time = float(raw_time))
                    pass
                self.ex.env[tgt.id] = v[1]
                return '(let %s := %s in\n   %s)' % (tgt.id, v[0], self.block(tail, rest))
        fail(s, 'unsupported statement')

    def is_set_ctor(self, v):
        return isinstance(v, ast.Call) and isinstance(v.func, ast.Name) and v.func.id == 'set' and not v.args

    def accumulate(self, tgt, loop):
        if loop.orelse or not isinstance(loop.target, ast.Name):
            fail(loop, 'for loop shape')
        it = loop.iter
        if not (isinstance(it, ast.Call) and isinstance(it.func, ast.Name) and it.func.id == 'range' and len(it.args) == 2):
            fail(loop, 'for loop iterator')
        a, b = self.ex.tr(it.args[0]), self.ex.tr(it.args[1])
        if a[1] != 'int' or b[1] != 'int':
            fail(loop, 'range bounds')
        if len(loop.body) != 1 or not isinstance(loop.body[0], ast.If) or loop.body[0].orelse:
            fail(loop, 'for loop body')
        inner = loop.body[0]
        if len(inner.body) != 1:
            fail(loop, 'for loop body')
        add = inner.body[0]
        ok = (isinstance(add, ast.Expr) and isinstance(add.value, ast.Call)
              and isinstance(add.value.func, ast.Attribute) and add.value.func.attr == 'add'
              and ast.dump(add.value.func.value) == ast.dump(tgt).replace('Store()', 'Load()')
              and len(add.value.args) == 1 and isinstance(add.value.args[0], ast.Name)
              and add.value.args[0].id == loop.target.id)
        if not ok:
            fail(loop, 'for loop body is not X.add(v)')
        saved = dict(self.ex.env)
        self.ex.env[loop.target.id] = 'int'
        c = self.ex.as_bool(self.ex.tr(inner.test), inner.test)
        self.ex.env = saved
        return '(List.filter (fun %s => %s) (zrange %s %s))' % (loop.target.id, c, a[0], b[0])

    def ret(self, value):
        # special right-hand sides
        if (isinstance(value, ast.Call) and isinstance(value.func, ast.Attribute)
                and value.func.attr == 'copy' and not value.args):
            v = self.ex.tr(value.func.value)
            if v[1] == 'intset':
                return v[0]
        if (isinstance(value, ast.Call) and isinstance(value.func, ast.Name) and value.func.id == 'set'
                and len(value.args) == 1 and isinstance(value.args[0], ast.List) and len(value.args[0].elts) == 1):
            v = self.ex.tr(value.args[0].elts[0])
            if v[1] == 'int':
                return '[%s]' % v[0]
        v = self.ex.tr(value)
        if self.rettype == 'float':
            return self.ex.as_float(v)
        if self.rettype == 'bool':
            return self.ex.as_bool(v, value)
        if v[1] != self.rettype:
            fail(value, 'return type %s, wanted %s' % (v[1], self.rettype))
        return v[0]


COQ_TYPES = {'int': 'Z', 'str': 'string', 'bool': 'bool', 'float': 'float', 'intset': 'list Z'}


def find_class(tree, name):
    for n in tree.body:
        if isinstance(n, ast.ClassDef) and n.name == name:
            return n
    raise Unsupported('class %s not found' % name)


def find_func(body, name):
    for n in body:
        if isinstance(n, ast.FunctionDef) and n.name == name:
            return n
    raise Unsupported('function %s not found' % name)


def translate_function(fn, coq_name, params, rettype, consts, funcs, self_attr=None):
    """params: list of (python name, type) excluding self."""
    args = [a.arg for a in fn.args.args if a.arg != 'self']
    if args != [p for p, _ in params]:
        raise Unsupported('%s: parameters are %s, expected %s' % (fn.name, args, [p for p, _ in params]))
    if fn.args.vararg or fn.args.kwarg or fn.args.kwonlyargs or fn.args.defaults:
        raise Unsupported('%s: unsupported signature' % fn.name)
    ex = Expr(dict(params), consts, funcs)
    body = Body(ex, rettype, self_attr).block(fn.body)
    sig = ' '.join('(%s : %s)' % (p, COQ_TYPES[t]) for p, t in params)
    return 'Definition %s %s : %s :=\n  %s.\n' % (coq_name, sig, COQ_TYPES[rettype], body)


