"""py2coq: fail-closed translator from a small Python subset to Coq (Gallina).

Regenerates /verif/coq/Gen/*.v from /repo's current sources on every run, so that
the theorems proved about those definitions are re-checked against what the code
says now.  Anything outside the accepted subset raises Unsupported: the caller
then reports the translator tie as broken (never silently skips).

Accepted subset (see DESIGN 5.1): module/class string and numeric constants;
Enum classes with auto(); dict/tuple literals of constants; functions whose body
is a sequence of  `if`/`elif`/`else`, `return`, assignments to fresh locals,
the accumulate pattern `X = set(); for v in range(a, b): if c: X.add(v)`;
expressions over ints, floats, strings, booleans: comparison chains, `in`/`not in`
on tuples and strings, `and`/`or`/`not`, arithmetic, `len`, `int`, `float`,
`round`, `max`, `min`, constant subscripts, `str.isdigit/isdecimal`,
`"{:02d}".format(n)`, conditional expressions.

Types: 'int' (Z), 'float' (PrimFloat), 'str' (string), 'bool', 'intset' (list Z).
"""
import ast
import os
import sys


class Unsupported(Exception):
    pass


def fail(node, why):
    line = getattr(node, 'lineno', '?')
    raise Unsupported('line {}: {} ({})'.format(line, why, ast.dump(node)[:120]))


def coq_string(s):
    for ch in s:
        if ord(ch) > 126 or (ord(ch) < 32):
            raise Unsupported('non printable-ASCII character in string constant %r' % s)
    return '"' + s.replace('"', '""') + '"'


def coq_z(n):
    return '(%d)' % n if n < 0 else '%d' % n


def coq_float(x):
    import math
    if math.isinf(x) or math.isnan(x):
        raise Unsupported('inf/nan literal')
    h = float(x).hex()
    return '(%s)%%float' % h


class Expr:
    """Expression translator with a small type inference."""

    def __init__(self, env, consts=None, funcs=None, float_mode=False):
        self.env = dict(env)          # name -> type
        self.consts = consts or {}    # dotted name -> (coq text, type)
        self.funcs = funcs or {}      # python callee name -> (coq name, [argtypes], rettype)
        self.float_mode = float_mode

    def tr(self, n):
        m = getattr(self, 'tr_' + type(n).__name__, None)
        if m is None:
            fail(n, 'unsupported expression')
        return m(n)

    # leaves
    def tr_Constant(self, n):
        v = n.value
        if isinstance(v, bool):
            return ('true' if v else 'false', 'bool')
        if isinstance(v, int):
            return (coq_z(v), 'int')
        if isinstance(v, float):
            return (coq_float(v), 'float')
        if isinstance(v, str):
            return (coq_string(v), 'str')
        fail(n, 'constant type')

    def tr_Name(self, n):
        if n.id in self.env:
            return (n.id, self.env[n.id])
        if n.id in self.consts:
            return self.consts[n.id]
        fail(n, 'unknown name')

    def tr_Attribute(self, n):
        dotted = self.dotted(n)
        if dotted in self.consts:
            return self.consts[dotted]
        fail(n, 'unknown attribute')

    def dotted(self, n):
        if isinstance(n, ast.Name):
            return n.id
        if isinstance(n, ast.Attribute):
            return self.dotted(n.value) + '.' + n.attr
        fail(n, 'not a dotted name')

    def tr_Tuple(self, n):
        fail(n, 'bare tuple')

    # coercions
    def as_float(self, t):
        s, ty = t
        if ty == 'float':
            return s
        if ty == 'int':
            return '(z2f %s)' % s
        raise Unsupported('cannot use %s as float: %s' % (ty, s))

    def as_bool(self, t, node):
        s, ty = t
        if ty == 'bool':
            return s
        if ty == 'str':
            return '(negb (String.eqb %s ""))' % s
        if ty == 'int':
            return '(negb (Z.eqb %s 0))' % s
        fail(node, 'truthiness of ' + ty)

    # operators
    def tr_BoolOp(self, n):
        parts = [self.as_bool(self.tr(v), v) for v in n.values]
        op = ' && ' if isinstance(n.op, ast.And) else ' || '
        return ('(' + op.join(parts) + ')', 'bool')

    def tr_UnaryOp(self, n):
        if isinstance(n.op, ast.Not):
            return ('(negb %s)' % self.as_bool(self.tr(n.operand), n), 'bool')
        if isinstance(n.op, ast.USub):
            s, ty = self.tr(n.operand)
            if ty == 'int':
                return ('(Z.opp %s)' % s, 'int')
            if ty == 'float':
                return ('(PrimFloat.opp %s)' % s, 'float')
        fail(n, 'unary operator')

    def tr_BinOp(self, n):
        a, b = self.tr(n.left), self.tr(n.right)
        opn = type(n.op).__name__
        if a[1] == 'int' and b[1] == 'int' and opn in ('Add', 'Sub', 'Mult'):
            f = {'Add': 'Z.add', 'Sub': 'Z.sub', 'Mult': 'Z.mul'}[opn]
            return ('(%s %s %s)' % (f, a[0], b[0]), 'int')
        if 'float' in (a[1], b[1]) or (opn == 'Div' and a[1] in ('int', 'float')):
            fa, fb = self.as_float(a), self.as_float(b)
            f = {'Add': 'PrimFloat.add', 'Sub': 'PrimFloat.sub', 'Mult': 'PrimFloat.mul',
                 'Div': 'PrimFloat.div', 'Mod': 'py_fmod'}.get(opn)
            if f is None:
                fail(n, 'float operator')
            return ('(%s %s %s)' % (f, fa, fb), 'float')
        fail(n, 'binary operator on %s,%s' % (a[1], b[1]))

    def cmp1(self, op, a, b, node):
        opn = type(op).__name__
        if opn in ('In', 'NotIn'):
            r = self.contains(a, b, node)
            return r if opn == 'In' else '(negb %s)' % r
        ta, tb = a[1], b[1]
        if ta == 'str' and tb == 'str' and opn in ('Eq', 'NotEq'):
            r = '(String.eqb %s %s)' % (a[0], b[0])
            return r if opn == 'Eq' else '(negb %s)' % r
        if ta == 'int' and tb == 'int':
            f = {'Eq': 'Z.eqb', 'Lt': 'Z.ltb', 'LtE': 'Z.leb', 'Gt': 'Z.gtb', 'GtE': 'Z.geb'}.get(opn)
            if opn == 'NotEq':
                return '(negb (Z.eqb %s %s))' % (a[0], b[0])
            if f:
                return '(%s %s %s)' % (f, a[0], b[0])
        if 'float' in (ta, tb) and ta in ('int', 'float') and tb in ('int', 'float'):
            fa, fb = self.as_float(a), self.as_float(b)
            if opn == 'Lt':
                return '(PrimFloat.ltb %s %s)' % (fa, fb)
            if opn == 'LtE':
                return '(PrimFloat.leb %s %s)' % (fa, fb)
            if opn == 'Gt':
                return '(PrimFloat.ltb %s %s)' % (fb, fa)
            if opn == 'GtE':
                return '(PrimFloat.leb %s %s)' % (fb, fa)
            if opn == 'Eq':
                return '(PrimFloat.eqb %s %s)' % (fa, fb)
        fail(node, 'comparison %s on %s,%s' % (opn, ta, tb))

    def contains(self, a, b_node_or_pair, node):
        b = b_node_or_pair
        if isinstance(b, tuple) and b[1] == 'str' and a[1] == 'str':
            return '(substr_in %s %s)' % (a[0], b[0])
        if isinstance(b, tuple) and b[1] == 'intlist' and a[1] == 'int':
            return '(zmem %s %s)' % (a[0], b[0])
        if isinstance(b, tuple) and b[1] == 'strlist' and a[1] == 'str':
            return '(smem %s %s)' % (a[0], b[0])
        fail(node, 'membership test')

    def tr_Compare(self, n):
        operands = [n.left] + list(n.comparators)
        tvals = []
        for i, o in enumerate(operands):
            if isinstance(o, ast.Tuple) and i > 0 and isinstance(n.ops[i - 1], (ast.In, ast.NotIn)):
                elts = [self.tr(e) for e in o.elts]
                tys = {t for _, t in elts}
                if tys == {'int'}:
                    tvals.append(('[' + '; '.join(s for s, _ in elts) + ']', 'intlist'))
                elif tys == {'str'}:
                    tvals.append(('[' + '; '.join(s for s, _ in elts) + ']', 'strlist'))
                else:
                    fail(o, 'mixed tuple')
            else:
                tvals.append(self.tr(o))
        parts = []
        for i, op in enumerate(n.ops):
            parts.append(self.cmp1(op, tvals[i], tvals[i + 1], n))
        if len(parts) == 1:
            return (parts[0], 'bool')
        return ('(' + ' && '.join(parts) + ')', 'bool')

    def tr_IfExp(self, n):
        c = self.as_bool(self.tr(n.test), n.test)
        a, b = self.tr(n.body), self.tr(n.orelse)
        if a[1] != b[1]:
            if {a[1], b[1]} == {'int', 'float'}:
                return ('(if %s then %s else %s)' % (c, self.as_float(a), self.as_float(b)), 'float')
            fail(n, 'branches of different type')
        return ('(if %s then %s else %s)' % (c, a[0], b[0]), a[1])

    def tr_Subscript(self, n):
        v = self.tr(n.value)
        idx = n.slice
        if v[1] == 'str' and isinstance(idx, ast.Constant) and isinstance(idx.value, int) and idx.value >= 0:
            return ('(py_index %s %d)' % (v[0], idx.value), 'str')
        if v[1] == 'color' and isinstance(idx, ast.Constant) and isinstance(idx.value, int) and 0 <= idx.value < 4:
            return ('(c%d %s)' % (idx.value, v[0]), 'float')
        fail(n, 'subscript')

    def tr_Call(self, n):
        f = n.func
        if n.keywords:
            fail(n, 'keyword arguments')
        if isinstance(f, ast.Name):
            name = f.id
            args = [self.tr(a) for a in n.args]
            if name == 'len' and len(args) == 1 and args[0][1] == 'str':
                return ('(zlen %s)' % args[0][0], 'int')
            if name == 'int' and len(args) == 1 and args[0][1] == 'str':
                return ('(py_int %s)' % args[0][0], 'int')
            if name == 'float' and len(args) == 1:
                return (self.as_float(args[0]), 'float')
            if name == 'round' and len(args) == 1:
                return ('(py_round %s)' % self.as_float(args[0]), 'rounded')
            if name in ('max', 'min') and len(args) == 2:
                # Python: max(a, b) = b if b > a else a ; min(a, b) = b if b < a else a
                return ('(py_%s %s %s)' % (name, self.as_float(args[0]), self.as_float(args[1])), 'float')
            if name in self.funcs:
                cn, argtys, rt = self.funcs[name]
                if len(argtys) != len(args):
                    fail(n, 'arity')
                out = []
                for (s, t), want in zip(args, argtys):
                    out.append(self.as_float((s, t)) if want == 'float' else s)
                    if want != 'float' and t != want:
                        fail(n, 'argument type')
                return ('(%s %s)' % (cn, ' '.join(out)), rt)
            fail(n, 'call of ' + name)
        if isinstance(f, ast.Attribute):
            if f.attr in ('isdigit', 'isdecimal') and not n.args:
                v = self.tr(f.value)
                if v[1] == 'str':
                    return ('(str_%s %s)' % (f.attr, v[0]), 'bool')
            if f.attr == 'format' and isinstance(f.value, ast.Constant) and f.value.value == '{:02d}' and len(n.args) == 1:
                a = self.tr(n.args[0])
                if a[1] == 'int':
                    return ('(fmt_02d %s)' % a[0], 'str')
            dotted = None
            try:
                dotted = self.dotted(f)
            except Unsupported:
                pass
            if dotted is not None:
                short = dotted.split('.')[-1]
                for key in (dotted, short):
                    if key in self.funcs:
                        cn, argtys, rt = self.funcs[key]
                        args = [self.tr(a) for a in n.args]
                        if len(argtys) != len(args):
                            fail(n, 'arity')
                        for (s, t), want in zip(args, argtys):
                            if t != want:
                                fail(n, 'argument type')
                        return ('(%s %s)' % (cn, ' '.join(s for s, _ in args)), rt)
        fail(n, 'call')


def is_self_attr(node, attr=None):
    return (isinstance(node, ast.Attribute) and isinstance(node.value, ast.Name)
            and node.value.id == 'self' and (attr is None or node.attr == attr))


class Body:
    """Translate a statement list in 'return style' to one Coq expression."""

    def __init__(self, ex, rettype, self_attr=None):
        self.ex = ex
        self.rettype = rettype
        self.self_attr = self_attr  # when set, `self.<attr> = E` acts as `return E`

    def block(self, stmts, rest=None):
        """Translate stmts; `rest` is the Coq text that follows when stmts fall through."""
        if not stmts:
            if rest is None:
                raise Unsupported('control reaches the end of a function without a return')
            return rest
        s, tail = stmts[0], stmts[1:]
        if isinstance(s, ast.Expr) and isinstance(s.value, ast.Constant) and isinstance(s.value.value, str):
            return self.block(tail, rest)   # docstring
        if isinstance(s, ast.Return):
            if s.value is None:
                fail(s, 'bare return')
            return self.ret(s.value)
        if isinstance(s, ast.If):
            c = self.ex.as_bool(self.ex.tr(s.test), s.test)
            after = self.block(tail, rest) if (tail or rest is not None) else None
            then = self.block(s.body, after)
            if s.orelse:
                els = self.block(s.orelse, after)
            else:
                if after is None:
                    raise Unsupported('if without else at end of function')
                els = after
            return '(if %s\n   then %s\n   else %s)' % (c, then, els)
        if isinstance(s, ast.Assign) and len(s.targets) == 1:
            tgt = s.targets[0]
            # accumulate pattern:  X = set() ; for v in range(a, b): if c: X.add(v)
            if (self.is_set_ctor(s.value) and tail and isinstance(tail[0], ast.For)
                    and (is_self_attr(tgt, self.self_attr) or isinstance(tgt, ast.Name))):
                expr = self.accumulate(tgt, tail[0])
                if is_self_attr(tgt, self.self_attr):
                    if tail[1:]:
                        fail(s, 'statements after accumulate on self attribute')
                    return expr
                self.ex.env[tgt.id] = 'intset'
                return '(let %s := %s in\n   %s)' % (tgt.id, expr, self.block(tail[1:], rest))
            if is_self_attr(tgt, self.self_attr):
                if tail:
                    fail(s, 'statements after assignment to self attribute')
                return self.ret(s.value)
            if isinstance(tgt, ast.Name):
                v = self.ex.tr(s.value)
                if tgt.id in self.ex.env and self.ex.env[tgt.id] != v[1]:
                    # rebinding with another type (e.g. raw_time = float(raw_time))
                    pass
                self.ex.env[tgt.id] = v[1]
                return '(let %s := %s in\n   %s)' % (tgt.id, v[0], self.block(tail, rest))
        fail(s, 'unsupported statement')

    def is_set_ctor(self, v):
        return isinstance(v, ast.Call) and isinstance(v.func, ast.Name) and v.func.id == 'set' and not v.args

    def accumulate(self, tgt, loop):
        if loop.orelse or not isinstance(loop.target, ast.Name):
            fail(loop, 'for loop shape')
        it = loop.iter
        if not (isinstance(it, ast.Call) and isinstance(it.func, ast.Name) and it.func.id == 'range' and len(it.args) == 2):
            fail(loop, 'for loop iterator')
        a, b = self.ex.tr(it.args[0]), self.ex.tr(it.args[1])
        if a[1] != 'int' or b[1] != 'int':
            fail(loop, 'range bounds')
        if len(loop.body) != 1 or not isinstance(loop.body[0], ast.If) or loop.body[0].orelse:
            fail(loop, 'for loop body')
        inner = loop.body[0]
        if len(inner.body) != 1:
            fail(loop, 'for loop body')
        add = inner.body[0]
        ok = (isinstance(add, ast.Expr) and isinstance(add.value, ast.Call)
              and isinstance(add.value.func, ast.Attribute) and add.value.func.attr == 'add'
              and ast.dump(add.value.func.value) == ast.dump(tgt).replace('Store()', 'Load()')
              and len(add.value.args) == 1 and isinstance(add.value.args[0], ast.Name)
              and add.value.args[0].id == loop.target.id)
        if not ok:
            fail(loop, 'for loop body is not X.add(v)')
        saved = dict(self.ex.env)
        self.ex.env[loop.target.id] = 'int'
        c = self.ex.as_bool(self.ex.tr(inner.test), inner.test)
        self.ex.env = saved
        return '(List.filter (fun %s => %s) (zrange %s %s))' % (loop.target.id, c, a[0], b[0])

    def ret(self, value):
        # special right-hand sides
        if (isinstance(value, ast.Call) and isinstance(value.func, ast.Attribute)
                and value.func.attr == 'copy' and not value.args):
            v = self.ex.tr(value.func.value)
            if v[1] == 'intset':
                return v[0]
        if (isinstance(value, ast.Call) and isinstance(value.func, ast.Name) and value.func.id == 'set'
                and len(value.args) == 1 and isinstance(value.args[0], ast.List) and len(value.args[0].elts) == 1):
            v = self.ex.tr(value.args[0].elts[0])
            if v[1] == 'int':
                return '[%s]' % v[0]
        v = self.ex.tr(value)
        if self.rettype == 'float':
            return self.ex.as_float(v)
        if self.rettype == 'bool':
            return self.ex.as_bool(v, value)
        if v[1] != self.rettype:
            fail(value, 'return type %s, wanted %s' % (v[1], self.rettype))
        return v[0]


COQ_TYPES = {'int': 'Z', 'str': 'string', 'bool': 'bool', 'float': 'float', 'intset': 'list Z'}


def find_class(tree, name):
    for n in tree.body:
        if isinstance(n, ast.ClassDef) and n.name == name:
            return n
    raise Unsupported('class %s not found' % name)


def find_func(body, name):
    for n in body:
        if isinstance(n, ast.FunctionDef) and n.name == name:
            return n
    raise Unsupported('function %s not found' % name)


def translate_function(fn, coq_name, params, rettype, consts, funcs, self_attr=None):
    """params: list of (python name, type) excluding self."""
    args = [a.arg for a in fn.args.args if a.arg != 'self']
    if args != [p for p, _ in params]:
        raise Unsupported('%s: parameters are %s, expected %s' % (fn.name, args, [p for p, _ in params]))
    if fn.args.vararg or fn.args.kwarg or fn.args.kwonlyargs or fn.args.defaults:
        raise Unsupported('%s: unsupported signature' % fn.name)
    ex = Expr(dict(params), consts, funcs)
    body = Body(ex, rettype, self_attr).block(fn.body)
    sig = ' '.join('(%s : %s)' % (p, COQ_TYPES[t]) for p, t in params)
    return 'Definition %s %s : %s :=\n  %s.\n' % (coq_name, sig, COQ_TYPES[rettype], body)



# ===========================================================================
# Numeric code (units.py, param_helper.py, color.py, colorsys): additive extension.
#
# The same Python text is rendered twice: over binary64 (mode 'F', PrimFloat, bit-exact,
# same association order) and over exact rationals (mode 'Q', the formulas read as real
# arithmetic).  Python type 'float' below means "a number" (register values are modelled
# by one numeric type per mode, see coq/Base/PyNum.v); 'int'/'rounded' are Z; 'color' is
# a 4-list of numbers, 'zcolor' a 4-list of ints, 'triple' a 3-tuple of numbers.

from fractions import Fraction


def q_literal(fr):
    fr = Fraction(fr)
    num = '(%d)' % fr.numerator if fr.numerator < 0 else '%d' % fr.numerator
    return '(Qmake %s %d)' % (num, fr.denominator)


NUM_OPS = {
    'F': {'Add': 'PrimFloat.add', 'Sub': 'PrimFloat.sub', 'Mult': 'PrimFloat.mul', 'Div': 'PrimFloat.div',
          'Mod': 'py_fmod', 'opp': 'PrimFloat.opp', 'ltb': 'PrimFloat.ltb', 'leb': 'PrimFloat.leb',
          'eqb': 'PrimFloat.eqb', 'z2f': 'z2f', 'round': 'py_round', 'trunc': 'py_trunc',
          'max': 'py_max', 'min': 'py_min', 'num': 'float', 'suffix': '', 'zero': 'PrimFloat.zero'},
    'Q': {'Add': 'Qplus', 'Sub': 'Qminus', 'Mult': 'Qmult', 'Div': 'Qdiv',
          'Mod': 'py_fmod_Q', 'opp': 'Qopp', 'ltb': 'Qltb', 'leb': 'Qleb',
          'eqb': 'Qeqb', 'z2f': 'z2q', 'round': 'py_round_Q', 'trunc': 'py_trunc_Q',
          'max': 'py_max_Q', 'min': 'py_min_Q', 'num': 'Q', 'suffix': '_Q', 'zero': '(Qmake 0 1)'},
}


def num_coq_type(t, mode):
    n = NUM_OPS[mode]['num']
    return {'float': n, 'int': 'Z', 'rounded': 'Z', 'bool': 'bool', 'color': '(color4 %s)' % n,
            'zcolor': '(color4 Z)', 'triple': '(%s * %s * %s)' % (n, n, n)}[t]


class NumExpr(Expr):
    def __init__(self, env, consts=None, funcs=None, mode='F'):
        super().__init__(env, consts, funcs)
        self.mode = mode
        self.o = NUM_OPS[mode]
        self.lambdas = {}     # name -> (nargs, rettype)

    def tr_Constant(self, n):
        v = n.value
        if isinstance(v, float) and not isinstance(v, bool):
            import math
            if math.isinf(v) or math.isnan(v):
                fail(n, 'inf/nan literal')
            if self.mode == 'F':
                return (coq_float(v), 'float')
            return (q_literal(Fraction(v)), 'float')
        return super().tr_Constant(n)

    def as_float(self, t):
        s, ty = t
        if ty == 'float':
            return s
        if ty in ('int', 'rounded'):
            return '(%s %s)' % (self.o['z2f'], s)
        raise Unsupported('cannot use %s as a number: %s' % (ty, s))

    def as_bool(self, t, node):
        s, ty = t
        if ty == 'float':
            # Python truthiness of a number: x != 0 (nan is true)
            return '(negb (%s %s %s))' % (self.o['eqb'], s, self.o['zero'])
        if ty == 'rounded':
            return '(negb (Z.eqb %s 0))' % s
        return super().as_bool(t, node)

    def tr_UnaryOp(self, n):
        if isinstance(n.op, ast.USub):
            s, ty = self.tr(n.operand)
            if ty in ('int', 'rounded'):
                return ('(Z.opp %s)' % s, 'int')
            if ty == 'float':
                return ('(%s %s)' % (self.o['opp'], s), 'float')
            fail(n, 'unary minus')
        return super().tr_UnaryOp(n)

    def tr_BinOp(self, n):
        a, b = self.tr(n.left), self.tr(n.right)
        opn = type(n.op).__name__
        ints = ('int', 'rounded')
        if a[1] in ints and b[1] in ints:
            f = {'Add': 'Z.add', 'Sub': 'Z.sub', 'Mult': 'Z.mul', 'Mod': 'Z.modulo'}.get(opn)
            if f is not None:
                if opn == 'Mod' and not (isinstance(n.right, ast.Constant) and isinstance(n.right.value, int) and n.right.value > 0):
                    fail(n, 'int % with a divisor that is not a positive constant')
                return ('(%s %s %s)' % (f, a[0], b[0]), 'int')
        if a[1] in ints + ('float',) and b[1] in ints + ('float',):
            f = self.o.get(opn)
            if f is None or opn not in ('Add', 'Sub', 'Mult', 'Div', 'Mod'):
                fail(n, 'numeric operator')
            if opn in ('Div', 'Mod'):
                # the model has no ZeroDivisionError: the divisor must be a non-zero constant
                # or be guarded in the source (colorsys: rangec, maxc); callers vouch via allow_div
                if not (self.is_nonzero_const(n.right) or getattr(self, 'allow_div', False)):
                    fail(n, 'division by a non-constant')
            return ('(%s %s %s)' % (f, self.as_float(a), self.as_float(b)), 'float')
        fail(n, 'binary operator on %s,%s' % (a[1], b[1]))

    def is_nonzero_const(self, node):
        if isinstance(node, ast.Constant) and isinstance(node.value, (int, float)) and not isinstance(node.value, bool):
            return node.value != 0
        return False

    def cmp1(self, op, a, b, node):
        opn = type(op).__name__
        ints = ('int', 'rounded')
        ta, tb = a[1], b[1]
        if ta in ints and tb in ints:
            return super().cmp1(op, (a[0], 'int'), (b[0], 'int'), node)
        if ta in ints + ('float',) and tb in ints + ('float',):
            fa, fb = self.as_float(a), self.as_float(b)
            o = self.o
            if opn == 'Lt':
                return '(%s %s %s)' % (o['ltb'], fa, fb)
            if opn == 'LtE':
                return '(%s %s %s)' % (o['leb'], fa, fb)
            if opn == 'Gt':
                return '(%s %s %s)' % (o['ltb'], fb, fa)
            if opn == 'GtE':
                return '(%s %s %s)' % (o['leb'], fb, fa)
            if opn == 'Eq':
                return '(%s %s %s)' % (o['eqb'], fa, fb)
            if opn == 'NotEq':
                return '(negb (%s %s %s))' % (o['eqb'], fa, fb)
        return super().cmp1(op, a, b, node)

    def tr_Subscript(self, n):
        v = self.tr(n.value)
        idx = n.slice
        if v[1] == 'color' and isinstance(idx, ast.Constant) and isinstance(idx.value, int) and 0 <= idx.value < 4:
            return ('(c%d %s)' % (idx.value, v[0]), 'float')
        fail(n, 'subscript')

    def tr_List(self, n):
        if len(n.elts) != 4:
            fail(n, 'list literal that is not a colour')
        parts = [self.as_float(self.tr(e)) for e in n.elts]
        return ('(mkcolor %s)' % ' '.join(parts), 'color')

    def tr_Tuple(self, n):
        if len(n.elts) != 3:
            fail(n, 'tuple that is not a triple')
        parts = [self.as_float(self.tr(e)) for e in n.elts]
        return ('(%s)' % ', '.join(parts), 'triple')

    def tr_ListComp(self, n):
        # [f(x) for x in color]
        if len(n.generators) != 1:
            fail(n, 'comprehension')
        g = n.generators[0]
        if g.ifs or g.is_async or not isinstance(g.target, ast.Name):
            fail(n, 'comprehension')
        it = self.tr(g.iter)
        if it[1] != 'color':
            fail(n, 'comprehension over something that is not a colour')
        saved = dict(self.env)
        self.env[g.target.id] = 'float'
        body = self.tr(n.elt)
        self.env = saved
        if body[1] in ('int', 'rounded'):
            return ('(cmap (fun %s => %s) %s)' % (g.target.id, body[0], it[0]), 'zcolor')
        if body[1] == 'float':
            return ('(cmap (fun %s => %s) %s)' % (g.target.id, body[0], it[0]), 'color')
        fail(n, 'comprehension element type')

    def tr_Call(self, n):
        f = n.func
        if n.keywords:
            fail(n, 'keyword arguments')
        if isinstance(f, ast.Name):
            name = f.id
            if name in self.lambdas:
                nargs, rt = self.lambdas[name]
                if len(n.args) != nargs:
                    fail(n, 'arity')
                args = [self.as_float(self.tr(a)) for a in n.args]
                return ('(%s %s)' % (name, ' '.join(args)), rt)
            if name == 'float' and len(n.args) == 1:
                return (self.as_float(self.tr(n.args[0])), 'float')
            if name == 'int' and len(n.args) == 1:
                a = self.tr(n.args[0])
                if a[1] == 'float':
                    return ('(%s %s)' % (self.o['trunc'], a[0]), 'int')
                if a[1] in ('int', 'rounded'):
                    return (a[0], 'int')
                fail(n, 'int() of ' + a[1])
            if name == 'round' and len(n.args) == 1:
                a = self.tr(n.args[0])
                if a[1] in ('int', 'rounded'):
                    return (a[0], 'rounded')       # round(int) is that int
                return ('(%s %s)' % (self.o['round'], self.as_float(a)), 'rounded')
            if name in ('max', 'min') and len(n.args) >= 2:
                # Python: the result starts as the first argument and is replaced by a later
                # one only if that one is strictly greater (smaller)
                args = [self.as_float(self.tr(a)) for a in n.args]
                acc = args[0]
                for nxt in args[1:]:
                    acc = '(%s %s %s)' % (self.o[name], acc, nxt)
                return (acc, 'float')
        key = None
        try:
            key = self.dotted(f)
        except Unsupported:
            pass
        if key is not None:
            for k in (key, key.split('.')[-1]):
                if k in self.funcs:
                    cn, argtys, rt = self.funcs[k]
                    if len(argtys) != len(n.args):
                        fail(n, 'arity')
                    out = []
                    for a, want in zip(n.args, argtys):
                        t = self.tr(a)
                        if want == 'float':
                            out.append(self.as_float(t))
                        elif t[1] == want:
                            out.append(t[0])
                        else:
                            fail(n, 'argument type %s, wanted %s' % (t[1], want))
                    return ('(%s%s %s)' % (cn, self.o['suffix'], ' '.join(out)), rt)
        fail(n, 'call')


def is_none_guard(s):
    """`if X is None: return None` (the @noneable convention; None is outside the model)."""
    return (isinstance(s, ast.If) and not s.orelse and len(s.body) == 1
            and isinstance(s.body[0], ast.Return)
            and isinstance(s.body[0].value, ast.Constant) and s.body[0].value.value is None
            and isinstance(s.test, ast.Compare) and len(s.test.ops) == 1 and isinstance(s.test.ops[0], ast.Is)
            and isinstance(s.test.comparators[0], ast.Constant) and s.test.comparators[0].value is None)


class NumBody(Body):
    """Statement forms of the numeric code on top of Body."""

    def __init__(self, ex, rettype, fallthrough=None):
        super().__init__(ex, rettype, None)
        self.fallthrough = fallthrough

    def block(self, stmts, rest=None):
        if not stmts:
            if rest is None and self.fallthrough is not None:
                return self.fallthrough
            return super().block(stmts, rest)
        s, tail = stmts[0], stmts[1:]
        if is_none_guard(s):
            return self.block(tail, rest)
        if isinstance(s, ast.If):
            # every branch of the if/elif/else tree assigns the same single name
            tree = self.assign_tree([s])
            if tree is not None:
                text, ty = self.render_tree(tree)
                self.ex.env[tree[1]] = ty
                return '(let %s := %s in\n   %s)' % (tree[1], text, self.block(tail, rest))
            # `if c: return X` followed by more statements, possibly the end of the function
            c = self.ex.as_bool(self.ex.tr(s.test), s.test)
            saved = dict(self.ex.env)
            try:
                after = self.block(tail, rest)
            except Unsupported:
                if tail:
                    raise
                after = None      # end of the function: every branch must return
            self.ex.env = dict(saved)
            then = self.block(s.body, after)
            self.ex.env = dict(saved)
            els = self.block(s.orelse, after) if s.orelse else after
            self.ex.env = saved
            return '(if %s\n   then %s\n   else %s)' % (c, then, els)
        if isinstance(s, ast.Assign) and len(s.targets) == 1:
            tgt = s.targets[0]
            if isinstance(tgt, ast.Name) and isinstance(s.value, ast.Lambda):
                lam = s.value
                if lam.args.vararg or lam.args.kwarg or lam.args.defaults or lam.args.kwonlyargs:
                    fail(s, 'lambda signature')
                names = [a.arg for a in lam.args.args]
                saved = dict(self.ex.env)
                for nm in names:
                    self.ex.env[nm] = 'float'
                body = self.ex.tr(lam.body)
                self.ex.env = saved
                self.ex.lambdas[tgt.id] = (len(names), body[1])
                return '(let %s := (fun %s => %s) in\n   %s)' % (tgt.id, ' '.join(names), body[0], self.block(tail, rest))
            if isinstance(tgt, (ast.Tuple, ast.List)) and all(isinstance(e, ast.Name) for e in tgt.elts):
                names = [e.id for e in tgt.elts]
                v = s.value
                # a, b, c = [coll[i] <op> K for i in range(0, 3)]
                if isinstance(v, ast.ListComp) and len(names) == 3:
                    g = v.generators[0] if len(v.generators) == 1 else None
                    ok = (g is not None and not g.ifs and isinstance(g.target, ast.Name)
                          and isinstance(g.iter, ast.Call) and isinstance(g.iter.func, ast.Name) and g.iter.func.id == 'range'
                          and [getattr(a, 'value', None) for a in g.iter.args] == [0, 3])
                    if not ok:
                        fail(s, 'unpacking of a comprehension that is not over range(0, 3)')
                    text = ''
                    lets = []
                    for k, nm in enumerate(names):
                        elt = IndexSubst(g.target.id, k).visit(ast.parse(ast.unparse(v.elt), mode='eval').body)
                        lets.append((nm, self.ex.as_float(self.ex.tr(elt))))
                    for nm, _ in lets:
                        self.ex.env[nm] = 'float'
                    inner = self.block(tail, rest)
                    for nm, e in reversed(lets):
                        inner = '(let %s := %s in\n   %s)' % (nm, e, inner)
                    return inner
                t = self.ex.tr(v)
                if t[1] == 'triple' and len(names) == 3:
                    for nm in names:
                        self.ex.env[nm] = 'float'
                    return "(let '(%s) := %s in\n   %s)" % (', '.join(names), t[0], self.block(tail, rest))
                if t[1] == 'color' and len(names) == 4:
                    for nm in names:
                        self.ex.env[nm] = 'float'
                    inner = self.block(tail, rest)
                    for k, nm in reversed(list(enumerate(names))):
                        inner = '(let %s := (c%d %s) in\n   %s)' % (nm, k, t[0], inner)
                    return inner
                fail(s, 'tuple assignment')
        return super().block(stmts, rest)

    def assign_tree(self, body):
        if len(body) != 1:
            return None
        s = body[0]
        if isinstance(s, ast.Assign) and len(s.targets) == 1 and isinstance(s.targets[0], ast.Name):
            return ('leaf', s.targets[0].id, s.value)
        if isinstance(s, ast.If) and s.orelse:
            a, b = self.assign_tree(s.body), self.assign_tree(s.orelse)
            if a is not None and b is not None and a[1] == b[1]:
                return ('if', a[1], s.test, a, b)
        return None

    def render_tree(self, tree):
        if tree[0] == 'leaf':
            return self.ex.tr(tree[2])
        c = self.ex.as_bool(self.ex.tr(tree[2]), tree[2])
        a, b = self.render_tree(tree[3]), self.render_tree(tree[4])
        if a[1] != b[1]:
            a, b = (self.ex.as_float(a), 'float'), (self.ex.as_float(b), 'float')
        return ('(if %s then %s else %s)' % (c, a[0], b[0]), a[1])

    def ret(self, value):
        v = self.ex.tr(value)
        want = self.rettype
        if want == 'float':
            return self.ex.as_float(v)
        if want == 'int' and v[1] in ('int', 'rounded'):
            return v[0]
        if want == 'bool':
            return self.ex.as_bool(v, value)
        if v[1] != want:
            fail(value, 'return type %s, wanted %s' % (v[1], want))
        return v[0]


class IndexSubst(ast.NodeTransformer):
    """Replace the comprehension variable by a constant index."""
    def __init__(self, name, k):
        self.name, self.k = name, k

    def visit_Name(self, node):
        if node.id == self.name:
            return ast.copy_location(ast.Constant(self.k), node)
        return node


def translate_num_function(fn, coq_name, params, rettype, consts, funcs, mode, fallthrough=None, allow_div=False):
    """params: list of (python name, type); rendered in `mode` ('F' binary64 / 'Q' rationals)."""
    args = [a.arg for a in fn.args.args if a.arg != 'self']
    if args != [p for p, _ in params]:
        raise Unsupported('%s: parameters are %s, expected %s' % (fn.name, args, [p for p, _ in params]))
    if fn.args.vararg or fn.args.kwarg or fn.args.kwonlyargs or fn.args.defaults:
        raise Unsupported('%s: unsupported signature' % fn.name)
    ex = NumExpr(dict(params), consts, funcs, mode)
    ex.allow_div = allow_div
    body = NumBody(ex, rettype, fallthrough).block(fn.body)
    sig = ' '.join('(%s : %s)' % (p, num_coq_type(t, mode)) for p, t in params)
    return 'Definition %s%s %s : %s :=\n  %s.\n' % (coq_name, NUM_OPS[mode]['suffix'], sig, num_coq_type(rettype, mode), body)
