"""Accepted source texts of the functions modelled by hand in coq/Lang/Matrix.v (see
tools/gen_matrix.py).  One entry per function; several variants where a repair of DESIGN
section 2 changes the text (the model follows the variant found).  Texts are compared after
normalisation with ast.unparse, doc strings removed."""

FUNCTIONS = [
    ('bardolph/vm/machine.py', 'Registers', 'get_color'),
    ('bardolph/vm/machine.py', 'Machine', '_color'),
    ('bardolph/vm/machine.py', 'Machine', '_matrix'),
    ('bardolph/vm/machine.py', 'Machine', '_color_matrix'),
    ('bardolph/vm/machine.py', 'Machine', '_color_matrix_light'),
    ('bardolph/vm/machine.py', 'Machine', '_color_mz_light'),
    ('bardolph/vm/machine.py', 'Machine', '_color_default'),
    ('bardolph/vm/machine.py', 'Machine', '_color_light'),
    ('bardolph/vm/machine.py', 'Machine', '_end'),
    ('bardolph/vm/machine.py', 'Machine', '_as_raw_matrix'),
    ('bardolph/vm/machine.py', 'Machine', '_as_raw_color'),
    ('bardolph/controller/color_matrix.py', 'Rect', '__init__'),
    ('bardolph/controller/color_matrix.py', 'ColorMatrix', '__init__'),
    ('bardolph/controller/color_matrix.py', 'ColorMatrix', 'new_from_constant'),
    ('bardolph/controller/color_matrix.py', 'ColorMatrix', 'new_from_iterable'),
    ('bardolph/controller/color_matrix.py', 'ColorMatrix', 'set_from_constant'),
    ('bardolph/controller/color_matrix.py', 'ColorMatrix', 'set_from_iterable'),
    ('bardolph/controller/color_matrix.py', 'ColorMatrix', 'get_colors'),
    ('bardolph/controller/color_matrix.py', 'ColorMatrix', 'find_replace'),
    ('bardolph/controller/color_matrix.py', 'ColorMatrix', 'as_list'),
    ('bardolph/controller/color_matrix.py', 'ColorMatrix', 'overlay_color'),
    ('bardolph/controller/color_matrix.py', 'ColorMatrix', '_standardize_raw'),
    ('bardolph/controller/color_matrix.py', 'ColorMatrix', '_normalize_rect'),
    ('bardolph/parser/matrix_parser.py', 'MatrixParser', 'matrix_spec'),
    ('bardolph/parser/matrix_parser.py', 'MatrixParser', 'operand_list'),
    ('bardolph/parser/matrix_parser.py', 'MatrixParser', '_rows'),
    ('bardolph/parser/matrix_parser.py', 'MatrixParser', '_columns'),
    ('bardolph/parser/matrix_parser.py', 'MatrixParser', '_range'),
    ('bardolph/parser/matrix_parser.py', 'MatrixParser', '_block_operand'),
    ('bardolph/parser/matrix_parser.py', 'MatrixParser', '_inline_operand'),
    ('bardolph/parser/parse.py', 'Parser', '_stage'),
    ('bardolph/parser/parse.py', 'Parser', '_action'),
    ('bardolph/parser/parse.py', 'Parser', '_default_operand'),
    ('bardolph/parser/parse.py', 'Parser', '_operand_list'),
    ('bardolph/parser/parse.py', 'Parser', '_operand'),
    ('bardolph/parser/parse.py', 'Parser', '_zone_range'),
    ('bardolph/parser/parse.py', 'Parser', '_set_zones'),
    ('bardolph/parser/parse.py', 'Parser', '_range'),
    ('bardolph/controller/lifx_lan_light.py', 'MultizoneLight', 'set_zone_colors'),
    ('bardolph/controller/lifx_lan_light.py', 'MatrixLight', 'set_matrix'),
    ('bardolph/lib/param_helper.py', None, 'param_16'),
    ('bardolph/lib/param_helper.py', None, 'param_color'),
]


def key(cls, name):
    return '%s.%s' % (cls or 'module', name)


ACCEPTED = {
    'Registers.get_color': {
        'pinned': '''
def get_color(self):
    if self.unit_mode is not UnitMode.RGB:
        return [self.hue, self.saturation, self.brightness, self.kelvin]
    return [self.red, self.green, self.blue, self.kelvin]
''',
    },
    'Machine._color': {
        'pinned': '''
def _color(self) -> None:
    fn_map = {operand: fn for operand, fn in ((Operand.ALL, self._color_all), (Operand.DEFAULT, self._color_default), (Operand.LIGHT, self._color_light), (Operand.GROUP, self._color_group), (Operand.LOCATION, self._color_location), (Operand.MATRIX, self._color_matrix), (Operand.MATRIX_LIGHT, self._color_matrix_light), (Operand.MZ_LIGHT, self._color_mz_light))}
    fn_map[self._reg.operand]()
''',
    },
    'Machine._matrix': {
        'pinned': '''
@inject(LightSet)
def _matrix(self, light_set) -> None:
    name = self._reg.name
    light = light_set.get_light(name)
    if light is None:
        Machine._report_missing(name)
        height = width = 255
    elif not isinstance(light, MatrixLight):
        logging.error('Light "{}" is not matrix type (Candle, Tube, etc.)'.format(name))
        height = width = 255
    else:
        height = light.get_height()
        width = light.get_width()
    self._reg.matrix = ColorMatrix.new_from_constant(height, width, None)
''',
        # repair of D48: a matrix light whose size was never learned (C12) gets the scratch size;
        # the lights of the C15 model always have a size, so this branch is outside the model
        'size_guard': '''
@inject(LightSet)
def _matrix(self, light_set) -> None:
    name = self._reg.name
    light = light_set.get_light(name)
    if light is None:
        Machine._report_missing(name)
        height = width = 255
    elif not isinstance(light, MatrixLight):
        logging.error('Light "{}" is not matrix type (Candle, Tube, etc.)'.format(name))
        height = width = 255
    else:
        height = light.get_height()
        width = light.get_width()
        if height is None or width is None:
            logging.error('Size of matrix light "{}" is unknown.'.format(name))
            height = width = 255
    self._reg.matrix = ColorMatrix.new_from_constant(height, width, None)
''',
    },
    'Machine._color_matrix': {
        'pinned': '''
def _color_matrix(self) -> None:
    color = self._reg.get_color()
    mat = self._reg.matrix
    rect = Rect(self._reg.first_row, self._reg.last_row, self._reg.first_column, self._reg.last_column)
    mat.overlay_color(rect, color)
''',
        'skip_none': '''
def _color_matrix(self) -> None:
    color = self._reg.get_color()
    mat = self._reg.matrix
    if mat is None:
        logging.error('"stage" used outside of a matrix block.')
        return
    rect = Rect(self._reg.first_row, self._reg.last_row, self._reg.first_column, self._reg.last_column)
    mat.overlay_color(rect, color)
''',
        'skip_none_round': '''
def _color_matrix(self) -> None:
    color = self._reg.get_color()
    mat = self._reg.matrix
    if mat is None:
        logging.error('"stage" used outside of a matrix block.')
        return
    rect = Rect(*(None if index is None else round(index) for index in (self._reg.first_row, self._reg.last_row, self._reg.first_column, self._reg.last_column)))
    mat.overlay_color(rect, color)
''',
    },
    'Machine._color_matrix_light': {
        'pinned': '''
def _color_matrix_light(self) -> None:
    light = self._get_named_light()
    if light is not None:
        matrix = self._reg.matrix
        matrix = self._as_raw_matrix(matrix)
        matrix.find_replace(None, self._reg.default or [0, 0, 0, 0])
        duration = self._as_raw_time(self._reg.duration)
        light.set_matrix(matrix, duration)
''',
        'isinstance': '''
def _color_matrix_light(self) -> None:
    light = self._get_named_light()
    if light is not None and isinstance(light, MatrixLight):
        matrix = self._reg.matrix
        matrix = self._as_raw_matrix(matrix)
        matrix.find_replace(None, self._reg.default or [0, 0, 0, 0])
        duration = self._as_raw_time(self._reg.duration)
        light.set_matrix(matrix, duration)
''',
        'isinstance_size': '''
def _color_matrix_light(self) -> None:
    light = self._get_named_light()
    if light is not None and isinstance(light, MatrixLight) and (light.get_height() is not None) and (light.get_width() is not None):
        matrix = self._reg.matrix
        matrix = self._as_raw_matrix(matrix)
        matrix.find_replace(None, self._reg.default or [0, 0, 0, 0])
        duration = self._as_raw_time(self._reg.duration)
        light.set_matrix(matrix, duration)
''',
    },
    'Machine._color_mz_light': {
        'pinned': '''
def _color_mz_light(self) -> None:
    light = self._get_named_light()
    if light is not None and self._zone_check(light):
        start_index = self._reg.first_zone
        end_index = self._reg.last_zone
        if end_index is None:
            end_index = start_index
        light.set_zone_colors(start_index, end_index + 1, self._as_raw_color(self._reg.get_color()), self._as_raw_time(self._reg.duration))
''',
    },
    'Machine._color_default': {
        'pinned': '''
def _color_default(self) -> None:
    self._reg.default = self._as_raw_color(self._reg.get_color())
''',
    },
    'Machine._color_light': {
        'pinned': '''
def _color_light(self) -> None:
    light = self._get_named_light()
    if light is not None:
        light.set_color(self._as_raw_color(self._reg.get_color()), self._as_raw_time(self._reg.duration))
''',
    },
    'Machine._end': {
        'pinned': '''
def _end(self) -> None:
    if self.current_inst.param0 is Operand.MATRIX:
        self._reg.pc += 1
    else:
        self._return()
''',
    },
    'Machine._as_raw_matrix': {
        'get_colors': '''
def _as_raw_matrix(self, srce):
    if self._reg.unit_mode is UnitMode.RAW:
        return srce
    xform_fn = units.convert_fn(self._reg.unit_mode, UnitMode.RAW)
    return ColorMatrix.new_from_iterable(srce.height, srce.width, (xform_fn(color) for color in srce.get_colors()))
''',
        'as_list': '''
def _as_raw_matrix(self, srce):
    if self._reg.unit_mode is UnitMode.RAW:
        return srce
    xform_fn = units.convert_fn(self._reg.unit_mode, UnitMode.RAW)
    return ColorMatrix.new_from_iterable(srce.height, srce.width, (xform_fn(color) for color in srce.as_list()))
''',
    },
    'Machine._as_raw_color': {
        'pinned': '''
def _as_raw_color(self, color):
    if self._reg.unit_mode is UnitMode.RAW:
        return color
    if self._reg.unit_mode is UnitMode.RGB:
        return units.rgb_to_raw(color)
    return units.logical_to_raw(color)
''',
    },
    'Rect.__init__': {
        'pinned': '''
def __init__(self, top=0, bottom=0, left=0, right=0):
    self.top, self.bottom, self.left, self.right = (top, bottom, left, right)
''',
    },
    'ColorMatrix.__init__': {
        'pinned': '''
def __init__(self, height, width):
    self._height = height
    self._width = width
    self._mat = []
    for _ in range(0, height):
        self._mat.append([[0, 0, 0, 0] for __ in range(0, width)])
''',
    },
    'ColorMatrix.new_from_constant': {
        'pinned': '''
@staticmethod
def new_from_constant(height, width, init_value):
    return ColorMatrix(height, width).set_from_constant(init_value)
''',
    },
    'ColorMatrix.new_from_iterable': {
        'pinned': '''
@staticmethod
def new_from_iterable(height, width, srce):
    return ColorMatrix(height, width).set_from_iterable(srce)
''',
    },
    'ColorMatrix.set_from_constant': {
        'pinned': '''
def set_from_constant(self, value):
    for row in range(0, self._height):
        for col in range(0, self._width):
            self._mat[row][col] = value
    return self
''',
    },
    'ColorMatrix.set_from_iterable': {
        'pinned': '''
def set_from_iterable(self, srce):
    it = iter(srce)
    for row in range(0, self.height):
        for col in range(0, self.width):
            self._mat[row][col] = next(it)
    return self
''',
    },
    'ColorMatrix.get_colors': {
        'pinned': '''
def get_colors(self):
    return [self._standardize_raw(param) for param in self.as_list()]
''',
    },
    'ColorMatrix.find_replace': {
        'pinned': '''
def find_replace(self, to_find, replacement):
    for row in range(0, self.height):
        for column in range(0, self.width):
            if self._mat[row][column] == to_find:
                self._mat[row][column] = replacement.copy()
''',
    },
    'ColorMatrix.as_list': {
        'pinned': '''
def as_list(self):
    return [self._mat[row][column] for row in range(0, self.height) for column in range(0, self.width)]
''',
    },
    'ColorMatrix.overlay_color': {
        'pinned': '''
def overlay_color(self, rect: Rect, color) -> None:
    self._normalize_rect(rect)
    for row in range(rect.top, rect.bottom + 1):
        for column in range(rect.left, rect.right + 1):
            self._mat[row][column] = color
''',
    },
    'ColorMatrix._standardize_raw': {
        'pinned': '''
@staticmethod
def _standardize_raw(color):
    if color is None:
        return None
    raw_color = []
    for param in color:
        if param < 0.0:
            param = 0
        elif param > 65535.0:
            param = 65535
        else:
            param = round(param)
        raw_color.append(param)
    return raw_color
''',
    },
    'ColorMatrix._normalize_rect': {
        'pinned': '''
def _normalize_rect(self, rect) -> None:
    match (rect.top is None, rect.bottom is None):
        case [True, True]:
            rect.top = 0
            rect.bottom = self.height - 1
        case [True, False]:
            rect.top = rect.bottom
        case [False, True]:
            rect.bottom = rect.top
    match (rect.left is None, rect.right is None):
        case [True, True]:
            rect.left = 0
            rect.right = self.width - 1
        case [True, False]:
            rect.left = rect.right
        case [False, True]:
            rect.right = rect.left
    return rect
''',
    },
    'MatrixParser.matrix_spec': {
        'pinned': '''
def matrix_spec(self) -> bool:
    self.code_gen.add_instruction(OpCode.MATRIX)
    inline_matrix = not self.current_token.is_a(TokenTypes.BEGIN)
    if not self.operand_list():
        return False
    if inline_matrix:
        self.code_gen.add_instruction(OpCode.COLOR)
    self.code_gen.add_instruction(OpCode.END, Operand.MATRIX)
    return True
''',
    },
    'MatrixParser.operand_list': {
        'pinned': '''
def operand_list(self) -> bool:
    if self.current_token.is_a(TokenTypes.BEGIN):
        return self._block_operand()
    else:
        return self._inline_operand()
''',
    },
    'MatrixParser._rows': {
        'pinned': '''
def _rows(self, has_rows) -> bool:
    if has_rows:
        return self.trigger_error('"row" supplied more than once.')
    self.next_token()
    if not self.at_rvalue(False):
        return self.token_error('Expected range for rows, got {}')
    return self._range(Register.FIRST_ROW, Register.LAST_ROW)
''',
    },
    'MatrixParser._columns': {
        'pinned': '''
def _columns(self, has_columns) -> bool:
    if has_columns:
        return self.trigger_error('column supplied more than once.')
    self.next_token()
    if not self.at_rvalue(False):
        return self.token_error('Expected a range for columns, got {}')
    return self._range(Register.FIRST_COLUMN, Register.LAST_COLUMN)
''',
    },
    'MatrixParser._range': {
        'pinned': '''
def _range(self, first, last, only_one=False):
    if not self.rvalue(first):
        return False
    if not only_one and self.at_rvalue(False):
        return self.rvalue(last)
    self.code_gen.add_instruction(OpCode.MOVEQ, None, last)
    return True
''',
    },
    'MatrixParser._block_operand': {
        'pinned': '''
def _block_operand(self) -> bool:
    if self.context.in_matrix():
        return self.token_error('Nesting not allowed here.')
    self.context.enter_matrix()
    if not self.parser.command_seq():
        return False
    self.context.exit_matrix()
    return True
''',
    },
    'MatrixParser._inline_operand': {
        'pinned': '''
def _inline_operand(self) -> bool:
    self.code_gen.add_instruction(OpCode.MOVEQ, Operand.MATRIX, Register.OPERAND)
    has_rows = has_columns = False
    while self.current_token.is_any(TokenTypes.ROW, TokenTypes.COLUMN):
        if self.current_token.is_a(TokenTypes.ROW):
            if not self._rows(has_rows):
                return False
            has_rows = True
        elif self.current_token.is_a(TokenTypes.COLUMN):
            if not self._columns(has_columns):
                return False
            has_columns = True
    if not has_rows:
        self.code_gen.add_list((OpCode.MOVEQ, None, Register.FIRST_ROW), (OpCode.MOVEQ, None, Register.LAST_ROW))
    if not has_columns:
        self.code_gen.add_list((OpCode.MOVEQ, None, Register.FIRST_COLUMN), (OpCode.MOVEQ, None, Register.LAST_COLUMN))
    return True
''',
    },
    'Parser._stage': {
        'pinned': '''
def _stage(self):
    if self._context.in_matrix() or self._context.in_routine():
        return self._action(OpCode.COLOR)
    return self.trigger_error('Use of "stage" is not allowed in this context.')
''',
    },
    'Parser._action': {
        'pinned': '''
def _action(self, op_code) -> bool:
    action_token = self._current_token.token_type
    self._op_code = op_code
    if not (self._context.in_matrix() or action_token is TokenTypes.STAGE):
        self._add_instruction(OpCode.WAIT)
    self.next_token()
    if self._current_token.is_a(TokenTypes.ALL):
        return self._all_operand()
    if self._current_token.is_a(TokenTypes.DEFAULT):
        return self._default_operand()
    return self._operand_list(action_token)
''',
    },
    'Parser._default_operand': {
        'pinned': '''
def _default_operand(self) -> bool:
    self._add_instruction(OpCode.MOVEQ, Operand.DEFAULT, Register.OPERAND)
    self._add_instruction(self._op_code)
    return self.next_token()
''',
    },
    'Parser._operand_list': {
        'pinned': '''
def _operand_list(self, action_token) -> bool:
    if action_token is TokenTypes.STAGE:
        if not MatrixParser(self).operand_list():
            return False
        self._add_instruction(OpCode.COLOR)
        return True
    if not self._operand():
        return False
    self._add_instruction(self._op_code)
    while self._current_token.is_a(TokenTypes.AND):
        self.next_token()
        if not self._operand():
            return False
        self._add_instruction(self._op_code)
    return True
''',
    },
    'Parser._operand': {
        'pinned': '''
def _operand(self) -> bool:
    if self._current_token.is_a(TokenTypes.GROUP):
        operand = Operand.GROUP
        self.next_token()
    elif self._current_token.is_a(TokenTypes.LOCATION):
        operand = Operand.LOCATION
        self.next_token()
    else:
        operand = Operand.LIGHT
    const_str = self._current_str()
    if len(const_str) > 0:
        self._add_instruction(OpCode.MOVEQ, const_str, Register.NAME)
        self.next_token()
    elif self._current_token.is_a(TokenTypes.NAME):
        if not self._var_operand():
            return False
    else:
        if self._context.in_matrix():
            return self.trigger_error('Use of "set" not allowed in this context. Try "stage".')
        return self.token_error('Needed a device, location, or group, got "{}".')
    if self._current_token.is_a(TokenTypes.ZONE):
        if not self._zone_range():
            return False
        operand = Operand.MZ_LIGHT
    elif self._current_token.is_any(TokenTypes.BEGIN, TokenTypes.COLUMN, TokenTypes.ROW):
        if operand is not Operand.LIGHT:
            return self.token_error('"{} not allowed with groups or locations.')
        if not MatrixParser(self).matrix_spec():
            return False
        operand = Operand.MATRIX_LIGHT
    self._add_instruction(OpCode.MOVEQ, operand, Register.OPERAND)
    return True
''',
        # D66: rows and columns are for colours; with on / off they are rejected like zones (the matrix model is about `set`)
        'power_rows_rejected': '''
def _operand(self) -> bool:
    if self._current_token.is_a(TokenTypes.GROUP):
        operand = Operand.GROUP
        self.next_token()
    elif self._current_token.is_a(TokenTypes.LOCATION):
        operand = Operand.LOCATION
        self.next_token()
    else:
        operand = Operand.LIGHT
    const_str = self._current_str()
    if len(const_str) > 0:
        self._add_instruction(OpCode.MOVEQ, const_str, Register.NAME)
        self.next_token()
    elif self._current_token.is_a(TokenTypes.NAME):
        if not self._var_operand():
            return False
    else:
        if self._context.in_matrix():
            return self.trigger_error('Use of "set" not allowed in this context. Try "stage".')
        return self.token_error('Needed a device, location, or group, got "{}".')
    if self._current_token.is_a(TokenTypes.ZONE):
        if not self._zone_range():
            return False
        operand = Operand.MZ_LIGHT
    elif self._current_token.is_any(TokenTypes.BEGIN, TokenTypes.COLUMN, TokenTypes.ROW):
        if operand is not Operand.LIGHT:
            return self.token_error('"{} not allowed with groups or locations.')
        if self._op_code is not OpCode.COLOR and (not self._current_token.is_a(TokenTypes.BEGIN)):
            return self.trigger_error('Rows and columns not supported for {}'.format(self._op_code.name.lower()))
        if not MatrixParser(self).matrix_spec():
            return False
        operand = Operand.MATRIX_LIGHT
    self._add_instruction(OpCode.MOVEQ, operand, Register.OPERAND)
    return True
''',
        # D69: after a block the matrix is sent with COLOR whatever commands the block held
        'matrix_sent_as_color': '''
def _operand(self) -> bool:
    if self._current_token.is_a(TokenTypes.GROUP):
        operand = Operand.GROUP
        self.next_token()
    elif self._current_token.is_a(TokenTypes.LOCATION):
        operand = Operand.LOCATION
        self.next_token()
    else:
        operand = Operand.LIGHT
    const_str = self._current_str()
    if len(const_str) > 0:
        self._add_instruction(OpCode.MOVEQ, const_str, Register.NAME)
        self.next_token()
    elif self._current_token.is_a(TokenTypes.NAME):
        if not self._var_operand():
            return False
    else:
        if self._context.in_matrix():
            return self.trigger_error('Use of "set" not allowed in this context. Try "stage".')
        return self.token_error('Needed a device, location, or group, got "{}".')
    if self._current_token.is_a(TokenTypes.ZONE):
        if not self._zone_range():
            return False
        operand = Operand.MZ_LIGHT
    elif self._current_token.is_any(TokenTypes.BEGIN, TokenTypes.COLUMN, TokenTypes.ROW):
        if operand is not Operand.LIGHT:
            return self.token_error('"{} not allowed with groups or locations.')
        if self._op_code is not OpCode.COLOR and (not self._current_token.is_a(TokenTypes.BEGIN)):
            return self.trigger_error('Rows and columns not supported for {}'.format(self._op_code.name.lower()))
        if not MatrixParser(self).matrix_spec():
            return False
        self._op_code = OpCode.COLOR
        operand = Operand.MATRIX_LIGHT
    self._add_instruction(OpCode.MOVEQ, operand, Register.OPERAND)
    return True
''',
    },
    'Parser._zone_range': {
        'pinned': '''
def _zone_range(self) -> bool:
    if self._op_code is not OpCode.COLOR:
        return self.trigger_error('Zones not supported for {}'.format(self._op_code.name.lower()))
    self.next_token()
    return self._set_zones()
''',
    },
    'Parser._set_zones': {
        'pinned': '''
def _set_zones(self, only_one=False):
    if not self._at_rvalue(False):
        return self.token_error('Expected zone number, got "{}"')
    return self._range(Register.FIRST_ZONE, Register.LAST_ZONE, only_one)
''',
    },
    'Parser._range': {
        'pinned': '''
def _range(self, first, last, only_one=False):
    if not self._rvalue(first):
        return False
    if not only_one and self._at_rvalue(False):
        return self._rvalue(last)
    self._add_instruction(OpCode.MOVEQ, None, last)
    return True
''',
    },
    'MultizoneLight.set_zone_colors': {
        'pinned': '''
@tries(_MAX_TRIES, WorkflowException)
def set_zone_colors(self, first_zone, last_zone, color, duration) -> None:
    if not hasattr(self._impl, 'set_zone_color'):
        logging.error('No set_zone_color for light of type', type(self._impl))
    else:
        color = param_color(color)
        first_zone = param_16(first_zone)
        last_zone = param_16(last_zone)
        duration = param_32(duration)
        self._impl.set_zone_color(first_zone, last_zone, color, duration)
''',
    },
    'MatrixLight.set_matrix': {
        'pinned': '''
@tries(_MAX_TRIES, WorkflowException)
def set_matrix(self, matrix, duration=0) -> None:
    payload = {'tile_index': 0, 'length': 1, 'colors': matrix.get_colors(), 'duration': param_32(duration), 'reserved': 0, 'x': 0, 'y': 0, 'width': self._width, 'height': self._height}
    self._impl.fire_and_forget(SetTileState64, payload, num_repeats=1)
''',
    },
    'module.param_16': {
        'pinned': '''
def param_16(param) -> int:
    return round(max(0, min(param, 65535)))
''',
    },
    'module.param_color': {
        'pinned': '''
def param_color(color):
    return [param_16(x) for x in color]
''',
    },
}
