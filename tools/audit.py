#!/usr/bin/env python3
"""tools/audit.py: the development declares no axiom and switches off no check.
Scans every .v file under coq/ (generated cases excluded): no Admitted / admit / Axiom / Parameter / Conjecture /
Admit Obligations / Unset Guard Checking / bypass_check / -type-in-type; every Variable / Hypothesis / Context is
inside a Section.  Exit 1 with the offending lines otherwise."""
import os
import re
import sys

ROOT = os.path.join(os.path.dirname(os.path.dirname(os.path.abspath(__file__))), 'coq')
BAD = re.compile(r'\b(Admitted|admit|Axiom|Axioms|Parameter|Parameters|Conjecture|Admit\s+Obligations)\b|Unset\s+Guard|Unset\s+Positivity|Unset\s+Universe|bypass_check|type-in-type|impredicative-set')
LOCAL = re.compile(r'^\s*(Variable|Variables|Hypothesis|Hypotheses|Context)\b')


def strip_comments(text):
    out = []
    depth = 0
    i = 0
    while i < len(text):
        if text.startswith('(*', i):
            depth += 1
            i += 2
        elif text.startswith('*)', i) and depth:
            depth -= 1
            i += 2
        else:
            if depth == 0:
                out.append(text[i])
            elif text[i] == '\n':
                out.append('\n')
            i += 1
    return ''.join(out)


def main():
    bad = []
    nfiles = 0
    for d, _, files in os.walk(ROOT):
        if os.path.basename(d) == 'cases':
            continue
        for f in files:
            if not f.endswith('.v'):
                continue
            nfiles += 1
            path = os.path.join(d, f)
            text = strip_comments(open(path).read())
            text = re.sub(r'"[^"]*"', '""', text)
            depth = 0
            for n, line in enumerate(text.split('\n'), 1):
                if re.match(r'^\s*Section\b', line):
                    depth += 1
                elif re.match(r'^\s*End\b', line) and depth:
                    depth -= 1
                if BAD.search(line):
                    bad.append('%s:%d: %s' % (path, n, line.strip()))
                if LOCAL.match(line) and depth == 0:
                    bad.append('%s:%d: outside a section: %s' % (path, n, line.strip()))
    for p in ('_CoqProject',):
        t = open(os.path.join(ROOT, p)).read() if os.path.exists(os.path.join(ROOT, p)) else ''
        if 'type-in-type' in t or 'impredicative-set' in t:
            bad.append('_CoqProject passes an unsafe flag')
    print('audit: %d files scanned, %d problems' % (nfiles, len(bad)))
    for b in bad:
        print(b)
    return 1 if bad else 0


if __name__ == '__main__':
    sys.exit(main())
