"""py2coq generator for the code C12 (device faults) is about: bardolph/lib/retry.py,
bardolph/controller/lifx_lan_light.py, lifx_lan_api.py, light_set.py and the device command
handlers of bardolph/vm/machine.py.

Nothing here is arithmetic that could be translated expression by expression; the hand-written
model (coq/Lights/Retry.v, Faults.v) is tied to the source by
  * facts READ from the source: the retry bound, which wrapper methods carry the @tries
    decorator and with which fail value  (the model is parametric in them), and
  * exact comparison of the normalised text of every modelled function with the text(s) the
    model was written from (shape_* booleans; lemmas in Lights/FaultsProofs.v require them to
    be true, so a change of shape breaks the proofs).  Where the pinned tree and the repaired
    tree differ (D23: Machine._color_matrix_light, D24: MultizoneLight.__init__) both texts are
    known and the model follows whichever is present.
Fail closed: an unreadable decorator raises Unsupported."""
import ast
import os
from py2coq_core import Unsupported, fail, find_class, find_func


def norm(src):
    return ast.unparse(ast.parse(src))


def fn_src(fn):
    """Body of a function as normalised source, docstring removed."""
    body = [s for s in fn.body
            if not (isinstance(s, ast.Expr) and isinstance(s.value, ast.Constant) and isinstance(s.value.value, str))]
    return '\n'.join(ast.unparse(s) for s in body)


def parse(repo, rel):
    return ast.parse(open(os.path.join(repo, rel)).read())


def module_func(tree, name):
    for n in tree.body:
        if isinstance(n, ast.FunctionDef) and n.name == name:
            return n
    raise Unsupported('function %s not found' % name)


def has_func(cls, name):
    return any(isinstance(n, ast.FunctionDef) and n.name == name for n in cls.body)


# ---------------------------------------------------------------------------
# accepted texts

TRIES = """
def fn_wrapper(fn):

    @functools.wraps(fn)
    def param_wrapper(*args, **kwargs):
        tries_remaining = num_tries
        while tries_remaining > 0:
            try:
                return fn(*args, **kwargs)
            except ex_type as ex:
                logging.warning(ex)
                tries_remaining -= 1
        logging.warning('Giving up after {} tries.'.format(num_tries))
        return fail_value
    return param_wrapper
return fn_wrapper
"""

WRAPPER_BODIES = {
    ('Light', '__init__'): """
super().__init__(impl.get_label(), impl.get_group(), impl.get_location())
self._impl = impl
self.product_features = impl.get_product_features()
""",
    ('Light', 'get_color'): "return self._impl.get_color()",
    ('Light', 'set_color'): """
color = param_color(color)
duration = param_32(duration)
self._impl.set_color(color, duration, True)
""",
    ('Light', 'get_power'): "return round(self._impl.get_power())",
    ('Light', 'set_power'): """
power = param_16(power)
duration = param_32(duration)
return self._impl.set_power(power, duration, rapid)
""",
    ('MultizoneLight', 'get_num_zones'): "return self._num_zones",
    ('MultizoneLight', 'get_zone_colors'): """
if first_zone is not None:
    first_zone = param_16(first_zone)
if last_zone is not None:
    last_zone = param_16(first_zone)
return self._impl.get_color_zones(first_zone, last_zone)
""",
    ('MultizoneLight', 'set_zone_colors'): """
if not hasattr(self._impl, 'set_zone_color'):
    logging.error('No set_zone_color for light of type', type(self._impl))
else:
    color = param_color(color)
    first_zone = param_16(first_zone)
    last_zone = param_16(last_zone)
    duration = param_32(duration)
    self._impl.set_zone_color(first_zone, last_zone, color, duration)
""",
    ('MatrixLight', '__init__'): """
super().__init__(impl)
self._height = height
self._width = width
if self._width is None or self._height is None:
    self._get_size()
""",
    ('MatrixLight', '_get_size'): """
result = self._impl.req_with_resp(GetDeviceChain, StateDeviceChain)
tile = result.tile_devices[result.start_index]
self._width = tile.get('width', 0)
self._height = tile.get('height', 0)
""",
    ('MatrixLight', 'get_height'): "return self._height",
    ('MatrixLight', 'get_width'): "return self._width",
    ('MatrixLight', 'set_matrix'): """
payload = {'tile_index': 0, 'length': 1, 'colors': matrix.get_colors(), 'duration': param_32(duration), 'reserved': 0, 'x': 0, 'y': 0, 'width': self._width, 'height': self._height}
self._impl.fire_and_forget(SetTileState64, payload, num_repeats=1)
""",
    ('MatrixLight', 'get_matrix'): """
payload = {'tile_index': 0, 'length': 1, 'reserved': 0, 'x': 0, 'y': 0, 'width': self._width, 'height': self._height}
colors = self._impl.req_with_resp(GetTileState64, StateTileState64, payload).colors
return ColorMatrix.new_from_iterable(self._height, self._width, colors)
""",
}

MZ_INIT_UNGUARDED = """
super().__init__(impl)
self._num_zones = num_zones or len(self.get_zone_colors())
"""
MZ_INIT_GUARDED = """
super().__init__(impl)
self._num_zones = num_zones or len(self.get_zone_colors() or [])
"""

# methods of lifx_lan_light that are requests to the device, with the name the model uses
WRAPPED = [('Light', 'get_color'), ('Light', 'set_color'), ('Light', 'get_power'), ('Light', 'set_power'),
           ('MultizoneLight', 'get_zone_colors'), ('MultizoneLight', 'set_zone_colors'),
           ('MatrixLight', '_get_size'), ('MatrixLight', 'set_matrix'), ('MatrixLight', 'get_matrix')]

API_BODIES = {
    '__init__': """
num_expected = settings.get_value('default_num_lights', None)
self._lifxlan = lifxlan.LifxLAN(num_expected)
""",
    'get_lights': """
try:
    lights = [self._build_light(impl) for impl in self._lifxlan.get_lights()]
except lifxlan.errors.WorkflowException as ex:
    logging.error('In get_lights(): {}'.format(ex))
    raise i_controller.LightException(ex)
expected = settings.get_value('default_num_lights', None)
if expected is not None:
    actual = len(lights)
    if actual < expected:
        logging.info('Expected {} devices, found {}'.format(expected, actual))
return lights
""",
    'set_color_all_lights': """
color = param_color(color)
self._lifxlan.set_color_all_lights(color, param_32(duration), True)
""",
    'set_power_all_lights': """
self._lifxlan.set_power_all_lights(param_16(power_level), param_32(duration), True)
""",
    '_build_light': """
features = impl.get_product_features()
product_name = impl.get_product_name()
if features.get('multizone', False):
    return lifx_lan_light.MultizoneLight(impl)
elif impl.get_product_features().get('matrix', False):
    return lifx_lan_light.MatrixLight(impl)
return lifx_lan_light.Light(impl)
""",
}

LIGHT_SET_BODIES = {
    'discover': """
logging.debug('start discover. so far, successes = {}, fails = {}'.format(self._num_successful_discovers, self._num_failed_discovers))
try:
    for light in light_api.get_lights():
        light_name = light.get_name()
        self._light_names.add(light_name)
        self._lights[light_name] = light
        LightSet._update_memberships(light, light.get_group(), self._groups)
        LightSet._update_memberships(light, light.get_location(), self._locations)
except i_controller.LightException as ex:
    self._num_failed_discovers += 1
    logging.warning('In discover():\\n{}'.format(ex))
    return False
self._num_successful_discovers += 1
return True
""",
    'get_light': "return self._lights.get(light_name)",
    'get_group_lights': "return self._groups.get(group_name)",
    'get_location_lights': "return self._locations.get(loc_name)",
    'set_color_all_lights': """
color = param_color(color)
duration = param_32(duration)
light_api.set_color_all_lights(rounded_color(color), duration)
return True
""",
    'set_power_all_lights': """
power_level = param_bool(power_level)
duration = param_32(duration)
light_api.set_power_all_lights(power_level, duration)
return True
""",
}

COLOR_MATRIX_LIGHT_UNCHECKED = """
light = self._get_named_light()
if light is not None:
    matrix = self._reg.matrix
    matrix = self._as_raw_matrix(matrix)
    matrix.find_replace(None, self._reg.default or [0, 0, 0, 0])
    duration = self._as_raw_time(self._reg.duration)
    light.set_matrix(matrix, duration)
"""
COLOR_MATRIX_LIGHT_CHECKED = COLOR_MATRIX_LIGHT_UNCHECKED.replace(
    'if light is not None:', 'if light is not None and isinstance(light, MatrixLight):')
# D48: a matrix light whose size was never learned is skipped
COLOR_MATRIX_LIGHT_SIZED = COLOR_MATRIX_LIGHT_UNCHECKED.replace(
    'if light is not None:',
    'if light is not None and isinstance(light, MatrixLight) and (light.get_height() is not None) and (light.get_width() is not None):')

MATRIX_UNGUARDED = """
name = self._reg.name
light = light_set.get_light(name)
if light is None:
    Machine._report_missing(name)
    height = width = 255
elif not isinstance(light, MatrixLight):
    logging.error('Light "{}" is not matrix type (Candle, Tube, etc.)'.format(name))
    height = width = 255
else:
    height = light.get_height()
    width = light.get_width()
self._reg.matrix = ColorMatrix.new_from_constant(height, width, None)
"""
MATRIX_GUARDED = """
name = self._reg.name
light = light_set.get_light(name)
if light is None:
    Machine._report_missing(name)
    height = width = 255
elif not isinstance(light, MatrixLight):
    logging.error('Light "{}" is not matrix type (Candle, Tube, etc.)'.format(name))
    height = width = 255
else:
    height = light.get_height()
    width = light.get_width()
    if height is None or width is None:
        logging.error('Size of matrix light "{}" is unknown.'.format(name))
        height = width = 255
self._reg.matrix = ColorMatrix.new_from_constant(height, width, None)
"""

MACHINE_BODIES = {
    '_get_named_light': ["""
light = light_set.get_light(self._reg.name)
if light is None:
    Machine._report_missing(self._reg.name)
return light
"""],
    '_color_all': ["""
color = self._as_raw_color(self._reg.get_color())
duration = self._as_raw_time(self._reg.duration)
light_set.set_color_all_lights(color, duration)
"""],
    '_color_light': ["""
light = self._get_named_light()
if light is not None:
    light.set_color(self._as_raw_color(self._reg.get_color()), self._as_raw_time(self._reg.duration))
"""],
    '_color_mz_light': ["""
light = self._get_named_light()
if light is not None and self._zone_check(light):
    start_index = self._reg.first_zone
    end_index = self._reg.last_zone
    if end_index is None:
        end_index = start_index
    light.set_zone_colors(start_index, end_index + 1, self._as_raw_color(self._reg.get_color()), self._as_raw_time(self._reg.duration))
"""],
    '_color_group': ["""
light_names = light_set.get_group_lights(self._reg.name)
if light_names is None:
    logging.warning('Unknown group: {}'.format(self._reg.name))
else:
    self._color_multiple([light_set.get_light(name) for name in light_names])
"""],
    '_color_location': ["""
light_names = light_set.get_location_lights(self._reg.name)
if light_names is None:
    logging.warning('Unknown location: {}'.format(self._reg.name))
else:
    self._color_multiple([light_set.get_light(name) for name in light_names])
"""],
    '_color_multiple': ["""
color = self._as_raw_color(self._reg.get_color())
duration = self._as_raw_time(self._reg.duration)
for light in lights:
    light.set_color(color, duration)
"""],
    '_power': ["""
{Operand.ALL: self._power_all, Operand.LIGHT: self._power_light, Operand.GROUP: self._power_group, Operand.LOCATION: self._power_location}[self._reg.operand]()
"""],
    '_power_all': ["""
duration = self._as_raw_time(self._reg.duration)
light_set.set_power_all_lights(self._reg.get_power(), duration)
"""],
    '_power_light': ["""
light = light_set.get_light(self._reg.name)
if light is None:
    Machine._report_missing(self._reg.name)
else:
    duration = self._as_raw_time(self._reg.duration)
    light.set_power(self._reg.get_power(), duration)
"""],
    '_power_group': ["""
light_names = light_set.get_group_lights(self._reg.name)
if light_names is None:
    logging.warning('Power invoked for unknown group "{}"'.format(self._reg.name))
else:
    self._power_multiple([light_set.get_light(name) for name in light_names])
"""],
    '_power_location': ["""
light_names = light_set.get_location_lights(self._reg.name)
if light_names is None:
    logging.warning('Power invoked for unknown location: {}'.format(self._reg.name))
else:
    self._power_multiple([light_set.get_light(name) for name in light_names])
"""],
    # two accepted texts: before and after the repair of D1 (the duration's unit; not C12's concern)
    '_power_multiple': ["""
power = self._reg.get_power()
for light in lights:
    light.set_power(power, self._reg.duration)
""", """
power = self._reg.get_power()
duration = self._as_raw_time(self._reg.duration)
for light in lights:
    light.set_power(power, duration)
"""],
    '_get_color': ["""
name = self._reg.name
light = light_set.get_light(name)
if light is None:
    Machine._report_missing(name)
else:
    if isinstance(light, (MultizoneLight, MatrixLight)):
        fmt = 'Unable to retrieve color from multi-color light "{}".'
        logging.warning(fmt.format(name))
    else:
        color = light.get_color()
        self._color_to_reg(self._assure_units(color))
""", """
name = self._reg.name
light = light_set.get_light(name)
if light is None:
    Machine._report_missing(name)
elif isinstance(light, (MultizoneLight, MatrixLight)):
    fmt = 'Unable to retrieve color from multi-color light "{}".'
    logging.warning(fmt.format(name))
else:
    color = light.get_color()
    self._color_to_reg(self._assure_units(color))
"""],
    '_zone_check': ["""
if not isinstance(light, MultizoneLight):
    logging.warning('Light "{}" is not multi-zone.'.format(light.get_name()))
    return False
return True
"""],
    '_report_missing': ["""
logging.warning('Light "{}" not found.'.format(name))
"""],
}

# the part of Machine.run that turns any exception into the end of the script
RUN_TAIL = """
except Exception as ex:
    logging.error('Machine stopped due to {} at instruction {}'.format(ex, self._reg.pc))
"""


# ---------------------------------------------------------------------------

def decoration(fn, exc_names=('WorkflowException',)):
    """None when the method is not decorated; otherwise (bound is _MAX_TRIES, exception is
    WorkflowException, fail value text or None).  Any other decorator: fail closed."""
    decs = fn.decorator_list
    if not decs:
        return None
    if len(decs) != 1:
        fail(fn, 'more than one decorator on a request method')
    d = decs[0]
    if not (isinstance(d, ast.Call) and isinstance(d.func, ast.Name) and d.func.id == 'tries' and not d.keywords):
        fail(fn, 'decorator is not tries(...)')
    if len(d.args) not in (2, 3):
        fail(fn, 'tries() arity')
    bound = ast.unparse(d.args[0])
    exc = ast.unparse(d.args[1])
    fv = ast.unparse(d.args[2]) if len(d.args) == 3 else None
    if bound != '_MAX_TRIES':
        fail(fn, 'retry bound is not _MAX_TRIES')
    if exc not in exc_names:
        fail(fn, 'retried exception is not WorkflowException')
    return fv


def coq_bool(b):
    return 'true' if b else 'false'


def gen_faults(repo):
    out = []
    # ---- retry.py
    retry = parse(repo, 'bardolph/lib/retry.py')
    tries_fn = module_func(retry, 'tries')
    args = [a.arg for a in tries_fn.args.args]
    defaults = [ast.unparse(d) for d in tries_fn.args.defaults]
    shape_tries = (fn_src(tries_fn) == norm(TRIES) and args == ['num_tries', 'ex_type', 'fail_value'] and defaults == ['None'])
    out.append('Definition shape_tries_loop : bool := %s.' % coq_bool(shape_tries))

    # ---- lifx_lan_light.py
    ll = parse(repo, 'bardolph/controller/lifx_lan_light.py')
    max_tries = None
    for n in ll.body:
        if isinstance(n, ast.Assign) and len(n.targets) == 1 and isinstance(n.targets[0], ast.Name) and n.targets[0].id == '_MAX_TRIES':
            if not (isinstance(n.value, ast.Constant) and isinstance(n.value.value, int) and not isinstance(n.value.value, bool)
                    and 0 <= n.value.value <= 1000):
                fail(n, '_MAX_TRIES is not a small integer literal')
            max_tries = n.value.value
    if max_tries is None:
        raise Unsupported('_MAX_TRIES not found in lifx_lan_light.py')
    out.append('Definition MAX_TRIES : nat := %d%%nat.' % max_tries)
    imports_ok = any(isinstance(n, ast.ImportFrom) and n.module == 'bardolph.lib.retry'
                     and [(a.name, a.asname) for a in n.names] == [('tries', None)] for n in ll.body)
    classes = {c: find_class(ll, c) for c in ('Light', 'MultizoneLight', 'MatrixLight')}
    fail_values = {}
    for cname, mname in WRAPPED:
        fn = find_func(classes[cname].body, mname)
        fv = decoration(fn)
        coq_name = 'wrapped_' + mname.lstrip('_')
        wrapped = fn.decorator_list != [] and imports_ok
        out.append('Definition %s : bool := %s.' % (coq_name, coq_bool(wrapped)))
        fail_values[(cname, mname)] = fv if fn.decorator_list else None
    out.append('Definition get_color_fail_minus_ones : bool := %s.'
               % coq_bool(fail_values[('Light', 'get_color')] in ('[-1] * 4', '[-1, -1, -1, -1]')))
    out.append('Definition other_fail_values_none : bool := %s.'
               % coq_bool(all(v is None for k, v in fail_values.items() if k != ('Light', 'get_color'))))
    # no other method of the wrappers may be decorated, and the bodies are the modelled ones
    bodies_ok = True
    for (cname, mname), text in WRAPPER_BODIES.items():
        if not has_func(classes[cname], mname) or fn_src(find_func(classes[cname].body, mname)) != norm(text):
            bodies_ok = False
    known = {c: {m for (cc, m) in WRAPPER_BODIES if cc == c} for c in classes}
    known['MultizoneLight'].add('__init__')
    for cname, cls in classes.items():
        names = {n.name for n in cls.body if isinstance(n, ast.FunctionDef)}
        if not names <= known[cname]:
            bodies_ok = False
        for n in cls.body:
            if isinstance(n, ast.FunctionDef) and (cname, n.name) not in WRAPPED and n.decorator_list:
                bodies_ok = False
    out.append('Definition shape_wrapper_bodies : bool := %s.' % coq_bool(bodies_ok))
    mz_init = fn_src(find_func(classes['MultizoneLight'].body, '__init__'))
    out.append('Definition shape_mz_init_guarded : bool := %s.' % coq_bool(mz_init == norm(MZ_INIT_GUARDED)))
    out.append('Definition shape_mz_init_unguarded : bool := %s.' % coq_bool(mz_init == norm(MZ_INIT_UNGUARDED)))

    # ---- lifx_lan_api.py, light_set.py
    api_mod = parse(repo, 'bardolph/controller/lifx_lan_api.py')
    api = find_class(api_mod, 'LifxLanApi')
    api_ok = all(has_func(api, m) and fn_src(find_func(api.body, m)) == norm(t) for m, t in API_BODIES.items())
    api_ok = api_ok and {n.name for n in api.body if isinstance(n, ast.FunctionDef)} <= set(API_BODIES)
    api_imports_tries = any(isinstance(n, ast.ImportFrom) and n.module == 'bardolph.lib.retry'
                            and [(a.name, a.asname) for a in n.names] == [('tries', None)] for n in api_mod.body)
    api_bound = None
    for n in api_mod.body:
        if isinstance(n, ast.Assign) and len(n.targets) == 1 and isinstance(n.targets[0], ast.Name) and n.targets[0].id == '_MAX_TRIES':
            if not (isinstance(n.value, ast.Constant) and isinstance(n.value.value, int) and not isinstance(n.value.value, bool)):
                fail(n, '_MAX_TRIES of lifx_lan_api is not an integer literal')
            api_bound = n.value.value
    for mname in ('set_color_all_lights', 'set_power_all_lights'):
        fn = find_func(api.body, mname)
        fv = decoration(fn, ('WorkflowException', 'lifxlan.errors.WorkflowException'))
        if fn.decorator_list:
            if fv is not None:
                fail(fn, 'a broadcast with a fail value')
            if api_bound != max_tries:
                fail(fn, 'the retry bound of lifx_lan_api differs from the one of lifx_lan_light')
        out.append('Definition wrapped_%s : bool := %s.' % (mname.replace('_lights', ''), coq_bool(bool(fn.decorator_list) and api_imports_tries)))
    for mname in ('__init__', 'get_lights', '_build_light'):
        fn = find_func(api.body, mname)
        decs = [ast.unparse(d) for d in fn.decorator_list]
        if decs not in ([], ['inject(i_lib.Settings)']):
            api_ok = False
    out.append('Definition shape_lan_api : bool := %s.' % coq_bool(api_ok))
    ls = find_class(parse(repo, 'bardolph/controller/light_set.py'), 'LightSet')
    ls_ok = all(has_func(ls, m) and fn_src(find_func(ls.body, m)) == norm(t) for m, t in LIGHT_SET_BODIES.items())
    out.append('Definition shape_light_set : bool := %s.' % coq_bool(ls_ok))

    # ---- machine.py
    mach = find_class(parse(repo, 'bardolph/vm/machine.py'), 'Machine')
    handlers_ok = True
    for m, texts in MACHINE_BODIES.items():
        if not has_func(mach, m) or fn_src(find_func(mach.body, m)) not in [norm(t) for t in texts]:
            handlers_ok = False
    out.append('Definition shape_vm_handlers : bool := %s.' % coq_bool(handlers_ok))
    cml = fn_src(find_func(mach.body, '_color_matrix_light'))
    mtx = fn_src(find_func(mach.body, '_matrix'))
    sized = (cml == norm(COLOR_MATRIX_LIGHT_SIZED) and mtx == norm(MATRIX_GUARDED))
    checked = (cml == norm(COLOR_MATRIX_LIGHT_CHECKED) and mtx == norm(MATRIX_UNGUARDED))
    unchecked = (cml == norm(COLOR_MATRIX_LIGHT_UNCHECKED) and mtx == norm(MATRIX_UNGUARDED))
    # the capability test (D23) is present in both repaired texts; the size guard (D48) needs
    # both _matrix and _color_matrix_light to have it; any other combination is unknown
    out.append('Definition shape_matrix_light_checked : bool := %s.' % coq_bool(sized or checked))
    out.append('Definition shape_matrix_light_unchecked : bool := %s.' % coq_bool(unchecked))
    out.append('Definition shape_matrix_size_guarded : bool := %s.' % coq_bool(sized))
    out.append('Definition shape_matrix_handlers_known : bool := %s.' % coq_bool(sized or checked or unchecked))
    # Machine.run ends the script on any exception (that is what "abort" means in the model)
    run_fn = find_func(mach.body, 'run')
    tries_stmts = [s for s in run_fn.body if isinstance(s, ast.Try)]
    blanket = False
    if len(tries_stmts) == 1 and len(tries_stmts[0].handlers) == 1:
        blanket = ast.unparse(tries_stmts[0].handlers[0]) == norm('try:\n    pass' + RUN_TAIL).split('\n', 2)[2]
    out.append('Definition shape_run_blanket_except : bool := %s.' % coq_bool(blanket))

    header = ('(* GENERATED by tools/py2coq.py (gen_faults) from bardolph/lib/retry.py, controller/lifx_lan_light.py,\n'
              '   controller/lifx_lan_api.py, controller/light_set.py, vm/machine.py -- do not edit. *)\n'
              'From Coq Require Import Bool.\n\n')
    return header + '\n'.join(out) + '\n'


GENERATORS = {
    'FaultsGen.v': gen_faults,
}
