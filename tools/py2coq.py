#!/usr/bin/env python3
"""py2coq driver: regenerates coq/Gen/*.v from the repository sources on every run.

Usage: py2coq.py [repo] [outdir].  The generators live in tools/gen_*.py (each exposes
GENERATORS = {file name: function(repo) -> Coq text}); the accepted Python subset and the
expression/statement translators are in tools/py2coq_core.py.  Fail closed: a generator
that raises leaves a file that does not compile and the driver exits 1."""
import glob
import importlib
import os
import sys

HERE = os.path.dirname(os.path.abspath(__file__))
sys.path.insert(0, HERE)
from py2coq_core import Unsupported  # noqa: E402


def generators():
    gens = {}
    for path in sorted(glob.glob(os.path.join(HERE, 'gen_*.py'))):
        mod = importlib.import_module(os.path.basename(path)[:-3])
        gens.update(mod.GENERATORS)
    return gens


def main(argv):
    repo = argv[1] if len(argv) > 1 else '/repo'
    outdir = argv[2] if len(argv) > 2 else os.path.join(os.path.dirname(HERE), 'coq', 'Gen')
    os.makedirs(outdir, exist_ok=True)
    status = 0
    for fname, gen in generators().items():
        target = os.path.join(outdir, fname)
        try:
            text = gen(repo)
        except (Unsupported, SyntaxError, OSError, KeyError, IndexError, AttributeError, ValueError) as ex:
            # fail closed: the generated file states why, and does not compile
            text = '(* GENERATION FAILED: %s *)\nDefinition translator_failed : False := I.\n' % str(ex).replace('*)', '* )')
            print('py2coq: %s: FAILED: %s' % (fname, ex))
            status = 1
        old = open(target).read() if os.path.exists(target) else None
        if old != text:
            with open(target, 'w') as f:
                f.write(text)
            print('py2coq: %s: written' % fname)
    return status


if __name__ == '__main__':
    sys.exit(main(sys.argv))
