"""py2coq generator for web/front_end.py and web/web_app.py (C20).

Emits Gen/WebGen.v:
  route_table      the blueprint's rules in registration order, each with the FrontEnd
                   method its view function calls (read from the decorators);
  escaped_fields   the ScriptControl attributes assigned html.escape(<parameter>);
  plain_fields     the other attributes ScriptControl.__init__ sets;
  web_variant      which of the accepted texts queue_script / stop_script / get_status /
                   snapshot have (pinned: D30, D31; repaired);
  shape_*          booleans: the remaining methods that Web/WebApp.v models by hand have
                   exactly the (normalised) text the model was written from.
Fail closed: a method whose text is none of the accepted ones raises Unsupported."""
import ast
import os
from py2coq_core import Unsupported, fail, coq_string, find_class, find_func


def norm(src):
    return ast.unparse(ast.parse(src))


def fn_src(fn):
    """A function as normalised source (signature, decorators and body; docstring removed)."""
    fn = ast.parse(ast.unparse(fn)).body[0]
    fn.body = [s for s in fn.body
               if not (isinstance(s, ast.Expr) and isinstance(s.value, ast.Constant) and isinstance(s.value.value, str))] or [ast.Pass()]
    return ast.unparse(fn)


def coq_bool(b):
    return 'true' if b else 'false'


# --------------------------------------------------------------------------
# front_end.py

def route_table(tree):
    """[(rule, method)] from
         @blueprint.route('<rule>')
         def name(args): return fe.<method>(args)"""
    rows = []
    for n in tree.body:
        if not isinstance(n, ast.FunctionDef):
            continue
        for d in n.decorator_list:
            if (isinstance(d, ast.Call) and isinstance(d.func, ast.Attribute) and d.func.attr == 'route'
                    and isinstance(d.func.value, ast.Name) and d.func.value.id == 'blueprint'):
                if len(n.decorator_list) != 1 or len(d.args) != 1 or d.keywords or not (
                        isinstance(d.args[0], ast.Constant) and isinstance(d.args[0].value, str)):
                    fail(n, 'route decorator shape')
                body = n.body
                if not (len(body) == 1 and isinstance(body[0], ast.Return) and isinstance(body[0].value, ast.Call)):
                    fail(n, 'view function is not a single return of a call')
                call = body[0].value
                if not (isinstance(call.func, ast.Attribute) and isinstance(call.func.value, ast.Name)
                        and call.func.value.id == 'fe' and not call.keywords):
                    fail(n, 'view function does not call a method of fe')
                params = [a.arg for a in n.args.args]
                passed = []
                for a in call.args:
                    if not isinstance(a, ast.Name):
                        fail(n, 'view function passes something other than its parameters')
                    passed.append(a.id)
                if passed != params:
                    fail(n, 'view function does not pass its parameters in order')
                rule = d.args[0].value
                # converters of the rule must be exactly the parameters, in order
                conv = [p[1:-1] for p in rule.split('/') if p.startswith('<') and p.endswith('>')]
                if conv != params or any(':' in c for c in conv):
                    fail(n, 'rule converters differ from the view function parameters')
                rows.append((rule, call.func.attr))
    if not rows:
        raise Unsupported('no blueprint routes found')
    # fe = FrontEnd(); blueprint = Blueprint(...)
    assigns = {ast.unparse(n) for n in tree.body if isinstance(n, ast.Assign)}
    if 'fe = FrontEnd()' not in assigns or not any(a.startswith('blueprint = Blueprint(') for a in assigns):
        raise Unsupported('fe / blueprint are not module-level objects of the expected kind')
    return rows


FRONT_END_TEXT = {
    'index': """
def index(self, title='Lights'):
    a_class = FrontEnd.get_agent_class()
    web_app = provide(WebApp)
    return render_template('index.html', agent_class=a_class, icon='switch', scripts=web_app.get_script_list(), title=title, path_root=web_app.get_path_root())
""",
    'run_script': """
@inject(WebApp)
def run_script(self, path, web_app=injected):
    script_control = web_app.get_script_control(path)
    if script_control is not None:
        if script_control.running or web_app.queue_script(script_control):
            return self.render_action(script_control, 'Started')
    return self.index()
""",
    'off': """
@inject(WebApp)
def off(self, web_app=injected):
    script_control = web_app.get_script_control('off')
    web_app.stop_current()
    web_app.queue_script(script_control)
    return self.render_action(script_control, '')
""",
    'capture': """
@inject(WebApp)
def capture(self, web_app=injected):
    web_app.snapshot()
    return self.index()
""",
    'stop_script': """
@inject(WebApp)
def stop_script(self, path, web_app=injected):
    script_control = web_app.get_script_control(path)
    if script_control is not None and script_control.running:
        web_app.stop_script(path)
        return self.render_action(script_control, 'Stop Requested')
    return self.index()
""",
    'stop_current': """
@inject(WebApp)
def stop_current(self, web_app=injected):
    script_control = web_app.get_script_control('stop-current')
    web_app.stop_current()
    return self.render_action(script_control, 'Requested')
""",
    'stop_all': """
@inject(WebApp)
def stop_all(self, web_app=injected):
    script_control = web_app.get_script_control('stop-all')
    web_app.stop_all()
    return self.render_action(script_control, 'Requested')
""",
    'render_action': """
@inject(WebApp)
def render_action(self, script_control, message, web_app=injected):
    return render_template('action.html', agent_class=self.get_agent_class(), icon=script_control.icon, script=script_control, message=message, path_root=web_app.get_path_root())
""",
    'status': """
@inject(WebApp)
def status(self, web_app=injected):
    return render_template('status.html', title='Status', agent_class=self.get_agent_class(), data=web_app.get_status(), path_root=web_app.get_path_root())
""",
    'get_agent_class': """
@staticmethod
def get_agent_class():
    header = request.headers.get('User-Agent').lower()
    if header.find('android') != -1 or header.find('iphone') != -1:
        return 'mobile'
    if header.find('smarttv') != -1:
        return 'tv'
    return 'desktop'
""",
}

WEB_APP_TEXT = {
    '__init__': """
def __init__(self):
    self._scripts = {}
    self._jobs = JobControl()
    self._load_manifest()
""",
    '_load_manifest': """
@inject(Settings)
def _load_manifest(self, settings):
    basename = settings.get_value('manifest_file_name', 'manifest.json')
    if basename is None:
        return
    fname = join('web', basename)
    config_list = json.load(open(fname))
    self._scripts = {}
    for script_config in config_list:
        file_name = script_config['file_name']
        run_background = script_config.get('run_background', False)
        title = self.get_script_title(script_config)
        path = self.get_script_path(script_config)
        background = script_config['background']
        color = script_config['color']
        icon = script_config.get('icon', 'litBulb')
        new_script = ScriptControl(file_name, run_background, title, path, background, color, icon)
        self._scripts[path] = new_script
""",
    'get_script_control': """
def get_script_control(self, path) -> ScriptControl:
    script_control = self._scripts.get(path, None)
    if script_control is not None:
        script_control = copy.copy(script_control)
        script_control.running = self._jobs.is_running(script_control.path)
    return script_control
""",
    'get_script_list': """
def get_script_list(self):
    result = []
    for script in self._scripts.values():
        script = copy.copy(script)
        script.running = self._jobs.is_running(script.path)
        result.append(script)
    return result
""",
    'get_script_title': """
def get_script_title(self, script_config):
    title = script_config.get('title', '')
    if len(title) == 0:
        name = self.get_script_path(script_config)
        spaced = name.replace('_', ' ').replace('-', ' ')
        title = spaced.title()
    return title
""",
    'get_script_path': """
def get_script_path(self, script_config):
    path = script_config.get('path', '')
    if len(path) == 0:
        path = script_config['file_name']
        if path[-3:] == '.ls':
            path = path[:-3]
    return path
""",
    'stop_current': """
def stop_current(self) -> bool:
    return self._jobs.stop_current()
""",
    'stop_all': """
def stop_all(self) -> bool:
    self._jobs.clear_queue()
    result1 = self._jobs.stop_current()
    result2 = self._jobs.stop_background()
    return result1 and result2
""",
}

# methods with an accepted pinned text and an accepted repaired text
QUEUE_SCRIPT = """
@inject(Settings)
def queue_script(self, script_control, settings):
    fname = join(settings.get_value('script_path', '.'), script_control.%s)
    job = ScriptJob.from_file(fname)
    if script_control.run_background:
        self._jobs.spawn_job(job, script_control.path)
    else:
        self._jobs.add_job(job, script_control.path)
    return True
"""
STOP_SCRIPT_RAW = """
def stop_script(self, path) -> bool:
    return self._jobs.stop_job(path)
"""
STOP_SCRIPT_TABLE = """
def stop_script(self, path) -> bool:
    script_control = self._scripts.get(path, None)
    if script_control is None:
        return False
    return self._jobs.stop_job(script_control.path)
"""
GET_STATUS = """
def get_status(self):
    status = {'background_jobs': self._jobs.get_background(), 'current_job': self._jobs.get_current(), 'queued_jobs': self._jobs.get_queued(), 'lights': TextSnapshot().generate(%s).text, 'py_version': platform.python_version()}
    return status
"""
SNAPSHOT = """
@inject(Settings)
def snapshot(self, settings):
    output_name = join(settings.get_value('script_path', '.'), '__snapshot__.ls')
    out_file = open(output_name, 'w')
    out_file.write(ScriptSnapshot().generate(%s).text)
    out_file.close()
"""


def script_control_fields(cls):
    """(escaped, plain, source_attr): attributes assigned html.escape(<parameter of the same
    name>), the others, and the attribute (if any) that keeps the unescaped file name."""
    init = find_func(cls.body, '__init__')
    params = [a.arg for a in init.args.args[1:]]
    escaped, plain, source = [], [], None
    for st in init.body:
        if isinstance(st, ast.Expr) and isinstance(st.value, ast.Constant):
            continue
        if not (isinstance(st, ast.Assign) and len(st.targets) == 1 and isinstance(st.targets[0], ast.Attribute)
                and isinstance(st.targets[0].value, ast.Name) and st.targets[0].value.id == 'self'):
            fail(st, 'ScriptControl.__init__: not an attribute assignment')
        attr = st.targets[0].attr
        v = st.value
        if (isinstance(v, ast.Call) and ast.unparse(v.func) == 'html.escape' and len(v.args) == 1 and not v.keywords
                and isinstance(v.args[0], ast.Name) and v.args[0].id == attr and attr in params):
            escaped.append(attr)
        elif isinstance(v, ast.Name) and v.id == attr and attr in params:
            plain.append(attr)
        elif isinstance(v, ast.Name) and v.id == 'file_name' and attr == 'source_file':
            source = attr
            plain.append(attr)
        elif isinstance(v, ast.Constant) and v.value is None and attr == 'running':
            plain.append(attr)
        else:
            fail(st, 'ScriptControl.__init__: unexpected assignment')
    if params != ['file_name', 'run_background', 'title', 'path', 'background', 'color', 'icon']:
        fail(init, 'ScriptControl.__init__ parameters')
    defaults = [ast.unparse(d) for d in init.args.defaults]
    if defaults != ['False', "''", "''", "''", "''", "''"]:
        fail(init, 'ScriptControl.__init__ defaults')
    return escaped, plain, source


def gen_web(repo):
    fe_tree = ast.parse(open(os.path.join(repo, 'web/front_end.py')).read())
    wa_tree = ast.parse(open(os.path.join(repo, 'web/web_app.py')).read())
    out = ['(* GENERATED by tools/py2coq.py from web/front_end.py and web/web_app.py -- do not edit. *)',
           'From Coq Require Import String List Bool.',
           'From Bardolph Require Import Web.WebApp.',
           'Open Scope string_scope.', 'Open Scope list_scope.', 'Import ListNotations.', '']
    rows = route_table(fe_tree)
    out.append('Definition route_table : list (string * string) :=\n  [%s].'
               % ';\n   '.join('(%s, %s)' % (coq_string(r), coq_string(h)) for r, h in rows))
    # FrontEnd methods
    fe_cls = find_class(fe_tree, 'FrontEnd')
    names = [n.name for n in fe_cls.body if isinstance(n, ast.FunctionDef)]
    fe_ok = sorted(names) == sorted(FRONT_END_TEXT)
    for name in FRONT_END_TEXT:
        ok = name in names and fn_src(find_func(fe_cls.body, name)) == norm(FRONT_END_TEXT[name])
        out.append('Definition shape_fe_%s : bool := %s.' % (name, coq_bool(ok)))
        fe_ok = fe_ok and ok
    out.append('Definition shape_front_end : bool := %s.' % coq_bool(fe_ok))
    # ScriptControl
    sc_cls = find_class(wa_tree, 'ScriptControl')
    escaped, plain, source = script_control_fields(sc_cls)
    out.append('Definition escaped_fields : list string := [%s].' % '; '.join(coq_string(a) for a in escaped))
    out.append('Definition plain_fields : list string := [%s].' % '; '.join(coq_string(a) for a in plain))
    # WebApp methods with one accepted text
    wa_cls = find_class(wa_tree, 'WebApp')
    wnames = [n.name for n in wa_cls.body if isinstance(n, ast.FunctionDef)]
    wa_ok = True
    for name in WEB_APP_TEXT:
        ok = name in wnames and fn_src(find_func(wa_cls.body, name)) == norm(WEB_APP_TEXT[name])
        out.append('Definition shape_wa_%s : bool := %s.' % (name.strip('_'), coq_bool(ok)))
        wa_ok = wa_ok and ok
    out.append('Definition shape_web_app : bool := %s.' % coq_bool(wa_ok))
    # methods with a pinned and a repaired text
    def which(name, pinned_text, repaired_text):
        src = fn_src(find_func(wa_cls.body, name))
        if src == norm(repaired_text):
            return True
        if src == norm(pinned_text):
            return False
        raise Unsupported('WebApp.%s has neither the pinned nor the repaired text' % name)
    open_raw = which('queue_script', QUEUE_SCRIPT % 'file_name', QUEUE_SCRIPT % 'source_file')
    if open_raw and source != 'source_file':
        raise Unsupported('queue_script uses source_file but ScriptControl does not keep the file name')
    stop_table = which('stop_script', STOP_SCRIPT_RAW, STOP_SCRIPT_TABLE)
    f1 = which('get_status', GET_STATUS % '', GET_STATUS % 'None')
    f2 = which('snapshot', SNAPSHOT % '', SNAPSHOT % 'None')
    if f1 != f2:
        raise Unsupported('get_status and snapshot disagree about the filter argument')
    out.append('Definition web_variant : variant := mk_variant %s %s %s.'
               % (coq_bool(open_raw), coq_bool(stop_table), coq_bool(f1)))
    known = set(WEB_APP_TEXT) | {'queue_script', 'stop_script', 'get_status', 'snapshot', 'queue_file', 'get_path_root'}
    out.append('Definition shape_no_unknown_methods : bool := %s.' % coq_bool(set(wnames) <= known and set(names) <= set(FRONT_END_TEXT)))
    return '\n'.join(out) + '\n'


GENERATORS = {
    'WebGen.v': gen_web,
}
