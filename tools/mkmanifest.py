#!/usr/bin/env python3
"""Writes /verif/MANIFEST.json from the table below (one entry per claimed property)."""
import json
import os

HERE = os.path.dirname(os.path.dirname(os.path.abspath(__file__)))

COMMON_NOTE = ('Trusted: Coq 8.16.1 kernel + vm_compute; the translator tools/py2coq.py with its tools/gen_*.py plugins; '
               'the hand-written Gallina models are tied to the code by differential runs on every check (testing), '
               'not by proof; the harness (generators, recorders, printers to Coq terms). ')

CLAIMS = {
    'C01': dict(
        text=('Reference semantics of the whole language (Lang/Sem.v) as the oracle for every generated script; Coq models of compiler '
              '(from AST), loader and VM tied to the real Parser/Loader/Machine on the same scripts (correspondences A, B, C). '
              'Theorems proved so far: group/location action = the single-light action on each member in name order (all '
              'populations, all registers); members of a group are exactly the lights reporting it; operands joined by `and` '
              'share one delay. Forward simulation (Lang/Simulation.v, Simulation2.v, Simulation3.v, SimulationTop.v) is proved for every program made of register '
              'settings, unit switches, assignments, constants, print / println, wait, `time at`, `get`, `set default`, `set L zone a b`, `set L row a b` / `column c d`, set / on / off of all lights or lists of lights, groups and '
              'locations named by strings, macros or variables, if / else, begin-end blocks, `repeat while`, counted `repeat n`, `repeat with v from a to b`, `repeat n with v from a to b`, `repeat n with v cycle`, `repeat all / group / location as x [with ...]`, `repeat in ... and ... as x [with ...]` and endless `repeat` loops, `break`, routine definitions at the top level, calls `f a b ...` of routines (arguments ordinary values; routines may call each other and themselves, to any depth), `return`, and the value of a call where a statement takes it directly (`assign y [f ..]`, `hue [f ..]`, `print [f ..]`, `return [f ..]`, the routine ending in a return on every path; built-in functions too; also inside an expression: `return {n * [fact {n - 1}]}`, as an argument of another call, as the condition of if / while or the count of repeat), `printf` with ordinary values, nested to any depth -- values any ordinary rvalue or call-free numeric expression of any size -- and every population: WHENEVER the reference '
              'semantics runs the source to its end with events evs, the code of the compiler model, loaded and run on the machine model '
              'from the initial state, finishes with exactly evs (and statement by statement for code anywhere in an image, inside any enclosing loops). For '
              'calls in the bounds of indexed loops / operands / printf arguments, routines defined inside branches and matrix blocks the agreement of reference semantics, compiler, loader and machine models with each '
              'other and with the implementation is established per run by the oracle and correspondence comparisons, i.e. by testing, over '
              '~400 (quick) / ~6000 (thorough) scripts.'),
        note=COMMON_NOTE + 'Partial: the simulation theorem covers programs with if / else, `repeat while`, `repeat n`, endless `repeat`, the three loop forms with an index variable, the loops over all lights / groups / locations, `break`, routines (recursive ones too) called as statements or for a value a statement takes directly, and `return` (calls in bounds of indexed loops, operands and printf arguments, nested definitions and matrix blocks excluded) only -- the share of the generated scripts inside this fragment is in the evidence (`in_theorem_fragment`); arithmetic outside the modelled range (libm, rgb, ints beyond 2^53 with floats) is skipped and counted; device layer = repository fakes.',
        technique='Coq reference semantics + machine/compiler models; lemmas by induction; oracle and correspondence by vm_compute evaluation of generated cases',
        design='DESIGN.md 7 C01'),
    'C05': dict(
        text=('A static checker of loaded images (labels every position with loop depth and pending call contexts; jumps stay in their '
              'segment and preserve the label; LOOP/END_LOOP and CTX/JSR bracket; every JSR names a built-in or a routine whose body is a '
              'checked segment; routine bodies end at (0,0); nothing writes the pc) is proved sound for the machine model: every state '
              'reachable on a checked image, on every path whatever the data, has its pc inside the program and inside the segment of '
              'the routine in progress, and a frame stack of exactly the prescribed shape (induction over reachability through a control '
              'abstraction proved to cover all 32 op codes). The checker is evaluated in Coq on the image the REAL compiler and loader '
              'produce for every generated script (translation validation, including routines defined inside branches and loops). '
              'Loader theorems: the image is jump + routine blocks + all other instructions in order; the distance the code generator '
              'counts with equals the distance in the loaded main segment. For the structured fragment of the simulation theorem (covered statements, if / else, blocks, while / counted / indexed / endless loops, break, calls of routines including recursive ones, return; Lang/Simulation3.v) it is a theorem over all such programs and all condition values that control arrives where the source says -- behind the statement, at the END_LOOP of the innermost loop on a break, behind the call on a return -- with the stack the statement was entered with and frames that differ at most in the dictionary of the routine in progress; the loader theorem of Lang/SimulationTop.v places every routine body where the routine table says.'),
        note=COMMON_NOTE + 'The soundness theorem is about the machine model (tied to Machine.run by correspondence C on every run); that the compiler only produces checked images is established per generated script by running the checker, not by a theorem over all scripts.',
        technique='Coq-verified checker (soundness by induction over reachable states) + translation validation of real images',
        design='DESIGN.md 7 C05'),
    'C11': dict(
        text=('Theorems over all texts (any length) and all lists of alternatives: accepted text => match table equals what the text '
              'denotes; accepted => matches some time; rejected <=> malformed or denotes nothing; `or` = union of denoted minute sets. '
              'Proved against definitions regenerated from time_pattern.py on every run (translator) plus a hand-written matcher for '
              'the regular expression tied by text equality; correspondence runs compare the implementation with model and '
              'specification on all 15 851 well-formed patterns x 1 440 minutes.'),
        note=COMMON_NOTE + 'The hand-written regex matcher is tied to REGEX_SPEC by string equality and to `re` by the sweep; ASCII-only texts; Machine._time_pattern / Clock.wait_until are covered by differential runs, not by theorems.',
        technique='Coq proof (finite reflection lifted by structural lemmas) over translated definitions + exhaustive correspondence',
        design='DESIGN.md 7 C11'),
    'C02': dict(
        text=('The operator table (precedence, right-associative operators, binary-operator test) is regenerated from parser/token.py on every '
              'run and proved equal to the documented levels: ^ (right to left) above * / % above + - above comparisons above `and` above `or`, '
              'all others left to right; integer arithmetic, comparisons, division by zero, truthiness of numbers, the leading minus and the '
              'result set of randint vs randrange are stated on the shared arithmetic. The stack-machine lemma is proved for every call-free numeric '
              'expression tree of any size (Lang/ExprCompile.v): the emitted postfix code, wherever it sits and in whatever state, runs silently, '
              'changes only the evaluation stack and the pc and pushes the value of the tree, which is also the value the reference semantics '
              'computes. Grouping by the parser and equality of the value in every value position are decided per run: expression trees of depth '
              '<= 4 with minimal/redundant parentheses in every position are compiled by the real parser and by the tree-directed compiler model '
              '(must agree instruction for instruction) and run against the reference semantics; built-in sweeps; [random a b] with the library '
              'choice forced to its extremes.'),
        note=COMMON_NOTE + 'Partial: the theorem that the precedence-climbing parser returns the tree of every rendered expression (parse_render) is not proved: that link is the per-run compile correspondence; expressions containing calls are outside the stack-machine lemma; libm built-ins and float ** are outside the model.',
        technique='Coq lemmas over the regenerated operator table and the shared arithmetic; correspondence (compile) and oracle (reference semantics) runs on generated trees',
        design='DESIGN.md 7 C02'),
    'C03': dict(
        text=('Scoping laws proved on the reference semantics for all states and programs: a parameter/local hides a global for reads and '
              'writes; assignment targets parameter/local, else existing global, else a new local; every value position and call (nested, '
              'recursive, as argument or operand) returns with the caller\'s parameters and locals unchanged (induction on fuel); return '
              'ends the call from any depth and delivers its value. Refinement of the machine\'s call stack to that scoping: reads '
              '(get_variable), writes (put_variable on settled frames), loop frames transparent, a frame under construction invisible, '
              'return pops exactly the loop frames of the current call. Whole calls: for every call statement of a routine, all routine bodies covered, recursion and mutual recursion included (Lang/Simulation3.v, call_simulation, by induction on the fuel of the reference run; C01 for whole programs) the compiled CTX / PARAM / JSR / END_CTX sequence and the routine code run on the machine model exactly as the reference semantics says, arguments evaluated in the caller\'s scope, parameters by value in the routine\'s own dictionary, return from any loop depth, the caller\'s stack and frames as they were; and for `assign y [f ..]`, `hue [f ..]`, `print [f ..]`, `println [f ..]`, `return [f ..]` (call_value_simulation) the variable, register or output receives exactly the value the `return` gave, also when the call stands inside an expression (expression_call_simulation: `return {n * [fact {n - 1}]}`). Oracle/correspondence runs on routine-heavy generated scripts.'),
        note=COMMON_NOTE + 'The link from the refinement lemmas to whole-program behaviour is proved for call statements of routines with covered bodies, recursive or not (C01 lists the covered statement forms); calls in the bounds of indexed loops, in operands and two levels deep in arguments are compared per run.',
        technique='Coq refinement lemmas (call stack vs scope spec) + induction on fuel over the reference semantics; oracle and correspondence runs',
        design='DESIGN.md 7 C03'),
    'C04': dict(
        text=('On the reference semantics: `repeat n` runs a normally-completing body exactly n times for every n (induction), 0 or negative '
              'counts not at all; the two-bound form computes count |b-a|+1 and step +-1 and its values are exactly a..b in order either '
              'direction; interpolating and cycle forms over exact rationals: v_k = a + k*incr, both ends included, s + k*turn/n; while '
              're-tests before every pass; break ends the innermost loop only; light/group/location name lists and member lists are '
              'strictly sorted, duplicate free and exact, so each name is bound once in name order. On the compiled code: for `repeat with v from a to b`, `repeat n with v from a to b` and `repeat n with v cycle [start]` with a covered body the LOOP / count, first, last and increment arithmetic / test / body / count-down and step / END_LOOP sequence run on the machine model ends where the reference semantics says with the same events and variable values, also when the body breaks or returns (Lang/RangeLoop.v, Lang/CountWith.v, indexed_loop_simulation); for `repeat all as x`, `repeat group as g`, `repeat location as l` and `repeat in <lights, groups, locations joined by and> as x` (sources compiled last to first; a group or location contributes its members, DISCM / DNEXTM) with or without a `with` clause the scanning code (DISC / DNEXT from the last name to the first) leaves exactly the sorted names on the stack, first on top, and their number in the counter, and every pass binds the next name, each once, in name order, for every population including the empty one and one with an empty label (Lang/LightScan.v, Lang/LightLoop.v, light_loop_simulation), as C01 proves for `repeat n`, `repeat while` and plain `repeat`. Oracle/correspondence runs on '
              'loop-heavy generated scripts (every form, nesting, break positions, populations from 0 lights).'),
        note=COMMON_NOTE + 'Value-sequence closed forms are over exact arithmetic (Q / Z); binary64 accumulation of the increment is what the runs compare bit for bit. Index-variable binding by the compiled code is proved for the three forms with an index variable, light-variable binding for all four loops over lights (`repeat all / group / location / in <list>`).',
        technique='Coq proofs by induction on the iteration count over the reference semantics; closed forms over Q; oracle and correspondence runs',
        design='DESIGN.md 7 C04'),
    'C12': dict(
        text=('Retry decorator and the device layer modelled over per-request fault plans: for every n, tries makes at most n attempts and '
              'gives up exactly when the first n all fail; every request of every run is attempted at most three times and never re-sent '
              'after an answer; for all command lists, directories, plans and states the run never aborts because of a device outcome, an '
              'unknown name or a capability mismatch (only the script\'s own out-of-range row/column numbers abort); unknown and wrong-type '
              'targets change nothing; every device the plan leaves alone receives exactly the calls of the fault-free run (excluding runs '
              'whose register flow depends on an abandoned get, shown necessary); discovery is total and a failed one keeps the directory. '
              'Which methods carry @tries, the bound and the fail values are read from the source on every run; production wrappers run over '
              'a simulated network with exhaustive prefix fault patterns.'),
        note=COMMON_NOTE + 'Command-sequence level (programs reach it through the VM model of C01); the simulated network never hangs; logging of abandoned requests is observed by the harness only.',
        technique='Coq proof over fault plans (induction over command lists and attempt streams); shape/decorator tie by translator; exhaustive fault enumeration runs',
        design='DESIGN.md 7 C12'),
    'C06': dict(
        text=('Token-level model of the whole recursive-descent parser (Front/Parser.v: every statement form, the precedence-climbing expression '
              'parser, the symbol-table context) on top of the lexer model (Front/Lexer.v); its result type has exactly three outcomes -- accepted '
              'with a syntax tree, rejected with the line of the offending token, or fuel exhausted -- and the fuel 4*tokens+16 is checked per run. '
              'Theorems (Front/ParserProofs.v): break outside a loop, assignment to / redefinition of a macro, an undefined name in any value position, '
              'a routine defined inside a routine, a missing end, unbalanced braces / brackets / parentheses and a malformed time pattern are rejected '
              'by the model at the token concerned. Per run: Parser.parse never raises and names a line on mutated scripts, token soup and noise; '
              'model and implementation agree on accept / reject, error line and instruction list; every accepted image passes the verified '
              'control-flow checker of C05 and runs without an internal fault.'),
        note=COMMON_NOTE + 'That Python code never raises cannot be a Gallina theorem: it is exhibited by the runs. Forms outside the parser model (numbers beyond 15 digits, `not`, pause, breakpoint ...) are checked against the implementation only and counted.',
        technique='Coq model of lexer + parser with rejection lemmas; correspondence by vm_compute on generated / mutated / random texts; C05 checker on accepted images',
        design='DESIGN.md 7 C06'),
    'C16': dict(
        text=('Character-level model of the lexer (the regular-expression alternation as ordered choice, tied to lex.py by the translator: every '
              'regular expression, their order, the register list, the mark list, the keyword rule). Theorems: any white-space character between '
              'tokens is skipped; a comment runs to the end of its line; H/S/B/K are the four register names; the reserved words are exactly the '
              'documented keywords plus `not` and `breakpoint` (known finding D36); EVERY other name of the documented form -- any length, including '
              'case variants of keywords and the names of the internal token classes -- is lexed as a NAME with its own spelling; call brackets '
              'give identical code; braces round a single literal / variable / macro / register denote the same value. Per run: lexer model vs '
              'Lex.tokens on scripts, re-layouts, soup and noise; re-layouts (white space, line breaks, comments, abbreviations, tight operators, '
              'call brackets) must give the identical instruction list, braces round single values the same trace; names in five roles; strings.'),
        note=COMMON_NOTE + 'The theorem that lexing any rendering of a token list gives that list back (lex_layout) is not proved; layout invariance over whole scripts is decided by the differential runs. Braces round a single value change MOVEQ into PUSHQ/POP on every tree: read as an equivalent program.',
        technique='Coq model of the lexer with theorems over all names / all white space; translator-tied tables; metamorphic and correspondence runs',
        design='DESIGN.md 7 C16'),
    'C17': dict(
        text=('The translator extracts, for Parser, Context, CodeGen, Machine, Registers, VmIo and VmMath, every attribute the constructor creates and '
              'whether the method that starts a compile / a run re-initialises it (directly, through clear(), through a helper, or through the '
              'sub-object whose reset it calls); the model functions compile_on / run_on take the state earlier work left in the object and restore '
              'exactly the fields the source restores. Theorems: no field is left out; for EVERY left-over state the result of a compile equals that '
              'of a fresh compiler, and a run equals the run on a fresh machine -- after the same job was stopped after any number of '
              'instructions, after it finished, after any other job. Per run: histories of 2-9 compile requests (valid, cut off inside loop / routine '
              '/ matrix block, mutated, soup) on one Parser / ScriptJob; one ScriptJob executed repeatedly with stops at random instructions; '
              'job after job; instruction list unchanged by execution.'),
        note=COMMON_NOTE + 'The per-class allow-list of fields that need no reset (tables of bound methods, service objects, fields written before every read) is part of the translator and is trusted; that execution does not alter the program holds in the model by construction (the image is an argument of the step function) and is checked on the implementation per run.',
        technique='Coq proof over a reset model generated from the source (field table by translator); history-based differential runs',
        design='DESIGN.md 7 C17'),
    'C07': dict(
        text=('units.py, param_helper.py and colorsys are translated to Gallina on every run, once over binary64 (PrimFloat, bit-exact with CPython) and '
              'once over exact rationals. Theorems: for EVERY binary64 input (NaN, infinities, negative, huge) the clamps return integers inside '
              '0..65535 / 0..2^32-1, so whatever path a colour, power or duration takes to the device (single light, group, location, all, zones, '
              'matrix cells) it is transmitted in range; over Q the transmitted value is the nearest integer of the documented formula (hue*65536/360 '
              'mod 65536, pct*65535/100, seconds*1000, raw passthrough); all 65 536 raw values round-trip raw->logical->raw exactly in binary64 '
              '(exhaustive reflection); hsv<->rgb round trip over Q. Per run: translated functions vs the real ones on boundary and random inputs; '
              'every device path of the real VM vs the specification.'),
        note=COMMON_NOTE + 'The gap between binary64 and exact arithmetic before the final round() is not closed by a theorem; it is measured on every run (results needing the 1e-9 tie tolerance are counted).',
        technique='Coq proof over translated definitions (PrimFloat range lemmas, exact-rational nearest-integer lemmas, exhaustive 65 536-value reflection); correspondence and oracle runs',
        design='DESIGN.md 7 C07'),
    'C08': dict(
        text=('Model of JobControl at shared-access granularity (every read / write of the queue, the active job, the background list and the lock is '
              'one step of one thread). Theorems for EVERY assignment of job bodies (finish / raise / run until stopped), every list of client programs '
              '(any number of threads calling add_job, insert_job, spawn_job, clear_queue, stop, queries) and EVERY schedule: at most one queued job '
              'runs at a time; jobs start in queue order; each job starts at most once and, when the system is quiescent, exactly once unless '
              'cleared; a raising job does not block its successors; no deadlock; termination measure; background jobs are visible exactly while they '
              'run. The pinned is_running double read is refuted by a concrete schedule. Per run: the real JobControl under a deterministic '
              'thread scheduler, every history accepted by the proved-sound oracle.'),
        note=COMMON_NOTE + 'Thread interleavings below the granularity of one shared access (the GIL makes attribute reads / writes atomic) and the 1 s lock time-out (modelled as blocking) are outside the model.',
        technique='Coq proof: invariants by induction over all schedules of an interleaving model; oracle soundness; schedule-controlled runs of the real threads',
        design='DESIGN.md 7 C08'),
    'C09': dict(
        text=('Interleaving model of requester, job thread and clock thread of one machine in the order the Python performs its shared accesses; '
              'scripts are arbitrary instruction streams with delays and time-of-day waits. Theorems for every script, every schedule and every point '
              'at which stop() is called: the stop flag sticks until the run has ended; the job thread ends within a bounded number of its own steps '
              'and is never blocked; a stop belongs to one run (the same job started again runs); stop-all leaves the queue empty and the next job '
              'starts. The pinned defects (early stop lost, time-at loop unstoppable, lost wake-up, flag overwritten by the clock thread, late stop '
              'poisoning the next run) are each refuted by a concrete schedule of the pinned variant. Source texts tied by the translator; the real '
              'Machine / Clock / Agent run under a deterministic scheduler on generated schedules.'),
        note=COMMON_NOTE + 'Wall-clock promptness (a tick is 0.1 s) is outside the model: prompt = bounded number of job-thread steps after the request; OS scheduling fairness is assumed.',
        technique='Coq proof over an interleaving model (all schedules), refutation witnesses for the pinned variants; schedule-controlled differential runs',
        design='DESIGN.md 7 C09'),
    'C10': dict(
        text=('Model of Clock (reset / et / pause_for / wait_until) and Machine._wait as seen from the script thread, over exact rational time, with the '
              'rest of the world (clock readings, ticks, spurious wake-ups) an arbitrary list of observations. Theorems for every list of delays and '
              'every observation list: a command is never issued before its cue (sum of the delays since the last restart); the wait returns at the '
              'first tick at or after the cue, so within one tick; lateness is not accumulated; a script behind schedule does not wait; a time-of-day '
              'wait restarts the time line; zero never blocks; raw units are milliseconds and logical units seconds. Source texts tied by the '
              'translator; the real Clock and Machine are run against a simulated time source.'),
        note=COMMON_NOTE + 'Real wall-clock behaviour (time.monotonic, thread wake-up latency) is replaced by the observation list; binary64 rounding of the time sums is outside the model (Q).',
        technique='Coq proof over an observation-list model with exact rational time; shape-tied model; simulated-clock differential runs',
        design='DESIGN.md 7 C10'),
    'C14': dict(
        text=('Model of Registers and _switch_unit_mode over the translated conversions. Theorems: switching to the current mode is the identity; a '
              'switch changes only the documented registers (kelvin, power, name, operands ... untouched: frame); over binary64 a switch to raw '
              'preserves what is transmitted, and for all 65 536 raw values of every register raw->logical->raw transmission is unchanged '
              '(exhaustive reflection); over Q any chain of switches of any length preserves the transmitted colour, duration and pending delay. '
              'Per run: the real Machine executes scripts with unit switches between settings and the transmitted values are compared with the '
              'single-mode script.'),
        note=COMMON_NOTE + 'Over binary64 the logical->raw->logical direction is covered by the sweep and the runs, not by a theorem for every float (values that are not images of raw integers move by at most one unit, measured per run).',
        technique='Coq proof over translated definitions (frame lemma, exhaustive reflection, exact-rational chain induction); correspondence runs',
        design='DESIGN.md 7 C14'),
    'C18': dict(
        text=('The script ScriptSnapshot.generate writes is modelled as text (snapshot_text) and as the syntax tree that text denotes (snapshot_ast), with the '
              'device commands the tree means (replay_events). Theorems: for EVERY population with distinct names -- any mix of plain, multizone and '
              'matrix lights, any zone counts and matrix sizes, any captured values -- and every state the same devices are in at replay time, '
              'applying replay_events leaves every light, zone and cell in the captured state, and only captured devices are addressed; in raw '
              'mode registers holding integers in 0..65535 are transmitted unchanged (no conversion, clamping or rounding); a name with any '
              'characters other than a double quote, written between quotes and followed by the rest of its line, is lexed as one string token '
              'whose content is the name. For populations of PLAIN lights the chain is closed inside the models: the reference semantics of the '
              'generated tree is exactly the replay commands, and the compiled script run on the machine model against any population that still '
              'has those lights issues exactly those commands (via the forward simulation of C01). Per run, on generated populations: the real generator writes snapshot_text; the real parser accepts it '
              'and the parser model turns it into snapshot_ast\'s instructions; the reference semantics runs snapshot_ast to exactly '
              'replay_events; the real Machine replays the script on simulated devices in another state and the state read back equals the capture.'),
        note=COMMON_NOTE + 'The three links text -> tree -> commands are established per generated population by evaluation inside Coq (and for the lexing of quoted names by a theorem), not by one theorem over all populations; the simulated multizone light has at most 16 zones; power memory is added to the simulated lights by the harness.',
        technique='Coq proof (induction over populations and zone lists, register lemma, lexer lemma) + per-case evaluation of the three model links + round-trip runs on the real generator, compiler and machine',
        design='DESIGN.md 7 C18'),
    'C20': dict(
        text=('Model of WebApp/FrontEnd over an abstract job controller with URL resolution in blueprint order; theorems for all manifests and '
              'all request/completion histories: only manifest-listed files are ever handed to the controller, under the entry\'s path; an '
              'unlisted path starts nothing; a running script is not restarted; documented default path/title derivation (str.title modelled); '
              'html.escape proved to remove every metacharacter and to be injective, applied to the five escaped fields of every page view; '
              'stop / stop-current / stop-all target exactly the named, current, all jobs; status and capture render. Route table, escaped '
              'field list and method texts tied to the source by the translator; real WebApp + FrontEnd + JobControl + ScriptJob run against a '
              'Flask stub with hostile manifests.'),
        note=COMMON_NOTE + 'Flask is stubbed (Blueprint, render_template, request); that pages render without a Python exception is exhibited by the differential runs only; job execution is gated for determinism.',
        technique='Coq proof: invariant over request histories, refinement model => spec, string lemmas for html.escape/str.title; shape-tied model; oracle and correspondence runs',
        design='DESIGN.md 7 C20'),
    'C13': dict(
        text=('Model of SortedList and LightSet with the invariant dir_inv proved for every reachable state (any history length, any strings), '
              'boolean invariant proved equivalent and evaluated on the real state after every step; expiry removes exactly the lights older '
              'than the configured age with all memberships; every getter is a function of the abstract map name -> (group, location, last '
              'seen); next/prev from any probe = least greater / greatest smaller; iterate-while-removing visits every remaining element once, '
              'in order, and terminates; CPython\'s bisect loops proved correct. Real LightSet driven through exhaustive short histories and '
              'random long ones; VmDiscover walks with discoveries and expiries between steps.'),
        note=COMMON_NOTE + 'LightSet is unlocked: changes happen between steps, not during them (assumption). Fake LightApi and patched time in the harness.',
        technique='Coq proof: inductive invariant over histories, refinement to an abstract map, sorted-list lemmas; exhaustive + random correspondence',
        design='DESIGN.md 7 C13'),
    'C15': dict(
        text=('Command-level machine of zone / matrix commands (Lang/Matrix.v) proved equal to the cell-wise specification for any '
              'matrix size, any number of stages and statements (induction): zone range exact; each cell carries the last covering '
              'stage converted as a plain set converts it, else the default, else black; sent exactly once; inline = single-stage '
              'block; omitted clauses; float indices rounded; out-of-range / negative / reversed ranges characterised. Source shape '
              'of 43 functions tied by normalised-text comparison (translator plugin); every generated script runs through the real '
              'Parser + Machine on the repository fakes and on the production wrappers over recording devices.'),
        note=COMMON_NOTE + 'Theorems are parametric in the colour conversion; the float conversion itself is C07/C14. Out-of-domain rectangles abort the script (stated as theorems, not demanded otherwise).',
        technique='Coq proof by induction over stages/statements, parametric in conversions; shape-tied model; correspondence + oracle runs',
        design='DESIGN.md 7 C15'),
    'C19': dict(
        text=('StdOutOutput + VmIo + io_parser modelled as a state machine over one persistent sink; str.format modelled for the '
              'documented subset (literal text, {{ }}, fields {} {n} {name} with specs [<>^]N, d, .Nf, s ...; float rendering computed '
              'exactly from the binary64 value). Theorems for every sequence and nesting of print/println/printf events: stdout text = '
              'the specification rendering (single separating space on a line, println ends the line, no separator after text ending '
              'in a line break, printf = str.format of its own values); positional field count at compile time = values consumed at run '
              'time for all strings; everything pending is written at job end; a job is independent of the sink state it starts in. '
              'Source texts of 20+ methods tied by normalised-text comparison; jobs run with the production binding, sys.stdout captured; '
              'str.format tie against CPython on thousands of format strings per run.'),
        note=COMMON_NOTE + 'Format strings outside the modelled subset (nested fields, conversions, attribute/index names, fill/sign/#/0 flags) are Unsupported and excluded; relative order with device commands inside the VM is C01\'s; PrimFloat primitives appear in Print Assumptions (Prim2SF).',
        technique='Coq proof by mutual induction over output-event trees + exact float formatting; shape-tied model; oracle and correspondence runs',
        design='DESIGN.md 7 C19'),
}


def main():
    props = [json.loads(l) for l in open(os.path.join(HERE, 'properties.jsonl'))]
    checks = []
    for pid in sorted(CLAIMS):
        c = CLAIMS[pid]
        checks.append({
            'property_id': pid,
            'quick_cmd': './check %s --tier quick' % pid,
            'thorough_cmd': './check %s --tier thorough' % pid,
            'evidence_file': '/verif/evidence/%s.json' % pid,
            'replay_cmd_template': './check %s --replay {path}' % pid,
            'engine': 'coq-proof',
            'level_claimed': {'category': 'proof', 'text': c['text'], 'design_ref': c['design']},
            'level_note': c['note'],
            'technique': c['technique'],
        })
    m = {
        'version': 1,
        'setup_cmd': './setup.sh',
        'hooks': {'guard': 'BARDOLPH_VERIF',
                  'enable': 'no hooks: the harness observes the implementation by monkey-patching from outside /repo',
                  'baseline_off_cmd': 'cd /repo && /venv/bin/python -m pytest -ra -q -p no:cacheprovider --timeout=900 --continue-on-collection-errors',
                  'source_commits': [], 'add_only': True},
        'engines': [{'name': 'coq-proof', 'path': '/verif/coq', 'serves_properties': sorted(CLAIMS),
                     'kind_free_text': 'Coq 8.16.1 development (models, specifications, theorems) + translator tools/py2coq.py + correspondence harness /verif/harness'}],
        'checks': checks,
        'notes': 'See DESIGN.md. Repairs of genuine defects are `fix:` commits in /repo, listed in KNOWN_FINDINGS.txt.',
        'not_applicable': [{'property_id': p['id'], 'reason': 'check not merged yet (work in progress, see DESIGN.md section 10 build order)'}
                           for p in props if p['id'] not in CLAIMS],
    }
    json.dump(m, open(os.path.join(HERE, 'MANIFEST.json'), 'w'), indent=1)
    print('claimed:', ' '.join(sorted(CLAIMS)))


if __name__ == '__main__':
    main()
