"""py2coq generator for the thread/time code of C09 and C10: bardolph/lib/clock.py,
Machine.run/stop/reset/_wait, ScriptJob.execute/request_stop, Agent, the stop methods of
JobControl and WebApp.stop_all.

These methods are modelled by hand (coq/Time/Clock.v, coq/Time/Stop.v).  The tie to the source
is an exact comparison of each method's normalised text (ast.unparse, docstrings and comments
dropped) with the text(s) the model was written from.  Where two texts are accepted -- the
pinned one and the repaired one -- a boolean tells the model which behaviour is in force; the
theorems need the repaired ones, so on the pinned tree the proofs break and the models still
evaluate (and exhibit the defect).  A text that matches no accepted variant sets the
corresponding `known` flag to false: proofs break, the harness falls back on the
specification as oracle.  Output: Gen/ClockGen.v (booleans only)."""
import ast
import os
from py2coq_core import find_class, find_func


def norm(src):
    return ast.unparse(ast.parse(src))


def fn_src(fn):
    body = [s for s in fn.body
            if not (isinstance(s, ast.Expr) and isinstance(s.value, ast.Constant) and isinstance(s.value.value, str))]
    return '\n'.join(ast.unparse(s) for s in body)


def fn_stmts(fn):
    return [ast.unparse(s) for s in fn.body
            if not (isinstance(s, ast.Expr) and isinstance(s.value, ast.Constant) and isinstance(s.value.value, str))]


def method(tree, cls, name):
    c = find_class(tree, cls)
    for n in c.body:
        if isinstance(n, ast.FunctionDef) and n.name == name:
            return n
    return None


def text(tree, cls, name):
    m = method(tree, cls, name)
    return None if m is None else fn_src(m)


# ---------------------------------------------------------------------------
# accepted texts

CLOCK_INIT = norm("""
self._event = threading.Event()
self._start_time = 0.0
self._cue_time = 0.0
self._keep_going = True
""")
# Clock.start / Clock.run: pinned = the clock thread re-arms _keep_going itself (D43);
# repaired = start() re-arms before the thread is started.
CLOCK_START_PINNED = norm("""
self.reset()
threading.Thread(target=self.run, args=(), daemon=True).start()
""")
CLOCK_START_REPAIRED = norm("""
self.reset()
self._keep_going = True
threading.Thread(target=self.run, args=(), daemon=True).start()
""")
CLOCK_RUN_TAIL = """
sleep_time = float(settings.get_value('sleep_time'))
while self._keep_going:
    if sleep_time > 0.0:
        time.sleep(sleep_time)
    self.fire()
"""
CLOCK_RUN_PINNED = norm("self._keep_going = True" + CLOCK_RUN_TAIL)
CLOCK_RUN_REPAIRED = norm(CLOCK_RUN_TAIL)
CLOCK_STOP = norm("self._keep_going = False")
CLOCK_RESET = norm("""
self._cue_time = 0.0
self._start_time = now()
""")
CLOCK_ET = norm("return time.time() - self._start_time")
CLOCK_FIRE = norm("""
self._event.set()
self._event.clear()
""")
CLOCK_WAIT_BLOCKING = norm("""
if self._keep_going:
    self._event.wait()
return self._keep_going
""")
CLOCK_WAIT_TIMEOUT = norm("""
if self._keep_going:
    self._event.wait(1.0)
return self._keep_going
""")
CLOCK_PAUSE_FOR = norm("""
self._cue_time += delay
while self.et() < self._cue_time:
    if not self.wait():
        break
""")
CLOCK_WAIT_UNTIL_IGNORES = norm("""
hour, minute = Clock._hour_minute()
while not time_pattern.match(hour, minute):
    self.wait()
    hour, minute = Clock._hour_minute()
self.reset()
""")
CLOCK_WAIT_UNTIL_CHECKS = norm("""
hour, minute = Clock._hour_minute()
while not time_pattern.match(hour, minute):
    if not self.wait():
        break
    hour, minute = Clock._hour_minute()
self.reset()
""")
CLOCK_HOUR_MINUTE = norm("""
now = datetime.now()
return (now.hour, now.minute)
""")
MODULE_NOW = norm("return time.time()")

RUN_HEAD = """
loader = Loader()
loader.load(program)
self._routines = loader.get_routines()
self._program = loader.get_code()
%s
logging.debug('Starting to execute.')
self._clock.start()
program_len = len(self._program)
try:
    while self._keep_running and self._reg.pc < program_len:
        inst = self._program[self._reg.pc]
        if inst.op_code == OpCode.STOP:
            break
        fn = self._fn_table[inst.op_code]
        fn()
        if inst.op_code not in (OpCode.END, OpCode.JSR, OpCode.JUMP):
            self._reg.pc += 1
    self._clock.stop()
    self._vm_io.flush()
    logging.debug('Stopped, _keep_running = {}, _pc = {}, program_len = {}'.format(self._keep_running, self._reg.pc, program_len))
except Exception as ex:
    logging.error('Machine stopped due to {} at instruction {}'.format(ex, self._reg.pc))
%s
"""
MACHINE_RUN_PINNED = norm(RUN_HEAD % ('self._keep_running = True', ''))
MACHINE_RUN_REPAIRED = norm(RUN_HEAD % ('', 'finally:\n    self._keep_running = True'))
MACHINE_STOP = norm("""
self._keep_running = False
self._clock.stop()
""")
# Machine.reset: statements that do not touch anything shared between threads; the one
# that matters is the re-arming of the run flag.
RESET_NEUTRAL = {norm(s) for s in (
    "self._reg.reset()", "self._constants.clear()", "self._globals.clear()", "self._routines.clear()",
    "self._cue_time = 0", "self._call_stack.reset(self._constants)", "self._vm_math.reset()",
    "self._vm_io.reset()", "self._enable_pause = True")}
RESET_REARM = norm("self._keep_running = True")
MACHINE_WAIT = norm("""
time = self._reg.time
if isinstance(time, TimePattern):
    self._clock.wait_until(time)
elif time > 0:
    if self._reg.unit_mode is UnitMode.RAW:
        time /= 1000.0
    self._clock.pause_for(time)
""")
MACHINE_INIT_FLAG = norm("self._keep_running = True")
JOB_EXECUTE = norm("""
if self._program is not None:
    self._machine.reset()
    self._machine.run(self._program)
""")
JOB_REQUEST_STOP = norm("self._machine.stop()")
AGENT_EXECUTE_PINNED = norm("""
self._thread = threading.Thread(target=self._execute_and_call)
self._thread.start()
return self
""")
# repaired (D44): whoever starts a run re-arms the job before the job thread exists
AGENT_EXECUTE_PREPARES = norm("""
prepare = getattr(self._job, 'prepare', None)
if prepare is not None:
    prepare()
self._thread = threading.Thread(target=self._execute_and_call)
self._thread.start()
return self
""")
JOB_PREPARE = norm("self._machine.prepare()")
MACHINE_PREPARE = norm("self._keep_running = True")
AGENT_EXECUTE_AND_CALL = norm("""
try:
    self._job.execute()
finally:
    self._callback(self)
""")
AGENT_REQUEST_STOP = norm("self._job.request_stop()")
JC_CLEAR_QUEUE_PINNED = norm("self._queue.clear()")
JC_CLEAR_QUEUE_LOCKED = norm("""
if self._acquire_lock():
    try:
        self._queue.clear()
    finally:
        self._release_lock()
""")
JC_STOP_CURRENT_PINNED = norm("""
if self._active_agent is not None and self._active_agent.is_running():
    if self._acquire_lock():
        try:
            self._active_agent.request_stop()
        finally:
            self._release_lock()
        return True
return False
""")
JC_STOP_CURRENT_LOCAL = norm("""
agent = self._active_agent
if agent is not None and agent.is_running():
    if self._acquire_lock():
        try:
            agent.request_stop()
        finally:
            self._release_lock()
        return True
return False
""")
JC_STOP_JOB = norm("""
result = False
if self._acquire_lock():
    try:
        if self._active_agent is not None and self._active_agent.name == name:
            self._active_agent.request_stop()
            result = True
        elif name in self._background:
            self._background[name].request_stop()
            result = True
    finally:
        self._release_lock()
return result
""")
JC_STOP_BACKGROUND = norm("""
result = False
if self._acquire_lock():
    result = True
    try:
        agents = self.get_background()
        if agents is not None:
            for agent in list(agents).copy():
                agent.request_stop()
    finally:
        self._release_lock()
return result
""")
JC_ON_EXECUTION_DONE = norm("""
if self._acquire_lock():
    try:
        self._active_agent = None
    finally:
        self._release_lock()
    self._run_next_job()
""")
JC_RUN_NEXT_JOB = norm("""
if self._acquire_lock():
    try:
        if self._active_agent is None and len(self._queue) > 0:
            self._active_agent = self._queue.popleft()
            self._active_agent.execute()
    finally:
        self._release_lock()
""")
WEB_STOP_ALL = norm("""
self._jobs.clear_queue()
result1 = self._jobs.stop_current()
result2 = self._jobs.stop_background()
return result1 and result2
""")


def gen_clock(repo):
    shape = {}
    ctree = ast.parse(open(os.path.join(repo, 'bardolph/lib/clock.py')).read())
    mtree = ast.parse(open(os.path.join(repo, 'bardolph/vm/machine.py')).read())
    stree = ast.parse(open(os.path.join(repo, 'bardolph/controller/script_job.py')).read())
    jtree = ast.parse(open(os.path.join(repo, 'bardolph/lib/job_control.py')).read())
    wtree = ast.parse(open(os.path.join(repo, 'web/web_app.py')).read())

    def c(name):
        return text(ctree, 'Clock', name)
    now_fn = [n for n in ctree.body if isinstance(n, ast.FunctionDef) and n.name == 'now']
    shape['clock_now_std'] = bool(now_fn) and fn_src(now_fn[0]) == MODULE_NOW
    shape['clock_init_std'] = c('__init__') == CLOCK_INIT
    shape['clock_rearms_in_run'] = c('start') == CLOCK_START_PINNED and c('run') == CLOCK_RUN_PINNED        # pinned (D43)
    shape['clock_rearms_in_start'] = c('start') == CLOCK_START_REPAIRED and c('run') == CLOCK_RUN_REPAIRED  # repaired
    shape['clock_stop_std'] = c('stop') == CLOCK_STOP
    shape['clock_reset_std'] = c('reset') == CLOCK_RESET
    shape['clock_et_std'] = c('et') == CLOCK_ET
    shape['clock_fire_std'] = c('fire') == CLOCK_FIRE
    shape['clock_hour_minute_std'] = c('_hour_minute') == CLOCK_HOUR_MINUTE
    shape['wait_blocking'] = c('wait') == CLOCK_WAIT_BLOCKING           # pinned (D22)
    shape['wait_timeout'] = c('wait') == CLOCK_WAIT_TIMEOUT             # repaired
    shape['pause_for_std'] = c('pause_for') == CLOCK_PAUSE_FOR
    shape['wait_until_ignores_stop'] = c('wait_until') == CLOCK_WAIT_UNTIL_IGNORES   # pinned (D20)
    shape['wait_until_checks_stop'] = c('wait_until') == CLOCK_WAIT_UNTIL_CHECKS     # repaired
    known = {'__init__', 'start', 'run', 'stop', 'reset', 'et', 'fire', 'wait', 'pause_for', 'wait_until', '_hour_minute'}
    names = {n.name for n in find_class(ctree, 'Clock').body if isinstance(n, ast.FunctionDef)}
    shape['clock_no_unknown_methods'] = names == known

    def m(name):
        return text(mtree, 'Machine', name)
    run = m('run')
    shape['run_rearms_at_start'] = run == MACHINE_RUN_PINNED            # pinned (D21)
    shape['run_rearms_at_end'] = run == MACHINE_RUN_REPAIRED            # repaired
    shape['machine_stop_std'] = m('stop') == MACHINE_STOP
    reset = fn_stmts(method(mtree, 'Machine', 'reset'))
    shape['reset_known'] = all(s in RESET_NEUTRAL or s == RESET_REARM for s in reset)
    shape['reset_rearms'] = RESET_REARM in reset                         # pinned (D21)
    shape['machine_wait_std'] = m('_wait') == MACHINE_WAIT
    init = fn_stmts(method(mtree, 'Machine', '__init__'))
    shape['machine_init_arms'] = MACHINE_INIT_FLAG in init
    # nothing else in machine.py assigns the run flag
    writers = set()
    for fn in find_class(mtree, 'Machine').body:
        if isinstance(fn, ast.FunctionDef):
            for n in ast.walk(fn):
                if isinstance(n, (ast.Assign, ast.AugAssign, ast.AnnAssign)):
                    tg = n.targets if isinstance(n, ast.Assign) else [n.target]
                    for t in tg:
                        if isinstance(t, ast.Attribute) and t.attr == '_keep_running':
                            writers.add(fn.name)
    shape['run_flag_writers_known'] = writers <= {'__init__', 'reset', 'run', 'stop', 'prepare'}

    shape['job_execute_std'] = text(stree, 'ScriptJob', 'execute') == JOB_EXECUTE
    shape['job_request_stop_std'] = text(stree, 'ScriptJob', 'request_stop') == JOB_REQUEST_STOP
    agent_rest = (text(jtree, 'Agent', '_execute_and_call') == AGENT_EXECUTE_AND_CALL
                  and text(jtree, 'Agent', 'request_stop') == AGENT_REQUEST_STOP)
    has_prepare = method(mtree, 'Machine', 'prepare') is not None
    shape['agent_no_prepare'] = (agent_rest and text(jtree, 'Agent', 'execute') == AGENT_EXECUTE_PINNED
                                 and not has_prepare)                                          # pinned (D44)
    shape['agent_prepares'] = (agent_rest and text(jtree, 'Agent', 'execute') == AGENT_EXECUTE_PREPARES
                               and text(stree, 'ScriptJob', 'prepare') == JOB_PREPARE
                               and has_prepare and m('prepare') == MACHINE_PREPARE)             # repaired
    shape['jc_clear_queue_unlocked'] = text(jtree, 'JobControl', 'clear_queue') == JC_CLEAR_QUEUE_PINNED    # pinned (D46)
    shape['jc_clear_queue_locked'] = text(jtree, 'JobControl', 'clear_queue') == JC_CLEAR_QUEUE_LOCKED      # repaired
    shape['jc_stop_current_rereads'] = text(jtree, 'JobControl', 'stop_current') == JC_STOP_CURRENT_PINNED  # pinned (D45)
    shape['jc_stop_current_local'] = text(jtree, 'JobControl', 'stop_current') == JC_STOP_CURRENT_LOCAL     # repaired
    shape['jc_stop_job_std'] = text(jtree, 'JobControl', 'stop_job') == JC_STOP_JOB
    shape['jc_stop_background_std'] = text(jtree, 'JobControl', 'stop_background') == JC_STOP_BACKGROUND
    shape['jc_on_execution_done_std'] = text(jtree, 'JobControl', '_on_execution_done') == JC_ON_EXECUTION_DONE
    shape['jc_run_next_job_std'] = text(jtree, 'JobControl', '_run_next_job') == JC_RUN_NEXT_JOB
    shape['web_stop_all_std'] = text(wtree, 'WebApp', 'stop_all') == WEB_STOP_ALL

    out = ['(* GENERATED by tools/py2coq.py (gen_clock) from bardolph/lib/clock.py, bardolph/vm/machine.py,',
           '   bardolph/controller/script_job.py, bardolph/lib/job_control.py, web/web_app.py -- do not edit. *)', '']
    for k in sorted(shape):
        out.append('Definition shape_%s : bool := %s.' % (k, 'true' if shape[k] else 'false'))
    return '\n'.join(out) + '\n'


GENERATORS = {
    'ClockGen.v': gen_clock,
}
