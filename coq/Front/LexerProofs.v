(* C16: the lexer model -- white space is insignificant, the abbreviations stand for the
   register names, and every name of the documented form that is not a documented word is
   an ordinary name. *)
From Coq Require Import ZArith String Ascii List Bool Lia.
From Bardolph Require Import Base.PyStr Gen.CharClasses Gen.TokenTables Gen.LexGen Time.TimeSpec Front.Lexer.
Open Scope string_scope.
Open Scope list_scope.
Import ListNotations.
Open Scope Z_scope.
Open Scope bool_scope.

(* ties to the source text *)
Lemma lex_source_current :
  lex_pieces_modelled = true /\ lex_alternation_order_modelled = true /\ lex_tokens_modelled = true /\
  lex_token_type_modelled = true /\ lex_keywords_lowercase_only = true /\ lex_unabbreviate_modelled = true.
Proof. repeat split; reflexivity. Qed.

(* the words the language reference uses as keywords (lower case) *)
Definition documented_keywords : list string :=
  ["all"; "and"; "as"; "assign"; "at"; "begin"; "break"; "column"; "cycle"; "default"; "define"; "else"; "end"; "from";
   "get"; "group"; "if"; "in"; "location"; "logical"; "off"; "on"; "or"; "print"; "printf"; "println"; "pause"; "raw";
   "row"; "repeat"; "return"; "rgb"; "set"; "stage"; "to"; "units"; "while"; "with"; "wait"; "zone"].
(* reserved by the implementation although the reference does not list them (D36) *)
Definition undocumented_reserved : list string := ["breakpoint"; "not"].

Definition lower_ch (c : ascii) : ascii :=
  let n := nat_of_ascii c in if Nat.leb 65 n && Nat.leb n 90 then ascii_of_nat (n + 32) else c.
Fixpoint lower_str (s : string) : string :=
  match s with EmptyString => EmptyString | String c r => String (lower_ch c) (lower_str r) end.
Definition lower_name (t : token_type) : string := lower_str (token_type_name t).

(* the reserved words are exactly the lower-case names of the token classes a script can spell *)
Definition reserved_words : list string :=
  map lower_name (filter (fun t => negb (existsb (token_type_eqb t) tt_is_internal_list)) all_token_type).

Lemma reserved_words_are :
  forall w, In w reserved_words <-> In w documented_keywords \/ In w undocumented_reserved.
Proof.
  assert (H : forall w, existsb (String.eqb w) reserved_words = existsb (String.eqb w) (documented_keywords ++ undocumented_reserved) \/ True) by (intros; right; exact I).
  clear H.
  assert (Hsub1 : forallb (fun w => existsb (String.eqb w) (documented_keywords ++ undocumented_reserved)) reserved_words = true) by (vm_compute; reflexivity).
  assert (Hsub2 : forallb (fun w => existsb (String.eqb w) reserved_words) (documented_keywords ++ undocumented_reserved) = true) by (vm_compute; reflexivity).
  intros w. rewrite <- in_app_iff. split; intros Hin.
  - rewrite forallb_forall in Hsub1. specialize (Hsub1 w Hin). apply existsb_exists in Hsub1.
    destruct Hsub1 as [x [Hx He]]. apply String.eqb_eq in He. subst x. exact Hx.
  - rewrite forallb_forall in Hsub2. specialize (Hsub2 w Hin). apply existsb_exists in Hsub2.
    destruct Hsub2 as [x [Hx He]]. apply String.eqb_eq in He. subst x. exact Hx.
Qed.

(* white space between tokens is insignificant: a white-space character is skipped *)
Lemma space_matches_nothing c r : is_space c = true -> first_match (String c r) = None.
Proof.
  intros Hs.
  assert (Hfin : forallb (fun n => let ch := ascii_of_nat n in
            negb (is_space ch) ||
            (negb (is_dig ch) && negb (Ascii.eqb ch star) && negb (is_alpha_ ch) && negb (is_mark_char ch) &&
             negb (chr_eq ch 60) && negb (chr_eq ch 62) && negb (chr_eq ch 61) && negb (chr_eq ch 33) &&
             negb (chr_eq ch quote) && negb (chr_eq ch 46))) (seq 0 256) = true) by (vm_compute; reflexivity).
  rewrite forallb_forall in Hfin. specialize (Hfin (nat_of_ascii c)).
  rewrite ascii_nat_embedding in Hfin. cbv zeta in Hfin.
  assert (Hlt : In (nat_of_ascii c) (seq 0 256)) by (apply in_seq; pose proof (nat_ascii_bounded c); lia).
  specialize (Hfin Hlt). rewrite Hs in Hfin. cbn [negb orb] in Hfin.
  repeat (apply andb_true_iff in Hfin; destruct Hfin as [Hfin ?]).
  repeat match goal with H : negb _ = true |- _ => apply negb_true_iff in H end.
  unfold first_match.
  assert (Ht : alt_time (String c r) = None).
  { unfold alt_time, regex_match. cbn [first_some hour_alts match_elems elem_ok].
    unfold re_is_digit in *. unfold is_dig in *. unfold re_is_digit in *.
    repeat match goal with H : _ = false |- _ => rewrite H end. cbn. reflexivity. }
  rewrite Ht.
  assert (Hc : alt_cmp (String c r) = None).
  { unfold alt_cmp. destruct r as [|b r']; repeat match goal with H : chr_eq c _ = false |- _ => rewrite H end; cbn; try reflexivity.
    rewrite andb_false_r. reflexivity. }
  rewrite Hc.
  assert (Hq : alt_string (String c r) = None) by (unfold alt_string; match goal with H : chr_eq c quote = false |- _ => rewrite H end; reflexivity).
  rewrite Hq.
  assert (Hn : alt_number (String c r) = None).
  { unfold alt_number. cbn [span_while]. match goal with H : is_dig c = false |- _ => rewrite H end.
    match goal with H : chr_eq c 46 = false |- _ => rewrite H end. reflexivity. }
  rewrite Hn.
  assert (Hna : alt_name (String c r) = None) by (unfold alt_name; match goal with H : is_alpha_ c = false |- _ => rewrite H end; reflexivity).
  rewrite Hna.
  assert (Hm : alt_mark (String c r) = None) by (unfold alt_mark; match goal with H : is_mark_char c = false |- _ => rewrite H end; reflexivity).
  rewrite Hm.
  unfold alt_default. cbn [span_while]. rewrite Hs. reflexivity.
Qed.

Theorem whitespace_is_skipped f c r line : is_space c = true -> lex_line (S f) (String c r) line = lex_line f r line.
Proof. intros Hs. cbn [lex_line]. rewrite (space_matches_nothing c r Hs). reflexivity. Qed.

(* H / S / B / K stand for the four register names *)
Theorem abbreviations :
  unabbreviate "H" = "hue" /\ unabbreviate "S" = "saturation" /\ unabbreviate "B" = "brightness" /\ unabbreviate "K" = "kelvin" /\
  word_type "hue" = TT_REGISTER /\ word_type "saturation" = TT_REGISTER /\ word_type "brightness" = TT_REGISTER /\ word_type "kelvin" = TT_REGISTER.
Proof. repeat split; vm_compute; reflexivity. Qed.

(* a comment runs to the end of its line *)
Theorem comment_ends_line f r line : lex_line (S f) (String "#"%char r) line = [].
Proof.
  cbn [lex_line].
  assert (H : first_match (String "#"%char r) = Some ("#", r)).
  { unfold first_match.
    assert (alt_time (String "#"%char r) = None) as -> by reflexivity.
    assert (alt_cmp (String "#"%char r) = None) as ->.
    { destruct r as [|b r']; [reflexivity|]. unfold alt_cmp.
      replace (chr_eq "#"%char 61 || chr_eq "#"%char 60 || chr_eq "#"%char 62 || chr_eq "#"%char 33) with false by reflexivity.
      rewrite andb_false_r. reflexivity. }
    reflexivity. }
  rewrite H. reflexivity.
Qed.

(* ---------- names ---------- *)
(* the documented form of a name: a letter or underscore, then letters, digits, underscores *)
Definition name_form (w : string) : bool :=
  match w with
  | String c r => is_alpha_ c && forallb is_alnum_ (list_ascii_of_string r)
  | EmptyString => false
  end.

Lemma byte_cases (P : ascii -> bool) :
  forallb (fun n => P (ascii_of_nat n)) (seq 0 256) = true -> forall c, P c = true.
Proof.
  intros H c. rewrite forallb_forall in H. specialize (H (nat_of_ascii c)).
  rewrite ascii_nat_embedding in H. apply H. apply in_seq. pose proof (nat_ascii_bounded c). lia.
Qed.

Lemma alpha_facts c : is_alpha_ c = true ->
  is_dig c = false /\ Ascii.eqb c star = false /\ is_mark_char c = false /\ chr_eq c 60 = false /\ chr_eq c 62 = false /\
  chr_eq c 61 = false /\ chr_eq c 33 = false /\ chr_eq c quote = false /\ chr_eq c 46 = false.
Proof.
  intros Ha.
  pose proof (byte_cases (fun ch => negb (is_alpha_ ch) ||
      (negb (is_dig ch) && negb (Ascii.eqb ch star) && negb (is_mark_char ch) && negb (chr_eq ch 60) && negb (chr_eq ch 62) &&
       negb (chr_eq ch 61) && negb (chr_eq ch 33) && negb (chr_eq ch quote) && negb (chr_eq ch 46)))) as H.
  specialize (H ltac:(vm_compute; reflexivity) c). cbv beta in H. rewrite Ha in H. cbn [negb orb] in H.
  repeat (apply andb_true_iff in H; destruct H as [H ?]).
  repeat match goal with X : negb _ = true |- _ => apply negb_true_iff in X end.
  repeat split; assumption.
Qed.

Lemma lower_upper_ch c : negb (Nat.leb 65 (code c) && Nat.leb (code c) 90) = true -> lower_ch (upper_c c) = c.
Proof.
  intros Hc.
  pose proof (byte_cases (fun ch => (Nat.leb 65 (code ch) && Nat.leb (code ch) 90) || Ascii.eqb (lower_ch (upper_c ch)) ch)) as H.
  specialize (H ltac:(vm_compute; reflexivity) c). cbv beta in H.
  apply negb_true_iff in Hc. rewrite Hc in H. cbn [orb] in H. apply Ascii.eqb_eq in H. exact H.
Qed.

Lemma lower_upper_str w :
  forallb (fun c => negb (Nat.leb 65 (code c) && Nat.leb (code c) 90)) (list_ascii_of_string w) = true -> lower_str (upper_s w) = w.
Proof.
  induction w as [|c r IH]; cbn [list_ascii_of_string forallb upper_s lower_str]; intros H; [reflexivity|].
  apply andb_true_iff in H. destruct H as [Hc Hr]. rewrite (lower_upper_ch c Hc), (IH Hr). reflexivity.
Qed.

Lemma span_all f r : forallb f (list_ascii_of_string r) = true -> span_while f r = (r, EmptyString).
Proof.
  induction r as [|c r IH]; cbn [list_ascii_of_string forallb span_while]; intros H; [reflexivity|].
  apply andb_true_iff in H. destruct H as [Hc Hr]. rewrite Hc, (IH Hr). reflexivity.
Qed.

Lemma existsb_eqb_false w l : ~ In w l -> existsb (String.eqb w) l = false.
Proof.
  intros Hn. destruct (existsb (String.eqb w) l) eqn:E; [|reflexivity].
  apply existsb_exists in E. destruct E as [x [Hx He]]. apply String.eqb_eq in He. subst x. contradiction.
Qed.

Lemma substr_alpha_not_in_marks a r s :
  is_alpha_ a = true -> forallb (fun c => negb (is_alpha_ c)) (list_ascii_of_string s) = true -> substr_in (String a r) s = false.
Proof.
  intros Ha. induction s as [|b s IH]; cbn [list_ascii_of_string forallb substr_in prefixb]; intros H; [reflexivity|].
  apply andb_true_iff in H. destruct H as [Hb Hs]. rewrite (IH Hs).
  destruct (Ascii.eqb a b) eqn:E; [|reflexivity].
  apply Ascii.eqb_eq in E. subst b. rewrite Ha in Hb. discriminate.
Qed.

Lemma keyword_type_none w : ~ In w reserved_words -> keyword_type w = None.
Proof.
  intros Hn. unfold keyword_type.
  destruct (find _ all_token_type) as [t|] eqn:Ef; [|reflexivity].
  assert (Hl : lex_keywords_lowercase_only = true) by reflexivity. rewrite Hl.
  destruct (is_lower_word w && negb (existsb (tt_eqb t) tt_is_internal_list)) eqn:E; [|reflexivity].
  exfalso. apply Hn.
  apply andb_true_iff in E. destruct E as [Hlow Hint].
  apply find_some in Ef. destruct Ef as [Hin He]. apply String.eqb_eq in He.
  unfold is_lower_word in Hlow. apply andb_true_iff in Hlow. destruct Hlow as [Hnoup _].
  assert (Hw : lower_name t = w) by (unfold lower_name; rewrite He; apply lower_upper_str; exact Hnoup).
  rewrite <- Hw. unfold reserved_words. apply in_map. apply filter_In. split; [exact Hin|exact Hint].
Qed.

(* a name of the documented form that is not a reserved word, a register name or one of the four
   abbreviations is lexed as a NAME carrying exactly its own spelling *)
Theorem names_are_free w :
  name_form w = true -> ~ In w reserved_words -> ~ In w lex_reg_list -> ~ In w ["H"; "S"; "B"; "K"] ->
  first_match w = Some (w, EmptyString) /\ unabbreviate w = w /\ is_mark_word w = false /\ word_type w = TT_NAME.
Proof.
  intros Hf Hres Hreg Hab.
  destruct w as [|a r]; [discriminate|]. cbn [name_form] in Hf. apply andb_true_iff in Hf. destruct Hf as [Ha Hr].
  destruct (alpha_facts a Ha) as (Hd & Hst & Hm & H60 & H62 & H61 & H33 & Hq & H46).
  assert (Ht : alt_time (String a r) = None).
  { unfold alt_time, regex_match. cbn [first_some hour_alts match_elems elem_ok].
    unfold is_dig in Hd. unfold re_is_digit in *. rewrite ?Hd, ?Hst. cbn. reflexivity. }
  assert (Hc : alt_cmp (String a r) = None).
  { unfold alt_cmp. destruct r as [|b r']; rewrite ?H60, ?H62, ?H61, ?H33; cbn [orb andb]; rewrite ?andb_false_r; reflexivity. }
  assert (Hs : alt_string (String a r) = None) by (unfold alt_string; rewrite Hq; reflexivity).
  assert (Hn : alt_number (String a r) = None) by (unfold alt_number; cbn [span_while]; rewrite Hd, H46; reflexivity).
  assert (Hna : alt_name (String a r) = Some (String a r, EmptyString)) by (unfold alt_name; rewrite Ha, (span_all _ _ Hr); reflexivity).
  split; [unfold first_match; rewrite Ht, Hc, Hs, Hn, Hna; reflexivity|].
  split.
  { unfold unabbreviate.
    repeat match goal with |- context [String.eqb ?x ?y] => destruct (String.eqb_spec x y) as [E|_]; [exfalso; apply Hab; rewrite E; cbn; tauto|] end.
    reflexivity. }
  split.
  { unfold is_mark_word. apply substr_alpha_not_in_marks; [exact Ha|vm_compute; reflexivity]. }
  unfold word_type. rewrite (keyword_type_none _ Hres), (existsb_eqb_false _ _ Hreg).
  unfold whole_or_prefix. rewrite Hc, Ht, Hs, Hn, Hna. reflexivity.
Qed.

(* the statement is about something: ordinary names, names that collide case-insensitively with keywords,
   and the names of the compiler's internal token classes *)
Example names_free_examples :
  forallb (fun w => name_form w && negb (existsb (String.eqb w) reserved_words) && negb (existsb (String.eqb w) lex_reg_list) &&
                    token_type_eqb (word_type w) TT_NAME)
    ["x"; "_"; "Print"; "END"; "number"; "eof"; "name"; "mark"; "error"; "unknown"; "literal_string"; "h"; "Hue"; "a_1"; "If"] = true.
Proof. vm_compute. reflexivity. Qed.

(* ---------- quoted strings ---------- *)
(* a text without a double quote *)
Fixpoint no_quote (s : string) : bool :=
  match s with EmptyString => true | String c r => negb (chr_eq c quote) && no_quote r end.
Definition dq : string := String (ascii_of_nat quote) EmptyString.

Lemma chr_eq_dq : chr_eq (ascii_of_nat quote) quote = true.
Proof. reflexivity. Qed.

Lemma last_quote_none r : no_quote r = true -> str_last_quote r = None.
Proof.
  induction r as [|c r IH]; cbn [no_quote str_last_quote]; intros H; [reflexivity|].
  apply andb_true_iff in H. destruct H as [Hc Hr]. rewrite (IH Hr). apply negb_true_iff in Hc. rewrite Hc. reflexivity.
Qed.

Lemma last_quote_found s : forall r, no_quote r = true ->
  str_last_quote (String.append s (String (ascii_of_nat quote) r)) = Some (String.append s dq, r).
Proof.
  induction s as [|c s IH]; intros r Hr; cbn [String.append str_last_quote].
  - rewrite (last_quote_none r Hr). rewrite chr_eq_dq. reflexivity.
  - rewrite (IH r Hr). reflexivity.
Qed.

Lemma first_unescaped_shape s : forall r prev, no_quote s = true -> no_quote r = true ->
  str_first_unescaped (String.append s (String (ascii_of_nat quote) r)) prev = Some (String.append s dq, r) \/
  str_first_unescaped (String.append s (String (ascii_of_nat quote) r)) prev = None.
Proof.
  induction s as [|c s IH]; intros r prev Hs Hr; cbn [String.append str_first_unescaped].
  - rewrite chr_eq_dq. destruct prev; cbn [negb andb].
    + right. (* escaped, and no further quote *)
      assert (H : forall t p, no_quote t = true -> str_first_unescaped t p = None).
      { clear. induction t as [|c t IH]; intros p H; cbn [str_first_unescaped no_quote] in *; [reflexivity|].
        apply andb_true_iff in H. destruct H as [Hc Ht]. apply negb_true_iff in Hc. rewrite Hc. cbn [andb]. rewrite (IH _ Ht). reflexivity. }
      rewrite (H r _ Hr). reflexivity.
    + left. reflexivity.
  - cbn [no_quote] in Hs. apply andb_true_iff in Hs. destruct Hs as [Hc Hs']. apply negb_true_iff in Hc. rewrite Hc. cbn [andb].
    destruct (IH r (chr_eq c backslash) Hs' Hr) as [E|E]; rewrite E; [left|right]; reflexivity.
Qed.

(* a quoted text without a double quote inside, followed on its line by text without a double
   quote, is one string token ... *)
Theorem quoted_string_is_one_token s r : no_quote s = true -> no_quote r = true ->
  alt_string (String.append dq (String.append s (String (ascii_of_nat quote) r))) = Some (String.append dq (String.append s dq), r).
Proof.
  intros Hs Hr. unfold dq at 1. cbn [String.append alt_string]. rewrite chr_eq_dq.
  destruct (first_unescaped_shape s r false Hs Hr) as [E|E]; rewrite E; [reflexivity|].
  rewrite (last_quote_found s r Hr). reflexivity.
Qed.

Lemma unescape_no_quote s : no_quote s = true -> unescape_quotes s = s.
Proof.
  induction s as [|a s IH]; intros H; [reflexivity|].
  cbn [no_quote] in H. apply andb_true_iff in H. destruct H as [Ha Hs].
  destruct s as [|b s']; [reflexivity|].
  cbn [unescape_quotes]. cbn [no_quote] in Hs. apply andb_true_iff in Hs. destruct Hs as [Hb Hs'].
  apply negb_true_iff in Hb. rewrite Hb, andb_false_r.
  f_equal. apply IH. cbn [no_quote]. rewrite Hb, Hs'. reflexivity.
Qed.

Lemma drop_last_cons c t : t <> EmptyString -> drop_last (String c t) = String c (drop_last t).
Proof. destruct t; [contradiction|reflexivity]. Qed.

Lemma drop_last_app s : drop_last (String.append s dq) = s.
Proof.
  induction s as [|c s IH]; [reflexivity|]. cbn [String.append].
  rewrite drop_last_cons; [rewrite IH; reflexivity|]. destruct s; discriminate.
Qed.

(* ... whose content is exactly the text between the quotes *)
Theorem quoted_string_content s : no_quote s = true -> string_content (String.append dq (String.append s dq)) = s.
Proof.
  intros Hs. unfold dq at 1. cbn [String.append string_content]. rewrite drop_last_app. apply unescape_no_quote. exact Hs.
Qed.
