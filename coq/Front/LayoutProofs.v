(* C16: square brackets round a call statement do not change the code; braces round a single
   value denote the same value. *)
From Coq Require Import ZArith String List Bool.
From Bardolph Require Import Lang.Value Lang.Instr Lang.Regs Lang.World Lang.Syntax Lang.Sem Lang.CodeGen.
Open Scope string_scope.
Open Scope list_scope.
Import ListNotations.

Lemma call_brackets_same_code rt mt in_matrix after f args :
  c_stmt rt mt in_matrix after (SCall f args true) = c_stmt rt mt in_matrix after (SCall f args false).
Proof. reflexivity. Qed.

Lemma call_brackets_same_meaning rt mt fuel in_matrix s f args :
  Sem.exec rt mt fuel in_matrix s (SCall f args true) = Sem.exec rt mt fuel in_matrix s (SCall f args false).
Proof. destruct fuel; reflexivity. Qed.

(* { literal } is the literal *)
Lemma braces_round_literal rt mt fuel in_matrix s l :
  eval_rval rt mt (S (S fuel)) in_matrix s (RExpr (ELit l)) = eval_rval rt mt (S fuel) in_matrix s (RLit l).
Proof. reflexivity. Qed.

(* { x } is x for a variable, a macro or a register that holds a value (an operand of an
   expression must not be None: the machine asserts that) *)
Lemma braces_round_variable rt mt fuel in_matrix s x :
  lookup s x <> VNone ->
  eval_rval rt mt (S (S fuel)) in_matrix s (RExpr (EVar x)) = eval_rval rt mt (S fuel) in_matrix s (RVar x).
Proof. intros H. cbn. destruct (lookup s x); try reflexivity. contradiction. Qed.

Lemma braces_round_macro rt mt fuel in_matrix s m :
  macro mt m <> VNone ->
  eval_rval rt mt (S (S fuel)) in_matrix s (RExpr (EMacro m)) = eval_rval rt mt (S fuel) in_matrix s (RMacro m).
Proof. intros H. cbn. destruct (macro mt m); try reflexivity. contradiction. Qed.

Lemma braces_round_register rt mt fuel in_matrix s r :
  rreg (s_regs s) r <> VNone ->
  eval_rval rt mt (S (S fuel)) in_matrix s (RExpr (EReg r)) = eval_rval rt mt (S fuel) in_matrix s (RReg r).
Proof. intros H. cbn. destruct (rreg (s_regs s) r); try reflexivity. contradiction. Qed.
