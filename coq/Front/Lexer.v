(* Model of parser/lex.py: the regular-expression alternation as ordered choice at each
   position of a line, abbreviation, comments, and the classification of words.
   ASCII texts.  No proofs here. *)
From Coq Require Import ZArith String Ascii List Bool.
From Bardolph Require Import Base.PyStr Gen.CharClasses Gen.TokenTables Gen.LexGen Time.TimeSpec.
Open Scope string_scope.
Open Scope list_scope.
Import ListNotations.
Open Scope Z_scope.
Open Scope bool_scope.

Record token := mkTok { t_type : token_type; t_text : string; t_line : Z }.

(* ---------- character classes ---------- *)
Definition code (c : ascii) : nat := nat_of_ascii c.
Definition is_space (c : ascii) : bool := re_is_space c.
Definition is_dig (c : ascii) : bool := re_is_digit c.
Definition is_alpha_ (c : ascii) : bool :=
  let n := code c in (Nat.leb 97 n && Nat.leb n 122) || (Nat.leb 65 n && Nat.leb n 90) || Nat.eqb n 95.
Definition is_alnum_ (c : ascii) : bool := is_alpha_ c || (let n := code c in Nat.leb 48 n && Nat.leb n 57).
Definition chr_eq (c : ascii) (n : nat) : bool := Nat.eqb (code c) n.
Definition quote : nat := 34%nat.
Definition backslash : nat := 92%nat.

(* longest prefix whose characters satisfy f: (prefix, rest) *)
Fixpoint span_while (f : ascii -> bool) (s : string) : string * string :=
  match s with
  | String c r => if f c then let '(a, b) := span_while f r in (String c a, b) else (EmptyString, s)
  | EmptyString => (EmptyString, EmptyString)
  end.

(* ---------- the alternatives, each: matched text and rest, or None ---------- *)
(* TimePattern.REGEX_SPEC with its look-ahead *)
Definition alt_time (s : string) : option (string * string) :=
  match regex_match s with
  | Some (h, m, rest) => Some (String.append h (String.append ":" m), rest)
  | None => None
  end.

(* ==|<=|>=|!=|[<>] *)
Definition alt_cmp (s : string) : option (string * string) :=
  match s with
  | String a (String b r) =>
      if chr_eq b 61 && (chr_eq a 61 || chr_eq a 60 || chr_eq a 62 || chr_eq a 33)
      then Some (String a (String b EmptyString), r)
      else if chr_eq a 60 || chr_eq a 62 then Some (String a EmptyString, String b r) else None
  | String a EmptyString => if chr_eq a 60 || chr_eq a 62 then Some (String a EmptyString, EmptyString) else None
  | EmptyString => None
  end.

(* "([^"]|(?<=\\)")*" : from the opening quote to the first quote not preceded by a
   backslash; when there is none, to the last quote of the line (which is then preceded by
   a backslash); no quote at all: no match.  [body] returns the text up to and including
   the closing quote. *)
Fixpoint str_first_unescaped (s : string) (prev_bs : bool) : option (string * string) :=
  match s with
  | EmptyString => None
  | String c r =>
      if chr_eq c quote && negb prev_bs then Some (String c EmptyString, r)
      else match str_first_unescaped r (chr_eq c backslash) with
           | Some (a, b) => Some (String c a, b)
           | None => None
           end
  end.
Fixpoint str_last_quote (s : string) : option (string * string) :=
  match s with
  | EmptyString => None
  | String c r =>
      match str_last_quote r with
      | Some (a, b) => Some (String c a, b)
      | None => if chr_eq c quote then Some (String c EmptyString, r) else None
      end
  end.
Definition alt_string (s : string) : option (string * string) :=
  match s with
  | String c r =>
      if chr_eq c quote then
        match str_first_unescaped r false with
        | Some (a, b) => Some (String c a, b)
        | None => match str_last_quote r with
                  | Some (a, b) => Some (String c a, b)
                  | None => None
                  end
        end
      else None
  | EmptyString => None
  end.

(* [0-9]*\.?[0-9]+ *)
Definition alt_number (s : string) : option (string * string) :=
  let '(d1, r1) := span_while is_dig s in
  let frac :=
    match r1 with
    | String c r2 =>
        if chr_eq c 46 then
          let '(d2, r3) := span_while is_dig r2 in
          match d2 with EmptyString => None | _ => Some (String c d2, r3) end
        else None
    | EmptyString => None
    end in
  match frac with
  | Some (f, r3) => Some (String.append d1 f, r3)
  | None => match d1 with EmptyString => None | _ => Some (d1, r1) end
  end.

(* [a-zA-Z_][a-zA-Z0-9_]* *)
Definition alt_name (s : string) : option (string * string) :=
  match s with
  | String c r => if is_alpha_ c then let '(a, b) := span_while is_alnum_ r in Some (String c a, b) else None
  | EmptyString => None
  end.

(* the characters of _NON_ALNUM_SPEC's class, as generated *)
Definition is_mark_char (c : ascii) : bool := existsb (fun m => Ascii.eqb c m) (list_ascii_of_string lex_non_alnum_chars).
Definition alt_mark (s : string) : option (string * string) :=
  match s with
  | String c r => if is_mark_char c then Some (String c EmptyString, r) else None
  | EmptyString => None
  end.

(* [^\s]+ *)
Definition alt_default (s : string) : option (string * string) :=
  match span_while (fun c => negb (is_space c)) s with
  | (EmptyString, _) => None
  | (a, b) => Some (a, b)
  end.

Definition first_match (s : string) : option (string * string) :=
  match alt_time s with Some r => Some r | None =>
  match alt_cmp s with Some r => Some r | None =>
  match alt_string s with Some r => Some r | None =>
  match alt_number s with Some r => Some r | None =>
  match alt_name s with Some r => Some r | None =>
  match alt_mark s with Some r => Some r | None =>
  alt_default s end end end end end end.

(* ---------- classification of a matched word ---------- *)
Definition unabbreviate (w : string) : string :=
  if String.eqb w "H" then "hue" else if String.eqb w "S" then "saturation"
  else if String.eqb w "B" then "brightness" else if String.eqb w "K" then "kelvin" else w.

Definition upper_c (c : ascii) : ascii :=
  let n := code c in if Nat.leb 97 n && Nat.leb n 122 then ascii_of_nat (n - 32) else c.
Fixpoint upper_s (s : string) : string :=
  match s with EmptyString => EmptyString | String c r => String (upper_c c) (upper_s r) end.
(* str.islower(): no upper-case letter and at least one lower-case letter *)
Definition is_lower_word (s : string) : bool :=
  let l := list_ascii_of_string s in
  forallb (fun c => negb (Nat.leb 65 (code c) && Nat.leb (code c) 90)) l &&
  existsb (fun c => Nat.leb 97 (code c) && Nat.leb (code c) 122) l.

Definition tt_eqb := token_type_eqb.
Definition keyword_type (w : string) : option token_type :=
  match find (fun t => String.eqb (token_type_name t) (upper_s w)) all_token_type with
  | Some t =>
      if lex_keywords_lowercase_only
      then (if is_lower_word w && negb (existsb (tt_eqb t) tt_is_internal_list) then Some t else None)
      else Some t
  | None => None
  end.

Definition whole_or_prefix (alt : string -> option (string * string)) (w : string) : bool :=
  match alt w with Some _ => true | None => false end.

(* Lex._token_type: keyword, register, then the expressions tried as prefix matches *)
Definition word_type (w : string) : token_type :=
  match keyword_type w with
  | Some t => t
  | None =>
      if existsb (String.eqb w) lex_reg_list then TT_REGISTER
      else if whole_or_prefix alt_cmp w then TT_COMPARE
      else if whole_or_prefix alt_time w then TT_TIME_PATTERN
      else if whole_or_prefix alt_string w then TT_LITERAL_STRING
      else if whole_or_prefix alt_number w then TT_NUMBER
      else if whole_or_prefix alt_name w then TT_NAME
      else TT_ERROR
  end.

(* u_matched in _NON_ALNUM_LIST: substring containment *)
Definition is_mark_word (w : string) : bool := substr_in w lex_non_alnum_list.

(* token[1:-1].replace('\"', '"') *)
Fixpoint drop_last (s : string) : string :=
  match s with
  | EmptyString => EmptyString
  | String c EmptyString => EmptyString
  | String c r => String c (drop_last r)
  end.
(* str.replace('\"', '"'): each backslash directly followed by a quote disappears *)
Fixpoint unescape_quotes (s : string) : string :=
  match s with
  | EmptyString => EmptyString
  | String a r =>
      match r with
      | String b r' =>
          if chr_eq a backslash && chr_eq b quote then String b (unescape_quotes r') else String a (unescape_quotes r)
      | EmptyString => s
      end
  end.
Definition string_content (w : string) : string :=
  match w with String _ r => unescape_quotes (drop_last r) | EmptyString => EmptyString end.

(* ---------- one line ---------- *)
Fixpoint lex_line (fuel : nat) (s : string) (line : Z) : list token :=
  match fuel with
  | O => []
  | S f =>
      match s with
      | EmptyString => []
      | String c r =>
          match first_match s with
          | None => lex_line f r line                      (* white space *)
          | Some (m, rest) =>
              let w := unabbreviate m in
              if String.eqb w "#" then []                  (* comment to the end of the line *)
              else
                let tok :=
                  if is_mark_word w then mkTok TT_MARK w line
                  else let t := word_type w in
                       if tt_eqb t TT_LITERAL_STRING then mkTok t (string_content w) line else mkTok t w line in
                tok :: lex_line f rest line
          end
      end
  end.

Fixpoint split_lines (s : string) (cur : string) : list string :=
  match s with
  | EmptyString => [cur]
  | String c r => if chr_eq c 10 then cur :: split_lines r EmptyString else split_lines r (String.append cur (String c EmptyString))
  end.

Fixpoint lex_lines (ls : list string) (n : Z) : list token :=
  match ls with
  | [] => []
  | l :: r => lex_line (S (String.length l)) l n ++ lex_lines r (n + 1)
  end.

(* Lex(text).tokens(): the EOF token carries line 0 *)
Definition lex (text : string) : list token := lex_lines (split_lines text EmptyString) 1 ++ [mkTok TT_EOF "" 0].
