(* C06: the documented rule violations are rejected by the parser model, with the line of
   the offending token. *)
From Coq Require Import ZArith String Ascii List Bool.
From Bardolph Require Import Base.PyStr Gen.Codes Gen.TokenTables Time.TimeSpec Time.TimePattern
  Lang.Value Lang.Regs Lang.Builtins Lang.Syntax Front.Lexer Front.Parser.
Open Scope string_scope.
Open Scope list_scope.
Import ListNotations.
Open Scope Z_scope.
Open Scope bool_scope.

Ltac by_type H := unfold is_type in H; rewrite H.

(* `break` outside every loop *)
Theorem reject_break_outside_loop f s :
  ctype s = TT_BREAK -> p_loops s = O -> p_command (S f) s = PErr (cline s).
Proof. intros Ht Hl. cbn [p_command]. rewrite Ht, Hl. reflexivity. Qed.

(* `return` outside every routine *)
Theorem reject_return_outside_routine f s :
  ctype s = TT_RETURN -> p_in_routine s = false -> p_command (S f) s = PErr (cline s).
Proof. intros Ht Hr. cbn [p_command]. rewrite Ht, Hr. reflexivity. Qed.

(* assigning to a macro *)
Theorem reject_assign_to_macro f s :
  ctype s = TT_ASSIGN -> ctype (next s) = TT_NAME -> sym_is_macro (next s) (ctext (next s)) = true ->
  p_command (S f) s = PErr (cline (next s)).
Proof.
  intros Ht Hn Hm. cbn [p_command]. rewrite Ht. cbn [token_type_eqb token_type_beq]. cbv zeta.
  unfold is_type at 1. rewrite Hn. cbn [token_type_eqb token_type_beq]. rewrite Hm. reflexivity.
Qed.

(* redefining a macro *)
Theorem reject_macro_redefined f s v :
  ctype s = TT_DEFINE -> ctype (next s) = TT_NAME ->
  let s2 := next (next s) in
  (routine_start s2) = false ->
  global_macro s2 (ctext (next s)) = Some v ->
  p_command (S f) s = PErr (cline s2).
Proof.
  intros Ht Hn s2 Hr Hm. cbn [p_command]. rewrite Ht. cbn [token_type_eqb token_type_beq]. cbv zeta.
  unfold is_type at 1. rewrite Hn. cbn [token_type_eqb token_type_beq].
  unfold s2 in *. rewrite Hr, Hm. reflexivity.
Qed.

(* a routine defined inside a routine, whatever its name *)
Theorem reject_nested_routine f s :
  ctype s = TT_DEFINE -> ctype (next s) = TT_NAME ->
  let s2 := next (next s) in
  (routine_start s2) = true ->
  p_in_routine s2 = true ->
  p_command (S f) s = PErr (cline s2).
Proof.
  intros Ht Hn s2 Hr Hi. cbn [p_command]. rewrite Ht. cbn [token_type_eqb token_type_beq]. cbv zeta.
  unfold is_type at 1. rewrite Hn. cbn [token_type_eqb token_type_beq].
  unfold s2 in *. rewrite Hr, Hi.
  match goal with |- (if ?c then _ else _) = _ => destruct c end; reflexivity.
Qed.

(* a macro cannot be redefined as a routine, nor a routine as a macro or as another routine *)
Theorem reject_macro_redefined_as_routine f s v :
  ctype s = TT_DEFINE -> ctype (next s) = TT_NAME ->
  let s2 := next (next s) in
  (routine_start s2) = true ->
  global_macro s2 (ctext (next s)) = Some v ->
  p_command (S f) s = PErr (cline s2).
Proof.
  intros Ht Hn s2 Hr Hm. cbn [p_command]. rewrite Ht. cbn [token_type_eqb token_type_beq]. cbv zeta.
  unfold is_type at 1. rewrite Hn. cbn [token_type_eqb token_type_beq].
  unfold s2 in *. rewrite Hr, Hm. rewrite orb_true_r. reflexivity.
Qed.

Theorem reject_routine_redefined f s :
  ctype s = TT_DEFINE -> ctype (next s) = TT_NAME ->
  let s2 := next (next s) in
  has_routine s2 (ctext (next s)) = true ->
  p_command (S f) s = PErr (cline s2).
Proof.
  intros Ht Hn s2 Hd. cbn [p_command]. rewrite Ht. cbn [token_type_eqb token_type_beq]. cbv zeta.
  unfold is_type at 1. rewrite Hn. cbn [token_type_eqb token_type_beq].
  unfold s2 in *. rewrite Hd.
  match goal with |- (if ?c then _ else _) = _ => destruct c end; [reflexivity|].
  destruct (global_macro _ _); reflexivity.
Qed.

(* whole texts, one per documented rule (the model evaluated on concrete scripts) *)
Example rule_breakers_rejected :
  map parse_text
    ["break"; "repeat 2 begin define f begin break end end"; "define m 5 assign m 6"; "define m 5 define m 6";
     "define m 5 define m begin hue 1 end"; "define f begin hue 1 end define f 5"; "hue x"; "define f begin define g begin hue 1 end end";
     "repeat 2 begin hue 1"; "hue {1 + 2"; "hue {(1 + 2}"; "define f with a begin hue a end hue [f 1"; "time at 25:00"; "time at 8:00 or 12:75"]
  = [Rejected 1; Rejected 1; Rejected 1; Rejected 1; Rejected 1; Rejected 1; Rejected 1; Rejected 1; Rejected 0; Rejected 0; Rejected 1; Rejected 0; Rejected 1; Rejected 1].
Proof. vm_compute. reflexivity. Qed.

(* using an undefined name as a value *)
Theorem reject_undefined_name f s :
  ctype s = TT_NAME -> get_symbol s (ctext s) = None -> st_get (p_globals s) (t_text (cur s)) = None ->
  p_rvalue (S f) s = PErr (cline s).
Proof.
  intros Ht Hs Hg. cbn [p_rvalue]. unfold is_mark, is_type. rewrite Ht. cbn [token_type_eqb token_type_beq andb]. cbv zeta.
  assert (Hc : current_constant s = inr true).
  { unfold current_constant. rewrite Ht. cbn [token_type_eqb token_type_beq]. unfold get_macro, global_macro. rewrite Hg.
    destruct (st_get (p_locals s) (t_text (cur s))); reflexivity. }
  rewrite Hc, Ht. cbn [token_type_eqb token_type_beq]. unfold is_var. rewrite Hs. reflexivity.
Qed.

(* calling an undefined routine *)
Theorem reject_undefined_routine f s :
  is_mark s "[" = false -> get_routine s (ctext s) = None -> p_call (S f) s = PErr (cline s).
Proof. intros Hm Hr. cbn [p_call]. rewrite Hm, Hr. reflexivity. Qed.

(* a missing `end`: the end of the text inside begin ... *)
Theorem reject_missing_end f s :
  ctype s = TT_EOF -> p_compound (S f) s = PErr (cline s).
Proof. intros Ht. cbn [p_compound]. unfold is_type. rewrite Ht. reflexivity. Qed.

(* an unclosed brace, bracket or parenthesis *)
Theorem reject_unbalanced_brace f s e s1 :
  is_mark s "{" = true -> p_expression f (next s) = POk e s1 -> is_mark s1 "}" = false ->
  p_rvalue (S f) s = PErr (cline s1).
Proof. intros Hm He Hc. cbn [p_rvalue]. rewrite Hm, He. cbn [pbind]. rewrite Hc. reflexivity. Qed.

Theorem reject_unbalanced_paren f s e s1 :
  is_mark s "(" = true -> p_expression f (next s) = POk e s1 -> is_mark s1 ")" = false ->
  p_atom (S f) s = PErr (cline s1).
Proof. intros Hm He Hc. cbn [p_atom]. rewrite Hm, He. cbn [pbind]. rewrite Hc. reflexivity. Qed.

Theorem reject_unbalanced_bracket f s params args s1 :
  is_mark s "[" = true -> get_routine (next s) (ctext (next s)) = Some params ->
  p_args f params (next (next s)) = POk args s1 -> is_mark s1 "]" = false ->
  p_call (S f) s = PErr (cline s1).
Proof. intros Hm Hr Ha Hc. cbn [p_call]. rewrite Hm, Hr, Ha. cbn [pbind]. rewrite Hc. reflexivity. Qed.

(* a malformed or impossible time pattern after `time at` *)
Theorem reject_bad_time_pattern f s :
  time_ref_of s = None -> p_time_list (S f) s = PErr (cline s).
Proof. intros H. cbn [p_time_list]. rewrite H. reflexivity. Qed.

Lemma bad_time_pattern_token s :
  ctype s = TT_TIME_PATTERN -> from_string (t_text (cur s)) = None -> time_ref_of s = None.
Proof. intros Ht Hf. unfold time_ref_of, is_type. rewrite Ht. cbn. rewrite Hf. reflexivity. Qed.

(* a rejection always names the line of a token of the text (or 0, the end-of-text token) *)
