(* Model of the recursive-descent parser (parser/parse.py, expr_parser.py, loop_parser.py,
   matrix_parser.py, io_parser.py with context.py) at token level: it returns the abstract
   syntax of the script, or the line of the first error, threading the model of the
   compile-time context (symbol tables, in-routine / in-matrix flags, loop depth).  The
   instruction list follows by Lang.CodeGen.compile.  Constructs the parser accepts but the
   documented language does not contain (`not`, pause, breakpoint, nested braces, ...) end
   in PUnm: they are outside the model and are counted by the harness.  No proofs here. *)
From Coq Require Import ZArith String Ascii List Bool PrimFloat.
From Bardolph Require Import Base.PyStr Base.PyFloat Gen.Codes Gen.TokenTables Time.TimeSpec Time.TimePattern
  Lang.Value Lang.Regs Lang.Builtins Lang.Syntax Front.Lexer.
Open Scope string_scope.
Open Scope list_scope.
Import ListNotations.
Open Scope Z_scope.
Open Scope bool_scope.

(* ---------- compile-time context ---------- *)
Inductive sym := SyMacro (v : value) | SyVar | SyRoutine (params : list string).

Definition symtab := list (string * sym).
Fixpoint st_get (t : symtab) (k : string) : option sym :=
  match t with [] => None | (k', v) :: r => if String.eqb k k' then Some v else st_get r k end.
Fixpoint st_set (t : symtab) (k : string) (v : sym) : symtab :=
  match t with
  | [] => [(k, v)]
  | (k', v') :: r => if String.eqb k k' then (k, v) :: r else (k', v') :: st_set r k v
  end.

Record pst := mkP {
  p_toks : list token;           (* the current token is the head; the last one is EOF *)
  p_globals : symtab;
  p_locals : symtab;
  p_in_routine : bool;
  p_in_matrix : bool;
  p_loops : nat
}.

Definition eof_tok : token := mkTok TT_EOF "" 0.
Definition cur (s : pst) : token := match p_toks s with t :: _ => t | [] => eof_tok end.
Definition ctype (s : pst) : token_type := t_type (cur s).
Definition is_type (s : pst) (t : token_type) : bool := token_type_eqb (ctype s) t.
(* str(token): the content for the classes that carry one, else the class name in lower case *)
Definition lower_c (c : ascii) : ascii :=
  let n := nat_of_ascii c in if Nat.leb 65 n && Nat.leb n 90 then ascii_of_nat (n + 32) else c.
Fixpoint lower_s (s : string) : string :=
  match s with EmptyString => EmptyString | String c r => String (lower_c c) (lower_s r) end.
Definition has_string (t : token_type) : bool := existsb (token_type_eqb t) tt_has_string_list.
Definition ctext (s : pst) : string :=
  if has_string (ctype s) then t_text (cur s) else lower_s (token_type_name (ctype s)).
Definition cline (s : pst) : Z := t_line (cur s).

Definition with_toks (s : pst) (t : list token) := mkP t (p_globals s) (p_locals s) (p_in_routine s) (p_in_matrix s) (p_loops s).
Definition next (s : pst) : pst :=
  match p_toks s with
  | t :: r => if token_type_eqb (t_type t) TT_EOF then s else with_toks s r
  | [] => s
  end.

Definition is_mark (s : pst) (m : string) : bool := is_type s TT_MARK && String.eqb (t_text (cur s)) m.
Definition is_word (s : pst) (w : string) : bool := negb (is_type s TT_LITERAL_STRING) && String.eqb (t_text (cur s)) w.

(* Context.get_symbol: locals, then globals *)
Definition get_symbol (s : pst) (k : string) : option sym :=
  match st_get (p_locals s) k with Some v => Some v | None => st_get (p_globals s) k end.
Definition is_var (s : pst) (k : string) : bool := match get_symbol s k with Some SyVar => true | _ => false end.
Definition is_macro_or_var (s : pst) (k : string) : bool :=
  match get_symbol s k with Some SyVar | Some (SyMacro _) => true | _ => false end.
Definition sym_is_macro (s : pst) (k : string) : bool :=
  match get_symbol s k with Some (SyMacro _) => true | _ => false end.
Definition get_routine (s : pst) (k : string) : option (list string) :=
  match st_get (p_globals s) k with Some (SyRoutine ps) => Some ps | _ => None end.
Definition has_routine (s : pst) (k : string) : bool := match get_routine s k with Some _ => true | None => false end.
(* Context.has_macro / the value: whether the name is taken by a constant, hidden here or not *)
Definition global_macro (s : pst) (k : string) : option value :=
  match st_get (p_globals s) k with Some (SyMacro v) => Some v | _ => None end.
(* Context.get_macro: the constant a name denotes here *)
Definition get_macro (s : pst) (k : string) : option value :=
  match st_get (p_locals s) k with
  | Some _ => None        (* a parameter or local variable hides a constant of the same name (D68) *)
  | None => global_macro s k
  end.

Definition add_variable (s : pst) (k : string) : pst :=
  if p_in_routine s then mkP (p_toks s) (p_globals s) (st_set (p_locals s) k SyVar) true (p_in_matrix s) (p_loops s)
  else mkP (p_toks s) (st_set (p_globals s) k SyVar) (p_locals s) false (p_in_matrix s) (p_loops s).
Definition add_global (s : pst) (k : string) (v : sym) : pst :=
  mkP (p_toks s) (st_set (p_globals s) k v) (p_locals s) (p_in_routine s) (p_in_matrix s) (p_loops s).
Definition set_routine_flag (s : pst) (b : bool) : pst :=
  mkP (p_toks s) (p_globals s) (if b then p_locals s else []) b (p_in_matrix s) (p_loops s).
Definition set_matrix_flag (s : pst) (b : bool) : pst :=
  mkP (p_toks s) (p_globals s) (p_locals s) (p_in_routine s) b (p_loops s).
Definition set_loops (s : pst) (n : nat) : pst :=
  mkP (p_toks s) (p_globals s) (p_locals s) (p_in_routine s) (p_in_matrix s) n.

(* ---------- results ---------- *)
Inductive pres (A : Type) :=
| POk (a : A) (s : pst)
| PErr (line : Z)                    (* rejected: line of the first message *)
| PUnm (why : string)                (* accepted by the code, outside the modelled language *)
| PFuel.
Arguments POk {A} a s.
Arguments PErr {A} line.
Arguments PUnm {A} why.
Arguments PFuel {A}.

Definition pbind {A B} (r : pres A) (k : A -> pst -> pres B) : pres B :=
  match r with POk a s => k a s | PErr l => PErr l | PUnm w => PUnm w | PFuel => PFuel end.
Notation "'let!' ( x , s ) := r 'in' k" := (pbind r (fun x s => k)) (at level 200, x pattern, s pattern, r at level 100, k at level 200).

Definition perr {A} (s : pst) : pres A := PErr (cline s).

(* ---------- literals ---------- *)
Definition all_digits_or_empty (s : string) : bool := all_chars is_digit_ascii s.
(* Lex.is_int: ^\-?[0-9]*$ on a NUMBER token (which never carries a sign) *)
Definition num_is_int (s : string) : bool := all_digits_or_empty s.

Fixpoint split_dot (s : string) : string * string :=
  match s with
  | EmptyString => (EmptyString, EmptyString)
  | String c r => if Nat.eqb (nat_of_ascii c) 46 then (EmptyString, r) else let '(a, b) := split_dot r in (String c a, b)
  end.

(* float(text) for digits[.digits]: exact when the digits fit 2^53 and the scale 10^15 *)
Definition float_of_text (s : string) : option float :=
  let '(a, b) := split_dot s in
  let m := py_int (String.append a b) in
  let k := String.length b in
  if (m <? two53) && Nat.leb k 15 then Some (PrimFloat.div (z2f m) (z2f (10 ^ Z.of_nat k))) else None.

Inductive constant := CLit (l : lit) | CTimeLit (text : string) (p : tp) | CMacro (m : string) (v : value).

(* Parser._current_constant: literal or macro value; inl = a constant, inr true = no constant,
   inr false = a number the model cannot read exactly *)
Definition current_constant (s : pst) : constant + bool :=
  let t := ctype s in
  if token_type_eqb t TT_NUMBER then
    (if num_is_int (t_text (cur s)) then inl (CLit (LInt (py_int (t_text (cur s)))))
     else match float_of_text (t_text (cur s)) with Some f => inl (CLit (LFlt f)) | None => inr false end)
  else if token_type_eqb t TT_LITERAL_STRING then inl (CLit (LStr (t_text (cur s))))
  else if token_type_eqb t TT_TIME_PATTERN then
    match from_string (t_text (cur s)) with
    | Some p => inl (CTimeLit (t_text (cur s)) p)
    | None => inr true
    end
  else if token_type_eqb t TT_NAME then
    match get_macro s (t_text (cur s)) with
    | Some VNone => inr true
    | Some v => inl (CMacro (t_text (cur s)) v)
    | None => inr true
    end
  else inr true.

Definition current_str (s : pst) : option nameref :=
  match current_constant s with
  | inl (CLit (LStr x)) => if String.eqb x "" then None else Some (NStr x)
  | inl (CMacro m (VStr x)) => if String.eqb x "" then None else Some (NMacro m)
  | _ => None
  end.

Definition register_of_token (s : pst) : option register :=
  find (fun r => String.eqb (register_name r) (upper_s (ctext s))) all_register.

Definition at_rvalue (s : pst) (include_reg : bool) : bool :=
  if is_mark s "{" || is_mark s "[" then true
  else if is_type s TT_LITERAL_STRING || is_type s TT_NUMBER then true
  else if is_type s TT_REGISTER then include_reg
  else if is_type s TT_NAME then negb (has_routine s (ctext s))
  else false.

(* ---------- operators ---------- *)
Definition tok_is_binop (s : pst) : bool :=
  is_type s TT_COMPARE ||
  existsb (is_mark s) ["+"; "-"; "*"; "/"; "%"; "^"] || is_word s "and" || is_word s "or".
Fixpoint table_get (t : list (string * Z)) (k : string) : Z :=
  match t with [] => -1 | (k', v) :: r => if String.eqb k k' then v else table_get r k end.
Definition tok_prec (s : pst) : Z := table_get prec_table (t_text (cur s)).
Definition tok_right (s : pst) : bool := is_word s "not" || is_mark s "^".
Definition binop_of_text (w : string) : option binop :=
  if String.eqb w "+" then Some BAdd else if String.eqb w "-" then Some BSub else if String.eqb w "*" then Some BMul
  else if String.eqb w "/" then Some BDiv else if String.eqb w "%" then Some BMod else if String.eqb w "^" then Some BPow
  else if String.eqb w "and" then Some BAnd else if String.eqb w "or" then Some BOr
  else if String.eqb w "<" then Some BLt else if String.eqb w "<=" then Some BLe else if String.eqb w ">" then Some BGt
  else if String.eqb w ">=" then Some BGe else if String.eqb w "==" then Some BEq else if String.eqb w "!=" then Some BNe
  else None.

(* ---------- the grammar ---------- *)
Definition unit_of_token (t : token_type) : option unit_mode :=
  if token_type_eqb t TT_RAW then Some UM_RAW else if token_type_eqb t TT_RGB then Some UM_RGB
  else if token_type_eqb t TT_LOGICAL then Some UM_LOGICAL else None.

Definition is_executable (t : token_type) : bool := existsb (token_type_eqb t) tt_is_executable_list.
(* Parser._detect_routine_start: what follows `define NAME` begins a routine body *)
Definition routine_start (s : pst) : bool :=
  (is_type s TT_NAME && has_routine s (ctext s)) || is_executable (ctype s) || is_mark s "[" || is_type s TT_BEGIN || is_type s TT_WITH.

Fixpoint p_rvalue (fuel : nat) (s : pst) {struct fuel} : pres rval :=
  match fuel with
  | O => PFuel
  | S f =>
    if is_mark s "{" then
      let! (e, s1) := p_expression f (next s) in
      if is_mark s1 "}" then POk (RExpr e) (next s1) else perr s1
    else if is_mark s "[" then
      let! (c, s1) := p_call f s in POk (RCall (fst (fst c)) (snd (fst c))) s1
    else
      let uminus := is_mark s "-" in
      let s0 := if uminus then next s else s in
      match current_constant s0 with
      | inr false => PUnm "number with more digits than the model reads exactly"
      | inl c =>
          match c, uminus with
          | CLit (LStr _), true | CTimeLit _ _, true => perr s0
          | CMacro _ v, true =>
              match v with
              | VInt _ | VFlt _ => match c with CMacro m _ => POk (RNegMacro m) (next s0) | _ => PFuel end
              | _ => perr s0
              end
          | CLit l, true => POk (RNeg l) (next s0)
          | CLit l, false => POk (RLit l) (next s0)
          | CTimeLit _ _, false => PUnm "time pattern used as a plain value"
          | CMacro m _, false => POk (RMacro m) (next s0)
          end
      | inr true =>
          if uminus then perr s0
          else if is_type s0 TT_NAME then
            (if is_var s0 (ctext s0) then POk (RVar (ctext s0)) (next s0) else perr s0)
          else if is_type s0 TT_REGISTER then
            match register_of_token s0 with Some r => POk (RReg r) (next s0) | None => perr s0 end
          else if is_word s0 "not" then PUnm "not"
          else perr s0
      end
  end
with p_atom (fuel : nat) (s : pst) {struct fuel} : pres expr :=
  match fuel with
  | O => PFuel
  | S f =>
    if is_mark s "(" then
      let! (e, s1) := p_expression f (next s) in
      if is_mark s1 ")" then POk (EParen e) (next s1) else perr s1
    else if is_mark s "-" then let! (a, s1) := p_atom f (next s) in POk (ENeg a) s1
    else if is_mark s "+" then let! (a, s1) := p_atom f (next s) in POk (EPos a) s1
    else
      let! (r, s1) := p_rvalue f s in
      match r with
      | RLit (LStr _) => PUnm "string literal inside an expression"
      | RLit l => POk (ELit l) s1
      | RMacro m => POk (EMacro m) s1
      | RVar x => POk (EVar x) s1
      | RReg r => POk (EReg r) s1
      | RCall g args => POk (ECall g args) s1
      | RExpr e => POk (EParen e) s1      (* braces inside an expression: the value stays on the stack, like parentheses *)
      | _ => PUnm "folded minus inside an expression"
      end
  end
with p_expression (fuel : nat) (s : pst) {struct fuel} : pres expr :=
  match fuel with
  | O => PFuel
  | S f => let! (a, s1) := p_atom f s in p_expr_loop f 0 a s1
  end
(* ExpressionParser._expression(min_prec) with the left operand built so far *)
with p_expr_loop (fuel : nat) (min_prec : Z) (lhs : expr) (s : pst) {struct fuel} : pres expr :=
  match fuel with
  | O => PFuel
  | S f =>
    if tok_is_binop s && (min_prec <=? tok_prec s) then
      let opp := tok_prec s in
      match binop_of_text (t_text (cur s)) with
      | None => perr s
      | Some op =>
          let! (rhs, s1) := p_atom f (next s) in
          let! (rhs', s2) := p_expr_inner f opp rhs s1 in
          p_expr_loop f min_prec (EBin op lhs rhs') s2
      end
    else POk lhs s
  end
with p_expr_inner (fuel : nat) (opp : Z) (rhs : expr) (s : pst) {struct fuel} : pres expr :=
  match fuel with
  | O => PFuel
  | S f =>
    if (tok_is_binop s && (opp <? tok_prec s)) || (tok_right s && (tok_prec s =? opp)) then
      let! (rhs', s1) := p_expr_loop f (tok_prec s) rhs s in
      p_expr_inner f opp rhs' s1
    else POk rhs s
  end
(* Parser._call_routine: (name, arguments, bracketed) *)
with p_call (fuel : nat) (s : pst) {struct fuel} : pres (string * list rval * bool) :=
  match fuel with
  | O => PFuel
  | S f =>
    let bracketed := is_mark s "[" in
    let s0 := if bracketed then next s else s in
    match get_routine s0 (ctext s0) with
    | None => perr s0
    | Some params =>
        let name := ctext s0 in
        let! (args, s1) := p_args f params (next s0) in
        if bracketed then (if is_mark s1 "]" then POk (name, args, true) (next s1) else perr s1)
        else POk (name, args, false) s1
    end
  end
with p_args (fuel : nat) (params : list string) (s : pst) {struct fuel} : pres (list rval) :=
  match fuel with
  | O => PFuel
  | S f =>
    match params with
    | [] => POk [] s
    | _ :: ps =>
        if is_mark s "]" then perr s
        else let! (a, s1) := p_rvalue f s in
             let! (r, s2) := p_args f ps s1 in POk (a :: r) s2
    end
  end.

Definition p_range (fuel : nat) (s : pst) : pres (rval * option rval) :=
  let! (a, s1) := p_rvalue fuel s in
  if at_rvalue s1 false then let! (b, s2) := p_rvalue fuel s1 in POk (a, Some b) s2
  else POk (a, None) s1.

(* MatrixParser._inline_operand: row / column clauses in either order, each at most once *)
Fixpoint p_spans (fuel : nat) (s : pst) (rows cols : span) (rows_first : option bool) {struct fuel}
  : pres (span * span * bool) :=
  match fuel with
  | O => PFuel
  | S f =>
    if is_type s TT_ROW then
      match rows with
      | Some _ => perr s
      | None =>
          let s1 := next s in
          if at_rvalue s1 false then
            let! (r, s2) := p_range f s1 in
            p_spans f s2 (Some r) cols (match rows_first with None => Some true | x => x end)
          else perr s1
      end
    else if is_type s TT_COLUMN then
      match cols with
      | Some _ => perr s
      | None =>
          let s1 := next s in
          if at_rvalue s1 false then
            let! (c, s2) := p_range f s1 in
            p_spans f s2 rows (Some c) (match rows_first with None => Some false | x => x end)
          else perr s1
      end
    else POk (rows, cols, match rows_first with Some b => b | None => true end) s
  end.

Definition time_ref_of (s : pst) : option time_ref :=
  if is_type s TT_TIME_PATTERN then
    match from_string (t_text (cur s)) with Some p => Some (TPat (t_text (cur s)) p) | None => None end
  else if is_type s TT_NAME then
    match get_macro s (t_text (cur s)) with Some (VTime _) => Some (TMacro (t_text (cur s))) | _ => None end
  else None.

Fixpoint p_time_list (fuel : nat) (s : pst) {struct fuel} : pres (list time_ref) :=
  match fuel with
  | O => PFuel
  | S f =>
    match time_ref_of s with
    | None => perr s
    | Some t =>
        let s1 := next s in
        if is_type s1 TT_OR then let! (r, s2) := p_time_list f (next s1) in POk (t :: r) s2
        else POk [t] s1
    end
  end.

Definition builtin_symbols : symtab := map (fun p => (fst p, SyRoutine (snd p))) builtin_table.

(* statements *)
Fixpoint p_command (fuel : nat) (s : pst) {struct fuel} : pres stmt :=
  match fuel with
  | O => PFuel
  | S f =>
    let t := ctype s in
    if token_type_eqb t TT_REGISTER then
      match register_of_token s with
      | None => perr s
      | Some R_TIME =>
          let s1 := next s in
          if is_type s1 TT_AT then let! (ps, s2) := p_time_list f (next s1) in POk (STimeAt ps) s2
          else let! (v, s2) := p_rvalue f s1 in POk (SReg R_TIME v) s2
      | Some r =>
          let s1 := next s in
          if is_type s1 TT_LITERAL_STRING then perr s1
          else let! (v, s2) := p_rvalue f s1 in POk (SReg r v) s2
      end
    else if token_type_eqb t TT_SET then p_action f s 0
    else if token_type_eqb t TT_ON then p_action f s 1
    else if token_type_eqb t TT_OFF then p_action f s 2
    else if token_type_eqb t TT_STAGE then
      (if p_in_matrix s || p_in_routine s then
         let s1 := next s in
         if is_type s1 TT_ALL then (if p_in_matrix s then perr s1 else PUnm "stage all")
         else if is_type s1 TT_DEFAULT then PUnm "stage default"
         else if is_type s1 TT_BEGIN then PUnm "stage with a block"
         else let! (sp, s2) := p_spans f s1 None None None in
              POk (SStage (fst (fst sp)) (snd (fst sp)) (snd sp)) s2
       else perr s)
    else if token_type_eqb t TT_UNITS then
      let s1 := next s in
      match unit_of_token (ctype s1) with Some m => POk (SUnits m) (next s1) | None => perr s1 end
    else if token_type_eqb t TT_WAIT then POk SWait (next s)
    else if token_type_eqb t TT_PAUSE then PUnm "pause"
    else if token_type_eqb t TT_BREAKPOINT then PUnm "breakpoint"
    else if token_type_eqb t TT_GET then
      let s1 := next s in
      if at_rvalue s1 false then let! (v, s2) := p_rvalue f s1 in POk (SGet v) s2 else perr s1
    else if token_type_eqb t TT_PRINT then
      let s1 := next s in
      if at_rvalue s1 true then let! (v, s2) := p_rvalue f s1 in POk (SPrint (Some v)) s2 else POk (SPrint None) s1
    else if token_type_eqb t TT_PRINTLN then
      let s1 := next s in
      if at_rvalue s1 true then let! (v, s2) := p_rvalue f s1 in POk (SPrintln (Some v)) s2 else POk (SPrintln None) s1
    else if token_type_eqb t TT_PRINTF then
      let s1 := next s in
      match current_constant s1 with
      | inl (CLit (LStr fmt)) | inl (CMacro _ (VStr fmt)) =>
          if String.eqb fmt "" then perr s1
          else
            let s2 := next s1 in
            match printf_positional fmt with
            | None => PUnm "printf format outside the scanned subset"
            | Some k =>
                let! (args, s3) := p_values f (Z.to_nat k) s2 in POk (SPrintf fmt args) s3
            end
      | _ => perr s1
      end
    else if token_type_eqb t TT_ASSIGN then
      let s1 := next s in
      if is_type s1 TT_NAME then
        let x := ctext s1 in
        if sym_is_macro s1 x then perr s1
        else let! (v, s2) := p_rvalue f (next s1) in POk (SAssign x v) (add_variable s2 x)
      else perr s1
    else if token_type_eqb t TT_DEFINE then
      let s1 := next s in
      if is_type s1 TT_NAME then
        let name := ctext s1 in
        let s2 := next s1 in
        if routine_start s2 then
          (* a routine *)
          if has_routine s2 name || (match global_macro s2 name with Some _ => true | None => false end) then perr s2
          else if p_in_routine s2 then perr s2
          else
            (* the body of a routine is not part of the loops around its definition *)
            let s3 := add_global (set_loops (set_routine_flag s2 true) 0) name (SyRoutine []) in
            let! (params, s4) := (if is_type s3 TT_WITH then p_params f (next s3) [] true else POk [] s3) in
            let s5 := add_global s4 name (SyRoutine params) in
            let! (body, s6) := p_command_seq f s5 in
            POk (SDefineRoutine name params body) (set_loops (set_routine_flag s6 false) (p_loops s2))
        else
          (* a macro *)
          match global_macro s2 name with
          | Some _ => perr s2
          | None =>
              if has_routine s2 name then perr s2 else
              match current_constant s2 with
              | inl (CLit l) => POk (SDefineMacro name (MLit l)) (next (add_global s2 name (SyMacro (lit_value l))))
              | inl (CTimeLit txt p) => POk (SDefineMacro name (MTime txt p)) (next (add_global s2 name (SyMacro (VTime p))))
              | inl (CMacro m v) => POk (SDefineMacro name (MRef m)) (next (add_global s2 name (SyMacro v)))
              | inr false => PUnm "number with more digits than the model reads exactly"
              | inr true => perr s2
              end
          end
      else perr s1
    else if token_type_eqb t TT_NAME then
      let! (c, s1) := p_call f s in POk (SCall (fst (fst c)) (snd (fst c)) (snd c)) s1
    else if token_type_eqb t TT_MARK then
      (if is_mark s "{" then perr s
       else if is_mark s "[" then let! (c, s1) := p_call f s in POk (SCall (fst (fst c)) (snd (fst c)) (snd c)) s1
       else perr s)
    else if token_type_eqb t TT_RETURN then
      if negb (p_in_routine s) then perr s else
      let s1 := next s in
      if at_rvalue s1 true then let! (v, s2) := p_rvalue f s1 in POk (SReturn (Some v)) s2 else POk (SReturn None) s1
    else if token_type_eqb t TT_IF then
      let! (c, s1) := p_rvalue f (next s) in
      let! (b1, s2) := p_command_seq f s1 in
      if is_type s2 TT_ELSE then let! (b2, s3) := p_command_seq f (next s2) in POk (SIf c b1 (Some b2)) s3
      else POk (SIf c b1 None) s2
    else if token_type_eqb t TT_REPEAT then p_repeat f (next s)
    else if token_type_eqb t TT_BREAK then
      (if Nat.eqb (p_loops s) 0 then perr s else POk SBreak (next s))
    else perr s
  end
with p_values (fuel : nat) (k : nat) (s : pst) {struct fuel} : pres (list rval) :=
  match fuel with
  | O => PFuel
  | S f =>
    match k with
    | O => POk [] s
    | S k' => let! (v, s1) := p_rvalue f s in let! (r, s2) := p_values f k' s1 in POk (v :: r) s2
    end
  end
(* Parser._param_decl: the first parameter is whatever token stands there *)
with p_params (fuel : nat) (s : pst) (acc : list string) (first : bool) {struct fuel} : pres (list string) :=
  match fuel with
  | O => PFuel
  | S f =>
    if first then p_params f (next (add_variable s (ctext s))) [ctext s] false
    else if is_type s TT_NAME && negb (has_routine s (ctext s)) then
      (if existsb (String.eqb (ctext s)) acc then perr s
       else p_params f (next (add_variable s (ctext s))) (acc ++ [ctext s]) false)
    else POk acc s
  end
with p_command_seq (fuel : nat) (s : pst) {struct fuel} : pres stmt :=
  match fuel with
  | O => PFuel
  | S f =>
    if is_type s TT_BEGIN then let! (ss, s1) := p_compound f (next s) in POk (SBlock ss) s1
    else p_command f s
  end
with p_compound (fuel : nat) (s : pst) {struct fuel} : pres (list stmt) :=
  match fuel with
  | O => PFuel
  | S f =>
    if is_type s TT_END then POk [] (next s)
    else if is_type s TT_EOF then perr s
    else let! (st, s1) := p_command f s in let! (r, s2) := p_compound f s1 in POk (st :: r) s2
  end
(* Parser._action for set (0) / on (1) / off (2) *)
with p_action (fuel : nat) (s : pst) (which : Z) {struct fuel} : pres stmt :=
  match fuel with
  | O => PFuel
  | S f =>
    let mk (o : operands) : stmt := if which =? 0 then SSet o else if which =? 1 then SOn o else SOff o in
    let s1 := next s in
    if is_type s1 TT_ALL then (if p_in_matrix s1 then perr s1 else POk (mk OpAll) (next s1))
    else if is_type s1 TT_DEFAULT then POk (mk OpDefault) (next s1)
    else let! (ops, s2) := p_operands f s1 (which =? 0) in POk (mk (OpList ops)) s2
  end
with p_operands (fuel : nat) (s : pst) (is_color : bool) {struct fuel} : pres (list opnd) :=
  match fuel with
  | O => PFuel
  | S f =>
    let! (o, s1) := p_operand f s is_color in
    if is_type s1 TT_AND then let! (r, s2) := p_operands f (next s1) is_color in POk (o :: r) s2
    else POk [o] s1
  end
with p_operand (fuel : nat) (s : pst) (is_color : bool) {struct fuel} : pres opnd :=
  match fuel with
  | O => PFuel
  | S f =>
    let '(kind, s0) := if is_type s TT_GROUP then (TGroup, next s) else if is_type s TT_LOCATION then (TLocation, next s) else (TLight, s) in
    let name : pres nameref :=
      match current_str s0 with
      | Some n => POk n (next s0)
      | None =>
          match current_constant s0 with
          | inr false => PUnm "number with more digits than the model reads exactly"
          | _ =>
            if is_type s0 TT_NAME then
              (if is_macro_or_var s0 (ctext s0) then POk (NVar (ctext s0)) (next s0) else perr s0)
            else perr s0
          end
      end in
    let! (n, s1) := name in
    if is_type s1 TT_ZONE then
      (if is_color then
         let s2 := next s1 in
         if at_rvalue s2 false then let! (r, s3) := p_range f s2 in POk (Zone n (fst r) (snd r)) s3 else perr s2
       else perr s1)
    else if is_type s1 TT_BEGIN || is_type s1 TT_COLUMN || is_type s1 TT_ROW then
      match kind with
      | TLight =>
          if is_type s1 TT_BEGIN then
            (if p_in_matrix s1 then perr s1
             else let! (body, s2) := p_command_seq f (set_matrix_flag s1 true) in
                  POk (MatrixBlock n body) (set_matrix_flag s2 false))
          else if negb is_color then perr s1      (* rows and columns are for colours: rejected with on / off, as zones are (D66) *)
          else let! (sp, s2) := p_spans f s1 None None None in
               POk (MatrixInline n (fst (fst sp)) (snd (fst sp)) (snd sp)) s2
      | _ => perr s1
      end
    else POk (Target kind n) s1
  end
(* LoopParser.repeat, after the keyword *)
with p_repeat (fuel : nat) (s : pst) {struct fuel} : pres stmt :=
  match fuel with
  | O => PFuel
  | S f =>
    let enter (x : pst) := set_loops x (S (p_loops x)) in
    let leave (x : pst) := set_loops x (Nat.pred (p_loops x)) in
    let s0 := enter s in
    let body (l : loop) (x : pst) : pres stmt :=
      let! (b, x1) := p_command_seq f x in POk (SRepeat l b) (leave x1) in
    if is_type s0 TT_WHILE then let! (c, s1) := p_rvalue f (next s0) in body (LWhile c) s1
    else if is_type s0 TT_WITH then
      (* repeat with v from a to b *)
      let s1 := next s0 in
      if is_type s1 TT_NAME then
        let v := ctext s1 in
        let s2 := next (add_variable s1 v) in
        if is_type s2 TT_IN then PUnm "repeat with v in ..."
        else if is_type s2 TT_FROM then
          let! (a, s3) := p_rvalue f (next s2) in
          if is_type s3 TT_TO then let! (b, s4) := p_rvalue f (next s3) in body (LRange v a b) s4 else perr s3
        else if is_type s2 TT_CYCLE then perr (next s2)
        else perr s2
      else perr s1
    else if is_type s0 TT_ALL then
      let s1 := next s0 in
      if is_type s1 TT_AND then PUnm "repeat all and ..."
      else let! (xw, s2) := p_as_with f s1 in body (LAll (fst xw) (snd xw)) s2
    else if is_type s0 TT_GROUP then let! (xw, s2) := p_as_with f (next s0) in body (LGroups (fst xw) (snd xw)) s2
    else if is_type s0 TT_LOCATION then let! (xw, s2) := p_as_with f (next s0) in body (LLocations (fst xw) (snd xw)) s2
    else if is_type s0 TT_IN then
      let! (srcs, s1) := p_sources f (next s0) in
      let! (xw, s2) := p_as_with f s1 in body (LIn srcs (fst xw) (snd xw)) s2
    else if at_rvalue s0 true then
      let! (n, s1) := p_rvalue f s0 in
      if is_type s1 TT_WITH then let! (w, s2) := p_with f (next s1) false in body (LCountWith n w) s2
      else body (LCount n) s1
    else body LInfinite s0
  end
(* `as x` and the optional `with ...` of the light loops *)
with p_as_with (fuel : nat) (s : pst) {struct fuel} : pres (string * option loop_with) :=
  match fuel with
  | O => PFuel
  | S f =>
    if is_type s TT_AS then
      let s1 := next s in
      if is_type s1 TT_NAME then
        let x := ctext s1 in
        let s2 := next (add_variable s1 x) in
        if is_type s2 TT_WITH then let! (w, s3) := p_with f (next s2) false in POk (x, Some w) s3
        else POk (x, None) s2
      else perr s1
    else perr s
  end
(* LoopParser._pre_loop_with after `with` (for counted and light loops) *)
with p_with (fuel : nat) (s : pst) (plain_with : bool) {struct fuel} : pres loop_with :=
  match fuel with
  | O => PFuel
  | S f =>
    if is_type s TT_NAME then
      let v := ctext s in
      let s1 := next (add_variable s v) in
      if is_type s1 TT_IN then PUnm "with v in ..."
      else if is_type s1 TT_FROM then
        let! (a, s2) := p_rvalue f (next s1) in
        if is_type s2 TT_TO then let! (b, s3) := p_rvalue f (next s2) in POk (WRange v a b) s3 else perr s2
      else if is_type s1 TT_CYCLE then
        let s2 := next s1 in
        if at_rvalue s2 true then let! (a, s3) := p_rvalue f s2 in POk (WCycle v (Some a)) s3
        else POk (WCycle v None) s2
      else perr s1
    else perr s
  end
(* the sources of `repeat in a and group g ...` *)
with p_sources (fuel : nat) (s : pst) {struct fuel} : pres (list light_src) :=
  match fuel with
  | O => PFuel
  | S f =>
    if is_type s TT_AS then POk [] s
    else
      let one : pres light_src :=
        if is_type s TT_ALL then PUnm "repeat in all"
        else if is_type s TT_GROUP then let! (n, s1) := p_rvalue f (next s) in POk (SrcGroup n) s1
        else if is_type s TT_LOCATION then let! (n, s1) := p_rvalue f (next s) in POk (SrcLocation n) s1
        else let! (n, s1) := p_rvalue f s in POk (SrcLight n) s1 in
      let! (src, s1) := one in
      if is_type s1 TT_AND then
        let s2 := next s1 in
        if is_type s2 TT_GROUP || is_type s2 TT_LOCATION || at_rvalue s2 true then
          let! (r, s3) := p_sources f s2 in POk (src :: r) s3
        else perr s2
      else POk [src] s1
  end.

Fixpoint p_body (fuel : nat) (s : pst) {struct fuel} : pres (list stmt) :=
  match fuel with
  | O => PFuel
  | S f =>
    if is_type s TT_EOF then POk [] s
    else let! (st, s1) := p_command fuel s in let! (r, s2) := p_body f s1 in POk (st :: r) s2
  end.

Inductive parse_result := Accepted (p : script) | Rejected (line : Z) | Unmodelled (why : string) | OutOfFuel.

Definition parse_tokens (toks : list token) : parse_result :=
  let fuel := (4 * length toks + 16)%nat in
  match p_body fuel (mkP toks builtin_symbols [] false false 0) with
  | POk p _ => Accepted p
  | PErr l => Rejected l
  | PUnm w => Unmodelled w
  | PFuel => OutOfFuel
  end.

Definition parse_text (text : string) : parse_result := parse_tokens (lex text).
