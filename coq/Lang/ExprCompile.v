(* C02: the stack-machine lemma.  The code the compiler model emits for an expression tree
   (operands left to right, then the operator: postfix order) makes the VM model push exactly
   the value the tree denotes -- for every call-free numeric expression tree of any size, in
   any machine state, wherever the code sits in the image.  The reference semantics gives the
   same value.  Calls inside expressions are outside this lemma (they are covered by the
   oracle and correspondence runs). *)
From Coq Require Import ZArith String List Bool Lia.
From Bardolph Require Import Gen.Codes Lang.Value Lang.Instr Lang.Loader Lang.World Lang.Regs Lang.Machine
  Lang.Syntax Lang.Sem Lang.CodeGen.
Open Scope string_scope.
Open Scope list_scope.
Import ListNotations.
Open Scope Z_scope.

Section ExprCompile.
Variable rt : rtable.
Variable mt : mtable.

Fixpoint supported (e : expr) : bool :=
  match e with
  | ELit (LInt _) | ELit (LFlt _) => true
  | ELit (LStr _) => false
  | EMacro m => match macro mt m with VInt _ | VFlt _ | VBool _ => true | _ => false end
  | EVar _ => true
  | EReg r => negb (register_eqb r R_PC)
  | ECall _ _ => false
  | EBin _ a b => supported a && supported b
  | ENeg a | EPos a | EParen a => supported a
  end.

(* the value of a tree, given how variables and registers read *)
Fixpoint peval (rd : string -> value) (rg : register -> res value) (e : expr) : res value :=
  match e with
  | ELit l => Ok (lit_value l)
  | EMacro m => Ok (macro mt m)
  | EVar x => pushable (rd x)
  | EReg r => do v <- rg r; pushable v
  | ECall _ _ => Err (EUnsupported "call")
  | EBin op a b => do x <- peval rd rg a; do y <- peval rd rg b; eval_binop (binop_operator op) x y
  | ENeg a => do x <- peval rd rg a; neg_value x
  | EPos a | EParen a => peval rd rg a
  end.

(* ---------- the machine ---------- *)
Definition rd_vm (s : mstate) (x : string) : value := get_var (m_globals s) (m_frames s) x.
Definition rg_vm (s : mstate) (r : register) : res value :=
  match rf_get (m_regs s) r with Some v => Ok v | None => Err (EInternal "register without attribute") end.

Definition pushed (s : mstate) (v : value) (k : Z) : mstate :=
  mkM (m_pc s + k) (m_regs s) (m_globals s) (m_frames s) (v :: m_stack s) (m_unnamed s) (m_world s).

(* n silent steps *)
Fixpoint steps (n : nat) (im : image) (s : mstate) : option mstate :=
  match n with
  | O => Some s
  | S k => match fetch im (m_pc s) with
           | Some i => match Machine.exec im i s with Next s' [] => steps k im s' | _ => None end
           | None => None
           end
  end.

Fixpoint code_at (im : image) (pc : Z) (c : program) : Prop :=
  match c with [] => True | i :: r => fetch im pc = Some i /\ code_at im (pc + 1) r end.

Lemma code_at_app im c1 : forall pc c2, code_at im pc (c1 ++ c2) <-> code_at im pc c1 /\ code_at im (pc + zlength c1) c2.
Proof.
  induction c1 as [|i c1 IH]; intros pc c2; cbn [app code_at].
  - unfold zlength. cbn. rewrite Z.add_0_r. tauto.
  - rewrite IH. unfold zlength. cbn [length]. rewrite Nat2Z.inj_succ.
    replace (pc + Z.succ (Z.of_nat (length c1))) with (pc + 1 + Z.of_nat (length c1)) by lia. tauto.
Qed.

Lemma steps_app n1 : forall n2 im s s1 s2, steps n1 im s = Some s1 -> steps n2 im s1 = Some s2 -> steps (n1 + n2) im s = Some s2.
Proof.
  induction n1 as [|n1 IH]; intros n2 im s s1 s2 H1 H2; cbn [steps Nat.add] in *.
  - inversion H1. subst. exact H2.
  - destruct (fetch im (m_pc s)) as [i|]; [|discriminate].
    destruct (Machine.exec im i s) as [s' evs| |e evs]; try discriminate. destruct evs; [|discriminate].
    eapply IH; eassumption.
Qed.

Lemma get_reg_not_pc s r : register_eqb r R_PC = false -> get_reg s r = rg_vm s r.
Proof. intros H. destruct r; try reflexivity. discriminate. Qed.

Lemma binop_not_unary op : is_unary (binop_operator op) = false.
Proof. destruct op; reflexivity. Qed.

(* the code of a supported tree runs silently, leaves everything but the stack and the pc
   alone, and pushes the value of the tree *)
Theorem c_expr_pushes_value e : supported e = true ->
  forall im s v, code_at im (m_pc s) (c_expr rt mt e) -> peval (rd_vm s) (rg_vm s) e = Ok v ->
  exists n, steps n im s = Some (pushed s v (zlength (c_expr rt mt e))).
Proof.
  induction e as [l|m|x|r|g args|op a IHa b IHb|a IHa|a IHa|a IHa]; intros Hsup im s v Hc Hv; cbn [supported] in Hsup.
  - (* literal *)
    destruct l as [z|fl|str]; try discriminate; cbn [c_expr lit_param push_of code_at] in Hc; destruct Hc as [Hf _];
      exists 1%nat; cbn [steps]; rewrite Hf; cbn in Hv; inversion Hv; subst; reflexivity.
  - (* macro *)
    cbn [c_expr code_at] in Hc. cbn [peval] in Hv. inversion Hv. subst v. unfold macro_param in Hc.
    destruct (macro mt m) eqn:Em; try discriminate; cbn [value_param push_of code_at] in Hc; destruct Hc as [Hf _];
      exists 1%nat; cbn [steps]; rewrite Hf; reflexivity.
  - (* variable *)
    cbn [c_expr code_at] in Hc. destruct Hc as [Hf _]. cbn [peval] in Hv. unfold pushable in Hv.
    exists 1%nat. cbn [steps]. rewrite Hf. unfold rd_vm in Hv.
    cbn. destruct (get_var (m_globals s) (m_frames s) x) eqn:Eg; try discriminate; inversion Hv; subst; reflexivity.
  - (* register *)
    cbn [c_expr code_at] in Hc. destruct Hc as [Hf _]. cbn [peval] in Hv.
    apply negb_true_iff in Hsup. exists 1%nat. cbn [steps]. rewrite Hf.
    cbn [Machine.exec i_op i_p0 I1]. rewrite (get_reg_not_pc s r Hsup).
    destruct (rg_vm s r) as [w|er]; cbn [bind] in *; [|discriminate].
    unfold pushable in Hv. destruct w; try discriminate; inversion Hv; subst; reflexivity.
  - discriminate.
  - (* binary operator *)
    apply andb_true_iff in Hsup. destruct Hsup as [Ha Hb].
    cbn [c_expr] in Hc. apply code_at_app in Hc. destruct Hc as [Hca Hc]. apply code_at_app in Hc. destruct Hc as [Hcb Hop].
    cbn [code_at] in Hop. destruct Hop as [Hfop _].
    cbn [peval] in Hv.
    destruct (peval (rd_vm s) (rg_vm s) a) as [x|] eqn:Ea; [|discriminate]. cbn [bind] in Hv.
    destruct (peval (rd_vm s) (rg_vm s) b) as [y|] eqn:Eb; [|discriminate]. cbn [bind] in Hv.
    destruct (IHa Ha im s x Hca Ea) as [n1 H1].
    set (s1 := pushed s x (zlength (c_expr rt mt a))) in *.
    assert (Hcb' : code_at im (m_pc s1) (c_expr rt mt b)) by exact Hcb.
    destruct (IHb Hb im s1 y Hcb' Eb) as [n2 H2].
    set (s2 := pushed s1 y (zlength (c_expr rt mt b))) in *.
    exists (n1 + (n2 + 1))%nat.
    eapply steps_app; [exact H1|]. eapply steps_app; [exact H2|].
    cbn [steps]. assert (Hpc : m_pc s2 = m_pc s + zlength (c_expr rt mt a) + zlength (c_expr rt mt b)) by reflexivity.
    rewrite Hpc, Hfop. unfold operator_instr. cbn [Machine.exec i_op i_p0 I1]. rewrite binop_not_unary.
    cbn [pop1 m_stack s2 s1 pushed bind with_stack]. rewrite Hv. cbn [bind lift].
    f_equal. unfold pushed, advance, with_pc, with_stack. cbn.
    f_equal. unfold zlength. rewrite !app_length. cbn [length]. rewrite !Nat2Z.inj_add. cbn. lia.
  - (* leading minus *)
    cbn [c_expr] in Hc. apply code_at_app in Hc. destruct Hc as [Hca Hc]. cbn [code_at] in Hc. destruct Hc as [Hf1 [Hf2 _]].
    cbn [peval] in Hv. destruct (peval (rd_vm s) (rg_vm s) a) as [x|] eqn:Ea; [|discriminate]. cbn [bind] in Hv.
    destruct (IHa Hsup im s x Hca Ea) as [n1 H1].
    exists (n1 + 2)%nat. eapply steps_app; [exact H1|].
    cbn [steps]. cbn [pushed m_pc]. rewrite Hf1. cbn [Machine.exec i_op i_p0 I1 param_value].
    cbn [advance with_pc with_stack m_pc m_stack m_regs m_globals m_frames m_unnamed m_world].
    change (m_pc (pushed s x (zlength (c_expr rt mt a)))) with (m_pc s + zlength (c_expr rt mt a)).
    rewrite Hf2. cbn [Machine.exec i_op i_p0 I1 is_unary].
    unfold pop1. cbn [advance with_pc with_stack pushed m_stack bind m_pc m_regs m_globals m_frames m_unnamed m_world].
    unfold neg_value in Hv. rewrite Hv. cbn [bind lift].
    f_equal. unfold pushed, advance, with_pc, with_stack. cbn.
    f_equal. unfold zlength. rewrite !app_length. cbn [length]. rewrite !Nat2Z.inj_add. cbn. lia.
  - cbn [c_expr] in Hc. cbn [peval] in Hv. exact (IHa Hsup im s v Hc Hv).
  - cbn [c_expr] in Hc. cbn [peval] in Hv. exact (IHa Hsup im s v Hc Hv).
Qed.


(* ---------- the whole-run function takes those steps ---------- *)
Lemma fetch_some_in_range im pc i : fetch im pc = Some i -> (zlength (im_code im) <=? pc) = false.
Proof.
  unfold fetch. destruct (pc <? 0) eqn:E; [discriminate|]. intros H.
  apply Z.ltb_ge in E. apply Z.leb_gt. unfold zlength.
  assert (Hn : (Z.to_nat pc < length (im_code im))%nat) by (apply nth_error_Some; rewrite H; discriminate).
  lia.
Qed.

Lemma run_from_steps n : forall im s s' f acc, steps n im s = Some s' -> run_from (n + f) im s acc = run_from f im s' acc.
Proof.
  induction n as [|n IH]; intros im s s' f acc H; cbn [steps Nat.add] in *.
  - inversion H. reflexivity.
  - destruct (fetch im (m_pc s)) as [i|] eqn:Ef; [|discriminate].
    destruct (Machine.exec im i s) as [s1 evs| |e evs] eqn:Ee; try discriminate. destruct evs; [|discriminate].
    cbn [run_from]. rewrite (fetch_some_in_range _ _ _ Ef), Ef, Ee. cbn [rev_append]. apply IH. exact H.
Qed.

(* ---------- the reference semantics gives the same value ---------- *)
Fixpoint height (e : expr) : nat :=
  match e with
  | EBin _ a b => S (Nat.max (height a) (height b))
  | ENeg a | EPos a | EParen a => S (height a)
  | _ => 1%nat
  end.

Definition rd_sem (ss : sstate) (x : string) : value := lookup ss x.
Definition rg_sem (ss : sstate) (r : register) : res value := Ok (rreg (s_regs ss) r).

Theorem eval_expr_is_peval e : supported e = true ->
  forall fuel in_matrix ss, (height e <= fuel)%nat ->
  eval_expr rt mt fuel in_matrix ss e = lift_res (peval (rd_sem ss) (rg_sem ss) e) ss.
Proof.
  induction e as [l|m|x|r|g args|op a IHa b IHb|a IHa|a IHa|a IHa]; intros Hsup fuel im ss Hf; cbn [supported height] in *;
    (destruct fuel as [|fuel]; [lia|]); cbn [eval_expr peval].
  - reflexivity.
  - destruct (macro mt m); try discriminate; reflexivity.
  - unfold operand_value, rd_sem, pushable. destruct (lookup ss x); reflexivity.
  - unfold operand_value, rg_sem, pushable. cbn [bind]. destruct (rreg (s_regs ss) r); reflexivity.
  - discriminate.
  - apply andb_true_iff in Hsup. destruct Hsup as [Ha Hb].
    rewrite (IHa Ha fuel im ss) by lia.
    destruct (peval (rd_sem ss) (rg_sem ss) a) as [x|er]; cbn [lift_res sbind bind]; [|reflexivity].
    rewrite (IHb Hb fuel im ss) by lia.
    destruct (peval (rd_sem ss) (rg_sem ss) b) as [y|er]; cbn [lift_res sbind bind]; reflexivity.
  - rewrite (IHa Hsup fuel im ss) by lia.
    destruct (peval (rd_sem ss) (rg_sem ss) a) as [x|er]; cbn [lift_res sbind bind]; reflexivity.
  - apply IHa; [exact Hsup|lia].
  - apply IHa; [exact Hsup|lia].
Qed.

(* the same from success alone: whenever the reference semantics returns a value at all (with whatever fuel), it is the tree value *)
Lemma eval_expr_ok e : supported e = true ->
  forall fuel in_matrix ss x s1, eval_expr rt mt fuel in_matrix ss e = ROk x s1 -> s1 = ss /\ peval (rd_sem ss) (rg_sem ss) e = Ok x.
Proof.
  induction e as [l|m|x|r|g args|op a IHa b IHb|a IHa|a IHa|a IHa]; intros Hsup fuel im ss v s1 He; cbn [supported] in Hsup;
    (destruct fuel as [|fuel]; [discriminate|]); cbn [eval_expr peval] in *.
  - injection He as Hv Hs. subst. auto.
  - destruct (macro mt m); try discriminate; cbn [operand_value] in He; injection He as Hv Hs; subst; auto.
  - unfold operand_value, rd_sem, pushable in *. destruct (lookup ss x); try discriminate; injection He as Hv Hs; subst; auto.
  - unfold operand_value, rg_sem, pushable in *. cbn [bind]. destruct (rreg (s_regs ss) r); try discriminate; injection He as Hv Hs; subst; auto.
  - discriminate.
  - apply andb_true_iff in Hsup. destruct Hsup as [Ha Hb].
    destruct (eval_expr rt mt fuel im ss a) as [xa sa|ea sa|sa] eqn:Ea; cbn [sbind] in He; try discriminate.
    destruct (IHa Ha fuel im ss xa sa Ea) as [-> Hpa].
    destruct (eval_expr rt mt fuel im ss b) as [xb sb|eb sb|sb] eqn:Eb; cbn [sbind] in He; try discriminate.
    destruct (IHb Hb fuel im ss xb sb Eb) as [-> Hpb].
    rewrite Hpa, Hpb. cbn [bind]. destruct (eval_binop (binop_operator op) xa xb); cbn [lift_res] in He; try discriminate.
    injection He as Hv Hs. subst. auto.
  - destruct (eval_expr rt mt fuel im ss a) as [xa sa|ea sa|sa] eqn:Ea; cbn [sbind] in He; try discriminate.
    destruct (IHa Hsup fuel im ss xa sa Ea) as [-> Hpa]. rewrite Hpa. cbn [bind].
    destruct (neg_value xa); cbn [lift_res] in He; try discriminate. injection He as Hv Hs. subst. auto.
  - exact (IHa Hsup fuel im ss v s1 He).
  - exact (IHa Hsup fuel im ss v s1 He).
Qed.

(* peval depends on the readers only through the names and registers it reads *)
Lemma peval_ext rd1 rg1 rd2 rg2 e : (forall x, rd1 x = rd2 x) -> (forall r, register_eqb r R_PC = false -> rg1 r = rg2 r) ->
  supported e = true -> peval rd1 rg1 e = peval rd2 rg2 e.
Proof.
  intros Hd Hg. induction e as [l|m|x|r|g args|op a IHa b IHb|a IHa|a IHa|a IHa]; intros Hsup; cbn [supported peval] in *; try reflexivity.
  - rewrite Hd. reflexivity.
  - apply negb_true_iff in Hsup. rewrite (Hg r Hsup). reflexivity.
  - apply andb_true_iff in Hsup. destruct Hsup as [Ha Hb]. rewrite (IHa Ha), (IHb Hb). reflexivity.
  - rewrite (IHa Hsup). reflexivity.
  - exact (IHa Hsup).
  - exact (IHa Hsup).
Qed.

(* compiler + machine agree with the reference semantics on the value of every supported tree:
   if variables and registers read the same in the two states, the machine pushes the value the
   semantics computes *)
Theorem expression_code_computes_the_tree e : supported e = true ->
  forall im s ss v fuel in_matrix,
    (forall x, rd_vm s x = lookup ss x) ->
    (forall r, register_eqb r R_PC = false -> rg_vm s r = Ok (rreg (s_regs ss) r)) ->
    code_at im (m_pc s) (c_expr rt mt e) -> (height e <= fuel)%nat ->
    eval_expr rt mt fuel in_matrix ss e = ROk v ss ->
    exists n, steps n im s = Some (pushed s v (zlength (c_expr rt mt e))).
Proof.
  intros Hsup im s ss v fuel inm Hd Hg Hc Hf He.
  rewrite (eval_expr_is_peval e Hsup fuel inm ss Hf) in He.
  assert (Hp : peval (rd_vm s) (rg_vm s) e = Ok v).
  { rewrite (peval_ext (rd_vm s) (rg_vm s) (rd_sem ss) (rg_sem ss) e Hd Hg Hsup).
    destruct (peval (rd_sem ss) (rg_sem ss) e); cbn [lift_res] in He; inversion He; reflexivity. }
  exact (c_expr_pushes_value e Hsup im s v Hc Hp).
Qed.

End ExprCompile.
