(* C01 / C03 / C05: whole programs with routine definitions.  The loader moves the routine blocks in front of the main
   code (behind one JUMP); Lang/Simulation3.v says what the compiled statements and routine bodies do wherever they lie. *)
From Coq Require Import ZArith String List Bool Lia.
From Bardolph Require Import Gen.Codes Lang.Value Lang.Instr Lang.Loader Lang.World Lang.Units0 Lang.Regs Lang.Devices Lang.Builtins
  Lang.Machine Lang.Syntax Lang.Sem Lang.CodeGen Lang.Scope Lang.ExprCompile Lang.Simulation Lang.Simulation2 Lang.CallFrames Lang.Simulation3.
Open Scope string_scope.
Open Scope list_scope.
Import ListNotations.
Open Scope Z_scope.

(* ---------- the loader on a sequence of routine blocks and plain code ---------- *)
(* a segment: the body of a routine (with its name) or a stretch of main code; neither contains ROUTINE or END *)
Definition seg := (option string * program)%type.
Definition enc (g : seg) : program :=
  match fst g with
  | Some f => [I1 OC_ROUTINE (PStr f)] ++ snd g ++ [I1 OC_END (PStr f)]
  | None => snd g
  end.
Definition rpart (g : seg) : program := match fst g with Some _ => enc g | None => [] end.
Definition mpart (g : seg) : program := match fst g with Some _ => [] | None => snd g end.
Definition plain_seg (g : seg) : bool := forallb not_routine (snd g).

(* the table entries, most recent first, for segments that start when nR instructions have been copied *)
Fixpoint tbl_of (segs : list seg) (nR : Z) (tbl : list (param * (Z * Z))) : list (param * (Z * Z)) :=
  match segs with
  | [] => tbl
  | g :: r =>
      match fst g with
      | Some f => tbl_of r (nR + zlength (enc g)) ((PStr f, (nR + 2, nR + zlength (enc g) + 1)) :: tbl)
      | None => tbl_of r nR tbl
      end
  end.

Lemma is_end_of_plain f i : not_routine i = true -> is_end_of (PStr f) i = false.
Proof.
  unfold not_routine, is_end_of. destruct (i_op i); try reflexivity; try discriminate.
  destruct (i_p0 i) as [| | | | | | |o| | | | | | | |]; try discriminate. destruct o; try discriminate. reflexivity.
Qed.

Lemma load_go_body c : forallb not_routine c = true -> forall rest f addr R M nR tbl,
  load_go (c ++ rest) (Some (PStr f, addr)) R M nR tbl = load_go rest (Some (PStr f, addr)) (rev c ++ R) M (nR + zlength c) tbl.
Proof.
  induction c as [|i c IH]; intros Hc rest f addr R M nR tbl.
  - cbn [app rev]. unfold zlength. cbn [length]. rewrite Z.add_0_r. reflexivity.
  - cbn [forallb] in Hc. apply andb_true_iff in Hc. destruct Hc as [Hi Hc]. cbn [app load_go]. rewrite (is_end_of_plain f i Hi).
    rewrite (IH Hc). cbn [rev]. rewrite <- app_assoc. cbn [app]. f_equal. unfold zlength. cbn [length]. lia.
Qed.

Lemma load_go_main c : forallb not_routine c = true -> forall rest R M nR tbl,
  load_go (c ++ rest) None R M nR tbl = load_go rest None R (rev c ++ M) nR tbl.
Proof.
  induction c as [|i c IH]; intros Hc rest R M nR tbl; [reflexivity|].
  cbn [forallb] in Hc. apply andb_true_iff in Hc. destruct Hc as [Hi Hc]. cbn [app load_go].
  assert (E : match i_op i with OC_ROUTINE => load_go (c ++ rest) (Some (i_p0 i, nR + 2)) (i :: R) M (nR + 1) tbl | _ => load_go (c ++ rest) None R (i :: M) nR tbl end
              = load_go (c ++ rest) None R (i :: M) nR tbl).
  { unfold not_routine in Hi. destruct (i_op i); try reflexivity; discriminate. }
  rewrite E, (IH Hc). cbn [rev]. rewrite <- app_assoc. reflexivity.
Qed.

Lemma zlength_app {A} (a b : list A) : zlength (a ++ b) = zlength a + zlength b.
Proof. unfold zlength. rewrite app_length, Nat2Z.inj_add. reflexivity. Qed.
Lemma zlength_cons {A} (x : A) (l : list A) : zlength (x :: l) = 1 + zlength l.
Proof. unfold zlength. cbn [length]. lia. Qed.

Lemma load_go_segs : forall segs, forallb plain_seg segs = true -> forall R M nR tbl,
  load_go (flat_map enc segs) None R M nR tbl =
  (rev (flat_map rpart segs) ++ R, rev (flat_map mpart segs) ++ M, tbl_of segs nR tbl).
Proof.
  induction segs as [|g r IH]; intros Hp R M nR tbl; [reflexivity|].
  cbn [forallb] in Hp. apply andb_true_iff in Hp. destruct Hp as [Hg Hr]. unfold plain_seg in Hg.
  destruct g as [[f|] c]; cbn [fst snd] in Hg.
  - (* a routine block *)
    assert (Henc : enc (Some f, c) = I1 OC_ROUTINE (PStr f) :: c ++ [I1 OC_END (PStr f)]) by reflexivity.
    assert (Hlen : zlength (enc (Some f, c)) = 1 + zlength c + 1) by (rewrite Henc, zlength_cons, zlength_app; unfold zlength at 2; cbn [length]; lia).
    change (flat_map enc ((Some f, c) :: r)) with (enc (Some f, c) ++ flat_map enc r).
    change (flat_map rpart ((Some f, c) :: r)) with (enc (Some f, c) ++ flat_map rpart r).
    change (flat_map mpart ((Some f, c) :: r)) with (flat_map mpart r).
    change (tbl_of ((Some f, c) :: r) nR tbl) with (tbl_of r (nR + zlength (enc (Some f, c))) ((PStr f, (nR + 2, nR + zlength (enc (Some f, c)) + 1)) :: tbl)).
    rewrite Hlen, Henc. cbn [app load_go i_op I1 i_p0]. rewrite <- app_assoc, (load_go_body c Hg). cbn [app load_go].
    assert (Hend : is_end_of (PStr f) (I1 OC_END (PStr f)) = true) by (unfold is_end_of; cbn; rewrite String.eqb_refl; reflexivity).
    rewrite Hend, (IH Hr).
    replace (nR + 1 + zlength c + 1) with (nR + (1 + zlength c + 1)) by lia.
    replace (nR + 1 + zlength c + 2) with (nR + (1 + zlength c + 1) + 1) by lia.
    f_equal. f_equal.
    cbn [rev]. rewrite !rev_app_distr. cbn [rev app]. rewrite <- !app_assoc. cbn [app]. reflexivity.
  - (* main code *)
    change (flat_map enc ((None, c) :: r)) with (c ++ flat_map enc r).
    change (flat_map rpart ((None, c) :: r)) with (flat_map rpart r).
    change (flat_map mpart ((None, c) :: r)) with (c ++ flat_map mpart r).
    change (tbl_of ((None, c) :: r) nR tbl) with (tbl_of r nR tbl).
    rewrite (load_go_main c Hg), (IH Hr). f_equal. f_equal. rewrite rev_app_distr, <- app_assoc. reflexivity.
Qed.

(* ---------- where things lie in the loaded image ---------- *)
Lemma code_at_middle im : forall pre c post, im_code im = pre ++ c ++ post -> code_at im (zlength pre) c.
Proof.
  intros pre c. revert pre. induction c as [|i r IH]; intros pre post H; cbn [code_at]; [exact I|].
  split.
  - unfold fetch, zlength. replace (Z.of_nat (length pre) <? 0) with false by (symmetry; apply Z.ltb_ge; lia).
    rewrite Nat2Z.id, H, nth_error_app2 by lia. rewrite Nat.sub_diag. reflexivity.
  - replace (zlength pre + 1) with (zlength (pre ++ [i])) by (unfold zlength; rewrite app_length, Nat2Z.inj_add; reflexivity).
    apply (IH (pre ++ [i]) post). rewrite H, <- app_assoc. reflexivity.
Qed.

Definition seg_names (segs : list seg) : list string := flat_map (fun g => match fst g with Some f => [f] | None => [] end) segs.

(* the routine table as a list of entries, most recent first *)
Fixpoint entries (segs : list seg) (nR : Z) : list (param * (Z * Z)) :=
  match segs with
  | [] => []
  | g :: r =>
      match fst g with
      | Some f => entries r (nR + zlength (enc g)) ++ [(PStr f, (nR + 2, nR + zlength (enc g) + 1))]
      | None => entries r nR
      end
  end.
Lemma tbl_of_entries segs : forall n tbl, tbl_of segs n tbl = entries segs n ++ tbl.
Proof.
  induction segs as [|[[f|] c] r IH]; intros n tbl; cbn [tbl_of entries fst]; [reflexivity| |apply IH].
  rewrite IH, <- app_assoc. reflexivity.
Qed.
Lemma zlength_rpart_some f c : zlength (flat_map rpart [(Some f, c)]) = zlength (enc (Some f, c)).
Proof. cbn [flat_map rpart fst]. rewrite app_nil_r. reflexivity. Qed.
Lemma entries_app a : forall b n, entries (a ++ b) n = entries b (n + zlength (flat_map rpart a)) ++ entries a n.
Proof.
  induction a as [|[[f|] c] r IH]; intros b n; cbn [app entries fst flat_map].
  - unfold zlength. cbn [length]. rewrite Z.add_0_r, app_nil_r. reflexivity.
  - rewrite IH, app_assoc. f_equal. f_equal. f_equal. rewrite zlength_app. change (rpart (Some f, c)) with (enc (Some f, c)). lia.
  - rewrite IH. unfold rpart at 1. cbn [fst app]. reflexivity.
Qed.
Lemma entries_names segs : forall n e, In e (entries segs n) -> exists g, fst e = PStr g /\ In g (seg_names segs).
Proof.
  induction segs as [|[[f|] c] r IH]; intros n e H; cbn [entries fst] in H; [contradiction| |].
  - apply in_app_or in H. destruct H as [H|[H|[]]].
    + destruct (IH _ e H) as [g [Hg Hi]]. exists g. split; [exact Hg|]. cbn [seg_names flat_map fst app]. right. exact Hi.
    + subst e. exists f. split; [reflexivity|]. cbn [seg_names flat_map fst app]. left. reflexivity.
  - destruct (IH _ e H) as [g [Hg Hi]]. exists g. split; [exact Hg|exact Hi].
Qed.
Lemma find_routine_skip f l t : (forall e, In e l -> forall g, fst e = PStr g -> g <> f) -> (forall e, In e l -> exists g, fst e = PStr g) ->
  find_routine (PStr f) (l ++ t) = find_routine (PStr f) t.
Proof.
  induction l as [|[k a] r IH]; intros Hn Hs; [reflexivity|]. cbn [app find_routine].
  destruct (Hs (k, a) (or_introl eq_refl)) as [g Hg]. cbn [fst] in Hg. subst k.
  assert (Hgf : g <> f) by (apply (Hn (PStr g, a) (or_introl eq_refl) g); reflexivity).
  cbn [param_eqb]. destruct (String.eqb g f) eqn:E; [apply String.eqb_eq in E; contradiction|].
  apply IH; intros e He; [apply Hn|apply Hs]; right; exact He.
Qed.

(* a routine defined once: where the table says its body is *)
Lemma find_routine_entry pre f c post n : ~ In f (seg_names post) ->
  find_routine (PStr f) (entries (pre ++ (Some f, c) :: post) n) =
  Some (n + zlength (flat_map rpart pre) + 2, n + zlength (flat_map rpart pre) + zlength (enc (Some f, c)) + 1).
Proof.
  intros Hn. rewrite entries_app. cbn [entries fst]. rewrite <- !app_assoc.
  rewrite find_routine_skip.
  - cbn [app find_routine param_eqb]. rewrite String.eqb_refl. reflexivity.
  - intros e He g Hg Hgf. subst g. destruct (entries_names _ _ _ He) as [g' [Hg' Hi]]. rewrite Hg in Hg'. injection Hg' as <-. exact (Hn Hi).
  - intros e He. destruct (entries_names _ _ _ He) as [g' [Hg' _]]. exists g'. exact Hg'.
Qed.

(* the image of a sequence of segments *)
Definition jump_over (R : program) : instr := mkI OC_JUMP (PJump JC_ALWAYS) (PInt (zlength R + 1)).

Lemma load_segs segs : forallb plain_seg segs = true ->
  load (flat_map enc segs) =
  match flat_map rpart segs with
  | [] => mkImage (flat_map mpart segs) (entries segs 0) 0
  | R => mkImage (jump_over R :: R ++ flat_map mpart segs) (entries segs 0) (zlength R)
  end.
Proof.
  intros Hp. unfold load. rewrite (load_go_segs segs Hp), !app_nil_r, !rev_involutive, tbl_of_entries, app_nil_r.
  destruct (flat_map rpart segs); reflexivity.
Qed.

Definition main_start (segs : list seg) : Z := match flat_map rpart segs with [] => 0 | R => zlength R + 1 end.

Lemma main_loaded segs : forallb plain_seg segs = true ->
  code_at (load (flat_map enc segs)) (main_start segs) (flat_map mpart segs) /\
  zlength (im_code (load (flat_map enc segs))) = main_start segs + zlength (flat_map mpart segs) /\
  (main_start segs = 0 \/ fetch (load (flat_map enc segs)) 0 = Some (jump JC_ALWAYS (main_start segs))).
Proof.
  intros Hp. rewrite (load_segs segs Hp). unfold main_start. destruct (flat_map rpart segs) as [|i R] eqn:ER.
  - split; [apply (code_at_suffix _ []); reflexivity|]. split; [cbn [im_code]; lia|]. left. reflexivity.
  - split.
    + replace (zlength (i :: R) + 1) with (zlength (jump_over (i :: R) :: i :: R)) by (rewrite !zlength_cons; lia).
      apply code_at_suffix. reflexivity.
    + split; [cbn [im_code]; rewrite zlength_cons, zlength_app; lia|]. right. reflexivity.
Qed.

Lemma routine_loaded_at pre f c post : forallb plain_seg (pre ++ (Some f, c) :: post) = true -> ~ In f (seg_names post) ->
  let im := load (flat_map enc (pre ++ (Some f, c) :: post)) in
  exists addr r, find_routine (PStr f) (im_routines im) = Some (addr, r) /\ code_at im addr (c ++ [I1 OC_END (PStr f)]).
Proof.
  intros Hp Hn im. unfold im. rewrite (load_segs _ Hp).
  set (Rpre := flat_map rpart pre). set (Rpost := flat_map rpart post). set (M := flat_map mpart (pre ++ (Some f, c) :: post)).
  assert (ER : flat_map rpart (pre ++ (Some f, c) :: post) = Rpre ++ ([I1 OC_ROUTINE (PStr f)] ++ c ++ [I1 OC_END (PStr f)]) ++ Rpost).
  { rewrite flat_map_app. cbn [flat_map]. reflexivity. }
  rewrite ER. destruct (Rpre ++ ([I1 OC_ROUTINE (PStr f)] ++ c ++ [I1 OC_END (PStr f)]) ++ Rpost) as [|i R] eqn:E.
  { destruct Rpre; discriminate. }
  rewrite <- E. cbn [im_routines].
  exists (0 + zlength Rpre + 2), (0 + zlength Rpre + zlength (enc (Some f, c)) + 1). split; [apply find_routine_entry; exact Hn|].
  replace (0 + zlength Rpre + 2) with (zlength ((jump_over (Rpre ++ ([I1 OC_ROUTINE (PStr f)] ++ c ++ [I1 OC_END (PStr f)]) ++ Rpost) :: Rpre) ++ [I1 OC_ROUTINE (PStr f)]))
    by (rewrite zlength_app, zlength_cons; unfold zlength at 2; cbn [length]; lia).
  apply (code_at_middle _ _ _ (Rpost ++ M)). cbn [im_code]. cbn [app]. f_equal. repeat (rewrite <- app_assoc; cbn [app]). reflexivity.
Qed.

(* ---------- programs: routine definitions at the top level, covered statements between them ---------- *)
Section Top.
Variable rt : rtable.
Variable mt : mtable.

Definition is_def (st : stmt) : bool := match st with SDefineRoutine _ _ _ => true | _ => false end.
Definition seg_of (st : stmt) : seg :=
  match st with
  | SDefineRoutine f _ body => (Some f, c_stmt rt mt false None body)
  | _ => (None, c_stmt rt mt false None st)
  end.
Definition defs_of (p : list stmt) : rtable :=
  flat_map (fun st => match st with SDefineRoutine f ps body => [(f, mkRdef ps body)] | _ => [] end) p.

Definition top_stmt_ok (st : stmt) : Prop :=
  match st with
  | SDefineRoutine f ps body => builtin_params f builtin_table = None /\ SimpleB rt mt false true body
  | _ => SimpleB rt mt false false st
  end.
(* the routines are those defined at the top level, each once *)
Definition top_ok (p : list stmt) : Prop := Forall top_stmt_ok p /\ NoDup (map fst (defs_of p)) /\ rt = defs_of p.

Lemma seg_of_nondef st : is_def st = false -> seg_of st = (None, c_stmt rt mt false None st).
Proof. destruct st; cbn [is_def]; intros H; try reflexivity; discriminate. Qed.
Lemma top_nondef st : is_def st = false -> top_stmt_ok st -> SimpleB rt mt false false st.
Proof. destruct st; cbn [is_def top_stmt_ok]; intros H Hs; try exact Hs; discriminate. Qed.

(* the body of every routine of the table is covered: the routines may call each other and themselves *)
Lemma defs_bodies p : Forall top_stmt_ok p -> forall f d, In (f, d) (defs_of p) -> SimpleB rt mt false true (rd_body d).
Proof.
  induction 1 as [|st r Hst _ IH]; intros f d Hin; [contradiction|]. unfold defs_of in Hin. cbn [flat_map] in Hin. apply in_app_or in Hin.
  destruct Hin as [Hin|Hin]; [|exact (IH f d Hin)].
  destruct st; try contradiction. destruct Hin as [Hin|[]]. injection Hin as _ Hd. subst d. exact (proj2 Hst).
Qed.
Lemma top_bodies_ok p : top_ok p -> bodies_ok rt mt.
Proof. intros (Hall & _ & Hrt) f d Hf. apply (defs_bodies p Hall f d). rewrite <- Hrt. exact (find_rdef_in f rt d Hf). Qed.

Lemma enc_seg_of st : enc (seg_of st) = c_stmt rt mt false None st.
Proof. destruct (is_def st) eqn:E; [destruct st; try discriminate; reflexivity|]. rewrite (seg_of_nondef st E). reflexivity. Qed.
Lemma compile_segs p : flat_map (c_stmt rt mt false None) p = flat_map enc (map seg_of p).
Proof. induction p as [|st r IH]; [reflexivity|]. cbn [flat_map map]. rewrite IH, enc_seg_of. reflexivity. Qed.

Lemma plain_segs p : Forall top_stmt_ok p -> forallb plain_seg (map seg_of p) = true.
Proof.
  induction 1 as [|st r Hst _ IH]; [reflexivity|]. cbn [map forallb]. rewrite IH, andb_true_r. unfold plain_seg.
  destruct (is_def st) eqn:E.
  - destruct st; try discriminate. cbn [seg_of snd]. destruct Hst as [_ Hb]. exact (proj1 (simpleB_no_routine rt mt) false true _ Hb None).
  - rewrite (seg_of_nondef st E). cbn [snd]. exact (proj1 (simpleB_no_routine rt mt) false false st (top_nondef st E Hst) None).
Qed.

Lemma seg_names_defs p : seg_names (map seg_of p) = map fst (defs_of p).
Proof.
  induction p as [|st r IH]; [reflexivity|]. cbn [map]. unfold seg_names in *. cbn [flat_map]. unfold defs_of. cbn [flat_map]. rewrite map_app. fold (defs_of r). rewrite <- IH.
  destruct (is_def st) eqn:E; [destruct st; try discriminate; reflexivity|]. rewrite (seg_of_nondef st E). destruct st; try discriminate; reflexivity.
Qed.

Lemma find_rdef_split p : forall f d, find_rdef (defs_of p) f = Some d ->
  exists p1 ps body p2, p = p1 ++ SDefineRoutine f ps body :: p2 /\ d = mkRdef ps body.
Proof.
  induction p as [|st r IH]; intros f d H; [discriminate|].
  destruct (is_def st) eqn:E.
  - destruct st as [| | | | | | | | | | |g ps body| | | | | | | | |]; try discriminate. unfold defs_of in H. cbn [flat_map app find_rdef] in H. fold (defs_of r) in H.
    destruct (String.eqb g f) eqn:Eg.
    + apply String.eqb_eq in Eg. subst g. injection H as <-. exists [], ps, body, r. split; reflexivity.
    + destruct (IH f d H) as (p1 & ps' & body' & p2 & Hp & Hd). exists (SDefineRoutine g ps body :: p1), ps', body', p2. split; [rewrite Hp; reflexivity|exact Hd].
  - assert (Hd : defs_of (st :: r) = defs_of r) by (unfold defs_of; cbn [flat_map]; destruct st; try discriminate; reflexivity).
    rewrite Hd in H. destruct (IH f d H) as (p1 & ps' & body' & p2 & Hp & Hd'). exists (st :: p1), ps', body', p2. split; [rewrite Hp; reflexivity|exact Hd'].
Qed.

Lemma defs_of_app a b : defs_of (a ++ b) = defs_of a ++ defs_of b.
Proof. unfold defs_of. apply flat_map_app. Qed.

(* the routines of a program lie in its loaded image *)
Lemma program_routines_loaded p : top_ok p -> routines_loaded rt mt (load (flat_map (c_stmt rt mt false None) p)).
Proof.
  intros (Hall & Hnd & Hrt) f d Hf. rewrite Hrt in Hf.
  destruct (find_rdef_split p f d Hf) as (p1 & ps & body & p2 & Hp & Hd). subst d.
  rewrite compile_segs. cbn [rd_body].
  assert (Hsegs : map seg_of p = map seg_of p1 ++ (Some f, c_stmt rt mt false None body) :: map seg_of p2) by (rewrite Hp, map_app; reflexivity).
  rewrite Hsegs. apply routine_loaded_at.
  - pose proof (plain_segs p Hall) as Hx. rewrite Hsegs in Hx. exact Hx.
  - rewrite seg_names_defs. rewrite Hp, defs_of_app, map_app in Hnd.
    assert (Hc : defs_of (SDefineRoutine f ps body :: p2) = (f, mkRdef ps body) :: defs_of p2) by reflexivity.
    rewrite Hc in Hnd. cbn [map fst] in Hnd. apply NoDup_remove_2 in Hnd.
    intros Hi. apply Hnd. apply in_or_app. right. exact Hi.
Qed.

End Top.

Section Top2.
Variable rt : rtable.
Variable mt : mtable.

Lemma erase_nil_inv fs : erase fs = [] -> fs = [].
Proof. destruct fs as [|[p [|] ra|lv d] t]; cbn [erase]; intros H; try discriminate. reflexivity. Qed.

Lemma mpart_seg_of_nondef st : is_def st = false -> mpart (seg_of rt mt st) = c_stmt rt mt false None st.
Proof. intros E. rewrite (seg_of_nondef rt mt st E). reflexivity. Qed.
Lemma mpart_seg_of_def st : is_def st = true -> mpart (seg_of rt mt st) = [].
Proof. destruct st; cbn [is_def]; intros E; try discriminate. reflexivity. Qed.
Lemma exec_define f ss g ps body : Sem.exec rt mt (S f) false ss (SDefineRoutine g ps body) = ROk SigNormal ss.
Proof. reflexivity. Qed.

(* the main code: the statements between the routine definitions, one after the other *)
Lemma top_run im : bodies_ok rt mt -> routines_loaded rt mt im -> forall p, Forall (top_stmt_ok rt mt) p ->
  forall fuel ss s sig ss', sim ss s -> m_frames s = [] ->
  code_at im (m_pc s) (flat_map mpart (map (seg_of rt mt) p)) ->
  exec_seq rt mt fuel false ss p = ROk sig ss' ->
  exists n s' evs, esteps n im s = Some (s', evs) /\ sim ss' s' /\ m_pc s' = m_pc s + zlength (flat_map mpart (map (seg_of rt mt) p)) /\
                   rev (s_trace ss') = rev (s_trace ss) ++ evs.
Proof.
  intros Hbodies Hload p Hall. induction Hall as [|st r Hst _ IH]; intros fuel ss s sig ss' Hsim Hfr Hc He.
  - destruct fuel as [|fuel]; [discriminate|]. rewrite exec_seq_nil in He. injection He as _ <-.
    exists 0%nat, s, []. split; [reflexivity|]. split; [exact Hsim|]. split; [unfold zlength; cbn; lia|]. rewrite app_nil_r. reflexivity.
  - destruct fuel as [|fuel]; [discriminate|]. rewrite exec_seq_cons in He. cbn [map flat_map] in Hc |- *.
    destruct (is_def st) eqn:E.
    + (* a routine definition: no code in the main segment, nothing happens *)
      rewrite (mpart_seg_of_def st E) in *. cbn [app] in *.
      destruct st; try discriminate. destruct fuel as [|fuel]; [discriminate|]. rewrite exec_define in He. cbn [sbind] in He.
      exact (IH (S fuel) ss s sig ss' Hsim Hfr Hc He).
    + rewrite (mpart_seg_of_nondef st E) in *.
      destruct (Sem.exec rt mt fuel false ss st) as [sg sa|e sa|sa] eqn:Est; cbn [sbind] in He; try discriminate.
      apply code_at_app in Hc. destruct Hc as [Hc1 Hc2].
      assert (Hin : in_loop_ok false None) by (intros H; discriminate).
      assert (Hir : in_ret_ok false (m_frames s)) by (intros H; discriminate).
      assert (Hd : in_depth_ok false s) by (intros H; discriminate).
      destruct (proj1 (simpleB_simulation rt mt Hbodies) false false st (top_nondef rt mt st E Hst) None im ss s sg sa fuel Hload Hin Hir Hd Hsim Hc1 Est)
        as [[Hsg (n1 & s1 & e1 & E1 & Hs1 & Hpc1 & Hst1 & Ht1)]|[[_ (a & Ha & _)]|[_ [v [_ (ret & F & Hct & _)]]]]].
      * subst sg.
        assert (Hfr1 : m_frames s1 = []).
        { injection Hst1 as _ H2. unfold fr in H2. rewrite Hfr in H2. apply erase_nil_inv. exact H2. }
        assert (Hc2' : code_at im (m_pc s1) (flat_map mpart (map (seg_of rt mt) r))) by (rewrite Hpc1; exact Hc2).
        destruct (IH fuel sa s1 sig ss' Hs1 Hfr1 Hc2' He) as (n2 & s2 & e2 & E2 & Hs2 & Hpc2 & Ht2).
        exists (n1 + n2)%nat, s2, (e1 ++ e2). split; [eapply esteps_app; eassumption|]. split; [exact Hs2|].
        split; [rewrite Hpc2, Hpc1, zlength_app; lia|]. rewrite Ht2, Ht1, app_assoc. reflexivity.
      * discriminate.
      * rewrite Hfr in Hct. discriminate.
Qed.

(* Every program made of routine definitions (at the top level, each name once; the routines may call each other and themselves) and of covered
   statements -- settings, assignments, print, wait, set / on / off, if / else, blocks, while / counted / endless loops,
   break, calls with ordinary values as arguments, return: compiled, loaded (the routine bodies moved out of line) and
   run on the machine model from the initial state, it finishes with exactly the events the reference semantics gives
   for its source. *)
Theorem program_run (p : script) (w : world) (fuel : nat) (sig : signal) (ss' : sstate) :
  top_ok rt mt p ->
  exec_seq rt mt fuel false (init_sstate w) p = ROk sig ss' ->
  exists k, run_image k (load (flat_map (c_stmt rt mt false None) p)) w = Finished (rev (s_trace ss') ++ [EvFlush]).
Proof.
  intros Htop Hrun. pose proof (program_routines_loaded rt mt p Htop) as Hload. pose proof (top_bodies_ok rt mt p Htop) as Hbodies. destruct Htop as (Hall & _ & _).
  set (code := flat_map (c_stmt rt mt false None) p) in *. set (im := load code) in *.
  set (segs := map (seg_of rt mt) p).
  assert (Hcode : code = flat_map enc segs) by (apply compile_segs).
  assert (Hplain : forallb plain_seg segs = true) by (apply plain_segs; exact Hall).
  destruct (main_loaded segs Hplain) as (Hmain & Hlen & Hjump). rewrite <- Hcode in Hmain, Hlen, Hjump. fold im in Hmain, Hlen, Hjump.
  set (M := flat_map mpart segs) in *. set (P := main_start segs) in *.
  (* to the start of the main code *)
  assert (Hstart : exists n0 s0, esteps n0 im (init_state w) = Some (s0, []) /\ sim (init_sstate w) s0 /\ m_pc s0 = P /\ m_frames s0 = []).
  { destruct Hjump as [H0 | Hj].
    - exists 0%nat, (init_state w). split; [reflexivity|]. split; [apply sim_init|]. split; [symmetry; exact H0|reflexivity].
    - exists 1%nat, (with_pc (init_state w) (0 + P)). split; [exact (jump_always im (init_state w) P Hj)|].
      split; [apply sim_with_pc; apply sim_init|]. split; reflexivity. }
  destruct Hstart as (n0 & s0 & E0 & Hs0 & Hpc0 & Hfr0).
  assert (Hc0 : code_at im (m_pc s0) (flat_map mpart (map (seg_of rt mt) p))) by (rewrite Hpc0; exact Hmain).
  destruct (top_run im Hbodies Hload p Hall fuel (init_sstate w) s0 sig ss' Hs0 Hfr0 Hc0 Hrun) as (n & s' & es & En & Hsim & Hpc & Htr).
  exists ((n0 + n) + 1)%nat. unfold run_image.
  assert (E : esteps (n0 + n) im (init_state w) = Some (s', [] ++ es)) by (eapply esteps_app; eassumption).
  rewrite (run_from_esteps (n0 + n) im (init_state w) s' ([] ++ es) 1 [] E). cbn [run_from].
  assert (Hend : (zlength (im_code im) <=? m_pc s') = true).
  { apply Z.leb_le. rewrite Hlen, Hpc, Hpc0. fold segs. fold M. lia. }
  rewrite Hend. cbn [fst]. unfold flush_events. rewrite (sim_unnamed _ _ Hsim). cbn [map app].
  rewrite rev_append_rev, app_nil_r, rev_involutive. cbn [init_sstate s_trace rev app] in Htr. rewrite <- Htr. reflexivity.
Qed.

End Top2.

Theorem program_with_routines_runs_as_its_source_says (p : script) (w : world) (fuel : nat) (evs : list event) :
  top_ok (fst (collect p [] [])) (snd (collect p [] [])) p ->
  run_src fuel p w = SFinished evs ->
  exists k, run_program k (compile p) w = Finished evs.
Proof.
  intros Htop Hrun. unfold run_src, compile, run_program in *. destruct (collect p [] []) as [rt mt]. cbn [fst snd] in Htop.
  destruct (exec_seq rt mt fuel false (init_sstate w) p) as [sig ss'|e ss'|ss'] eqn:Ee; try discriminate.
  injection Hrun as <-. exact (program_run rt mt p w fuel sig ss' Htop Ee).
Qed.

(* a boolean test for covered programs (sound for top_ok) *)
Section CheckTop.
Variable rt : rtable.
Variable mt : mtable.

Definition top_stmt_b (fuel : nat) (st : stmt) : bool :=
  match st with
  | SDefineRoutine f ps body => match builtin_params f builtin_table with None => simpleB_b rt mt fuel false true body | Some _ => false end
  | _ => simpleB_b rt mt fuel false false st
  end.

Fixpoint nodup_b (l : list string) : bool :=
  match l with
  | [] => true
  | x :: r => negb (existsb (String.eqb x) r) && nodup_b r
  end.
Lemma nodup_b_sound l : nodup_b l = true -> NoDup l.
Proof.
  induction l as [|x r IH]; intros H; [constructor|]. cbn [nodup_b] in H. apply andb_true_iff in H. destruct H as [Hx Hr].
  constructor; [|apply IH; exact Hr]. intros Hi. apply negb_true_iff in Hx.
  assert (He : existsb (String.eqb x) r = true) by (apply existsb_exists; exists x; split; [exact Hi|apply String.eqb_refl]).
  rewrite He in Hx. discriminate.
Qed.

Lemma top_ok_check fuel p : forallb (top_stmt_b fuel) p = true -> nodup_b (map fst (defs_of p)) = true -> rt = defs_of p -> top_ok rt mt p.
Proof.
  intros Hall Hnd Hrt. split; [|split; [apply nodup_b_sound; exact Hnd|exact Hrt]].
  apply Forall_forall. intros st Hin. pose proof (proj1 (forallb_forall _ _) Hall st Hin) as Hst.
  unfold top_stmt_b in Hst. unfold top_stmt_ok.
  destruct st; try (apply (simpleB_b_sound rt mt fuel); exact Hst).
  destruct (builtin_params f builtin_table) eqn:Eb; [discriminate|]. split; [reflexivity|apply (simpleB_b_sound rt mt fuel); exact Hst].
Qed.
End CheckTop.

(* ---------- the routine table the program's own definitions give ---------- *)
(* (a `define` of a constant adds to the table of constants, not to the table of routines) *)
Lemma collect_atom mt st : simple_atom mt st = true -> forall fuel acc, fst (collect_stmt fuel st acc) = fst acc.
Proof.
  intros H fuel acc. destruct fuel as [|fuel]; [reflexivity|]. destruct st; cbn [simple_atom] in H; try discriminate; try reflexivity.
  cbn [collect_stmt]. destruct (macro_value (snd acc) v); reflexivity.
Qed.

Lemma collect_simple mt :
  (forall st, Simple mt st -> forall fuel acc, fst (collect_stmt fuel st acc) = fst acc) /\
  (forall l, SimpleL mt l -> forall fuel acc, fst (fold_left (fun a st => collect_stmt fuel st a) l acc) = fst acc).
Proof.
  apply Simple_mutind.
  - intros st H fuel acc. exact (collect_atom mt st H fuel acc).
  - intros c a _ _ IHa fuel acc. destruct fuel as [|fuel]; [reflexivity|]. exact (IHa fuel acc).
  - intros c a b _ _ IHa _ IHb fuel acc. destruct fuel as [|fuel]; [reflexivity|]. cbn [collect_stmt]. rewrite IHb. exact (IHa fuel acc).
  - intros l _ IH fuel acc. destruct fuel as [|fuel]; [reflexivity|]. exact (IH fuel acc).
  - intros c a _ _ IHa fuel acc. destruct fuel as [|fuel]; [reflexivity|]. exact (IHa fuel acc).
  - intros n a _ _ IHa fuel acc. destruct fuel as [|fuel]; [reflexivity|]. exact (IHa fuel acc).
  - intros fuel acc. reflexivity.
  - intros st r _ IHst _ IHr fuel acc. cbn [fold_left]. rewrite IHr. exact (IHst fuel acc).
Qed.

Lemma collect_simpleB rt mt :
  (forall inl inr st, SimpleB rt mt inl inr st -> forall fuel acc, fst (collect_stmt fuel st acc) = fst acc) /\
  (forall inl inr l, SimpleBL rt mt inl inr l -> forall fuel acc, fst (fold_left (fun a st => collect_stmt fuel st a) l acc) = fst acc).
Proof.
  apply SimpleB_mutind.
  - intros inl inr st H. exact (proj1 (collect_simple mt) st H).
  - intros inr fuel acc. destruct fuel; reflexivity.
  - intros inl v _ fuel acc. destruct fuel; reflexivity.
  - intros inl fuel acc. destruct fuel; reflexivity.
  - intros inl inr f args b d _ _ _ fuel acc. destruct fuel; reflexivity.
  - intros inl inr u f args d _ _ _ _ _ fuel acc. destruct fuel; [reflexivity|]. destruct u as [y|r|[|]]; reflexivity.
  - intros inl inr u f args ps _ _ _ fuel acc. destruct fuel; [reflexivity|]. destruct u as [y|r|[|]]; reflexivity.
  - intros inl f args ps _ _ fuel acc. destruct fuel; reflexivity.
  - intros inl inr u e _ _ fuel acc. destruct fuel; [reflexivity|]. destruct u as [y|r|[|]]; reflexivity.
  - intros inl e _ fuel acc. destruct fuel; reflexivity.
  - intros inl f args d _ _ _ _ fuel acc. destruct fuel; reflexivity.
  - intros inl inr fmt args names k _ _ _ _ _ fuel acc. destruct fuel; reflexivity.
  - intros inl inr c a _ _ IHa fuel acc. destruct fuel as [|fuel]; [reflexivity|]. exact (IHa fuel acc).
  - intros inl inr c a b _ _ IHa _ IHb fuel acc. destruct fuel as [|fuel]; [reflexivity|]. cbn [collect_stmt]. rewrite IHb. exact (IHa fuel acc).
  - intros inl inr l _ IH fuel acc. destruct fuel as [|fuel]; [reflexivity|]. exact (IH fuel acc).
  - intros inl inr c a _ _ IHa fuel acc. destruct fuel as [|fuel]; [reflexivity|]. exact (IHa fuel acc).
  - intros inl inr n a _ _ IHa fuel acc. destruct fuel as [|fuel]; [reflexivity|]. exact (IHa fuel acc).
  - intros inl inr a _ IHa fuel acc. destruct fuel as [|fuel]; [reflexivity|]. exact (IHa fuel acc).
  - intros inl inr l v pre body _ _ IHa fuel acc. destruct fuel as [|fuel]; [reflexivity|]. exact (IHa fuel acc).
  - intros inl inr l x ov pre body _ _ IHa fuel acc. destruct fuel as [|fuel]; [reflexivity|]. exact (IHa fuel acc).
  - intros inl inr fuel acc. reflexivity.
  - intros inl inr st r _ IHst _ IHr fuel acc. cbn [fold_left]. rewrite IHr. exact (IHst fuel acc).
Qed.

Lemma collect_define f g ps body acc : fst (collect_stmt (S f) (SDefineRoutine g ps body) acc) = fst acc ++ [(g, mkRdef ps body)].
Proof. reflexivity. Qed.

Lemma collect_defs rt mt p f : Forall (top_stmt_ok rt mt) p -> forall acc,
  fst (fold_left (fun a st => collect_stmt (S f) st a) p acc) = fst acc ++ defs_of p.
Proof.
  induction 1 as [|st r Hst _ IH]; intros acc; [cbn [fold_left defs_of flat_map]; rewrite app_nil_r; reflexivity|].
  cbn [fold_left]. rewrite IH. destruct (is_def st) eqn:E.
  - destruct st; try discriminate. rewrite collect_define. unfold defs_of. cbn [flat_map]. rewrite <- app_assoc. reflexivity.
  - rewrite (proj1 (collect_simpleB rt mt) false false st (top_nondef rt mt st E Hst) (S f) acc).
    assert (Hd : defs_of (st :: r) = defs_of r) by (unfold defs_of; cbn [flat_map]; destruct st; try discriminate; reflexivity).
    rewrite Hd. reflexivity.
Qed.

(* the final statement: the conditions are on the program text alone *)
Theorem covered_program_runs_as_its_source_says (p : script) (w : world) (fuel : nat) (evs : list event) :
  Forall (top_stmt_ok (fst (collect p [] [])) (snd (collect p [] []))) p -> NoDup (map fst (defs_of p)) ->
  run_src fuel p w = SFinished evs ->
  exists k, run_program k (compile p) w = Finished evs.
Proof.
  intros Hall Hnd. apply program_with_routines_runs_as_its_source_says. split; [exact Hall|]. split; [exact Hnd|].
  exact (collect_defs _ _ p 63 Hall ([], [])).
Qed.
