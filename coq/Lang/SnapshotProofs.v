From Coq Require Import ZArith String List Bool Lia.
From Bardolph Require Import Base.PyStr Gen.Codes Lang.Value Lang.World Lang.Syntax Lang.Snapshot.
Open Scope string_scope.
Open Scope list_scope.
Import ListNotations.
Open Scope Z_scope.

(* ---------- one device ---------- *)
Lemma set_zone_at pre : forall z r a k c, k + Z.of_nat (length pre) = a ->
  set_zone (pre ++ z :: r) a (a + 1) k c = pre ++ c :: (set_zone r a (a + 1) (a + 1) c).
Proof.
  induction pre as [|x pre IH]; intros z r a k c Hk; cbn [app set_zone length] in *.
  - assert (k = a) by lia. subst k.
    replace ((a <=? a) && (a <? a + 1))%bool with true by (symmetry; apply andb_true_iff; split; [apply Z.leb_le|apply Z.ltb_lt]; lia).
    reflexivity.
  - replace ((a <=? k) && (k <? a + 1))%bool with false.
    2:{ symmetry. apply andb_false_iff. left. apply Z.leb_gt. lia. }
    f_equal. apply IH. lia.
Qed.

Lemma set_zone_beyond r : forall a k c, a + 1 <= k -> set_zone r a (a + 1) k c = r.
Proof.
  induction r as [|x r IH]; intros a k c Hk; cbn [set_zone]; [reflexivity|].
  replace ((a <=? k) && (k <? a + 1))%bool with false.
  2:{ symmetry. apply andb_false_iff. right. apply Z.ltb_ge. lia. }
  f_equal. apply IH. lia.
Qed.

Lemma zones_restored n zs : forall pre old, length old = length zs ->
  fold_left apply_to (zone_events n (Z.of_nat (length pre)) zs) (DMulti (pre ++ old)) = DMulti (pre ++ zs).
Proof.
  induction zs as [|c zs IH]; intros pre old Hl.
  - destruct old; [|discriminate]. reflexivity.
  - destruct old as [|o old]; [discriminate|]. cbn [zone_events fold_left apply_to].
    rewrite (set_zone_at pre o old (Z.of_nat (length pre)) 0 c) by lia.
    rewrite set_zone_beyond by lia.
    specialize (IH (pre ++ [c]) old). rewrite app_length in IH. cbn [length] in IH.
    replace (Z.of_nat (length pre + 1)) with (Z.of_nat (length pre) + 1) in IH by lia.
    rewrite <- !app_assoc in IH. cbn [app] in IH. apply IH. cbn [length] in Hl. lia.
Qed.

Lemma device_restored d st : same_shape_state (dv_state d) st -> fold_left apply_to (device_events d) st = dv_state d.
Proof.
  unfold device_events. destruct (dv_state d) as [c p|zs|h w cs]; destruct st as [c' p'|zs'|h' w' cs']; cbn [same_shape_state]; intros H; try contradiction.
  - cbn [fold_left apply_to]. destruct p; reflexivity.
  - apply (zones_restored (dv_name d) zs [] zs'). symmetry. exact H.
  - destruct H as (-> & -> & _). reflexivity.
Qed.

(* ---------- the population ---------- *)
Lemma device_events_target d : Forall (fun e => event_target e = Some (dv_name d)) (device_events d).
Proof.
  unfold device_events. destruct (dv_state d) as [c p|zs|h w cs].
  - repeat constructor.
  - generalize 0. induction zs as [|c zs IH]; intros i; cbn [zone_events]; constructor; [reflexivity|apply IH].
  - repeat constructor.
Qed.

Lemma apply_events_own n evs : forall st rest,
  Forall (fun e => event_target e = Some n) evs -> ~ In n (map dv_name rest) ->
  apply_events (mkDevice n st :: rest) evs = mkDevice n (fold_left apply_to evs st) :: rest.
Proof.
  induction evs as [|e evs IH]; intros st rest Hall Hn; [reflexivity|].
  inversion Hall as [|? ? He Hall']; subst. unfold apply_events in *. cbn [fold_left].
  unfold apply_event at 2. rewrite He. cbn [map dv_name dv_state]. rewrite String.eqb_refl.
  replace (map (fun d => if (dv_name d =? n)%string then mkDevice n (apply_to (dv_state d) e) else d) rest) with rest.
  - apply IH; assumption.
  - clear -Hn. induction rest as [|x rest IH]; [reflexivity|]. cbn [map] in *.
    destruct (String.eqb_spec (dv_name x) n) as [E|_]; [exfalso; apply Hn; left; exact E|].
    f_equal. apply IH. intros H. apply Hn. right. exact H.
Qed.

Lemma apply_events_other x evs : forall rest,
  Forall (fun e => exists m, event_target e = Some m /\ m <> dv_name x) evs ->
  apply_events (x :: rest) evs = x :: apply_events rest evs.
Proof.
  induction evs as [|e evs IH]; intros rest Hall; [reflexivity|].
  inversion Hall as [|? ? (m & He & Hm) Hall']; subst. unfold apply_events in *. cbn [fold_left].
  unfold apply_event at 2. unfold apply_event at 3. rewrite He. cbn [map].
  destruct (String.eqb_spec (dv_name x) m) as [E|_]; [exfalso; apply Hm; symmetry; exact E|].
  apply IH. exact Hall'.
Qed.

Lemma replay_events_targets p : Forall (fun e => exists m, event_target e = Some m /\ In m (map dv_name p)) (replay_events p).
Proof.
  induction p as [|d p IH]; [constructor|]. unfold replay_events. cbn [flat_map]. apply Forall_app. split.
  - eapply Forall_impl; [|apply device_events_target]. intros e He. exists (dv_name d). split; [exact He|left; reflexivity].
  - eapply Forall_impl; [|exact IH]. intros e (m & He & Hin). exists m. split; [exact He|right; exact Hin].
Qed.

(* replaying the snapshot of p on the same devices in ANY other state gives p *)
Theorem replay_restores p : forall q, NoDup (map dv_name p) -> same_shape p q -> apply_events q (replay_events p) = p.
Proof.
  induction p as [|d p IH]; intros q Hnd Hs; inversion Hs as [|a b p' q' (Hn & Hst) Hs']; subst; [reflexivity|].
  cbn [map] in Hnd. inversion Hnd as [|? ? Hnotin Hnd']; subst.
  unfold replay_events. cbn [flat_map]. unfold apply_events. rewrite fold_left_app. fold (apply_events (b :: q') (device_events d)).
  destruct b as [bn bst]. cbn [dv_name dv_state] in *. subst bn.
  assert (Hq : map dv_name q' = map dv_name p).
  { clear -Hs'. induction Hs' as [|x y l l' (Hx & _) _ IHf]; [reflexivity|]. cbn [map]. rewrite Hx, IHf. reflexivity. }
  rewrite (apply_events_own (dv_name d) (device_events d) bst q' (device_events_target d)) by (rewrite Hq; exact Hnotin).
  rewrite device_restored by exact Hst.
  fold (apply_events (mkDevice (dv_name d) (dv_state d) :: q') (flat_map device_events p)).
  rewrite apply_events_other.
  - fold (replay_events p). rewrite (IH q' Hnd' Hs'). destruct d; reflexivity.
  - eapply Forall_impl; [|apply replay_events_targets]. intros e (m & He & Hin). exists m. split; [exact He|].
    cbn [dv_name]. intros E. subst m. contradiction.
Qed.

(* every device appears in the script: the replay addresses each captured device and nothing else *)
Lemma replay_addresses_exactly p e : In e (replay_events p) -> exists d, In d p /\ event_target e = Some (dv_name d).
Proof.
  unfold replay_events. rewrite in_flat_map. intros (d & Hd & He). exists d. split; [exact Hd|].
  pose proof (device_events_target d) as H. rewrite Forall_forall in H. apply H. exact He.
Qed.

(* ---------- what the machine transmits for the registers a snapshot sets ---------- *)
From Bardolph Require Import Lang.Units0 Lang.Regs Lang.Devices.

Lemma param_16_raw z : 0 <= z <= 65535 -> param_16 (VInt z) = Ok z.
Proof.
  intros Hz. unfold param_16, param_n, as_num, nlt. cbn [to_num num_cmp bind].
  replace (65535 <? z) with false by (symmetry; apply Z.ltb_ge; lia).
  cbn [num_cmp]. destruct (0 <? z) eqn:E; cbn [bind num_round]; [reflexivity|].
  apply Z.ltb_ge in E. f_equal. lia.
Qed.

(* in raw mode, with the four colour registers holding raw integers, exactly those integers are
   transmitted: no unit conversion, no clamping, no rounding *)
Theorem raw_registers_sent_unchanged rf h s b k :
  rf_unit_mode rf = Ok UM_RAW ->
  rreg rf R_HUE = VInt h -> rreg rf R_SATURATION = VInt s -> rreg rf R_BRIGHTNESS = VInt b -> rreg rf R_KELVIN = VInt k ->
  0 <= h <= 65535 -> 0 <= s <= 65535 -> 0 <= b <= 65535 -> 0 <= k <= 65535 ->
  sent_color rf = Ok [h; s; b; k].
Proof.
  intros Hm Hh Hs Hb Hk Rh Rs Rb Rk.
  unfold sent_color, rf_raw_color, rf_get_color. rewrite Hm. cbn [bind as_raw_color]. rewrite Hh, Hs, Hb, Hk.
  unfold param_color. cbn [map_res]. rewrite !param_16_raw by assumption. reflexivity.
Qed.

(* ---------- the compiled snapshot of plain lights runs as the reference semantics says ---------- *)
From Bardolph Require Import Lang.Instr Lang.Loader Lang.Machine Lang.Sem Lang.CodeGen Lang.ExprCompile Lang.Simulation.

Definition plain_only (p : population) : bool :=
  forallb (fun d => match dv_state d with DPlain _ _ => true | _ => false end) p.

Lemma plain_snapshot_is_straightline mt p : plain_only p = true -> forallb (simple_atom mt) (snapshot_ast p) = true.
Proof.
  intros Hp. unfold snapshot_ast. cbn [forallb simple_atom andb].
  induction p as [|d r IH]; [reflexivity|]. cbn [plain_only forallb] in Hp. apply andb_true_iff in Hp. destruct Hp as [Hd Hr].
  cbn [flat_map]. rewrite forallb_app, (IH Hr), andb_true_r.
  unfold device_stmts. destruct (dv_state d) as [c pw| |]; try discriminate. destruct pw; reflexivity.
Qed.

Theorem plain_snapshot_runs_as_its_source_says (p : population) (w : world) (fuel : nat) (evs : list event) :
  plain_only p = true ->
  run_src fuel (snapshot_ast p) w = SFinished evs ->
  exists k, run_program k (compile (snapshot_ast p)) w = Finished evs.
Proof.
  intros Hp Hr. apply (straightline_program_runs_as_its_source_says (snapshot_ast p) w fuel evs); [|exact Hr].
  apply plain_snapshot_is_straightline. exact Hp.
Qed.

(* ---------- what the reference semantics does with the snapshot of plain lights ---------- *)
Lemma find_light_acc w n : forall acc, fold_left (fun acc l => if String.eqb (l_name l) n then Some l else acc) w acc <> None <->
  (acc <> None \/ exists l, In l w /\ l_name l = n).
Proof.
  induction w as [|l r IH]; intros acc; cbn [fold_left].
  - split; [intros H; left; exact H|intros [H|[l [[] _]]]; exact H].
  - rewrite IH. destruct (String.eqb_spec (l_name l) n) as [E|E].
    + split; [intros _; right; exists l; split; [left; reflexivity|exact E]|intros _; left; discriminate].
    + split.
      * intros [H|[x [Hx Hn]]]; [left; exact H|right; exists x; split; [right; exact Hx|exact Hn]].
      * intros [H|[x [[Hx|Hx] Hn]]]; [left; exact H|subst x; contradiction|right; exists x; split; assumption].
Qed.
Lemma find_light_iff w n : find_light w n <> None <-> exists l, In l w /\ l_name l = n.
Proof. unfold find_light. rewrite find_light_acc. split; [intros [H|H]; [contradiction|exact H]|intros H; right; exact H]. Qed.

Lemma find_light_set_color w m c n : find_light w n <> None -> find_light (set_light_color m c w) n <> None.
Proof.
  rewrite !find_light_iff. intros [l [Hl Hn]]. unfold set_light_color.
  exists (if String.eqb (l_name l) m then mkLight (l_name l) (l_group l) (l_loc l) (l_kind l) c else l).
  split; [apply (in_map (fun l => if String.eqb (l_name l) m then mkLight (l_name l) (l_group l) (l_loc l) (l_kind l) c else l)); exact Hl|].
  destruct (String.eqb (l_name l) m); exact Hn.
Qed.

Definition snap_inv (names : list string) (ss : sstate) : Prop :=
  rf_unit_mode (s_regs ss) = Ok UM_RAW /\ rreg (s_regs ss) R_DURATION = VFlt PrimFloat.zero /\ rreg (s_regs ss) R_TIME = VFlt PrimFloat.zero /\
  s_locals ss = None /\ forall n, In n names -> find_light (s_world ss) n <> None.

Lemma inv_set_reg names ss r x : snap_inv names ss -> script_reg r = true -> r <> R_DURATION -> r <> R_TIME ->
  snap_inv names (s_with_regs ss (rf_set (s_regs ss) r x)).
Proof.
  intros (Hm & Hd & Ht & Hl & Hw) Hr Hnd Hnt. unfold snap_inv. cbn [s_with_regs s_regs s_locals s_world].
  assert (Hne : forall r', register_eqb r' r = false -> rreg (rf_set (s_regs ss) r x) r' = rreg (s_regs ss) r') by (intros; apply rreg_set_other; assumption).
  repeat split; try assumption.
  - unfold rf_unit_mode. rewrite Hne by (destruct r; try reflexivity; discriminate). exact Hm.
  - rewrite Hne by (destruct r; try reflexivity; contradiction). exact Hd.
  - rewrite Hne by (destruct r; try reflexivity; contradiction). exact Ht.
Qed.

Lemma wait_none ss names : snap_inv names ss -> do_wait ss = ROk tt ss.
Proof. intros (_ & _ & Ht & _). unfold do_wait, rf_wait. rewrite Ht. vm_compute. reflexivity. Qed.

Lemma duration_zero ss names : snap_inv names ss -> sent_duration (s_regs ss) = Ok 0.
Proof. intros (Hm & Hd & _). unfold sent_duration, rf_raw_duration. rewrite Hm. cbn [bind as_raw_time]. rewrite Hd. vm_compute. reflexivity. Qed.

Lemma inv_set_any names ss r x : snap_inv names ss -> r <> R_UNIT_MODE -> r <> R_DURATION -> r <> R_TIME ->
  snap_inv names (s_with_regs ss (rf_set (s_regs ss) r x)).
Proof.
  intros (Hm & Hd & Ht & Hl & Hw) Hnm Hnd Hnt. unfold snap_inv. cbn [s_with_regs s_regs s_locals s_world].
  assert (Hne : forall r', r' <> r -> rreg (rf_set (s_regs ss) r x) r' = rreg (s_regs ss) r').
  { intros r' Hr. apply rreg_set_other. destruct (register_eqb r' r) eqn:E; [apply register_eqb_eq in E; contradiction|reflexivity]. }
  repeat split; try assumption.
  - unfold rf_unit_mode. rewrite Hne by (intros E; apply Hnm; symmetry; exact E). exact Hm.
  - rewrite Hne by (intros E; apply Hnd; symmetry; exact E). exact Hd.
  - rewrite Hne by (intros E; apply Hnt; symmetry; exact E). exact Ht.
Qed.

Section PlainSem.
Variable rt : rtable.
Variable mt : mtable.

(* one captured plain light: four register settings, on / off, set *)
Lemma plain_device_sem n h s b k (pw : bool) rest names ss fuel :
  snap_inv names ss -> In n names ->
  0 <= h <= 65535 -> 0 <= s <= 65535 -> 0 <= b <= 65535 -> 0 <= k <= 65535 -> (4 <= fuel)%nat ->
  exists ss', exec_seq rt mt (6 + fuel) false ss (device_stmts (mkDevice n (DPlain [h; s; b; k] pw)) ++ rest) = exec_seq rt mt fuel false ss' rest /\
              snap_inv names ss' /\
              rev (s_trace ss') = rev (s_trace ss) ++ device_events (mkDevice n (DPlain [h; s; b; k] pw)).
Proof.
  intros Hinv Hn Rh Rs Rb Rk Hfuel.
  destruct fuel as [|[|[|[|fuel]]]]; try lia.
  unfold device_stmts, set_regs, comp, light_target. cbn [dv_name dv_state nth app].
  (* the four registers *)
  set (r1 := rf_set (s_regs ss) R_HUE (VInt h)).
  set (r2 := rf_set r1 R_SATURATION (VInt s)).
  set (r3 := rf_set r2 R_BRIGHTNESS (VInt b)).
  set (r4 := rf_set r3 R_KELVIN (VInt k)).
  set (r5 := rf_set r4 R_POWER (VBool pw)).
  set (ss5 := s_with_regs ss r5).
  assert (Hinv5 : snap_inv names ss5).
  { unfold ss5, r5, r4, r3, r2, r1.
    pose proof (inv_set_any names ss R_HUE (VInt h) Hinv ltac:(discriminate) ltac:(discriminate) ltac:(discriminate)) as H1.
    pose proof (inv_set_any names _ R_SATURATION (VInt s) H1 ltac:(discriminate) ltac:(discriminate) ltac:(discriminate)) as H2.
    pose proof (inv_set_any names _ R_BRIGHTNESS (VInt b) H2 ltac:(discriminate) ltac:(discriminate) ltac:(discriminate)) as H3.
    pose proof (inv_set_any names _ R_KELVIN (VInt k) H3 ltac:(discriminate) ltac:(discriminate) ltac:(discriminate)) as H4.
    exact (inv_set_any names _ R_POWER (VBool pw) H4 ltac:(discriminate) ltac:(discriminate) ltac:(discriminate)). }
  destruct Hinv5 as (Hm5 & Hd5 & Ht5 & Hl5 & Hw5).
  assert (Hfind : find_light (s_world ss) n <> None) by (apply Hw5; exact Hn).
  destruct (find_light (s_world ss) n) as [lt|] eqn:Efind; [|contradiction].
  assert (Hcol : sent_color r5 = Ok [h; s; b; k]).
  { apply raw_registers_sent_unchanged; try assumption.
    - unfold r5, r4, r3, r2, r1. rewrite !rreg_set_other by reflexivity. apply rreg_set_same.
    - unfold r5, r4, r3, r2. rewrite !rreg_set_other by reflexivity. apply rreg_set_same.
    - unfold r5, r4, r3. rewrite !rreg_set_other by reflexivity. apply rreg_set_same.
    - unfold r5, r4. rewrite !rreg_set_other by reflexivity. apply rreg_set_same. }
  assert (Hdur : sent_duration r5 = Ok 0) by (apply (duration_zero ss5 names); repeat split; assumption).
  assert (Hpow : power_sent r5 = if pw then 1 else 0) by (unfold power_sent, r5; rewrite rreg_set_same; destruct pw; reflexivity).
  set (w' := set_light_color n [h; s; b; k] (s_world ss)).
  set (ssP := s_emit ss5 [EvPower n (if pw then 1 else 0) 0]).
  set (ssF := mkS r5 (s_globals ss) (s_locals ss) w' (rev_append [EvColor n [h; s; b; k] 0] (s_trace ssP))).
  exists ssF. split; [|split].
  - (* the run *)
    change (6 + S (S (S (S fuel))))%nat with (S (S (S (S (S (S (S (S (S (S fuel)))))))))).
    rewrite exec_seq_cons, exec_reg, eval_rval_S. cbn [sbind lit_value].
    rewrite exec_seq_cons, exec_reg, eval_rval_S. cbn [sbind lit_value s_with_regs s_regs].
    rewrite exec_seq_cons, exec_reg, eval_rval_S. cbn [sbind lit_value s_with_regs s_regs].
    rewrite exec_seq_cons, exec_reg, eval_rval_S. cbn [sbind lit_value s_with_regs s_regs].
    fold r1 r2 r3 r4.
    rewrite exec_seq_cons.
    set (ss4 := s_with_regs (s_with_regs (s_with_regs (s_with_regs ss r1) r2) r3) r4).
    assert (Epow : Sem.exec rt mt (S (S (S (S (S fuel))))) false ss4
                     ((if pw then SOn else SOff) (OpList [Target TLight (NStr n)])) = ROk SigNormal ssP).
    { replace ((if pw then SOn else SOff) (OpList [Target TLight (NStr n)])) with (if pw then SOn (OpList [Target TLight (NStr n)]) else SOff (OpList [Target TLight (NStr n)])) by (destruct pw; reflexivity).
      rewrite exec_power. cbv zeta.
      match goal with |- context [do_wait ?x] => change x with ss5 end.
      rewrite (wait_none ss5 names) by (repeat split; assumption). cbn [sbind].
      rewrite exec_ops_list, exec_oplist_cons, exec_operand_target. unfold target_cmd, target_cmdv, do_power_light. cbn [as_name].
      change (s_world ss5) with (s_world ss). rewrite Efind. change (s_regs ss5) with r5. rewrite Hdur, Hpow. cbn [bind dev_step sbind].
      rewrite exec_oplist_nil. reflexivity. }
    rewrite Epow. cbn [sbind].
    rewrite exec_seq_cons, exec_set.
    assert (HinvP : snap_inv names ssP) by (unfold ssP, s_emit, snap_inv; cbn [s_regs s_locals s_world]; repeat split; assumption).
    rewrite (wait_none ssP names HinvP). cbn [sbind].
    rewrite exec_ops_list, exec_oplist_cons, exec_operand_target. unfold target_cmd, target_cmdv, do_color_light. cbn [as_name].
    change (s_world ssP) with (s_world ss). rewrite Efind. change (s_regs ssP) with r5.
    unfold do_color_names. rewrite Hcol, Hdur. cbn [bind color_each]. rewrite Efind. cbn [dev_step sbind d_regs d_world d_events].
    rewrite exec_oplist_nil. cbn [sbind]. reflexivity.
  - (* the invariant *)
    unfold snap_inv, ssF. cbn [s_regs s_locals s_world]. repeat split; try assumption.
    intros m Hmn. unfold w'. apply find_light_set_color. apply Hw5. exact Hmn.
  - (* the events *)
    unfold ssF, ssP, s_emit, ss5. cbn [s_trace s_with_regs rev_append device_events dv_name dv_state rev app].
    rewrite <- !app_assoc. reflexivity.
Qed.
End PlainSem.

Definition good_plain (names : list string) (d : device) : Prop :=
  In (dv_name d) names /\
  match dv_state d with
  | DPlain [h; s; b; k] _ => 0 <= h <= 65535 /\ 0 <= s <= 65535 /\ 0 <= b <= 65535 /\ 0 <= k <= 65535
  | _ => False
  end.

Lemma plain_devices_sem rt mt names p : Forall (good_plain names) p ->
  forall ss fuel, snap_inv names ss -> (6 * length p + 4 <= fuel)%nat ->
  exists ss', exec_seq rt mt fuel false ss (flat_map device_stmts p) = ROk SigNormal ss' /\
              rev (s_trace ss') = rev (s_trace ss) ++ replay_events p.
Proof.
  induction p as [|d r IH]; intros Hp ss fuel Hinv Hfuel.
  - destruct fuel as [|fuel]; [cbn in Hfuel; lia|]. exists ss. split; [apply exec_seq_nil|]. cbn. rewrite app_nil_r. reflexivity.
  - inversion Hp as [|? ? Hd Hr]; subst. destruct Hd as [Hn Hst]. destruct d as [n st]. cbn [dv_name dv_state] in *.
    destruct st as [c pw| |]; try contradiction. destruct c as [|h [|s [|b [|k [|x t]]]]]; try contradiction.
    destruct Hst as (Rh & Rs & Rb & Rk).
    cbn [length] in Hfuel. assert (Hf : exists f', fuel = (6 + f')%nat /\ (6 * length r + 4 <= f')%nat) by (exists (fuel - 6)%nat; lia).
    destruct Hf as (f' & -> & Hf').
    destruct (plain_device_sem rt mt n h s b k pw (flat_map device_stmts r) names ss f' Hinv Hn Rh Rs Rb Rk ltac:(lia)) as (ss1 & E1 & Hinv1 & Ht1).
    destruct (IH Hr ss1 f' Hinv1 Hf') as (ss2 & E2 & Ht2).
    exists ss2. split.
    + cbn [flat_map]. rewrite E1. exact E2.
    + rewrite Ht2, Ht1. unfold replay_events. cbn [flat_map]. rewrite app_assoc. reflexivity.
Qed.

(* the reference semantics of the snapshot of a population of plain lights, replayed on any
   population that still has those lights: exactly the replay commands, no delay, no output *)
Theorem plain_snapshot_semantics (p : population) (w : world) (fuel : nat) :
  Forall (good_plain (map l_name w)) p -> (6 * length p + 6 <= fuel)%nat ->
  run_src fuel (snapshot_ast p) w = SFinished (replay_events p ++ [EvFlush]).
Proof.
  intros Hp Hfuel. unfold run_src. destruct (collect (snapshot_ast p) [] []) as [rt mt].
  unfold snapshot_ast. destruct fuel as [|fuel]; [lia|]. rewrite exec_seq_cons.
  destruct fuel as [|fuel]; [lia|]. rewrite exec_units.
  assert (Hsw : rf_switch_unit_mode (s_regs (init_sstate w)) (VMode UM_RAW) =
                Ok (rf_set (rf_set (fold_left (fun rf p => rf_set rf (fst p) (snd p))
                        [(R_HUE, VFlt PrimFloat.zero); (R_SATURATION, VFlt PrimFloat.zero); (R_BRIGHTNESS, VFlt PrimFloat.zero); (R_KELVIN, VFlt PrimFloat.zero)]
                        (rf_set init_regs R_UNIT_MODE (VMode UM_RAW))) R_DURATION (VFlt PrimFloat.zero)) R_TIME (VFlt PrimFloat.zero))) by (vm_compute; reflexivity).
  rewrite Hsw. cbn [sbind].
  match goal with |- context [exec_seq rt mt (S fuel) false ?s0 _] => set (ss0 := s0) end.
  assert (Hinv : snap_inv (map l_name w) ss0).
  { unfold snap_inv, ss0. cbn [s_with_regs s_regs s_locals s_world init_sstate]. repeat split; try (vm_compute; reflexivity).
    intros n Hn. apply find_light_iff. apply in_map_iff in Hn. destruct Hn as [l [Hl Hin]]. exists l. split; assumption. }
  destruct (plain_devices_sem rt mt (map l_name w) p Hp ss0 (S fuel) Hinv ltac:(lia)) as (ss' & E & Ht).
  rewrite E. f_equal. rewrite Ht. reflexivity.
Qed.

(* the chain for plain lights: the compiled snapshot, run on the machine model against a population
   that still has the captured lights, issues exactly the replay commands -- which restore the
   captured state (replay_restores) *)
Theorem plain_snapshot_on_the_machine (p : population) (w : world) :
  plain_only p = true -> Forall (good_plain (map l_name w)) p ->
  exists k, run_program k (compile (snapshot_ast p)) w = Finished (replay_events p ++ [EvFlush]).
Proof.
  intros Hpl Hp.
  set (fuel := (6 * length p + 6)%nat).
  apply (plain_snapshot_runs_as_its_source_says p w fuel); [exact Hpl|].
  apply plain_snapshot_semantics; [exact Hp|unfold fuel; lia].
Qed.
