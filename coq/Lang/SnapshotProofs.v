From Coq Require Import ZArith String List Bool Lia.
From Bardolph Require Import Base.PyStr Gen.Codes Lang.Value Lang.World Lang.Syntax Lang.Snapshot.
Open Scope string_scope.
Open Scope list_scope.
Import ListNotations.
Open Scope Z_scope.

(* ---------- one device ---------- *)
Lemma set_zone_at pre : forall z r a k c, k + Z.of_nat (length pre) = a ->
  set_zone (pre ++ z :: r) a (a + 1) k c = pre ++ c :: (set_zone r a (a + 1) (a + 1) c).
Proof.
  induction pre as [|x pre IH]; intros z r a k c Hk; cbn [app set_zone length] in *.
  - assert (k = a) by lia. subst k.
    replace ((a <=? a) && (a <? a + 1))%bool with true by (symmetry; apply andb_true_iff; split; [apply Z.leb_le|apply Z.ltb_lt]; lia).
    reflexivity.
  - replace ((a <=? k) && (k <? a + 1))%bool with false.
    2:{ symmetry. apply andb_false_iff. left. apply Z.leb_gt. lia. }
    f_equal. apply IH. lia.
Qed.

Lemma set_zone_beyond r : forall a k c, a + 1 <= k -> set_zone r a (a + 1) k c = r.
Proof.
  induction r as [|x r IH]; intros a k c Hk; cbn [set_zone]; [reflexivity|].
  replace ((a <=? k) && (k <? a + 1))%bool with false.
  2:{ symmetry. apply andb_false_iff. right. apply Z.ltb_ge. lia. }
  f_equal. apply IH. lia.
Qed.

Lemma zones_restored n zs : forall pre old, length old = length zs ->
  fold_left apply_to (zone_events n (Z.of_nat (length pre)) zs) (DMulti (pre ++ old)) = DMulti (pre ++ zs).
Proof.
  induction zs as [|c zs IH]; intros pre old Hl.
  - destruct old; [|discriminate]. reflexivity.
  - destruct old as [|o old]; [discriminate|]. cbn [zone_events fold_left apply_to].
    rewrite (set_zone_at pre o old (Z.of_nat (length pre)) 0 c) by lia.
    rewrite set_zone_beyond by lia.
    specialize (IH (pre ++ [c]) old). rewrite app_length in IH. cbn [length] in IH.
    replace (Z.of_nat (length pre + 1)) with (Z.of_nat (length pre) + 1) in IH by lia.
    rewrite <- !app_assoc in IH. cbn [app] in IH. apply IH. cbn [length] in Hl. lia.
Qed.

Lemma device_restored d st : same_shape_state (dv_state d) st -> fold_left apply_to (device_events d) st = dv_state d.
Proof.
  unfold device_events. destruct (dv_state d) as [c p|zs|h w cs]; destruct st as [c' p'|zs'|h' w' cs']; cbn [same_shape_state]; intros H; try contradiction.
  - cbn [fold_left apply_to]. destruct p; reflexivity.
  - apply (zones_restored (dv_name d) zs [] zs'). symmetry. exact H.
  - destruct H as (-> & -> & _). reflexivity.
Qed.

(* ---------- the population ---------- *)
Lemma device_events_target d : Forall (fun e => event_target e = Some (dv_name d)) (device_events d).
Proof.
  unfold device_events. destruct (dv_state d) as [c p|zs|h w cs].
  - repeat constructor.
  - generalize 0. induction zs as [|c zs IH]; intros i; cbn [zone_events]; constructor; [reflexivity|apply IH].
  - repeat constructor.
Qed.

Lemma apply_events_own n evs : forall st rest,
  Forall (fun e => event_target e = Some n) evs -> ~ In n (map dv_name rest) ->
  apply_events (mkDevice n st :: rest) evs = mkDevice n (fold_left apply_to evs st) :: rest.
Proof.
  induction evs as [|e evs IH]; intros st rest Hall Hn; [reflexivity|].
  inversion Hall as [|? ? He Hall']; subst. unfold apply_events in *. cbn [fold_left].
  unfold apply_event at 2. rewrite He. cbn [map dv_name dv_state]. rewrite String.eqb_refl.
  replace (map (fun d => if (dv_name d =? n)%string then mkDevice n (apply_to (dv_state d) e) else d) rest) with rest.
  - apply IH; assumption.
  - clear -Hn. induction rest as [|x rest IH]; [reflexivity|]. cbn [map] in *.
    destruct (String.eqb_spec (dv_name x) n) as [E|_]; [exfalso; apply Hn; left; exact E|].
    f_equal. apply IH. intros H. apply Hn. right. exact H.
Qed.

Lemma apply_events_other x evs : forall rest,
  Forall (fun e => exists m, event_target e = Some m /\ m <> dv_name x) evs ->
  apply_events (x :: rest) evs = x :: apply_events rest evs.
Proof.
  induction evs as [|e evs IH]; intros rest Hall; [reflexivity|].
  inversion Hall as [|? ? (m & He & Hm) Hall']; subst. unfold apply_events in *. cbn [fold_left].
  unfold apply_event at 2. unfold apply_event at 3. rewrite He. cbn [map].
  destruct (String.eqb_spec (dv_name x) m) as [E|_]; [exfalso; apply Hm; symmetry; exact E|].
  apply IH. exact Hall'.
Qed.

Lemma replay_events_targets p : Forall (fun e => exists m, event_target e = Some m /\ In m (map dv_name p)) (replay_events p).
Proof.
  induction p as [|d p IH]; [constructor|]. unfold replay_events. cbn [flat_map]. apply Forall_app. split.
  - eapply Forall_impl; [|apply device_events_target]. intros e He. exists (dv_name d). split; [exact He|left; reflexivity].
  - eapply Forall_impl; [|exact IH]. intros e (m & He & Hin). exists m. split; [exact He|right; exact Hin].
Qed.

(* replaying the snapshot of p on the same devices in ANY other state gives p *)
Theorem replay_restores p : forall q, NoDup (map dv_name p) -> same_shape p q -> apply_events q (replay_events p) = p.
Proof.
  induction p as [|d p IH]; intros q Hnd Hs; inversion Hs as [|a b p' q' (Hn & Hst) Hs']; subst; [reflexivity|].
  cbn [map] in Hnd. inversion Hnd as [|? ? Hnotin Hnd']; subst.
  unfold replay_events. cbn [flat_map]. unfold apply_events. rewrite fold_left_app. fold (apply_events (b :: q') (device_events d)).
  destruct b as [bn bst]. cbn [dv_name dv_state] in *. subst bn.
  assert (Hq : map dv_name q' = map dv_name p).
  { clear -Hs'. induction Hs' as [|x y l l' (Hx & _) _ IHf]; [reflexivity|]. cbn [map]. rewrite Hx, IHf. reflexivity. }
  rewrite (apply_events_own (dv_name d) (device_events d) bst q' (device_events_target d)) by (rewrite Hq; exact Hnotin).
  rewrite device_restored by exact Hst.
  fold (apply_events (mkDevice (dv_name d) (dv_state d) :: q') (flat_map device_events p)).
  rewrite apply_events_other.
  - fold (replay_events p). rewrite (IH q' Hnd' Hs'). destruct d; reflexivity.
  - eapply Forall_impl; [|apply replay_events_targets]. intros e (m & He & Hin). exists m. split; [exact He|].
    cbn [dv_name]. intros E. subst m. contradiction.
Qed.

(* every device appears in the script: the replay addresses each captured device and nothing else *)
Lemma replay_addresses_exactly p e : In e (replay_events p) -> exists d, In d p /\ event_target e = Some (dv_name d).
Proof.
  unfold replay_events. rewrite in_flat_map. intros (d & Hd & He). exists d. split; [exact Hd|].
  pose proof (device_events_target d) as H. rewrite Forall_forall in H. apply H. exact He.
Qed.

(* ---------- what the machine transmits for the registers a snapshot sets ---------- *)
From Bardolph Require Import Lang.Units0 Lang.Regs Lang.Devices.

Lemma param_16_raw z : 0 <= z <= 65535 -> param_16 (VInt z) = Ok z.
Proof.
  intros Hz. unfold param_16, param_n, as_num, nlt. cbn [to_num num_cmp bind].
  replace (65535 <? z) with false by (symmetry; apply Z.ltb_ge; lia).
  cbn [num_cmp]. destruct (0 <? z) eqn:E; cbn [bind num_round]; [reflexivity|].
  apply Z.ltb_ge in E. f_equal. lia.
Qed.

(* in raw mode, with the four colour registers holding raw integers, exactly those integers are
   transmitted: no unit conversion, no clamping, no rounding *)
Theorem raw_registers_sent_unchanged rf h s b k :
  rf_unit_mode rf = Ok UM_RAW ->
  rreg rf R_HUE = VInt h -> rreg rf R_SATURATION = VInt s -> rreg rf R_BRIGHTNESS = VInt b -> rreg rf R_KELVIN = VInt k ->
  0 <= h <= 65535 -> 0 <= s <= 65535 -> 0 <= b <= 65535 -> 0 <= k <= 65535 ->
  sent_color rf = Ok [h; s; b; k].
Proof.
  intros Hm Hh Hs Hb Hk Rh Rs Rb Rk.
  unfold sent_color, rf_raw_color, rf_get_color. rewrite Hm. cbn [bind as_raw_color]. rewrite Hh, Hs, Hb, Hk.
  unfold param_color. cbn [map_res]. rewrite !param_16_raw by assumption. reflexivity.
Qed.

(* ---------- the compiled snapshot of plain lights runs as the reference semantics says ---------- *)
From Bardolph Require Import Lang.Instr Lang.Loader Lang.Machine Lang.Sem Lang.CodeGen Lang.ExprCompile Lang.Simulation.

Definition plain_only (p : population) : bool :=
  forallb (fun d => match dv_state d with DPlain _ _ => true | _ => false end) p.

Lemma plain_snapshot_is_straightline mt p : plain_only p = true -> forallb (simple_atom mt) (snapshot_ast p) = true.
Proof.
  intros Hp. unfold snapshot_ast. cbn [forallb simple_atom andb].
  induction p as [|d r IH]; [reflexivity|]. cbn [plain_only forallb] in Hp. apply andb_true_iff in Hp. destruct Hp as [Hd Hr].
  cbn [flat_map]. rewrite forallb_app, (IH Hr), andb_true_r.
  unfold device_stmts. destruct (dv_state d) as [c pw| |]; try discriminate. destruct pw; reflexivity.
Qed.

Theorem plain_snapshot_runs_as_its_source_says (p : population) (w : world) (fuel : nat) (evs : list event) :
  plain_only p = true -> (seq_size (snapshot_ast p) <= fuel)%nat ->
  run_src fuel (snapshot_ast p) w = SFinished evs ->
  exists k, run_program k (compile (snapshot_ast p)) w = Finished evs.
Proof.
  intros Hp Hf Hr. apply (straightline_program_runs_as_its_source_says (snapshot_ast p) w fuel evs); [|exact Hf|exact Hr].
  apply plain_snapshot_is_straightline. exact Hp.
Qed.
