(* Model of bardolph/vm/loader.py: routine bodies are moved out of line. *)
From Coq Require Import ZArith String List Bool.
From Bardolph Require Import Gen.Codes Lang.Value Lang.Instr.
Open Scope string_scope.
Open Scope list_scope.
Import ListNotations.
Open Scope Z_scope.

Definition zlength {A} (l : list A) : Z := Z.of_nat (length l).

(* user routine: address of its first body instruction and of the instruction after its END *)
Record routine := mkRoutine { rt_name : string; rt_addr : Z; rt_ret : Z }.

Definition is_end_of (name : param) (i : instr) : bool :=
  match i_op i with
  | OC_END => param_eqb (i_p0 i) name
  | _ => false
  end.

(* R and M are accumulated in reverse; `cur` is the routine being copied *)
Fixpoint load_go (ins : program) (cur : option (param * Z)) (R M : program) (nR : Z)
                 (tbl : list (param * (Z * Z))) : program * program * list (param * (Z * Z)) :=
  match ins with
  | [] =>
      match cur with
      | Some (name, addr) => (R, M, (name, (addr, nR + 1)) :: tbl)   (* END missing: return set anyway *)
      | None => (R, M, tbl)
      end
  | i :: rest =>
      match cur with
      | None =>
          match i_op i with
          | OC_ROUTINE => load_go rest (Some (i_p0 i, nR + 2)) (i :: R) M (nR + 1) tbl
          | _ => load_go rest None R (i :: M) nR tbl
          end
      | Some (name, addr) =>
          if is_end_of name i
          then load_go rest None (i :: R) M (nR + 1) ((name, (addr, nR + 2)) :: tbl)
          else load_go rest cur (i :: R) M (nR + 1) tbl
      end
  end.

Record image := mkImage { im_code : program; im_routines : list (param * (Z * Z)); im_nroutine : Z }.

(* Loader.load + get_code + get_routines.  Later definitions of a name shadow earlier
   ones (dict assignment): the table is searched from the most recent entry. *)
Definition load (p : program) : image :=
  let '(R, M, tbl) := load_go p None [] [] 0 [] in
  let R := rev R in let M := rev M in
  match R with
  | [] => mkImage M tbl 0
  | _ => mkImage (mkI OC_JUMP (PJump JC_ALWAYS) (PInt (zlength R + 1)) :: R ++ M) tbl (zlength R)
  end.

Fixpoint find_routine (name : param) (tbl : list (param * (Z * Z))) : option (Z * Z) :=
  match tbl with
  | [] => None
  | (n, a) :: r => if param_eqb n name then Some a else find_routine name r
  end.
