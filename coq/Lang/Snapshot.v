(* C18: the script that ScriptSnapshot.generate writes for a population in a given state
   (controller/snapshot.py), as text and as the syntax tree that text denotes, and what
   replaying it does to the devices. *)
From Coq Require Import ZArith String List Bool.
From Bardolph Require Import Base.PyStr Gen.Codes Lang.Value Lang.World Lang.Syntax.
Open Scope string_scope.
Open Scope list_scope.
Import ListNotations.
Open Scope Z_scope.

(* raw state of one device *)
Definition color := list Z.                      (* hue, saturation, brightness, kelvin *)
Inductive dstate :=
| DPlain (c : color) (power : bool)
| DMulti (zones : list color)
| DMatrix (h w : Z) (cells : list color).         (* row by row, h * w cells *)
Record device := mkDevice { dv_name : string; dv_state : dstate }.
Definition population := list device.            (* in the order LightSet.get_light_names gives: sorted *)

Definition comp (c : color) (i : nat) : Z := nth i c 0.

(* ---------- the syntax tree ---------- *)
Definition set_regs (c : color) : list stmt :=
  [SReg R_HUE (RLit (LInt (comp c 0))); SReg R_SATURATION (RLit (LInt (comp c 1)));
   SReg R_BRIGHTNESS (RLit (LInt (comp c 2))); SReg R_KELVIN (RLit (LInt (comp c 3)))].

Definition light_target (n : string) : operands := OpList [Target TLight (NStr n)].

Fixpoint zone_stmts (n : string) (i : Z) (zs : list color) : list stmt :=
  match zs with
  | [] => []
  | c :: r => set_regs c ++ [SSet (OpList [Zone (NStr n) (RLit (LInt i)) None])] ++ zone_stmts n (i + 1) r
  end.

(* cells row by row: index k is row k / w, column k mod w *)
Fixpoint cell_stmts (w : Z) (k : Z) (cs : list color) : list stmt :=
  match cs with
  | [] => []
  | c :: r =>
      set_regs c ++ [SStage (Some (RLit (LInt (k / w)), None)) (Some (RLit (LInt (k mod w)), None)) true] ++ cell_stmts w (k + 1) r
  end.

Definition device_stmts (d : device) : list stmt :=
  let n := dv_name d in
  match dv_state d with
  | DPlain c p => set_regs c ++ [(if p then SOn else SOff) (light_target n); SSet (light_target n)]
  | DMulti zs => zone_stmts n 0 zs
  | DMatrix h w cs => [SSet (OpList [MatrixBlock (NStr n) (SBlock (cell_stmts w 0 cs))])]
  end.

Definition snapshot_ast (p : population) : script := SUnits UM_RAW :: flat_map device_stmts p.

(* ---------- the text ---------- *)
Fixpoint show_pos_digits (fuel : nat) (z : Z) (acc : string) : string :=
  match fuel with
  | O => acc
  | S f => let acc' := String (Ascii.ascii_of_nat (Z.to_nat (48 + z mod 10))) acc in
           if z <? 10 then acc' else show_pos_digits f (z / 10) acc'
  end.
Definition show_nat_Z (z : Z) : string := show_pos_digits 40 z EmptyString.     (* '{:.0f}'.format of a non-negative int *)

Definition sp (a b : string) : string := String.append a b.
Fixpoint cat (l : list string) : string := match l with [] => EmptyString | a :: r => sp a (cat r) end.
Definition nl : string := String (Ascii.ascii_of_nat 10) EmptyString.
Definition quoted (n : string) : string := cat [String (Ascii.ascii_of_nat 34) EmptyString; n; String (Ascii.ascii_of_nat 34) EmptyString].

Definition regs_text (c : color) : string :=
  cat ["hue "; show_nat_Z (comp c 0); " saturation "; show_nat_Z (comp c 1); " brightness "; show_nat_Z (comp c 2);
       " kelvin "; show_nat_Z (comp c 3); " "].

Fixpoint zones_text (n : string) (i : Z) (zs : list color) : string :=
  match zs with
  | [] => EmptyString
  | c :: r => cat [regs_text c; "set "; quoted n; " zone "; show_nat_Z i; nl; zones_text n (i + 1) r]
  end.
Fixpoint cells_text (w : Z) (k : Z) (cs : list color) : string :=
  match cs with
  | [] => EmptyString
  | c :: r => cat [regs_text c; "stage row "; show_nat_Z (k / w); " column "; show_nat_Z (k mod w); nl; cells_text w (k + 1) r]
  end.
Definition device_text (d : device) : string :=
  let n := dv_name d in
  match dv_state d with
  | DPlain c p => cat [regs_text c; (if p then "on " else "off "); quoted n; nl; "set "; quoted n; nl]
  | DMulti zs => zones_text n 0 zs
  | DMatrix h w cs => cat ["set "; quoted n; " begin"; nl; cells_text w 0 cs; "end"; nl]
  end.
Definition snapshot_text (p : population) : string :=
  match p with
  | [] => cat ["units raw"; nl; "# No lights found."; nl]
  | _ => cat ("units raw" :: nl :: map device_text p)
  end.

(* ---------- what the replay transmits, and its effect ---------- *)
(* the device commands the script denotes, in order (Sem: raw unit mode, duration 0, no delay) *)
Fixpoint zone_events (n : string) (i : Z) (zs : list color) : list event :=
  match zs with [] => [] | c :: r => EvZone n i (i + 1) c 0 :: zone_events n (i + 1) r end.
Definition device_events (d : device) : list event :=
  let n := dv_name d in
  match dv_state d with
  | DPlain c p => [EvPower n (if p then 1 else 0) 0; EvColor n c 0]
  | DMulti zs => zone_events n 0 zs
  | DMatrix h w cs => [EvMatrix n cs (VFlt PrimFloat.zero)]
  end.
Definition replay_events (p : population) : list event := flat_map device_events p.

(* the devices as a replay finds them: same names and kinds, any state *)
Fixpoint set_zone (zs : list color) (a b : Z) (i : Z) (c : color) : list color :=
  match zs with
  | [] => []
  | z :: r => (if (a <=? i) && (i <? b) then c else z) :: set_zone r a b (i + 1) c
  end.
Definition apply_to (st : dstate) (e : event) : dstate :=
  match st, e with
  | DPlain _ p, EvColor _ c _ => DPlain c p
  | DPlain c _, EvPower _ p _ => DPlain c (negb (p =? 0))
  | DMulti zs, EvZone _ a b c _ => DMulti (set_zone zs a b 0 c)
  | DMatrix h w _, EvMatrix _ cs _ => DMatrix h w cs
  | _, _ => st
  end.
Definition event_target (e : event) : option string :=
  match e with
  | EvColor n _ _ | EvPower n _ _ | EvZone n _ _ _ _ | EvMatrix n _ _ => Some n
  | _ => None
  end.
Definition apply_event (p : population) (e : event) : population :=
  match event_target e with
  | Some n => map (fun d => if String.eqb (dv_name d) n then mkDevice n (apply_to (dv_state d) e) else d) p
  | None => p
  end.
Definition apply_events (p : population) (es : list event) : population := fold_left apply_event es p.

(* two populations with the same devices (names, kinds, zone counts, matrix sizes) *)
Definition same_shape_state (a b : dstate) : Prop :=
  match a, b with
  | DPlain _ _, DPlain _ _ => True
  | DMulti x, DMulti y => length x = length y
  | DMatrix h w x, DMatrix h' w' y => h = h' /\ w = w' /\ length x = length y
  | _, _ => False
  end.
Definition same_shape (p q : population) : Prop :=
  Forall2 (fun a b => dv_name a = dv_name b /\ same_shape_state (dv_state a) (dv_state b)) p q.

(* a captured colour: four raw components *)
Definition raw_color (c : color) : Prop := length c = 4%nat /\ Forall (fun z => 0 <= z <= 65535) c.
