(* C02: the documented operator table and the arithmetic meaning of the operators. *)
From Coq Require Import ZArith String List Bool PrimFloat Lia.
From Bardolph Require Import Base.PyFloat Gen.Codes Gen.TokenTables Lang.Value Lang.Syntax.
Open Scope string_scope.
Open Scope list_scope.
Import ListNotations.
Open Scope Z_scope.
Open Scope bool_scope.

(* the documented levels: ^ above * / % above + - above comparisons above `and` above `or`
   (`not`, below everything, is not part of the documented language) *)
Definition documented_prec : list (string * Z) :=
  [("not", 1); ("or", 2); ("and", 3);
   ("==", 4); ("<=", 4); (">=", 4); ("!=", 4); ("<", 4); (">", 4);
   ("+", 5); ("-", 5); ("*", 6); ("/", 6); ("%", 6); ("^", 7)].

Lemma prec_table_documented : prec_table = documented_prec /\ right_assoc = ["not"; "^"] /\ shape_is_binop = true.
Proof. repeat split; reflexivity. Qed.

Definition binop_text (b : binop) : string :=
  match b with
  | BAdd => "+" | BSub => "-" | BMul => "*" | BDiv => "/" | BMod => "%" | BPow => "^"
  | BEq => "==" | BNe => "!=" | BLt => "<" | BLe => "<=" | BGt => ">" | BGe => ">="
  | BAnd => "and" | BOr => "or"
  end.

Fixpoint assoc_get (t : list (string * Z)) (k : string) : Z :=
  match t with [] => -1 | (k', v) :: r => if String.eqb k k' then v else assoc_get r k end.
Definition prec_of (b : binop) : Z := assoc_get prec_table (binop_text b).
Definition is_right (b : binop) : bool := existsb (String.eqb (binop_text b)) right_assoc.

(* the ordering of the levels as the property states it, read off the generated table *)
Lemma precedence_levels :
  prec_of BPow > prec_of BMul /\ prec_of BMul = prec_of BDiv /\ prec_of BDiv = prec_of BMod /\
  prec_of BMul > prec_of BAdd /\ prec_of BAdd = prec_of BSub /\
  prec_of BAdd > prec_of BEq /\
  (forall c, In c [BEq; BNe; BLt; BLe; BGt; BGe] -> prec_of c = prec_of BEq) /\
  prec_of BEq > prec_of BAnd /\ prec_of BAnd > prec_of BOr /\
  is_right BPow = true /\ (forall b, b <> BPow -> is_right b = false).
Proof.
  repeat split; try (vm_compute; reflexivity); try (vm_compute; congruence).
  - intros c Hc. cbn in Hc. repeat (destruct Hc as [<-|Hc]; [vm_compute; reflexivity|]). destruct Hc.
  - intros b Hb. destruct b; try reflexivity. congruence.
Qed.

(* arithmetic on integers is integer arithmetic; / yields the (floating) quotient;
   numbers in a logical position count as false when zero and true otherwise *)
Lemma int_arith a b :
  eval_binop OP_ADD (VInt a) (VInt b) = Ok (VInt (a + b)) /\
  eval_binop OP_SUB (VInt a) (VInt b) = Ok (VInt (a - b)) /\
  eval_binop OP_MUL (VInt a) (VInt b) = Ok (VInt (a * b)) /\
  (b <> 0 -> eval_binop OP_MOD (VInt a) (VInt b) = Ok (VInt (a mod b))) /\
  eval_binop OP_LT (VInt a) (VInt b) = Ok (VBool (a <? b)) /\
  eval_binop OP_LTE (VInt a) (VInt b) = Ok (VBool (a <=? b)) /\
  eval_binop OP_GT (VInt a) (VInt b) = Ok (VBool (b <? a)) /\
  eval_binop OP_GTE (VInt a) (VInt b) = Ok (VBool (b <=? a)) /\
  eval_binop OP_EQ (VInt a) (VInt b) = Ok (VBool (a =? b)) /\
  eval_binop OP_NOTEQ (VInt a) (VInt b) = Ok (VBool (negb (a =? b))).
Proof.
  repeat split; try reflexivity. intros Hb. cbn. destruct (b =? 0) eqn:E; [apply Z.eqb_eq in E; congruence|reflexivity].
Qed.

Lemma division_by_zero_is_an_error a : eval_binop OP_DIV (VInt a) (VInt 0) = Err EZeroDiv /\ eval_binop OP_MOD (VInt a) (VInt 0) = Err EZeroDiv.
Proof. split; reflexivity. Qed.

Lemma logical_positions a b :
  truthy (VInt a) = negb (a =? 0) /\
  eval_binop OP_AND (VInt a) (VInt b) = Ok (VBool (negb (a =? 0) && negb (b =? 0))) /\
  eval_binop OP_OR (VInt a) (VInt b) = Ok (VBool (negb (a =? 0) || negb (b =? 0))).
Proof. repeat split; reflexivity. Qed.

(* a leading minus negates its operand *)
Lemma minus_negates a : eval_binop OP_MUL (VInt a) (VInt (-1)) = Ok (VInt (- a)).
Proof. cbn. f_equal. f_equal. lia. Qed.

(* [random a b]: the documented result set, and what the two library calls can return *)
Definition randint_results (a b n : Z) : Prop := a <= n <= b.        (* random.randint(a, b) *)
Definition randrange_results (a b n : Z) : Prop := a <= n < b.       (* random.randrange(a, b) *)
Lemma randint_is_documented_range a b n : randint_results a b n <-> a <= n <= b.
Proof. unfold randint_results. tauto. Qed.
Lemma randrange_misses_upper_bound a b : a <= b -> ~ randrange_results a b b.
Proof. unfold randrange_results. lia. Qed.

(* math.floor / ceil / trunc / round on the exact value of a finite float *)
Lemma rounding_examples :
  py_round 2.5 = Some 2 /\ py_round 3.5 = Some 4 /\ py_round (-2.5)%float = Some (-2) /\
  py_floor (-1.5)%float = Some (-2) /\ py_ceil (-1.5)%float = Some (-1) /\ py_trunc (-1.5)%float = Some (-1).
Proof. repeat split; vm_compute; reflexivity. Qed.
