(* The loops `repeat n with v from a to b` (n evenly spaced values) and `repeat n with v cycle [start]` (n values a turn apart in
   all): what their preparation code computes -- the count, the first value, the increment (last - first) / (n - 1) or turn / n --
   is what the reference semantics computes, so both are loop forms with an index variable in the sense of Lang/RangeLoop.v
   ([idx_form]) and Lang/Simulation3.v covers them. *)
From Coq Require Import ZArith String List Bool Lia.
From Bardolph Require Import Gen.Codes Lang.Value Lang.Instr Lang.Loader Lang.World Lang.Units0 Lang.Regs Lang.Devices
  Lang.Machine Lang.Syntax Lang.Sem Lang.CodeGen Lang.Scope Lang.ExprCompile Lang.Simulation Lang.Simulation2 Lang.LoopVars Lang.RangeLoop.
Open Scope string_scope.
Open Scope list_scope.
Import ListNotations.
Open Scope Z_scope.

Section CountWith.
Variable rt : rtable.
Variable mt : mtable.

(* push p1; push p2; OP; push p3; push p4; OP; OP; POP loop variable *)
Lemma group8 im s p1 p2 p3 p4 op1 op2 op3 kk a1 a2 a3 a4 r1 r2 r3 lv d rr :
  code_at im (m_pc s) [push_of p1; push_of p2; I1 OC_OP (POperator op1); push_of p3; push_of p4; I1 OC_OP (POperator op2);
                       I1 OC_OP (POperator op3); I1 OC_POP (PLoopVar kk)] ->
  is_unary op1 = false -> is_unary op2 = false -> is_unary op3 = false -> m_frames s = FLoop lv d :: rr ->
  operand s p1 = Some a1 -> a1 <> VNone -> operand s p2 = Some a2 -> a2 <> VNone ->
  operand s p3 = Some a3 -> a3 <> VNone -> operand s p4 = Some a4 -> a4 <> VNone ->
  eval_binop op1 a1 a2 = Ok r1 -> eval_binop op2 a3 a4 = Ok r2 -> eval_binop op3 r1 r2 = Ok r3 ->
  esteps 8 im s = Some (with_lv s kk r3 8, []).
Proof.
  intros Hc Hu1 Hu2 Hu3 Hfr H1 Hn1 H2 Hn2 H3 Hn3 H4 Hn4 He1 He2 He3.
  cbn [code_at] in Hc. destruct Hc as (Hf1 & Hf2 & Hf3 & Hf4 & Hf5 & Hf6 & Hf7 & Hf8 & _).
  set (k := m_stack s). set (P := m_pc s) in *.
  assert (E1 : esteps 1 im s = Some (at_pc s (a1 :: k) (P + 1), [])) by exact (push_step im s p1 a1 Hf1 H1 Hn1).
  pose proof (push_at im s (a1 :: k) (P + 1) p2 a2 Hf2 H2 Hn2) as E2.
  pose proof (binop_at im s k (P + 1 + 1) op1 a1 a2 r1 Hf3 Hu1 He1) as E3.
  pose proof (push_at im s (r1 :: k) (P + 1 + 1 + 1) p3 a3 Hf4 H3 Hn3) as E4.
  pose proof (push_at im s (a3 :: r1 :: k) (P + 1 + 1 + 1 + 1) p4 a4 Hf5 H4 Hn4) as E5.
  pose proof (binop_at im s (r1 :: k) (P + 1 + 1 + 1 + 1 + 1) op2 a3 a4 r2 Hf6 Hu2 He2) as E6.
  pose proof (binop_at im s k (P + 1 + 1 + 1 + 1 + 1 + 1) op3 r1 r2 r3 Hf7 Hu3 He3) as E7.
  pose proof (pop_lv_at im s k (P + 1 + 1 + 1 + 1 + 1 + 1 + 1) kk r3 lv d rr Hf8 Hfr) as E8.
  change 8%nat with (1 + (1 + (1 + (1 + (1 + (1 + (1 + 1)))))))%nat.
  replace (@nil event) with (@nil event ++ (@nil event ++ (@nil event ++ (@nil event ++ (@nil event ++ (@nil event ++ (@nil event ++ @nil event))))))) by reflexivity.
  eapply esteps_app; [exact E1|]. eapply esteps_app; [exact E2|]. eapply esteps_app; [exact E3|]. eapply esteps_app; [exact E4|].
  eapply esteps_app; [exact E5|]. eapply esteps_app; [exact E6|]. eapply esteps_app; [exact E7|].
  rewrite E8. f_equal. f_equal. unfold with_lv, at_pc. cbn [m_pc m_regs m_globals m_frames m_stack m_unnamed m_world]. rewrite Hfr. f_equal. unfold P. lia.
Qed.

(* push loop variable; OP; POP loop variable, with the first operand already on the stack *)
Lemma tail3 im s op kk kd a b r k lv d rr :
  code_at im (m_pc s) [push_of (PLoopVar kk); I1 OC_OP (POperator op); I1 OC_POP (PLoopVar kd)] ->
  is_unary op = false -> m_frames s = FLoop lv d :: rr -> m_stack s = a :: k ->
  lv_get lv kk = Some b -> b <> VNone -> eval_binop op a b = Ok r ->
  esteps 3 im s = Some (with_lv (with_stack s k) kd r 3, []).
Proof.
  intros Hc Hu Hfr Hst Hb Hnb He. cbn [code_at] in Hc. destruct Hc as (Hf1 & Hf2 & Hf3 & _).
  set (s1 := advance (with_stack s (b :: m_stack s))).
  pose proof (push_step im s (PLoopVar kk) b Hf1 (get_lv s lv d rr kk b Hfr Hb) Hnb) as E1. fold s1 in E1.
  set (s2 := advance (with_stack s1 (r :: k))).
  assert (Hf2' : fetch im (m_pc s1) = Some (I1 OC_OP (POperator op))) by exact Hf2.
  assert (Hst1 : m_stack s1 = b :: a :: k) by (unfold s1; cbn [advance with_pc with_stack m_stack]; rewrite Hst; reflexivity).
  pose proof (binop_step im s1 op a b k r Hf2' Hu Hst1 He) as E2. fold s2 in E2.
  assert (Hf3' : fetch im (m_pc s2) = Some (I1 OC_POP (PLoopVar kd))) by exact Hf3.
  pose proof (pop_lv_step im s2 kd r k lv d rr Hf3' eq_refl Hfr) as E3.
  change 3%nat with (1 + (1 + 1))%nat. replace (@nil event) with (@nil event ++ (@nil event ++ @nil event)) by reflexivity.
  eapply esteps_app; [exact E1|]. eapply esteps_app; [exact E2|].
  rewrite E3. f_equal. f_equal. unfold with_lv, s2, s1, advance, with_pc, with_stack.
  cbn [m_pc m_regs m_globals m_frames m_stack m_unnamed m_world]. rewrite Hfr. f_equal. lia.
Qed.

(* MOVE FIRST v: the index variable gets its first value, assigned like any other variable *)
Lemma move_first_step im ss s v lv d r x :
  sim ss s -> m_frames s = FLoop lv d :: r -> lv_get lv LV_FIRST = Some x ->
  fetch im (m_pc s) = Some (I2 OC_MOVE (PLoopVar LV_FIRST) (PStr v)) ->
  exists s' r', esteps 1 im s = Some (s', []) /\ sim (assign ss v x) s' /\ m_pc s' = m_pc s + 1 /\
                m_frames s' = FLoop lv d :: r' /\ erase r' = erase r /\ m_stack s' = m_stack s.
Proof.
  intros Hsim Hfr HlF Hf. set (sc := put_vm s (DVar v) x 1).
  assert (Ec : esteps 1 im s = Some (sc, [])).
  { apply (estep1 im s _ _ _ Hf). cbn [Machine.exec i_op i_p0 i_p1 I2 read_name]. unfold get_loopvar. rewrite Hfr, HlF. cbn [bind].
    rewrite put_dest_var. cbn [bind lift]. f_equal. unfold sc. cbn [put_vm]. destruct (put_var (m_globals s) (m_frames s) v x). reflexivity. }
  assert (Hfrc : exists r', m_frames sc = FLoop lv d :: r' /\ erase r' = erase r).
  { unfold sc. cbn [put_vm]. rewrite Hfr, put_var_loop. cbn [m_frames]. eexists. split; [reflexivity|].
    apply erase_put_var. pose proof (sim_settled _ _ Hsim) as Hst. rewrite Hfr in Hst. exact Hst. }
  destruct Hfrc as (r' & Hfrc & Her').
  exists sc, r'. split; [exact Ec|]. split; [apply sim_put_var; exact Hsim|]. split; [apply put_vm_var_pc|].
  split; [exact Hfrc|]. split; [exact Her'|]. unfold sc. cbn [put_vm]. destruct (put_var (m_globals s) (m_frames s) v x). reflexivity.
Qed.

(* ---- repeat n with v from a to b ---- *)
Definition interp_calc (cnt x y : value) : res value :=
  do cnt' <- pushable cnt;
  do ne <- eval_binop OP_NOTEQ cnt' (VInt 1);
  if truthy ne then
    do y' <- pushable y; do x' <- pushable x;
    do d <- eval_binop OP_SUB y' x';
    do c1 <- eval_binop OP_SUB cnt (VInt 1);
    eval_binop OP_DIV d c1
  else Ok (VInt 0).

Lemma calc_incr_steps im ss s lv d r cnt x y incr :
  sim ss s -> m_frames s = FLoop lv d :: r -> lv_get lv LV_COUNTER = Some cnt -> lv_get lv LV_FIRST = Some x -> lv_get lv LV_LAST = Some y ->
  interp_calc cnt x y = Ok incr -> code_at im (m_pc s) calc_incr ->
  exists n s' lv', esteps n im s = Some (s', []) /\ sim ss s' /\ m_pc s' = m_pc s + 15 /\ m_frames s' = FLoop lv' d :: r /\
                   m_stack s' = m_stack s /\ lv_get lv' LV_COUNTER = Some cnt /\ lv_get lv' LV_INCR = Some incr.
Proof.
  intros Hsim Hfr HlC HlF HlL Hcalc Hc. unfold calc_incr, c_if in Hc.
  apply code_at_app in Hc. destruct Hc as [Htest Hc]. apply code_at_app in Hc. destruct Hc as [Hj Hc]. cbn [code_at] in Hj. destruct Hj as [Hfj _].
  apply code_at_app in Hc. destruct Hc as [Hthen Hc]. apply code_at_app in Hc. destruct Hc as [Hj2 Helse].
  cbn [code_at] in Hj2, Helse. destruct Hj2 as [Hfj2 _]. destruct Helse as [Hfel _].
  unfold interp_calc in Hcalc.
  destruct (pushable cnt) as [c'|] eqn:Ep; cbn [bind] in Hcalc; [|discriminate]. destruct (pushable_ok cnt c' Ep) as [-> Hnc].
  destruct (eval_binop OP_NOTEQ cnt (VInt 1)) as [ne|] eqn:Ene; cbn [bind] in Hcalc; [|discriminate].
  assert (E1 : esteps 4 im s = Some (put_vm s (DReg R_RESULT) ne 4, [])).
  { apply (test_group im s (PLoopVar LV_COUNTER) (PInt 1) OP_NOTEQ cnt (VInt 1) ne); try assumption; try reflexivity; try discriminate.
    exact (get_lv s lv d r LV_COUNTER cnt Hfr HlC). }
  set (s1 := put_vm s (DReg R_RESULT) ne 4) in *.
  assert (Hs1 : sim ss s1) by (apply sim_put_reg_hidden; [exact Hsim|reflexivity|reflexivity]).
  assert (Hr1 : rf_get (m_regs s1) R_RESULT = Some ne) by (unfold s1; cbn [put_vm m_regs]; apply rf_get_set_same).
  assert (Hfr1 : m_frames s1 = FLoop lv d :: r) by exact Hfr.
  assert (Hfj1 : fetch im (m_pc s1) = Some (jump JC_IF_FALSE (8 + 2))) by exact Hfj.
  pose proof (jump_if_false im s1 ne (8 + 2) Hr1 Hfj1) as Ej.
  destruct (truthy ne) eqn:Etn.
  - destruct (pushable y) as [y'|] eqn:Ey; cbn [bind] in Hcalc; [|discriminate]. destruct (pushable_ok y y' Ey) as [-> Hny].
    destruct (pushable x) as [x'|] eqn:Ex; cbn [bind] in Hcalc; [|discriminate]. destruct (pushable_ok x x' Ex) as [-> Hnx].
    destruct (eval_binop OP_SUB y x) as [d0|] eqn:Ed; cbn [bind] in Hcalc; [|discriminate].
    destruct (eval_binop OP_SUB cnt (VInt 1)) as [c1|] eqn:Ec1; cbn [bind] in Hcalc; [|discriminate].
    set (s2 := with_pc s1 (m_pc s1 + 1)) in *.
    assert (Hfr2 : m_frames s2 = FLoop lv d :: r) by exact Hfr.
    assert (E2 : esteps 8 im s2 = Some (with_lv s2 LV_INCR incr 8, [])).
    { apply (group8 im s2 (PLoopVar LV_LAST) (PLoopVar LV_FIRST) (PLoopVar LV_COUNTER) (PInt 1) OP_SUB OP_SUB OP_DIV LV_INCR y x cnt (VInt 1) d0 c1 incr lv d r);
        try assumption; try reflexivity; try discriminate.
      - exact (get_lv s2 lv d r LV_LAST y Hfr2 HlL).
      - exact (get_lv s2 lv d r LV_FIRST x Hfr2 HlF).
      - exact (get_lv s2 lv d r LV_COUNTER cnt Hfr2 HlC). }
    set (s3 := with_lv s2 LV_INCR incr 8) in *.
    assert (Hfj3 : fetch im (m_pc s3) = Some (jump JC_ALWAYS (1 + 1))) by exact Hfj2.
    pose proof (jump_always im s3 (1 + 1) Hfj3) as Ej3.
    exists (4 + (1 + (8 + 1)))%nat, (with_pc s3 (m_pc s3 + (1 + 1))), (lv_set lv LV_INCR incr).
    split; [replace (@nil event) with (@nil event ++ (@nil event ++ (@nil event ++ @nil event))) by reflexivity;
            eapply esteps_app; [exact E1|eapply esteps_app; [exact Ej|eapply esteps_app; [exact E2|exact Ej3]]]|].
    split; [apply sim_with_pc; apply sim_with_lv; apply sim_with_pc; exact Hs1|].
    split; [unfold s3, s2, s1; cbn [with_pc with_lv put_vm m_pc]; lia|].
    split; [unfold s3; cbn [with_pc with_lv m_frames]; rewrite Hfr2; reflexivity|].
    split; [reflexivity|]. split; [rewrite lv_get_set_other by reflexivity; exact HlC|apply lv_get_set].
  - injection Hcalc as <-.
    set (s2 := with_pc s1 (m_pc s1 + (8 + 2))) in *.
    assert (Hfr2 : m_frames s2 = FLoop lv d :: r) by exact Hfr.
    assert (Hf2 : fetch im (m_pc s2) = Some (I2 OC_MOVEQ (PInt 0) (PLoopVar LV_INCR))).
    { unfold s2, s1. cbn [with_pc put_vm m_pc].
      replace (m_pc s + 4 + (8 + 2)) with (m_pc s + zlength (test_op OP_NOTEQ (PLoopVar LV_COUNTER) (PInt 1)) + zlength [jump JC_IF_FALSE (len [push_of (PLoopVar LV_LAST); push_of (PLoopVar LV_FIRST); I1 OC_OP (POperator OP_SUB); push_of (PLoopVar LV_COUNTER); push_of (PInt 1); I1 OC_OP (POperator OP_SUB); I1 OC_OP (POperator OP_DIV); I1 OC_POP (PLoopVar LV_INCR)] + 2)] + zlength [push_of (PLoopVar LV_LAST); push_of (PLoopVar LV_FIRST); I1 OC_OP (POperator OP_SUB); push_of (PLoopVar LV_COUNTER); push_of (PInt 1); I1 OC_OP (POperator OP_SUB); I1 OC_OP (POperator OP_DIV); I1 OC_POP (PLoopVar LV_INCR)] + zlength [jump JC_ALWAYS (len [I2 OC_MOVEQ (PInt 0) (PLoopVar LV_INCR)] + 1)]) by (unfold zlength; cbn [length test_op]; lia).
      exact Hfel. }
    pose proof (moveq_lv_step im s2 LV_INCR 0 lv d r Hf2 Hfr2) as E2.
    exists (4 + (1 + 1))%nat, (with_lv s2 LV_INCR (VInt 0) 1), (lv_set lv LV_INCR (VInt 0)).
    split; [replace (@nil event) with (@nil event ++ (@nil event ++ @nil event)) by reflexivity;
            eapply esteps_app; [exact E1|eapply esteps_app; [exact Ej|exact E2]]|].
    split; [apply sim_with_lv; apply sim_with_pc; exact Hs1|].
    split; [unfold s2, s1; cbn [with_pc with_lv put_vm m_pc]; lia|].
    split; [cbn [with_lv m_frames]; rewrite Hfr2; reflexivity|].
    split; [reflexivity|]. split; [rewrite lv_get_set_other by reflexivity; exact HlC|apply lv_get_set].
Qed.

Definition cw_range_pre (n : rval) (v : string) (a b : rval) : program :=
  c_rval rt mt n (DLoop LV_COUNTER) ++ c_rval rt mt a (DLoop LV_FIRST) ++ c_rval rt mt b (DLoop LV_LAST) ++
  [I2 OC_MOVE (PLoopVar LV_FIRST) (PStr v)] ++ calc_incr.

Lemma c_idx_cw_range n v a b body : c_stmt rt mt false None (SRepeat (LCountWith n (WRange v a b)) body) =
  [I0 OC_LOOP] ++ cw_range_pre n v a b ++ counter_test ++
  [jump JC_IF_FALSE (len (c_stmt rt mt false (Some (len (counter_post (Some v)) + 1)) body ++ counter_post (Some v)) + 2)] ++
  (c_stmt rt mt false (Some (len (counter_post (Some v)) + 1)) body ++ counter_post (Some v)) ++
  [jump JC_ALWAYS (- (len counter_test + 1 + len (c_stmt rt mt false (Some (len (counter_post (Some v)) + 1)) body ++ counter_post (Some v))))] ++ [I0 OC_END_LOOP].
Proof. reflexivity. Qed.

Lemma exec_countwith f ss n w body : Sem.exec rt mt (S (S f)) false ss (SRepeat (LCountWith n w) body) =
  (let* (cnt, s1) := eval_rval rt mt f false ss n in
   let* (vi, s2) := prep_with rt mt f false s1 cnt w in
   iterate rt mt f false s2 None (Some cnt) (Some vi) None body).
Proof. reflexivity. Qed.

Lemma prep_with_range f ss cnt v a b : prep_with rt mt (S f) false ss cnt (WRange v a b) =
  (let* (x, s1) := eval_rval rt mt f false ss a in
   let* (y, s2) := eval_rval rt mt f false s1 b in
   match interp_calc cnt x y with
   | Ok incr => ROk (v, incr) (assign s2 v x)
   | Err e => RErr e s2
   end).
Proof. reflexivity. Qed.

Lemma cw_range_idx_form n v a b : plain_rval mt n = true -> plain_rval mt a = true -> plain_rval mt b = true ->
  idx_form rt mt (LCountWith n (WRange v a b)) v (cw_range_pre n v a b).
Proof.
  intros Hn Ha Hb. split; [intros body; apply c_idx_cw_range|].
  split; [unfold cw_range_pre; rewrite !forallb_app, (c_rval_lv_no_routine rt mt LV_COUNTER n Hn), (c_rval_lv_no_routine rt mt LV_FIRST a Ha),
            (c_rval_lv_no_routine rt mt LV_LAST b Hb); reflexivity|].
  intros f ss body sig ss' im s d r He Hsim Hfr Hc. rewrite exec_countwith in He.
  destruct (eval_rval rt mt f false ss n) as [cnt sn|e sn|sn] eqn:Evn; cbn [sbind] in He; try discriminate.
  unfold cw_range_pre in Hc |- *.
  set (CN := c_rval rt mt n (DLoop LV_COUNTER)) in *. set (CA := c_rval rt mt a (DLoop LV_FIRST)) in *. set (CB := c_rval rt mt b (DLoop LV_LAST)) in *.
  set (kN := zlength CN) in *. set (kA := zlength CA) in *. set (kB := zlength CB) in *.
  apply code_at_app in Hc. destruct Hc as [HcN Hc]. apply code_at_app in Hc. destruct Hc as [HcA Hc].
  apply code_at_app in Hc. destruct Hc as [HcB Hc]. apply code_at_app in Hc. destruct Hc as [Hmv Hci].
  cbn [code_at] in Hmv. destruct Hmv as [Hfm _]. rewrite zlength1 in Hci. fold kN in HcA, HcB, Hfm, Hci. fold kA in HcB, Hfm, Hci. fold kB in Hfm, Hci.
  destruct (lv_init rt mt LV_COUNTER n Hn im ss s cnt sn f [] d r Hsim Hfr HcN Evn) as [-> [nN EN]]. fold CN in EN. fold kN in EN.
  set (s0 := with_lv s LV_COUNTER cnt kN) in *.
  assert (Hs0 : sim ss s0) by (apply sim_with_lv; exact Hsim).
  assert (Hfr0 : m_frames s0 = FLoop (lv_set [] LV_COUNTER cnt) d :: r) by (unfold s0; cbn [with_lv m_frames]; rewrite Hfr; reflexivity).
  destruct f as [|f]; [discriminate|]. rewrite prep_with_range in He.
  destruct (eval_rval rt mt f false ss a) as [x sa|e sa|sa] eqn:Eva; cbn [sbind] in He; try discriminate.
  assert (HcA0 : code_at im (m_pc s0) CA) by exact HcA.
  destruct (lv_init rt mt LV_FIRST a Ha im ss s0 x sa f _ d r Hs0 Hfr0 HcA0 Eva) as [-> [nA EA]]. fold CA in EA. fold kA in EA.
  set (sa := with_lv s0 LV_FIRST x kA) in *.
  assert (Hsa : sim ss sa) by (apply sim_with_lv; exact Hs0).
  assert (Hfra : m_frames sa = FLoop (lv_set (lv_set [] LV_COUNTER cnt) LV_FIRST x) d :: r) by (unfold sa; cbn [with_lv m_frames]; rewrite Hfr0; reflexivity).
  destruct (eval_rval rt mt f false ss b) as [y sb|e sb|sb] eqn:Evb; cbn [sbind] in He; try discriminate.
  assert (HcBa : code_at im (m_pc sa) CB) by exact HcB.
  destruct (lv_init rt mt LV_LAST b Hb im ss sa y sb f _ d r Hsa Hfra HcBa Evb) as [-> [nB EB]]. fold CB in EB. fold kB in EB.
  set (sb := with_lv sa LV_LAST y kB) in *.
  assert (Hsb : sim ss sb) by (apply sim_with_lv; exact Hsa).
  set (lv2 := lv_set (lv_set (lv_set [] LV_COUNTER cnt) LV_FIRST x) LV_LAST y) in *.
  assert (Hfrb : m_frames sb = FLoop lv2 d :: r) by (unfold sb; cbn [with_lv m_frames]; rewrite Hfra; reflexivity).
  assert (Hl2C : lv_get lv2 LV_COUNTER = Some cnt) by reflexivity.
  assert (Hl2F : lv_get lv2 LV_FIRST = Some x) by reflexivity.
  assert (Hl2L : lv_get lv2 LV_LAST = Some y) by reflexivity.
  destruct (interp_calc cnt x y) as [incr|e] eqn:Ecalc; [|discriminate]. cbn [sbind] in He.
  assert (Hfmb : fetch im (m_pc sb) = Some (I2 OC_MOVE (PLoopVar LV_FIRST) (PStr v))) by exact Hfm.
  destruct (move_first_step im ss sb v lv2 d r x Hsb Hfrb Hl2F Hfmb) as (sc & r' & Ec & Hsc & Hpcc & Hfrc & Her' & Hstc).
  assert (Hcic : code_at im (m_pc sc) calc_incr) by (rewrite Hpcc; exact Hci).
  destruct (calc_incr_steps im (assign ss v x) sc lv2 d r' cnt x y incr Hsc Hfrc Hl2C Hl2F Hl2L Ecalc Hcic)
    as (n5 & s5 & lv5 & E5 & Hs5 & Hpc5 & Hfr5 & Hst5 & Hl5C & Hl5I).
  exists cnt, incr, (assign ss v x), (nN + (nA + (nB + (1 + n5))))%nat, s5, lv5, r'.
  split; [exact He|]. split; [exact (proj2 (proj2 (assign_other_fields ss v x)))|].
  split.
  { replace (@nil event) with (@nil event ++ (@nil event ++ (@nil event ++ (@nil event ++ @nil event)))) by reflexivity.
    eapply esteps_app; [exact EN|eapply esteps_app; [exact EA|eapply esteps_app; [exact EB|eapply esteps_app; [exact Ec|exact E5]]]]. }
  split; [exact Hs5|].
  split.
  { rewrite Hpc5, Hpcc. unfold sb, sa, s0. cbn [with_lv m_pc]. unfold zlength. rewrite !app_length. cbn [length]. rewrite !Nat2Z.inj_add. unfold kN, kA, kB, zlength.
    change (Z.of_nat (length calc_incr)) with 15. lia. }
  split; [exact Hfr5|]. split; [exact Her'|]. split; [rewrite Hst5, Hstc; reflexivity|].
  split; [exact Hl5C|]. unfold lv_val. rewrite Hl5I. reflexivity.
Qed.

(* ---- repeat n with v cycle [start] ---- *)
Definition cycle_calc (rf : regfile) (cnt : value) : res value :=
  do cnt' <- pushable cnt;
  do ne <- eval_binop OP_NOTEQ cnt' (VInt 0);
  if truthy ne then
    do m <- rf_unit_mode rf;
    eval_binop OP_DIV (VInt (match m with UM_RAW => 65536 | _ => 360 end)) cnt
  else Ok VNone.

Lemma cycle_incr_steps im ss s lv d r cnt incr :
  sim ss s -> m_frames s = FLoop lv d :: r -> lv_get lv LV_COUNTER = Some cnt -> lv_get lv LV_INCR = None ->
  cycle_calc (s_regs ss) cnt = Ok incr -> code_at im (m_pc s) cycle_incr ->
  exists n s' lv', esteps n im s = Some (s', []) /\ sim ss s' /\ m_pc s' = m_pc s + 16 /\ m_frames s' = FLoop lv' d :: r /\
                   m_stack s' = m_stack s /\ lv_get lv' LV_COUNTER = Some cnt /\ lv_val lv' LV_INCR = incr.
Proof.
  intros Hsim Hfr HlC HlI Hcalc Hc. unfold cycle_incr in Hc. unfold c_if at 1 in Hc.
  apply code_at_app in Hc. destruct Hc as [Htest Hc]. apply code_at_app in Hc. destruct Hc as [Hj Hthen]. cbn [code_at] in Hj. destruct Hj as [Hfj _].
  apply code_at_app in Hthen. destruct Hthen as [Hinner Htail]. unfold c_if in Hinner.
  apply code_at_app in Hinner. destruct Hinner as [Htest2 Hinner]. apply code_at_app in Hinner. destruct Hinner as [Hj2 Hinner]. cbn [code_at] in Hj2. destruct Hj2 as [Hfj2 _].
  apply code_at_app in Hinner. destruct Hinner as [Hraw Hinner]. cbn [code_at] in Hraw. destruct Hraw as [Hfraw _].
  apply code_at_app in Hinner. destruct Hinner as [Hj3 Hdeg]. cbn [code_at] in Hj3, Hdeg. destruct Hj3 as [Hfj3 _]. destruct Hdeg as [Hfdeg _].
  unfold cycle_calc in Hcalc.
  destruct (pushable cnt) as [c'|] eqn:Ep; cbn [bind] in Hcalc; [|discriminate]. destruct (pushable_ok cnt c' Ep) as [-> Hnc].
  destruct (eval_binop OP_NOTEQ cnt (VInt 0)) as [ne|] eqn:Ene; cbn [bind] in Hcalc; [|discriminate].
  assert (E1 : esteps 4 im s = Some (put_vm s (DReg R_RESULT) ne 4, [])).
  { apply (test_group im s (PLoopVar LV_COUNTER) (PInt 0) OP_NOTEQ cnt (VInt 0) ne); try assumption; try reflexivity; try discriminate.
    exact (get_lv s lv d r LV_COUNTER cnt Hfr HlC). }
  set (s1 := put_vm s (DReg R_RESULT) ne 4) in *.
  assert (Hs1 : sim ss s1) by (apply sim_put_reg_hidden; [exact Hsim|reflexivity|reflexivity]).
  assert (Hr1 : rf_get (m_regs s1) R_RESULT = Some ne) by (unfold s1; cbn [put_vm m_regs]; apply rf_get_set_same).
  assert (Hfj1 : fetch im (m_pc s1) = Some (jump JC_IF_FALSE (11 + 1))) by exact Hfj.
  pose proof (jump_if_false im s1 ne (11 + 1) Hr1 Hfj1) as Ej.
  destruct (truthy ne) eqn:Etn.
  - destruct (rf_unit_mode (s_regs ss)) as [m|] eqn:Em; cbn [bind] in Hcalc; [|discriminate].
    set (K := match m with UM_RAW => 65536 | _ => 360 end) in *.
    set (s2 := with_pc s1 (m_pc s1 + 1)) in *.
    assert (Hs2 : sim ss s2) by (apply sim_with_pc; exact Hs1).
    assert (Hum : rf_get (m_regs s2) R_UNIT_MODE = Some (VMode m)).
    { rewrite (sim_regs _ _ Hs2 R_UNIT_MODE eq_refl). unfold rf_unit_mode, rreg in Em.
      destruct (rf_get (s_regs ss) R_UNIT_MODE) as [[]|]; try discriminate. injection Em as ->. reflexivity. }
    set (res := VBool (match m with UM_RAW => true | _ => false end)).
    assert (E2 : esteps 4 im s2 = Some (put_vm s2 (DReg R_RESULT) res 4, [])).
    { apply (test_group im s2 (PReg R_UNIT_MODE) (PMode UM_RAW) OP_EQ (VMode m) (VMode UM_RAW) res); try reflexivity; try discriminate; try exact Htest2; try exact Hum; try (destruct m; reflexivity). }
    set (s3 := put_vm s2 (DReg R_RESULT) res 4) in *.
    assert (Hs3 : sim ss s3) by (apply sim_put_reg_hidden; [exact Hs2|reflexivity|reflexivity]).
    assert (Hr3 : rf_get (m_regs s3) R_RESULT = Some res) by (unfold s3; cbn [put_vm m_regs]; apply rf_get_set_same).
    assert (Hfj3' : fetch im (m_pc s3) = Some (jump JC_IF_FALSE (1 + 2))) by exact Hfj2.
    pose proof (jump_if_false im s3 res (1 + 2) Hr3 Hfj3') as Ej3.
    assert (Hbr : exists n6 s6, esteps n6 im s3 = Some (s6, []) /\ sim ss s6 /\ m_pc s6 = m_pc s + 13 /\ m_frames s6 = FLoop lv d :: r /\
                                m_stack s6 = VInt K :: m_stack s).
    { destruct m; cbn [res truthy] in Ej3.
      - (* degrees *)
        set (s4 := with_pc s3 (m_pc s3 + (1 + 2))) in *.
        assert (Hf4 : fetch im (m_pc s4) = Some (I1 OC_PUSHQ (PInt 360))).
        { match type of Hfdeg with fetch _ ?a = _ => replace (m_pc s4) with a; [exact Hfdeg|] end.
          unfold s4, s3, s2, s1, zlength. cbn [with_pc put_vm m_pc length test_op]. lia. }
        assert (E4 : esteps 1 im s4 = Some (advance (with_stack s4 (VInt 360 :: m_stack s4)), [])) by (apply (estep1 im s4 _ _ _ Hf4); reflexivity).
        exists (1 + 1)%nat, (advance (with_stack s4 (VInt 360 :: m_stack s4))).
        split; [replace (@nil event) with (@nil event ++ @nil event) by reflexivity; eapply esteps_app; [exact Ej3|exact E4]|].
        split; [destruct Hs3; constructor; assumption|].
        split; [unfold s4, s3, s2, s1; cbn [advance with_pc with_stack put_vm m_pc]; lia|]. split; [exact Hfr|reflexivity].
      - (* raw *)
        set (s4 := with_pc s3 (m_pc s3 + 1)) in *.
        assert (Hf4 : fetch im (m_pc s4) = Some (I1 OC_PUSHQ (PInt 65536))) by exact Hfraw.
        assert (E4 : esteps 1 im s4 = Some (advance (with_stack s4 (VInt 65536 :: m_stack s4)), [])) by (apply (estep1 im s4 _ _ _ Hf4); reflexivity).
        set (s5 := advance (with_stack s4 (VInt 65536 :: m_stack s4))) in *.
        assert (Hf5 : fetch im (m_pc s5) = Some (jump JC_ALWAYS (1 + 1))) by exact Hfj3.
        pose proof (jump_always im s5 (1 + 1) Hf5) as E5.
        exists (1 + (1 + 1))%nat, (with_pc s5 (m_pc s5 + (1 + 1))).
        split; [replace (@nil event) with (@nil event ++ (@nil event ++ @nil event)) by reflexivity; eapply esteps_app; [exact Ej3|eapply esteps_app; [exact E4|exact E5]]|].
        split; [destruct Hs3; constructor; assumption|].
        split; [unfold s5, s4, s3, s2, s1; cbn [advance with_pc with_stack put_vm m_pc]; lia|]. split; [exact Hfr|reflexivity].
      - (* rgb: degrees *)
        set (s4 := with_pc s3 (m_pc s3 + (1 + 2))) in *.
        assert (Hf4 : fetch im (m_pc s4) = Some (I1 OC_PUSHQ (PInt 360))).
        { match type of Hfdeg with fetch _ ?a = _ => replace (m_pc s4) with a; [exact Hfdeg|] end.
          unfold s4, s3, s2, s1, zlength. cbn [with_pc put_vm m_pc length test_op]. lia. }
        assert (E4 : esteps 1 im s4 = Some (advance (with_stack s4 (VInt 360 :: m_stack s4)), [])) by (apply (estep1 im s4 _ _ _ Hf4); reflexivity).
        exists (1 + 1)%nat, (advance (with_stack s4 (VInt 360 :: m_stack s4))).
        split; [replace (@nil event) with (@nil event ++ @nil event) by reflexivity; eapply esteps_app; [exact Ej3|exact E4]|].
        split; [destruct Hs3; constructor; assumption|].
        split; [unfold s4, s3, s2, s1; cbn [advance with_pc with_stack put_vm m_pc]; lia|]. split; [exact Hfr|reflexivity]. }
    destruct Hbr as (n6 & s6 & E6 & Hs6 & Hpc6 & Hfr6 & Hst6).
    assert (E7 : esteps 3 im s6 = Some (with_lv (with_stack s6 (m_stack s)) LV_INCR incr 3, [])).
    { apply (tail3 im s6 OP_DIV LV_COUNTER LV_INCR (VInt K) cnt incr (m_stack s) lv d r); try assumption; try reflexivity.
      rewrite Hpc6. replace (m_pc s + 13) with (m_pc s + zlength (test_op OP_NOTEQ (PLoopVar LV_COUNTER) (PInt 0)) + zlength [jump JC_IF_FALSE (len (c_if (test_op OP_EQ (PReg R_UNIT_MODE) (PMode UM_RAW)) [push_of (PInt 65536)] (Some [push_of (PInt 360)]) ++ [push_of (PLoopVar LV_COUNTER); I1 OC_OP (POperator OP_DIV); I1 OC_POP (PLoopVar LV_INCR)]) + 1)] + zlength (c_if (test_op OP_EQ (PReg R_UNIT_MODE) (PMode UM_RAW)) [push_of (PInt 65536)] (Some [push_of (PInt 360)]))) by (unfold zlength; cbn [length test_op c_if app]; lia).
      exact Htail. }
    exists (4 + (1 + (4 + (n6 + 3))))%nat, (with_lv (with_stack s6 (m_stack s)) LV_INCR incr 3), (lv_set lv LV_INCR incr).
    split; [replace (@nil event) with (@nil event ++ (@nil event ++ (@nil event ++ (@nil event ++ @nil event)))) by reflexivity;
            eapply esteps_app; [exact E1|eapply esteps_app; [exact Ej|eapply esteps_app; [exact E2|eapply esteps_app; [exact E6|exact E7]]]]|].
    split; [apply sim_with_lv; destruct Hs6; constructor; assumption|].
    split; [cbn [with_lv with_stack m_pc]; rewrite Hpc6; lia|].
    split; [cbn [with_lv with_stack m_frames]; rewrite Hfr6; reflexivity|].
    split; [reflexivity|]. split; [rewrite lv_get_set_other by reflexivity; exact HlC|unfold lv_val; rewrite lv_get_set; reflexivity].
  - injection Hcalc as <-.
    exists (4 + 1)%nat, (with_pc s1 (m_pc s1 + (11 + 1))), lv.
    split; [replace (@nil event) with (@nil event ++ @nil event) by reflexivity; eapply esteps_app; [exact E1|exact Ej]|].
    split; [apply sim_with_pc; exact Hs1|].
    split; [unfold s1; cbn [with_pc put_vm m_pc]; lia|].
    split; [exact Hfr|]. split; [reflexivity|]. split; [exact HlC|unfold lv_val; rewrite HlI; reflexivity].
Qed.

Definition cycle_first (start : option rval) : program :=
  match start with Some a => c_rval rt mt a (DLoop LV_FIRST) | None => [I2 OC_MOVEQ (PInt 0) (PLoopVar LV_FIRST)] end.
Definition cw_cycle_pre (n : rval) (v : string) (start : option rval) : program :=
  c_rval rt mt n (DLoop LV_COUNTER) ++ cycle_first start ++ [I2 OC_MOVE (PLoopVar LV_FIRST) (PStr v)] ++ cycle_incr.

Lemma c_idx_cw_cycle n v start body : c_stmt rt mt false None (SRepeat (LCountWith n (WCycle v start)) body) =
  [I0 OC_LOOP] ++ cw_cycle_pre n v start ++ counter_test ++
  [jump JC_IF_FALSE (len (c_stmt rt mt false (Some (len (counter_post (Some v)) + 1)) body ++ counter_post (Some v)) + 2)] ++
  (c_stmt rt mt false (Some (len (counter_post (Some v)) + 1)) body ++ counter_post (Some v)) ++
  [jump JC_ALWAYS (- (len counter_test + 1 + len (c_stmt rt mt false (Some (len (counter_post (Some v)) + 1)) body ++ counter_post (Some v))))] ++ [I0 OC_END_LOOP].
Proof. reflexivity. Qed.

Lemma prep_with_cycle f ss cnt v start : prep_with rt mt (S f) false ss cnt (WCycle v start) =
  (let* (x, s1) := (match start with Some a => eval_rval rt mt f false ss a | None => ROk (VInt 0) ss end) in
   match cycle_calc (s_regs s1) cnt with
   | Ok incr => ROk (v, incr) (assign s1 v x)
   | Err e => RErr e s1
   end).
Proof. reflexivity. Qed.

Definition plain_opt (o : option rval) : bool := match o with Some a => plain_rval mt a | None => true end.

Lemma cw_cycle_idx_form n v start : plain_rval mt n = true -> plain_opt start = true ->
  idx_form rt mt (LCountWith n (WCycle v start)) v (cw_cycle_pre n v start).
Proof.
  intros Hn Ha. split; [intros body; apply c_idx_cw_cycle|].
  split.
  { unfold cw_cycle_pre. rewrite !forallb_app, (c_rval_lv_no_routine rt mt LV_COUNTER n Hn).
    destruct start as [a|]; cbn [cycle_first]; [cbn [plain_opt] in Ha; rewrite (c_rval_lv_no_routine rt mt LV_FIRST a Ha)|]; reflexivity. }
  intros f ss body sig ss' im s d r He Hsim Hfr Hc. rewrite exec_countwith in He.
  destruct (eval_rval rt mt f false ss n) as [cnt sn|e sn|sn] eqn:Evn; cbn [sbind] in He; try discriminate.
  unfold cw_cycle_pre in Hc |- *.
  set (CN := c_rval rt mt n (DLoop LV_COUNTER)) in *.
  set (CA := cycle_first start) in *.
  set (kN := zlength CN) in *. set (kA := zlength CA) in *.
  apply code_at_app in Hc. destruct Hc as [HcN Hc]. apply code_at_app in Hc. destruct Hc as [HcA Hc].
  apply code_at_app in Hc. destruct Hc as [Hmv Hci].
  cbn [code_at] in Hmv. destruct Hmv as [Hfm _]. rewrite zlength1 in Hci. fold kN in HcA, Hfm, Hci. fold kA in Hfm, Hci.
  destruct (lv_init rt mt LV_COUNTER n Hn im ss s cnt sn f [] d r Hsim Hfr HcN Evn) as [-> [nN EN]]. fold CN in EN. fold kN in EN.
  set (s0 := with_lv s LV_COUNTER cnt kN) in *.
  assert (Hs0 : sim ss s0) by (apply sim_with_lv; exact Hsim).
  assert (Hfr0 : m_frames s0 = FLoop (lv_set [] LV_COUNTER cnt) d :: r) by (unfold s0; cbn [with_lv m_frames]; rewrite Hfr; reflexivity).
  destruct f as [|f]; [discriminate|]. rewrite prep_with_cycle in He.
  (* the first value *)
  assert (Hfirst : exists x nA, (match start with Some a => eval_rval rt mt f false ss a | None => ROk (VInt 0) ss end) = ROk x ss /\
                                esteps nA im s0 = Some (with_lv s0 LV_FIRST x kA, [])).
  { destruct start as [a|].
    - cbn [plain_opt] in Ha. destruct (eval_rval rt mt f false ss a) as [x sa|e sa|sa] eqn:Eva; cbn [sbind] in He; try discriminate.
      assert (HcA0 : code_at im (m_pc s0) CA) by exact HcA.
      destruct (lv_init rt mt LV_FIRST a Ha im ss s0 x sa f _ d r Hs0 Hfr0 HcA0 Eva) as [-> [nA EA]].
      exists x, nA. split; [reflexivity|exact EA].
    - exists (VInt 0), 1%nat. split; [reflexivity|].
      assert (HcA0 : code_at im (m_pc s0) [I2 OC_MOVEQ (PInt 0) (PLoopVar LV_FIRST)]) by exact HcA.
      cbn [code_at] in HcA0. destruct HcA0 as [Hf0' _].
      exact (moveq_lv_step im s0 LV_FIRST 0 _ d r Hf0' Hfr0). }
  destruct Hfirst as (x & nA & Evx & EA). rewrite Evx in He. cbn [sbind] in He.
  set (sa := with_lv s0 LV_FIRST x kA) in *.
  assert (Hsa : sim ss sa) by (apply sim_with_lv; exact Hs0).
  set (lv2 := lv_set (lv_set [] LV_COUNTER cnt) LV_FIRST x) in *.
  assert (Hfra : m_frames sa = FLoop lv2 d :: r) by (unfold sa; cbn [with_lv m_frames]; rewrite Hfr0; reflexivity).
  assert (Hl2C : lv_get lv2 LV_COUNTER = Some cnt) by reflexivity.
  assert (Hl2F : lv_get lv2 LV_FIRST = Some x) by reflexivity.
  assert (Hl2I : lv_get lv2 LV_INCR = None) by reflexivity.
  destruct (cycle_calc (s_regs ss) cnt) as [incr|e] eqn:Ecalc; [|discriminate].
  assert (Hfma : fetch im (m_pc sa) = Some (I2 OC_MOVE (PLoopVar LV_FIRST) (PStr v))) by exact Hfm.
  destruct (move_first_step im ss sa v lv2 d r x Hsa Hfra Hl2F Hfma) as (sc & r' & Ec & Hsc & Hpcc & Hfrc & Her' & Hstc).
  assert (Hcic : code_at im (m_pc sc) cycle_incr) by (rewrite Hpcc; exact Hci).
  assert (Ecalc' : cycle_calc (s_regs (assign ss v x)) cnt = Ok incr) by (rewrite (proj1 (assign_other_fields ss v x)); exact Ecalc).
  destruct (cycle_incr_steps im (assign ss v x) sc lv2 d r' cnt incr Hsc Hfrc Hl2C Hl2I Ecalc' Hcic)
    as (n5 & s5 & lv5 & E5 & Hs5 & Hpc5 & Hfr5 & Hst5 & Hl5C & Hl5I).
  exists cnt, incr, (assign ss v x), (nN + (nA + (1 + n5)))%nat, s5, lv5, r'.
  split; [exact He|]. split; [exact (proj2 (proj2 (assign_other_fields ss v x)))|].
  split.
  { replace (@nil event) with (@nil event ++ (@nil event ++ (@nil event ++ @nil event))) by reflexivity.
    eapply esteps_app; [exact EN|eapply esteps_app; [exact EA|eapply esteps_app; [exact Ec|exact E5]]]. }
  split; [exact Hs5|].
  split.
  { rewrite Hpc5, Hpcc. unfold sa, s0. cbn [with_lv m_pc]. unfold zlength. rewrite !app_length. cbn [length]. rewrite !Nat2Z.inj_add. unfold kN, kA, zlength.
    change (Z.of_nat (length cycle_incr)) with 16. lia. }
  split; [exact Hfr5|]. split; [exact Her'|]. split; [rewrite Hst5, Hstc; reflexivity|].
  split; [exact Hl5C|exact Hl5I].
Qed.

(* ---- the `with` clause on its own (after the count is known): used by the light loops ---- *)
Definition plain_with (w : loop_with) : bool :=
  match w with WRange _ a b => plain_rval mt a && plain_rval mt b | WCycle _ start => plain_opt start end.
Definition with_var (w : loop_with) : string := match w with WRange v _ _ => v | WCycle v _ => v end.

Lemma c_with_var w : snd (c_with rt mt w) = with_var w.
Proof. destruct w; reflexivity. Qed.
Lemma c_with_no_routine w : plain_with w = true -> forallb not_routine (fst (c_with rt mt w)) = true.
Proof.
  destruct w as [v a b|v start]; cbn [plain_with c_with fst]; intros H.
  - apply andb_true_iff in H. destruct H as [Ha Hb]. rewrite !forallb_app, (c_rval_lv_no_routine rt mt LV_FIRST a Ha), (c_rval_lv_no_routine rt mt LV_LAST b Hb). reflexivity.
  - rewrite !forallb_app. destruct start as [a|]; [cbn [plain_opt] in H; rewrite (c_rval_lv_no_routine rt mt LV_FIRST a H)|]; reflexivity.
Qed.

Lemma c_with_range_len v a b : zlength (fst (c_with rt mt (WRange v a b))) = zlength (c_rval rt mt a (DLoop LV_FIRST)) + zlength (c_rval rt mt b (DLoop LV_LAST)) + 16.
Proof. cbn [c_with fst]. unfold zlength. rewrite !app_length, !Nat2Z.inj_add. change (Z.of_nat (length calc_incr)) with 15. cbn [length]. lia. Qed.
Lemma c_with_cycle_len v start : zlength (fst (c_with rt mt (WCycle v start))) = zlength (cycle_first start) + 17.
Proof.
  assert (H : fst (c_with rt mt (WCycle v start)) = cycle_first start ++ [I2 OC_MOVE (PLoopVar LV_FIRST) (PStr v)] ++ cycle_incr) by reflexivity.
  rewrite H. unfold zlength. rewrite !app_length, !Nat2Z.inj_add. change (Z.of_nat (length cycle_incr)) with 16. cbn [length]. lia.
Qed.

Lemma with_prep w : plain_with w = true ->
  forall im ss s cnt vi s1 f lv d r,
  sim ss s -> m_frames s = FLoop lv d :: r -> lv_get lv LV_COUNTER = Some cnt -> lv_get lv LV_INCR = None ->
  code_at im (m_pc s) (fst (c_with rt mt w)) -> prep_with rt mt f false ss cnt w = ROk vi s1 ->
  fst vi = with_var w /\ s_trace s1 = s_trace ss /\
  exists n s' lv' r', esteps n im s = Some (s', []) /\ sim s1 s' /\ m_pc s' = m_pc s + zlength (fst (c_with rt mt w)) /\
                      m_frames s' = FLoop lv' d :: r' /\ erase r' = erase r /\ m_stack s' = m_stack s /\
                      lv_get lv' LV_COUNTER = Some cnt /\ lv_val lv' LV_INCR = snd vi.
Proof.
  intros Hpw im ss s cnt vi s1 f lv d r Hsim Hfr HlC HlI Hc He.
  destruct f as [|f]; [discriminate|].
  destruct w as [v a b|v start]; [rewrite c_with_range_len|rewrite c_with_cycle_len]; cbn [plain_with c_with fst with_var] in *.
  - (* from a to b *)
    apply andb_true_iff in Hpw. destruct Hpw as [Ha Hb]. rewrite prep_with_range in He.
    set (CA := c_rval rt mt a (DLoop LV_FIRST)) in *. set (CB := c_rval rt mt b (DLoop LV_LAST)) in *.
    set (kA := zlength CA) in *. set (kB := zlength CB) in *.
    apply code_at_app in Hc. destruct Hc as [HcA Hc]. apply code_at_app in Hc. destruct Hc as [HcB Hc]. apply code_at_app in Hc. destruct Hc as [Hmv Hci].
    cbn [code_at] in Hmv. destruct Hmv as [Hfm _]. rewrite zlength1 in Hci. fold kA in HcB, Hfm, Hci. fold kB in Hfm, Hci.
    destruct (eval_rval rt mt f false ss a) as [x sa|e sa|sa] eqn:Eva; cbn [sbind] in He; try discriminate.
    destruct (lv_init rt mt LV_FIRST a Ha im ss s x sa f lv d r Hsim Hfr HcA Eva) as [-> [nA EA]]. fold CA in EA. fold kA in EA.
    set (sa := with_lv s LV_FIRST x kA) in *.
    assert (Hsa : sim ss sa) by (apply sim_with_lv; exact Hsim).
    assert (Hfra : m_frames sa = FLoop (lv_set lv LV_FIRST x) d :: r) by (unfold sa; cbn [with_lv m_frames]; rewrite Hfr; reflexivity).
    destruct (eval_rval rt mt f false ss b) as [y sb|e sb|sb] eqn:Evb; cbn [sbind] in He; try discriminate.
    assert (HcBa : code_at im (m_pc sa) CB) by exact HcB.
    destruct (lv_init rt mt LV_LAST b Hb im ss sa y sb f _ d r Hsa Hfra HcBa Evb) as [-> [nB EB]]. fold CB in EB. fold kB in EB.
    set (sb := with_lv sa LV_LAST y kB) in *.
    assert (Hsb : sim ss sb) by (apply sim_with_lv; exact Hsa).
    set (lv2 := lv_set (lv_set lv LV_FIRST x) LV_LAST y) in *.
    assert (Hfrb : m_frames sb = FLoop lv2 d :: r) by (unfold sb; cbn [with_lv m_frames]; rewrite Hfra; reflexivity).
    assert (Hl2C : lv_get lv2 LV_COUNTER = Some cnt) by (unfold lv2; rewrite !lv_get_set_other by reflexivity; exact HlC).
    assert (Hl2F : lv_get lv2 LV_FIRST = Some x) by (unfold lv2; rewrite lv_get_set_other by reflexivity; apply lv_get_set).
    assert (Hl2L : lv_get lv2 LV_LAST = Some y) by (unfold lv2; apply lv_get_set).
    destruct (interp_calc cnt x y) as [incr|e] eqn:Ecalc; [|discriminate]. injection He as <- <-.
    assert (Hfmb : fetch im (m_pc sb) = Some (I2 OC_MOVE (PLoopVar LV_FIRST) (PStr v))) by exact Hfm.
    destruct (move_first_step im ss sb v lv2 d r x Hsb Hfrb Hl2F Hfmb) as (sc & r' & Ec & Hsc & Hpcc & Hfrc & Her' & Hstc).
    assert (Hcic : code_at im (m_pc sc) calc_incr) by (rewrite Hpcc; exact Hci).
    destruct (calc_incr_steps im (assign ss v x) sc lv2 d r' cnt x y incr Hsc Hfrc Hl2C Hl2F Hl2L Ecalc Hcic)
      as (n5 & s5 & lv5 & E5 & Hs5 & Hpc5 & Hfr5 & Hst5 & Hl5C & Hl5I).
    split; [reflexivity|]. split; [exact (proj2 (proj2 (assign_other_fields ss v x)))|].
    exists (nA + (nB + (1 + n5)))%nat, s5, lv5, r'.
    split.
    { replace (@nil event) with (@nil event ++ (@nil event ++ (@nil event ++ @nil event))) by reflexivity.
      eapply esteps_app; [exact EA|eapply esteps_app; [exact EB|eapply esteps_app; [exact Ec|exact E5]]]. }
    split; [exact Hs5|].
    split.
    { rewrite Hpc5, Hpcc. unfold sb, sa. cbn [with_lv m_pc]. fold CA. fold CB. fold kA. fold kB. lia. }
    split; [exact Hfr5|]. split; [exact Her'|]. split; [rewrite Hst5, Hstc; reflexivity|].
    split; [exact Hl5C|]. cbn [snd]. unfold lv_val. rewrite Hl5I. reflexivity.
  - (* cycle *)
    rewrite prep_with_cycle in He. fold (cycle_first start) in Hc |- *.
    set (CA := cycle_first start) in *. set (kA := zlength CA) in *.
    apply code_at_app in Hc. destruct Hc as [HcA Hc]. apply code_at_app in Hc. destruct Hc as [Hmv Hci].
    cbn [code_at] in Hmv. destruct Hmv as [Hfm _]. rewrite zlength1 in Hci. fold kA in Hfm, Hci.
    assert (Hfirst : exists x nA, (match start with Some a => eval_rval rt mt f false ss a | None => ROk (VInt 0) ss end) = ROk x ss /\
                                  esteps nA im s = Some (with_lv s LV_FIRST x kA, [])).
    { destruct start as [a|].
      - cbn [plain_opt] in Hpw. destruct (eval_rval rt mt f false ss a) as [x sa|e sa|sa] eqn:Eva; cbn [sbind] in He; try discriminate.
        assert (HcA0 : code_at im (m_pc s) (c_rval rt mt a (DLoop LV_FIRST))) by exact HcA.
        destruct (lv_init rt mt LV_FIRST a Hpw im ss s x sa f _ d r Hsim Hfr HcA0 Eva) as [-> [nA EA]].
        exists x, nA. split; [reflexivity|exact EA].
      - exists (VInt 0), 1%nat. split; [reflexivity|].
        assert (HcA0 : code_at im (m_pc s) [I2 OC_MOVEQ (PInt 0) (PLoopVar LV_FIRST)]) by exact HcA.
        cbn [code_at] in HcA0. destruct HcA0 as [Hf0' _].
        exact (moveq_lv_step im s LV_FIRST 0 _ d r Hf0' Hfr). }
    destruct Hfirst as (x & nA & Evx & EA). rewrite Evx in He. cbn [sbind] in He.
    set (sa := with_lv s LV_FIRST x kA) in *.
    assert (Hsa : sim ss sa) by (apply sim_with_lv; exact Hsim).
    set (lv2 := lv_set lv LV_FIRST x) in *.
    assert (Hfra : m_frames sa = FLoop lv2 d :: r) by (unfold sa; cbn [with_lv m_frames]; rewrite Hfr; reflexivity).
    assert (Hl2C : lv_get lv2 LV_COUNTER = Some cnt) by (unfold lv2; rewrite lv_get_set_other by reflexivity; exact HlC).
    assert (Hl2F : lv_get lv2 LV_FIRST = Some x) by (unfold lv2; apply lv_get_set).
    assert (Hl2I : lv_get lv2 LV_INCR = None) by (unfold lv2; rewrite lv_get_set_other by reflexivity; exact HlI).
    destruct (cycle_calc (s_regs ss) cnt) as [incr|e] eqn:Ecalc; [|discriminate]. injection He as <- <-.
    assert (Hfma : fetch im (m_pc sa) = Some (I2 OC_MOVE (PLoopVar LV_FIRST) (PStr v))) by exact Hfm.
    destruct (move_first_step im ss sa v lv2 d r x Hsa Hfra Hl2F Hfma) as (sc & r' & Ec & Hsc & Hpcc & Hfrc & Her' & Hstc).
    assert (Hcic : code_at im (m_pc sc) cycle_incr) by (rewrite Hpcc; exact Hci).
    assert (Ecalc' : cycle_calc (s_regs (assign ss v x)) cnt = Ok incr) by (rewrite (proj1 (assign_other_fields ss v x)); exact Ecalc).
    destruct (cycle_incr_steps im (assign ss v x) sc lv2 d r' cnt incr Hsc Hfrc Hl2C Hl2I Ecalc' Hcic)
      as (n5 & s5 & lv5 & E5 & Hs5 & Hpc5 & Hfr5 & Hst5 & Hl5C & Hl5I).
    split; [reflexivity|]. split; [exact (proj2 (proj2 (assign_other_fields ss v x)))|].
    exists (nA + (1 + n5))%nat, s5, lv5, r'.
    split.
    { replace (@nil event) with (@nil event ++ (@nil event ++ @nil event)) by reflexivity.
      eapply esteps_app; [exact EA|eapply esteps_app; [exact Ec|exact E5]]. }
    split; [exact Hs5|].
    split.
    { rewrite Hpc5, Hpcc. unfold sa. cbn [with_lv m_pc]. fold CA. fold kA. lia. }
    split; [exact Hfr5|]. split; [exact Her'|]. split; [rewrite Hst5, Hstc; reflexivity|].
    split; [exact Hl5C|exact Hl5I].
Qed.

End CountWith.