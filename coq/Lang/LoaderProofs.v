(* Loading moves routine bodies out of line and nothing else. *)
From Coq Require Import ZArith String List Bool Lia.
From Bardolph Require Import Gen.Codes Lang.Value Lang.Instr Lang.Loader Lang.CodeGen.
Open Scope string_scope.
Open Scope list_scope.
Import ListNotations.
Open Scope Z_scope.

(* the instructions outside ROUTINE ... END name blocks, in order, and those inside *)
Fixpoint split_go (p : program) (cur : option param) : program * program :=
  match p with
  | [] => ([], [])
  | i :: r =>
      match cur with
      | Some name =>
          let '(R, M) := split_go r (if is_end_of name i then None else cur) in (i :: R, M)
      | None =>
          match i_op i with
          | OC_ROUTINE => let '(R, M) := split_go r (Some (i_p0 i)) in (i :: R, M)
          | _ => let '(R, M) := split_go r None in (R, i :: M)
          end
      end
  end.

Definition cur_name (cur : option (param * Z)) : option param := option_map fst cur.

Lemma load_go_split p : forall cur R M nR tbl,
  nR = zlength R ->
  let '(R', M', _) := load_go p cur R M nR tbl in
  let '(Rp, Mp) := split_go p (cur_name cur) in
  R' = rev Rp ++ R /\ M' = rev Mp ++ M.
Proof.
  induction p as [|i r IH]; intros cur R M nR tbl HnR; cbn [load_go split_go].
  - destruct cur as [[name addr]|]; cbn; split; reflexivity.
  - destruct cur as [[name addr]|]; cbn [cur_name option_map fst].
    + destruct (is_end_of name i) eqn:E.
      * specialize (IH None (i :: R) M (nR + 1) ((name, (addr, nR + 2)) :: tbl)).
        cbn [cur_name option_map] in IH.
        destruct (load_go r None (i :: R) M (nR + 1) ((name, (addr, nR + 2)) :: tbl)) as [[R' M'] t'].
        destruct (split_go r None) as [Rp Mp]. destruct IH as [H1 H2].
        { unfold zlength in *. cbn [length]. lia. }
        split; [rewrite H1; cbn [rev]; rewrite <- app_assoc; reflexivity|exact H2].
      * specialize (IH (Some (name, addr)) (i :: R) M (nR + 1) tbl).
        cbn [cur_name option_map fst] in IH.
        destruct (load_go r (Some (name, addr)) (i :: R) M (nR + 1) tbl) as [[R' M'] t'].
        destruct (split_go r (Some name)) as [Rp Mp]. destruct IH as [H1 H2].
        { unfold zlength in *. cbn [length]. lia. }
        split; [rewrite H1; cbn [rev]; rewrite <- app_assoc; reflexivity|exact H2].
    + destruct (i_op i) eqn:Eop;
        try (specialize (IH None R (i :: M) nR tbl); cbn [cur_name option_map] in IH;
             destruct (load_go r None R (i :: M) nR tbl) as [[R' M'] t'];
             destruct (split_go r None) as [Rp Mp]; destruct (IH HnR) as [H1 H2];
             split; [exact H1|rewrite H2; cbn [rev]; rewrite <- app_assoc; reflexivity]).
      specialize (IH (Some (i_p0 i, nR + 2)) (i :: R) M (nR + 1) tbl). cbn [cur_name option_map fst] in IH.
      destruct (load_go r (Some (i_p0 i, nR + 2)) (i :: R) M (nR + 1) tbl) as [[R' M'] t'].
      destruct (split_go r (Some (i_p0 i))) as [Rp Mp]. destruct IH as [H1 H2].
      { unfold zlength in *. cbn [length]. lia. }
      split; [rewrite H1; cbn [rev]; rewrite <- app_assoc; reflexivity|exact H2].
Qed.

(* THE IMAGE: the jump over the routine segment, the routine blocks in order, then all other
   instructions in their original order *)
Theorem load_partitions p :
  let '(R, M) := split_go p None in
  im_code (load p) = match R with [] => M | _ => mkI OC_JUMP (PJump JC_ALWAYS) (PInt (zlength R + 1)) :: R ++ M end /\
  im_nroutine (load p) = zlength R.
Proof.
  unfold load. pose proof (load_go_split p None [] [] 0 [] eq_refl) as H. cbn [cur_name option_map] in H.
  destruct (load_go p None [] [] 0 []) as [[R' M'] t']. destruct (split_go p None) as [Rp Mp].
  destruct H as [H1 H2]. rewrite app_nil_r in H1, H2. subst R' M'. rewrite !rev_involutive.
  destruct Rp; cbn; split; reflexivity.
Qed.

(* a program without routine definitions is loaded unchanged *)
Lemma split_no_routines p : forallb (fun i => negb (opcode_eqb (i_op i) OC_ROUTINE)) p = true -> split_go p None = ([], p).
Proof.
  induction p as [|i r IH]; cbn [forallb split_go]; [reflexivity|]. intros H. apply andb_true_iff in H. destruct H as [Hi Hr].
  destruct (i_op i); try discriminate; rewrite (IH Hr); reflexivity.
Qed.

Theorem load_without_routines_is_identity p :
  forallb (fun i => negb (opcode_eqb (i_op i) OC_ROUTINE)) p = true -> im_code (load p) = p /\ im_nroutine (load p) = 0.
Proof.
  intros H. pose proof (load_partitions p) as L. rewrite (split_no_routines p H) in L. exact L.
Qed.

(* the distance the code generator counts with -- instructions outside routine bodies --
   is the distance in the image's main segment *)
Lemma rlen_is_main_length p : forall cur acc,
  rlen_go p cur acc = acc + zlength (snd (split_go p cur)).
Proof.
  induction p as [|i r IH]; intros cur acc; cbn [rlen_go split_go]; [cbn; lia|].
  destruct cur as [name|].
  - rewrite IH. destruct (split_go r (if is_end_of name i then None else Some name)). reflexivity.
  - destruct (i_op i); try (rewrite IH; destruct (split_go r None) as [R M]; cbn [snd]; unfold zlength; cbn [length]; lia).
    rewrite IH. destruct (split_go r (Some (i_p0 i))). reflexivity.
Qed.

Theorem relocatable_length_is_image_distance p : len p = zlength (snd (split_go p None)).
Proof. unfold len. rewrite rlen_is_main_length. lia. Qed.
