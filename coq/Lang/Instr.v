(* Instructions of the Bardolph VM: Instruction(op_code, param0, param1). *)
From Coq Require Import ZArith String List Bool PrimFloat.
From Bardolph Require Import Gen.Codes Time.TimeSpec Time.TimeCore Lang.Value.
Open Scope string_scope.
Open Scope list_scope.
Import ListNotations.
Open Scope Z_scope.

(* An instruction parameter is an arbitrary Python object; these are the kinds the
   compiler emits.  A string is a variable name or a string literal depending on the
   op code (MOVE/PUSH/POP/PARAM name: variable; MOVEQ/PUSHQ/CONSTANT value: literal). *)
Inductive param :=
| PNone
| PInt (z : Z)
| PFlt (f : float)
| PBool (b : bool)
| PStr (s : string)
| PReg (r : register)
| PLoopVar (v : loopvar)
| POperand (o : operand)
| PMode (m : unit_mode)
| POperator (o : operator)
| PJump (c : jumpcond)
| PIoOp (o : ioop)
| PSetOp (o : setop)
| PTime (p : tp)
| POpCode (o : opcode)            (* OpCode.PUSH used as a destination marker; never in emitted code *)
| POther (what : string).          (* anything else (Symbol objects, ...): never emitted *)

Record instr := mkI { i_op : opcode; i_p0 : param; i_p1 : param }.

Definition I0 (o : opcode) := mkI o PNone PNone.
Definition I1 (o : opcode) (a : param) := mkI o a PNone.
Definition I2 (o : opcode) (a b : param) := mkI o a b.

(* literal value carried by a MOVEQ/PUSHQ/CONSTANT parameter *)
Definition param_value (p : param) : option value :=
  match p with
  | PNone => Some VNone
  | PInt z => Some (VInt z)
  | PFlt f => Some (VFlt f)
  | PBool b => Some (VBool b)
  | PStr s => Some (VStr s)
  | POperand o => Some (VOperand o)
  | PMode m => Some (VMode m)
  | PTime p => Some (VTime p)
  | _ => None
  end.

Definition param_eqb (a b : param) : bool :=
  match a, b with
  | PNone, PNone => true
  | PInt x, PInt y => x =? y
  | PFlt x, PFlt y => Base.PyFloat.f_same x y
  | PBool x, PBool y => Bool.eqb x y
  | PStr x, PStr y => String.eqb x y
  | PReg x, PReg y => register_eqb x y
  | PLoopVar x, PLoopVar y => loopvar_eqb x y
  | POperand x, POperand y => operand_eqb x y
  | PMode x, PMode y => unit_mode_eqb x y
  | POperator x, POperator y => operator_eqb x y
  | PJump x, PJump y => jumpcond_eqb x y
  | PIoOp x, PIoOp y => ioop_eqb x y
  | PSetOp x, PSetOp y => setop_eqb x y
  | PTime x, PTime y =>
      (fix go (x y : tp) : bool :=
         match x, y with
         | [], [] => true
         | (h1, m1) :: x', (h2, m2) :: y' =>
             (forallb (fun p => fst p =? snd p) (combine h1 h2)) && (Nat.eqb (length h1) (length h2)) &&
             (forallb (fun p => fst p =? snd p) (combine m1 m2)) && (Nat.eqb (length m1) (length m2)) && go x' y'
         | _, _ => false
         end) x y
  | POpCode x, POpCode y => opcode_eqb x y
  | POther x, POther y => String.eqb x y
  | _, _ => false
  end%bool.

Definition instr_eqb (a b : instr) : bool :=
  (opcode_eqb (i_op a) (i_op b) && param_eqb (i_p0 a) (i_p0 b) && param_eqb (i_p1 a) (i_p1 b))%bool.

Definition program := list instr.
