(* C15 specification side: what `set L zone a b`, `set L row .. column ..` and
   `set L begin .. stage .. end` denote, written from the property text and
   docs/language.rst (zones; matrix/candle sections), cell by cell.
   Independent of Gen/MatrixShape.v and of the structure of the implementation
   (no registers, no matrix object, no overlay loop).  No proofs here.

   Reading.
   * A row/column/zone number is a Python int, or a float when it comes out of an
     expression with `/` or an interpolating loop; a float denotes the integer nearest
     to it, ties to even (Python's round).  [index_of]
   * `row a b` denotes rows a..b inclusive, `row a` row a alone, no row clause all
     rows 0..height-1; the same for columns.  A reversed range (b < a) denotes no
     row.  [clause_range]
   * A stage covers the cells of its row range x column range.  [covers]
   * The one matrix that is transmitted has at (r, c) the colour of the LAST stage
     that covers (r, c), as a plain `set` would transmit that colour; every other
     cell carries what `set default` last saved (as a plain `set` would have
     transmitted it then), black when nothing was saved.  [spec_cell]
   * `set L zone a b` transmits exactly one zone message [a, b+1) (b := a when
     omitted).  [spec_zone] *)
From Coq Require Import ZArith List Bool.
From Bardolph Require Import Base.PyStr.
Open Scope list_scope.
Import ListNotations.
Open Scope Z_scope.
Open Scope bool_scope.

(* ---------- numbers that can reach a range register ---------- *)

(* NFlt n d is the float whose exact value is n/d (float.as_integer_ratio()). *)
Inductive num := NInt (z : Z) | NFlt (n : Z) (d : positive).

(* nearest integer to n/d (d > 0), ties to even *)
Definition round_half_even (n d : Z) : Z :=
  let q := n / d in
  let r := n mod d in
  if 2 * r <? d then q
  else if d <? 2 * r then q + 1
  else if Z.even q then q else q + 1.

Definition index_of (v : num) : Z :=
  match v with
  | NInt z => z
  | NFlt n d => round_half_even n (Zpos d)
  end.

(* ---------- source-level forms ---------- *)

Inductive mode := Logical | Raw | Rgb.

(* `row a` / `row a b` (the same for column and zone) *)
Record clause := mkClause { c_first : num; c_last : option num }.

Section Spec.
Variable C : Type.                      (* a colour: what the four colour registers hold *)
Variable set_tx : mode -> C -> C.       (* what a plain `set` transmits for it in that unit mode *)
Variable black_tx : C.                  (* [0, 0, 0, 0] on the wire *)

(* `stage [row ..] [column ..]`, clauses in either order, with the register colour
   in force when it is executed *)
Record stage := mkStage {
  s_rows : option clause;
  s_cols : option clause;
  s_cols_first : bool;
  s_colour : C }.

(* inclusive range denoted by a clause on an axis of the given extent *)
Definition clause_range (cl : option clause) (extent : Z) : Z * Z :=
  match cl with
  | None => (0, extent - 1)
  | Some c =>
      let a := index_of (c_first c) in
      (a, match c_last c with None => a | Some b => index_of b end)
  end.

Definition in_range (rg : Z * Z) (x : Z) : bool := (fst rg <=? x) && (x <=? snd rg).

Definition covers (h w : Z) (s : stage) (r c : Z) : bool :=
  in_range (clause_range (s_rows s) h) r && in_range (clause_range (s_cols s) w) c.

(* colour of the last stage (in execution order) that covers the cell *)
Fixpoint last_covering (h w : Z) (ss : list stage) (r c : Z) : option C :=
  match ss with
  | [] => None
  | s :: rest =>
      match last_covering h w rest r c with
      | Some x => Some x
      | None => if covers h w s r c then Some (s_colour s) else None
      end
  end.

Definition spec_cell (m : mode) (h w : Z) (ss : list stage) (default_tx : option C) (r c : Z) : C :=
  match last_covering h w ss r c with
  | Some col => set_tx m col
  | None => match default_tx with Some d => d | None => black_tx end
  end.

(* the whole matrix, row-major *)
Definition spec_matrix (m : mode) (h w : Z) (ss : list stage) (default_tx : option C) : list C :=
  flat_map (fun r => map (fun c => spec_cell m h w ss default_tx r c) (zrange 0 w)) (zrange 0 h).

(* zone message: first zone, one past the last zone *)
Definition spec_zone (a : num) (b : option num) : Z * Z :=
  (index_of a, index_of (match b with Some y => y | None => a end) + 1).

(* ---------- scripts ---------- *)

(* l is a tag for the light; matrix lights carry their height and width *)
Inductive stmt :=
| SUnits (m : mode)
| SDefault (c : C)                                (* colour ; set default *)
| SPlain (l : Z) (c : C)                          (* colour ; set "L" *)
| SZone (l : Z) (c : C) (a : num) (b : option num)   (* colour ; set "L" zone a [b] *)
| SInline (l h w : Z) (s : stage)                 (* colour ; set "L" [row ..] [column ..] *)
| SBlock (l h w : Z) (ss : list stage).           (* set "L" begin (colour ; stage ..)* end *)

Inductive sevent :=
| SESet (l : Z) (tx : C)
| SEZone (l first last1 : Z) (tx : C)
| SEMatrix (l h w : Z) (cells : list C).

Fixpoint spec_run (prog : list stmt) (m : mode) (default_tx : option C) : list sevent :=
  match prog with
  | [] => []
  | SUnits m' :: rest => spec_run rest m' default_tx
  | SDefault c :: rest => spec_run rest m (Some (set_tx m c))
  | SPlain l c :: rest => SESet l (set_tx m c) :: spec_run rest m default_tx
  | SZone l c a b :: rest =>
      SEZone l (fst (spec_zone a b)) (snd (spec_zone a b)) (set_tx m c) :: spec_run rest m default_tx
  | SInline l h w s :: rest =>
      SEMatrix l h w (spec_matrix m h w [s] default_tx) :: spec_run rest m default_tx
  | SBlock l h w ss :: rest =>
      SEMatrix l h w (spec_matrix m h w ss default_tx) :: spec_run rest m default_tx
  end.

(* ---------- the domain the property speaks about ---------- *)

(* a stage whose ranges are empty or lie inside the matrix (docs: "values for row must
   be between 0 and 5"); outside it the implementation's behaviour (IndexError, negative
   indices wrapping) is described by separate theorems *)
Definition range_empty (rg : Z * Z) : bool := snd rg <? fst rg.

Definition stage_ok (h w : Z) (s : stage) : bool :=
  let rr := clause_range (s_rows s) h in
  let cr := clause_range (s_cols s) w in
  range_empty rr || range_empty cr
  || ((0 <=? fst rr) && (snd rr <? h) && (0 <=? fst cr) && (snd cr <? w)).

(* zone numbers that the 16-bit fields carry unchanged, and that are not exactly half
   way between two integers (a float end b is transmitted as round(b + 1)) *)
Definition not_tie (v : num) : bool :=
  match v with NInt _ => true | NFlt n d => negb (2 * (n mod Zpos d) =? Zpos d) end.
Definition zone_ok (a : num) (b : option num) : bool :=
  let z := spec_zone a b in
  (0 <=? fst z) && (fst z <=? 65535) && (0 <=? snd z) && (snd z <=? 65535)
  && match b with Some y => not_tie y | None => not_tie a end.

Definition stmt_ok (s : stmt) : bool :=
  match s with
  | SZone _ _ a b => zone_ok a b
  | SInline _ h w st => (0 <=? h) && (0 <=? w) && stage_ok h w st
  | SBlock _ h w ss => (0 <=? h) && (0 <=? w) && forallb (stage_ok h w) ss
  | _ => true
  end.

End Spec.

Arguments mkStage {C}.
Arguments s_rows {C}.
Arguments s_cols {C}.
Arguments s_cols_first {C}.
Arguments s_colour {C}.
Arguments SUnits {C}.
Arguments SDefault {C}.
Arguments SPlain {C}.
Arguments SZone {C}.
Arguments SInline {C}.
Arguments SBlock {C}.
Arguments SESet {C}.
Arguments SEZone {C}.
Arguments SEMatrix {C}.
