(* Loops with an index variable: the preparation code (first, last, counter, increment), the test and the step
   (count-down and increment of the index variable), for Lang/Simulation3.v. *)
From Coq Require Import ZArith String List Bool Lia.
From Bardolph Require Import Gen.Codes Lang.Value Lang.Instr Lang.Loader Lang.World Lang.Units0 Lang.Regs Lang.Devices
  Lang.Machine Lang.Syntax Lang.Sem Lang.CodeGen Lang.Scope Lang.ExprCompile Lang.Simulation Lang.Simulation2 Lang.LoopVars.
Open Scope string_scope.
Open Scope list_scope.
Import ListNotations.
Open Scope Z_scope.

Section Range.
Variable rt : rtable.
Variable mt : mtable.

Lemma put_lv s kk lv d r x k : m_frames s = FLoop lv d :: r ->
  (do s' <- put_dest s (PLoopVar kk) x; Ok (with_pc s' (m_pc s' + k))) = Ok (with_lv s kk x k).
Proof. intros Hf. unfold with_lv. cbn [put_dest put_loopvar]. rewrite Hf. reflexivity. Qed.

(* storing the count of a counted loop *)
Lemma lv_init kk v : plain_rval mt v = true ->
  forall im ss s x ss1 fuel lv d r, sim ss s -> m_frames s = FLoop lv d :: r ->
  code_at im (m_pc s) (c_rval rt mt v (DLoop kk)) -> eval_rval rt mt fuel false ss v = ROk x ss1 ->
  ss1 = ss /\ exists n, esteps n im s = Some (with_lv s kk x (zlength (c_rval rt mt v (DLoop kk))), []).
Proof.
  intros Hp im ss s x ss1 fuel lv d r Hsim Hfr Hc He.
  destruct fuel as [|fuel]; [destruct v; discriminate|]. rewrite eval_rval_S in He.
  destruct v as [l|l|m|m|y|rg|e|g args]; cbn [plain_rval] in Hp; try discriminate.
  - injection He as Hx Hs; subst x ss1. split; [reflexivity|]. rewrite c_rval_lit in *. cbn [move_const code_at] in Hc |- *. destruct Hc as [Hf _].
    exists 1%nat. apply (estep1 im s _ _ _ Hf). cbn [Machine.exec i_op i_p0 i_p1 I2 dest_param].
    replace (param_value (lit_param l)) with (Some (lit_value l)) by (destruct l; reflexivity).
    unfold advance. rewrite (put_lv s kk lv d r (lit_value l) 1 Hfr). reflexivity.
  - destruct (neg_plain _ Hp) as (r0 & Hn & Hnpar & Hpv). rewrite Hn in He. cbn [lift_res] in He.
    injection He as Hx Hs; subst x ss1. split; [reflexivity|]. rewrite c_rval_neg in *. rewrite Hnpar in *. cbn [move_const code_at] in Hc |- *. destruct Hc as [Hf _].
    exists 1%nat. apply (estep1 im s _ _ _ Hf). cbn [Machine.exec i_op i_p0 i_p1 I2 dest_param].
    rewrite Hpv. unfold advance. rewrite (put_lv s kk lv d r r0 1 Hfr). reflexivity.
  - injection He as Hx Hs; subst x ss1. split; [reflexivity|]. rewrite c_rval_macro in *. cbn [move_const code_at] in Hc |- *. destruct Hc as [Hf _].
    exists 1%nat. apply (estep1 im s _ _ _ Hf). cbn [Machine.exec i_op i_p0 i_p1 I2 dest_param]. unfold macro_param.
    rewrite (param_value_of_value (macro mt m) Hp). unfold advance. rewrite (put_lv s kk lv d r (macro mt m) 1 Hfr). reflexivity.
  - destruct (neg_plain _ Hp) as (r0 & Hn & Hnpar & Hpv). rewrite Hn in He. cbn [lift_res] in He.
    injection He as Hx Hs; subst x ss1. split; [reflexivity|]. rewrite c_rval_negmacro in *. rewrite Hnpar in *. cbn [move_const code_at] in Hc |- *. destruct Hc as [Hf _].
    exists 1%nat. apply (estep1 im s _ _ _ Hf). cbn [Machine.exec i_op i_p0 i_p1 I2 dest_param].
    rewrite Hpv. unfold advance. rewrite (put_lv s kk lv d r r0 1 Hfr). reflexivity.
  - injection He as Hx Hs; subst x ss1. split; [reflexivity|]. rewrite c_rval_var in *. cbn [move_ref code_at dest_param] in Hc |- *. destruct Hc as [Hf _].
    exists 1%nat. apply (estep1 im s _ _ _ Hf). cbn [Machine.exec i_op i_p0 i_p1 I2 read_name bind].
    rewrite (sim_lookup ss s y Hsim). unfold advance. rewrite (put_lv s kk lv d r (lookup ss y) 1 Hfr). reflexivity.
  - injection He as Hx Hs; subst x ss1. split; [reflexivity|]. rewrite c_rval_reg in *. cbn [move_ref code_at dest_param] in Hc |- *. destruct Hc as [Hf _].
    exists 1%nat. apply (estep1 im s _ _ _ Hf). cbn [Machine.exec i_op i_p0 i_p1 I2].
    rewrite (sim_get_reg ss s rg Hsim Hp). cbn [bind]. unfold advance. rewrite (put_lv s kk lv d r _ 1 Hfr). reflexivity.
  - apply andb_true_iff in Hp. destruct Hp as [Hsup Hvis].
    destruct (eval_expr_ok rt mt e Hsup fuel false ss x ss1 He) as [Hs1 Ep]. subst ss1. split; [reflexivity|].
    rewrite c_rval_expr in *. apply code_at_app in Hc. destruct Hc as [Hce Hpop]. cbn [code_at dest_param] in Hpop. destruct Hpop as [Hfp _].
    rewrite <- (peval_sim mt e ss s Hsim Hsup Hvis) in Ep.
    destruct (c_expr_pushes_value rt mt e Hsup im s x Hce Ep) as [n Hn].
    exists (n + 1)%nat. replace (@nil event) with (@nil event ++ @nil event) by reflexivity.
    eapply esteps_app; [apply steps_esteps; exact Hn|].
    apply (estep1 im (pushed s x (zlength (c_expr rt mt e))) _ _ _ Hfp).
    cbn [Machine.exec i_op i_p0 I1]. unfold pop1. cbn [pushed m_stack bind].
    set (s1 := with_stack (pushed s x (zlength (c_expr rt mt e))) (m_stack s)).
    assert (Hf1 : m_frames s1 = FLoop lv d :: r) by exact Hfr.
    unfold advance. cbn [put_dest]. rewrite Hf1. cbn [put_loopvar bind lift]. f_equal.
    unfold with_lv, with_frames, with_vars, with_pc, s1, pushed, with_stack.
    cbn [m_pc m_regs m_globals m_frames m_stack m_unnamed m_world]. rewrite Hfr. f_equal.
    unfold zlength. rewrite app_length, Nat2Z.inj_add. cbn [length]. lia.
Qed.


Lemma loopvar_eqb_sym a b : loopvar_eqb a b = loopvar_eqb b a.
Proof. destruct a, b; reflexivity. Qed.
Lemma lv_get_set_other lv k k' v : loopvar_eqb k' k = false -> lv_get (lv_set lv k v) k' = lv_get lv k'.
Proof.
  intros Hne. induction lv as [|[k0 v0] t IH]; cbn [lv_set lv_get].
  - rewrite Hne. reflexivity.
  - destruct (loopvar_eqb k k0) eqn:E; cbn [lv_get].
    + rewrite Hne. assert (E2 : loopvar_eqb k' k0 = false) by (destruct k, k0, k'; try discriminate; reflexivity). rewrite E2. reflexivity.
    + destruct (loopvar_eqb k' k0); [reflexivity|exact IH].
Qed.

Lemma put_var_loop g lv d r x v : put_var g (FLoop lv d :: r) x v = (fst (put_var g r x v), FLoop lv d :: snd (put_var g r x v)).
Proof.
  unfold put_var. cbn [params_of upd_params upd_vars]. destruct (env_has (params_of r) x); [reflexivity|].
  destruct (env_has g x); [reflexivity|]. destruct (upd_vars r (fun e => env_set e x v)); reflexivity.
Qed.

(* what the reference semantics computes for `repeat with v from a to b`: the count and the step *)
Definition range_calc (x y : value) : res (value * value) :=
  do y' <- pushable y; do x' <- pushable x;
  do d <- eval_binop OP_SUB y' x';
  do neg <- ordering CLt d (VInt 0);
  do cnt0 <- (if truthy neg then eval_binop OP_MUL d (VInt (-1)) else Ok d);
  do cnt <- eval_binop OP_ADD cnt0 (VInt 1);
  Ok (cnt, if truthy neg then VInt (-1) else VInt 1).

Definition range_pre (v : string) (a b : rval) : program :=
  c_rval rt mt a (DLoop LV_FIRST) ++ c_rval rt mt b (DLoop LV_LAST) ++ [I2 OC_MOVE (PLoopVar LV_FIRST) (PStr v)] ++ calc_counter.

Lemma pushable_ok v v' : pushable v = Ok v' -> v' = v /\ v <> VNone.
Proof. unfold pushable. destruct v; intros H; try discriminate; injection H as <-; (split; [reflexivity|discriminate]). Qed.

Lemma get_lv s lv d r k x : m_frames s = FLoop lv d :: r -> lv_get lv k = Some x -> operand s (PLoopVar k) = Some x.
Proof. intros Hf Hl. cbn [operand]. unfold get_loopvar. rewrite Hf, Hl. reflexivity. Qed.

Lemma range_prep v a b : plain_rval mt a = true -> plain_rval mt b = true ->
  forall im ss s x y s1 s2 cnt incr fuel lv d r,
  sim ss s -> m_frames s = FLoop lv d :: r -> code_at im (m_pc s) (range_pre v a b) ->
  eval_rval rt mt fuel false ss a = ROk x s1 -> eval_rval rt mt fuel false s1 b = ROk y s2 -> range_calc x y = Ok (cnt, incr) ->
  s1 = ss /\ s2 = ss /\
  exists n s' lv' r', esteps n im s = Some (s', []) /\ sim (assign ss v x) s' /\ m_pc s' = m_pc s + zlength (range_pre v a b) /\
                      m_frames s' = FLoop lv' d :: r' /\ erase r' = erase r /\ m_stack s' = m_stack s /\
                      lv_get lv' LV_COUNTER = Some cnt /\ lv_get lv' LV_INCR = Some incr.
Proof.
  intros Ha Hb im ss s x y s1 s2 cnt incr fuel lv d r Hsim Hfr Hc Ea Eb Hcalc.
  unfold range_pre in Hc |- *. set (CA := c_rval rt mt a (DLoop LV_FIRST)) in *. set (CB := c_rval rt mt b (DLoop LV_LAST)) in *.
  set (kA := zlength CA) in *. set (kB := zlength CB) in *.
  apply code_at_app in Hc. destruct Hc as [HcA Hc]. apply code_at_app in Hc. destruct Hc as [HcB Hc]. fold kA in HcB, Hc. fold kB in Hc.
  apply code_at_app in Hc. destruct Hc as [Hmv Hcc]. cbn [code_at] in Hmv. destruct Hmv as [Hfm _]. rewrite zlength1 in Hcc.
  (* first and last *)
  destruct (lv_init LV_FIRST a Ha im ss s x s1 fuel lv d r Hsim Hfr HcA Ea) as [-> [nA EA]]. fold CA in EA. fold kA in EA.
  set (sa := with_lv s LV_FIRST x kA) in *.
  assert (Hsa : sim ss sa) by (apply sim_with_lv; exact Hsim).
  assert (Hfra : m_frames sa = FLoop (lv_set lv LV_FIRST x) d :: r) by (unfold sa; cbn [with_lv m_frames]; rewrite Hfr; reflexivity).
  assert (HcBa : code_at im (m_pc sa) CB) by exact HcB.
  destruct (lv_init LV_LAST b Hb im ss sa y s2 fuel _ d r Hsa Hfra HcBa Eb) as [-> [nB EB]]. fold CB in EB. fold kB in EB.
  set (sb := with_lv sa LV_LAST y kB) in *.
  assert (Hsb : sim ss sb) by (apply sim_with_lv; exact Hsa).
  set (lv2 := lv_set (lv_set lv LV_FIRST x) LV_LAST y) in *.
  assert (Hfrb : m_frames sb = FLoop lv2 d :: r) by (unfold sb; cbn [with_lv m_frames]; rewrite Hfra; reflexivity).
  assert (Hl2F : lv_get lv2 LV_FIRST = Some x) by (unfold lv2; rewrite lv_get_set_other by reflexivity; apply lv_get_set).
  assert (Hl2L : lv_get lv2 LV_LAST = Some y) by (unfold lv2; apply lv_get_set).
  split; [reflexivity|]. split; [reflexivity|].
  (* the values *)
  unfold range_calc in Hcalc.
  destruct (pushable y) as [y'|] eqn:Ey; cbn [bind] in Hcalc; [|discriminate]. destruct (pushable_ok y y' Ey) as [-> Hny].
  destruct (pushable x) as [x'|] eqn:Ex; cbn [bind] in Hcalc; [|discriminate]. destruct (pushable_ok x x' Ex) as [-> Hnx].
  destruct (eval_binop OP_SUB y x) as [d0|] eqn:Ed; cbn [bind] in Hcalc; [|discriminate].
  destruct (ordering CLt d0 (VInt 0)) as [neg|] eqn:En; cbn [bind] in Hcalc; [|discriminate].
  (* the index variable gets the first value *)
  set (sc := put_vm sb (DVar v) x 1).
  assert (Ec : esteps 1 im sb = Some (sc, [])).
  { assert (Hfm' : fetch im (m_pc sb) = Some (I2 OC_MOVE (PLoopVar LV_FIRST) (PStr v))) by exact Hfm.
    apply (estep1 im sb _ _ _ Hfm'). cbn [Machine.exec i_op i_p0 i_p1 I2 read_name]. unfold get_loopvar. rewrite Hfrb, Hl2F. cbn [bind].
    rewrite put_dest_var. cbn [bind lift]. f_equal. unfold sc. cbn [put_vm]. destruct (put_var (m_globals sb) (m_frames sb) v x). reflexivity. }
  assert (Hsc : sim (assign ss v x) sc) by (apply sim_put_var; exact Hsb).
  assert (Hfrc : exists r', m_frames sc = FLoop lv2 d :: r' /\ erase r' = erase r).
  { unfold sc. cbn [put_vm]. rewrite Hfrb, put_var_loop. cbn [m_frames]. eexists. split; [reflexivity|].
    apply erase_put_var. pose proof (sim_settled _ _ Hsb) as Hst. rewrite Hfrb in Hst. exact Hst. }
  destruct Hfrc as (r' & Hfrc & Her').
  assert (Hstc : m_stack sc = m_stack s) by (unfold sc; cbn [put_vm]; destruct (put_var (m_globals sb) (m_frames sb) v x); reflexivity).
  assert (Hpcc : m_pc sc = m_pc s + kA + kB + 1) by (unfold sc; rewrite put_vm_var_pc; reflexivity).
  (* the counter and the step *)
  unfold calc_counter in Hcc. apply code_at_app in Hcc. destruct Hcc as [Hg1 Hcc].
  assert (E1 : esteps 4 im sc = Some (with_lv sc LV_COUNTER d0 4, [])).
  { apply (lv_group im sc (PLoopVar LV_LAST) (PLoopVar LV_FIRST) OP_SUB LV_COUNTER y x d0 lv2 d r'); try assumption; try reflexivity.
    - rewrite Hpcc. exact Hg1.
    - exact (get_lv sc lv2 d r' LV_LAST y Hfrc Hl2L).
    - exact (get_lv sc lv2 d r' LV_FIRST x Hfrc Hl2F). }
  set (s4 := with_lv sc LV_COUNTER d0 4) in *. set (lv3 := lv_set lv2 LV_COUNTER d0) in *.
  assert (Hfr4 : m_frames s4 = FLoop lv3 d :: r') by (unfold s4; cbn [with_lv m_frames]; rewrite Hfrc; reflexivity).
  assert (Hs4 : sim (assign ss v x) s4) by (apply sim_with_lv; exact Hsc).
  assert (Hl3C : lv_get lv3 LV_COUNTER = Some d0) by apply lv_get_set.
  unfold c_if in Hcc. change (zlength [push_of (PLoopVar LV_LAST); push_of (PLoopVar LV_FIRST); I1 OC_OP (POperator OP_SUB); I1 OC_POP (PLoopVar LV_COUNTER)]) with 4 in Hcc.
  change (len (op_equals OP_MUL (PLoopVar LV_COUNTER) (PInt (-1)) ++ [I2 OC_MOVEQ (PInt (-1)) (PLoopVar LV_INCR)])) with 5 in Hcc.
  change (len [I2 OC_MOVEQ (PInt 1) (PLoopVar LV_INCR)]) with 1 in Hcc.
  apply code_at_app in Hcc. destruct Hcc as [Hif Hadd]. apply code_at_app in Hif. destruct Hif as [Htest Hif].
  apply code_at_app in Hif. destruct Hif as [Hj Hif]. cbn [code_at] in Hj. destruct Hj as [Hfj _].
  apply code_at_app in Hif. destruct Hif as [Hthen Hif]. apply code_at_app in Hthen. destruct Hthen as [Hmul Hmq]. cbn [code_at] in Hmq. destruct Hmq as [Hfmq _].
  apply code_at_app in Hif. destruct Hif as [Hj2 Helse]. cbn [code_at] in Hj2, Helse. destruct Hj2 as [Hfj2 _]. destruct Helse as [Hfel _].
  assert (E2 : esteps 4 im s4 = Some (put_vm s4 (DReg R_RESULT) neg 4, [])).
  { apply (test_group im s4 (PLoopVar LV_COUNTER) (PInt 0) OP_LT d0 (VInt 0) neg); try reflexivity; try discriminate.
    - unfold s4. cbn [with_lv m_pc]. rewrite Hpcc. exact Htest.
    - exact (get_lv s4 lv3 d r' LV_COUNTER d0 Hfr4 Hl3C).
    - intros ->. destruct y, x; cbn in Ed; try discriminate.
    - cbn [eval_binop]. exact En. }
  set (s5 := put_vm s4 (DReg R_RESULT) neg 4) in *.
  assert (Hs5 : sim (assign ss v x) s5) by (apply sim_put_reg_hidden; [exact Hs4|reflexivity|reflexivity]).
  assert (Hr5 : rf_get (m_regs s5) R_RESULT = Some neg) by (unfold s5; cbn [put_vm m_regs]; apply rf_get_set_same).
  assert (Hfr5 : m_frames s5 = FLoop lv3 d :: r') by exact Hfr4.
  assert (Hpc5 : m_pc s5 = m_pc sc + 8) by (unfold s5, s4; cbn [put_vm with_lv m_pc]; lia).
  assert (Hfj5 : fetch im (m_pc s5) = Some (jump JC_IF_FALSE (5 + 2))).
  { rewrite Hpc5, Hpcc. unfold test_op in Hfj. unfold zlength in Hfj at 1. cbn [length] in Hfj.
    replace (m_pc s + kA + kB + 1 + 8) with (m_pc s + kA + kB + 1 + 4 + Z.of_nat 4) by lia. exact Hfj. }
  pose proof (jump_if_false im s5 neg (5 + 2) Hr5 Hfj5) as Ej.
  (* both branches end in a state s8 with COUNTER = cnt0 and INCR = +-1, at the ADD group *)
  assert (Hbr : exists cnt0 n8 s8 lv8, (if truthy neg then eval_binop OP_MUL d0 (VInt (-1)) else Ok d0) = Ok cnt0 /\
                 esteps n8 im s5 = Some (s8, []) /\ sim (assign ss v x) s8 /\ m_pc s8 = m_pc sc + 16 /\ m_frames s8 = FLoop lv8 d :: r' /\
                 m_stack s8 = m_stack s /\ lv_get lv8 LV_COUNTER = Some cnt0 /\ lv_get lv8 LV_INCR = Some (if truthy neg then VInt (-1) else VInt 1)).
  { destruct (truthy neg) eqn:Etn.
    - destruct (eval_binop OP_MUL d0 (VInt (-1))) as [cnt0|] eqn:Em; cbn [bind] in Hcalc; [|discriminate].
      set (s6 := with_pc s5 (m_pc s5 + 1)) in *.
      assert (Hfr6 : m_frames s6 = FLoop lv3 d :: r') by exact Hfr5.
      assert (E6 : esteps 4 im s6 = Some (with_lv s6 LV_COUNTER cnt0 4, [])).
      { apply (lv_group im s6 (PLoopVar LV_COUNTER) (PInt (-1)) OP_MUL LV_COUNTER d0 (VInt (-1)) cnt0 lv3 d r'); try assumption; try reflexivity; try discriminate.
        - unfold s6. cbn [with_pc m_pc]. rewrite Hpc5, Hpcc. unfold test_op in Hmul. unfold zlength in Hmul at 1 2. cbn [length] in Hmul.
          replace (m_pc s + kA + kB + 1 + 8 + 1) with (m_pc s + kA + kB + 1 + 4 + Z.of_nat 4 + Z.of_nat 1) by lia. exact Hmul.
        - exact (get_lv s6 lv3 d r' LV_COUNTER d0 Hfr6 Hl3C).
        - intros ->. destruct y, x; cbn in Ed; try discriminate. }
      set (s7 := with_lv s6 LV_COUNTER cnt0 4) in *. set (lv4 := lv_set lv3 LV_COUNTER cnt0) in *.
      assert (Hfr7 : m_frames s7 = FLoop lv4 d :: r') by (unfold s7; cbn [with_lv m_frames]; rewrite Hfr6; reflexivity).
      assert (E7 : esteps 1 im s7 = Some (with_lv s7 LV_INCR (VInt (-1)) 1, [])).
      { apply (moveq_lv_step im s7 LV_INCR (-1) lv4 d r'); [|exact Hfr7].
        unfold s7, s6. cbn [with_lv with_pc m_pc]. rewrite Hpc5, Hpcc. unfold test_op, op_equals in Hfmq. unfold zlength in Hfmq at 1 2 3. cbn [length] in Hfmq.
        replace (m_pc s + kA + kB + 1 + 8 + 1 + 4) with (m_pc s + kA + kB + 1 + 4 + Z.of_nat 4 + Z.of_nat 1 + Z.of_nat 4) by lia. exact Hfmq. }
      set (s7b := with_lv s7 LV_INCR (VInt (-1)) 1) in *.
      assert (Hfj7 : fetch im (m_pc s7b) = Some (jump JC_ALWAYS (1 + 1))).
      { unfold s7b, s7, s6. cbn [with_lv with_pc m_pc]. rewrite Hpc5, Hpcc. unfold test_op, op_equals in Hfj2. unfold zlength in Hfj2 at 1 2 3. cbn [length app] in Hfj2.
        replace (m_pc s + kA + kB + 1 + 8 + 1 + 4 + 1) with (m_pc s + kA + kB + 1 + 4 + Z.of_nat 4 + Z.of_nat 1 + Z.of_nat 5) by lia. exact Hfj2. }
      pose proof (jump_always im s7b (1 + 1) Hfj7) as Ej7.
      exists cnt0, (1 + (4 + (1 + 1)))%nat, (with_pc s7b (m_pc s7b + (1 + 1))), (lv_set lv4 LV_INCR (VInt (-1))).
      split; [reflexivity|].
      split; [replace (@nil event) with (@nil event ++ (@nil event ++ (@nil event ++ @nil event))) by reflexivity;
              eapply esteps_app; [exact Ej|eapply esteps_app; [exact E6|eapply esteps_app; [exact E7|exact Ej7]]]|].
      split; [apply sim_with_pc; apply sim_with_lv; apply sim_with_lv; apply sim_with_pc; exact Hs5|].
      split; [unfold s7b, s7, s6; cbn [with_pc with_lv m_pc]; rewrite Hpc5; lia|].
      split; [unfold s7b; cbn [with_pc with_lv m_frames]; rewrite Hfr7; reflexivity|].
      split; [exact Hstc|]. split; [rewrite lv_get_set_other by reflexivity; apply lv_get_set|apply lv_get_set].
    - set (s6 := with_pc s5 (m_pc s5 + (5 + 2))) in *.
      assert (Hfr6 : m_frames s6 = FLoop lv3 d :: r') by exact Hfr5.
      assert (E6 : esteps 1 im s6 = Some (with_lv s6 LV_INCR (VInt 1) 1, [])).
      { apply (moveq_lv_step im s6 LV_INCR 1 lv3 d r'); [|exact Hfr6].
        unfold s6. cbn [with_pc m_pc]. rewrite Hpc5, Hpcc. unfold test_op, op_equals in Hfel. unfold zlength in Hfel at 1 2 3 4. cbn [length app] in Hfel.
        replace (m_pc s + kA + kB + 1 + 8 + (5 + 2)) with (m_pc s + kA + kB + 1 + 4 + Z.of_nat 4 + Z.of_nat 1 + Z.of_nat 5 + Z.of_nat 1) by lia. exact Hfel. }
      exists d0, (1 + 1)%nat, (with_lv s6 LV_INCR (VInt 1) 1), (lv_set lv3 LV_INCR (VInt 1)).
      split; [reflexivity|].
      split; [replace (@nil event) with (@nil event ++ @nil event) by reflexivity; eapply esteps_app; [exact Ej|exact E6]|].
      split; [apply sim_with_lv; apply sim_with_pc; exact Hs5|].
      split; [unfold s6; cbn [with_pc with_lv m_pc]; rewrite Hpc5; lia|].
      split; [cbn [with_lv m_frames]; rewrite Hfr6; reflexivity|].
      split; [exact Hstc|]. split; [rewrite lv_get_set_other by reflexivity; exact Hl3C|apply lv_get_set]. }
  destruct Hbr as (cnt0 & n8 & s8 & lv8 & Hc0 & E8 & Hs8 & Hpc8 & Hfr8 & Hst8 & Hl8C & Hl8I).
  rewrite Hc0 in Hcalc. cbn [bind] in Hcalc.
  destruct (eval_binop OP_ADD cnt0 (VInt 1)) as [cnt'|] eqn:Eadd; cbn [bind] in Hcalc; [|discriminate]. injection Hcalc as <- <-.
  assert (E9 : esteps 4 im s8 = Some (with_lv s8 LV_COUNTER cnt' 4, [])).
  { apply (lv_group im s8 (PLoopVar LV_COUNTER) (PInt 1) OP_ADD LV_COUNTER cnt0 (VInt 1) cnt' lv8 d r'); try assumption; try reflexivity; try discriminate.
    - rewrite Hpc8, Hpcc. unfold test_op, op_equals in Hadd. unfold zlength in Hadd at 1. cbn [length app] in Hadd.
      replace (m_pc s + kA + kB + 1 + 16) with (m_pc s + kA + kB + 1 + 4 + Z.of_nat 12) by lia. exact Hadd.
    - exact (get_lv s8 lv8 d r' LV_COUNTER cnt0 Hfr8 Hl8C).
    - intros Hn0. subst cnt0. destruct (truthy neg); [destruct d0; cbn in Hc0; try discriminate|injection Hc0 as Hd0; subst d0; destruct y, x; cbn in Ed; try discriminate]. }
  exists (nA + (nB + (1 + (4 + (4 + (n8 + 4))))))%nat, (with_lv s8 LV_COUNTER cnt' 4), (lv_set lv8 LV_COUNTER cnt'), r'.
  split.
  { replace (@nil event) with (@nil event ++ (@nil event ++ (@nil event ++ (@nil event ++ (@nil event ++ (@nil event ++ @nil event)))))) by reflexivity.
    eapply esteps_app; [exact EA|eapply esteps_app; [exact EB|eapply esteps_app; [exact Ec|eapply esteps_app; [exact E1|eapply esteps_app; [exact E2|eapply esteps_app; [exact E8|exact E9]]]]]]. }
  split; [apply sim_with_lv; exact Hs8|].
  split.
  { cbn [with_lv m_pc]. rewrite Hpc8, Hpcc. unfold zlength. rewrite !app_length. cbn [length]. rewrite !Nat2Z.inj_add. unfold kA, kB, zlength.
    change (Z.of_nat (length calc_counter)) with 20. lia. }
  split; [cbn [with_lv m_frames]; rewrite Hfr8; reflexivity|].
  split; [exact Her'|]. split; [exact Hst8|].
  split; [apply lv_get_set|rewrite lv_get_set_other by reflexivity; exact Hl8I].
Qed.

(* the step of a loop with an index variable: count down, add the increment to the variable *)
Definition idx_next (ss : sstate) (v : string) (incr : value) : res value :=
  do a <- pushable (lookup ss v); do b <- pushable incr; eval_binop OP_ADD a b.

Lemma range_post_steps im ss s v lv d r cnt cnt' incr nv :
  sim ss s -> m_frames s = FLoop lv d :: r -> lv_get lv LV_COUNTER = Some cnt -> lv_get lv LV_INCR = Some incr ->
  sub1 cnt = Ok cnt' -> idx_next ss v incr = Ok nv -> code_at im (m_pc s) (counter_post (Some v)) ->
  exists s' lv' r', esteps 8 im s = Some (s', []) /\ sim (assign ss v nv) s' /\ m_pc s' = m_pc s + 8 /\
                    m_frames s' = FLoop lv' d :: r' /\ erase r' = erase r /\ m_stack s' = m_stack s /\
                    lv_get lv' LV_COUNTER = Some cnt' /\ lv_get lv' LV_INCR = Some incr.
Proof.
  intros Hsim Hfr HlC HlI Hsub Hnext Hc. unfold counter_post in Hc. apply code_at_app in Hc. destruct Hc as [Hc1 Hc2].
  unfold sub1 in Hsub. destruct (pushable cnt) as [c'|] eqn:Ep; cbn [bind] in Hsub; [|discriminate]. destruct (pushable_ok cnt c' Ep) as [-> Hnc].
  unfold idx_next in Hnext. destruct (pushable (lookup ss v)) as [a|] eqn:Ea; cbn [bind] in Hnext; [|discriminate]. destruct (pushable_ok _ a Ea) as [-> Hna].
  destruct (pushable incr) as [b|] eqn:Eb; cbn [bind] in Hnext; [|discriminate]. destruct (pushable_ok incr b Eb) as [-> Hnb].
  assert (E1 : esteps 4 im s = Some (with_lv s LV_COUNTER cnt' 4, [])).
  { apply (lv_group im s (PLoopVar LV_COUNTER) (PInt 1) OP_SUB LV_COUNTER cnt (VInt 1) cnt' lv d r); try assumption; try reflexivity; try discriminate.
    exact (get_lv s lv d r LV_COUNTER cnt Hfr HlC). }
  set (s1 := with_lv s LV_COUNTER cnt' 4) in *. set (lv1 := lv_set lv LV_COUNTER cnt') in *.
  assert (Hfr1 : m_frames s1 = FLoop lv1 d :: r) by (unfold s1; cbn [with_lv m_frames]; rewrite Hfr; reflexivity).
  assert (Hs1 : sim ss s1) by (apply sim_with_lv; exact Hsim).
  assert (HlI1 : lv_get lv1 LV_INCR = Some incr) by (unfold lv1; rewrite lv_get_set_other by reflexivity; exact HlI).
  assert (E2 : esteps 4 im s1 = Some (put_vm s1 (DVar v) nv 4, [])).
  { apply (var_group im s1 v (PLoopVar LV_INCR) OP_ADD (lookup ss v) incr nv); try assumption; try reflexivity.
    - cbn [operand]. rewrite (sim_lookup ss s1 v Hs1). reflexivity.
    - exact (get_lv s1 lv1 d r LV_INCR incr Hfr1 HlI1). }
  set (s2 := put_vm s1 (DVar v) nv 4) in *.
  assert (Hfr2 : exists r', m_frames s2 = FLoop lv1 d :: r' /\ erase r' = erase r).
  { unfold s2. cbn [put_vm]. rewrite Hfr1, put_var_loop. cbn [m_frames]. eexists. split; [reflexivity|].
    apply erase_put_var. pose proof (sim_settled _ _ Hs1) as Hst. rewrite Hfr1 in Hst. exact Hst. }
  destruct Hfr2 as (r' & Hfr2 & Her').
  exists s2, lv1, r'.
  split; [change 8%nat with (4 + 4)%nat; replace (@nil event) with (@nil event ++ @nil event) by reflexivity; eapply esteps_app; [exact E1|exact E2]|].
  split; [apply sim_put_var; exact Hs1|].
  split; [unfold s2; rewrite put_vm_var_pc; unfold s1; cbn [with_lv m_pc]; lia|].
  split; [exact Hfr2|]. split; [exact Her'|].
  split; [unfold s2; cbn [put_vm]; destruct (put_var (m_globals s1) (m_frames s1) v nv); reflexivity|].
  split; [apply lv_get_set|exact HlI1].
Qed.

Lemma c_rval_lv_no_routine kk v : plain_rval mt v = true -> forallb not_routine (c_rval rt mt v (DLoop kk)) = true.
Proof.
  intros Hp. destruct v; cbn [plain_rval] in Hp; try discriminate.
  - rewrite c_rval_lit. reflexivity.
  - rewrite c_rval_neg. reflexivity.
  - rewrite c_rval_macro. reflexivity.
  - rewrite c_rval_negmacro. reflexivity.
  - rewrite c_rval_var. reflexivity.
  - rewrite c_rval_reg. reflexivity.
  - apply andb_true_iff in Hp. destruct Hp as [Hs _]. rewrite c_rval_expr, forallb_app, (c_expr_no_routine rt mt e Hs). reflexivity.
Qed.

Lemma range_pre_no_routine v a b : plain_rval mt a = true -> plain_rval mt b = true -> forallb not_routine (range_pre v a b) = true.
Proof. intros Ha Hb. unfold range_pre. rewrite !forallb_app, (c_rval_lv_no_routine LV_FIRST a Ha), (c_rval_lv_no_routine LV_LAST b Hb). reflexivity. Qed.

(* ---- the loop forms with an index variable, by what their preparation code establishes ---- *)
Definition lv_val (lv : list (loopvar * value)) (k : loopvar) : value := match lv_get lv k with Some x => x | None => VNone end.
Lemma lv_val_some lv k x : lv_val lv k = x -> x <> VNone -> lv_get lv k = Some x.
Proof. unfold lv_val. destruct (lv_get lv k) as [y|]; intros H Hn; [rewrite H; reflexivity|symmetry in H; contradiction]. Qed.
Lemma idx_next_incr ss v incr nv : idx_next ss v incr = Ok nv -> incr <> VNone.
Proof.
  unfold idx_next. destruct (pushable (lookup ss v)); cbn [bind]; [|discriminate]. destruct (pushable incr) as [b|] eqn:Eb; cbn [bind]; [|discriminate].
  intros _. exact (proj2 (pushable_ok incr b Eb)).
Qed.

(* [idx_form l v pre]: the loop l has the index variable v; its code is LOOP; pre; test of the counter; the body; the count-down and the step
   of v; END_LOOP; pre is what the reference semantics does before the first pass: it leaves the count in COUNTER, the increment in INCR
   (not set = no value) and v assigned *)
Definition idx_form (l : loop) (v : string) (pre : program) : Prop :=
  (forall body, c_stmt rt mt false None (SRepeat l body) =
     [I0 OC_LOOP] ++ pre ++ counter_test ++
     [jump JC_IF_FALSE (len (c_stmt rt mt false (Some (len (counter_post (Some v)) + 1)) body ++ counter_post (Some v)) + 2)] ++
     (c_stmt rt mt false (Some (len (counter_post (Some v)) + 1)) body ++ counter_post (Some v)) ++
     [jump JC_ALWAYS (- (len counter_test + 1 + len (c_stmt rt mt false (Some (len (counter_post (Some v)) + 1)) body ++ counter_post (Some v))))] ++ [I0 OC_END_LOOP]) /\
  forallb not_routine pre = true /\
  (forall f ss body sig ss' im s d r,
     Sem.exec rt mt (S (S f)) false ss (SRepeat l body) = ROk sig ss' -> sim ss s -> m_frames s = FLoop [] d :: r -> code_at im (m_pc s) pre ->
     exists cnt incr s1 n s' lv' r',
       iterate rt mt f false s1 None (Some cnt) (Some (v, incr)) None body = ROk sig ss' /\ s_trace s1 = s_trace ss /\
       esteps n im s = Some (s', []) /\ sim s1 s' /\ m_pc s' = m_pc s + zlength pre /\ m_frames s' = FLoop lv' d :: r' /\ erase r' = erase r /\
       m_stack s' = m_stack s /\ lv_get lv' LV_COUNTER = Some cnt /\ lv_val lv' LV_INCR = incr).

Lemma c_idx_range v a b body : c_stmt rt mt false None (SRepeat (LRange v a b) body) =
  [I0 OC_LOOP] ++ range_pre v a b ++ counter_test ++
  [jump JC_IF_FALSE (len (c_stmt rt mt false (Some (len (counter_post (Some v)) + 1)) body ++ counter_post (Some v)) + 2)] ++
  (c_stmt rt mt false (Some (len (counter_post (Some v)) + 1)) body ++ counter_post (Some v)) ++
  [jump JC_ALWAYS (- (len counter_test + 1 + len (c_stmt rt mt false (Some (len (counter_post (Some v)) + 1)) body ++ counter_post (Some v))))] ++ [I0 OC_END_LOOP].
Proof. reflexivity. Qed.
Lemma exec_range f ss v a b body : Sem.exec rt mt (S (S f)) false ss (SRepeat (LRange v a b) body) =
  (let* (x, s1) := eval_rval rt mt f false ss a in
   let* (y, s2) := eval_rval rt mt f false s1 b in
   match range_calc x y with
   | Ok (cnt, incr) => iterate rt mt f false (assign s2 v x) None (Some cnt) (Some (v, incr)) None body
   | Err e => RErr e s2
   end).
Proof. reflexivity. Qed.

Lemma range_idx_form v a b : plain_rval mt a = true -> plain_rval mt b = true -> idx_form (LRange v a b) v (range_pre v a b).
Proof.
  intros Ha Hb. split; [intros body; apply c_idx_range|]. split; [apply range_pre_no_routine; assumption|].
  intros f ss body sig ss' im s d r He Hsim Hfr Hc. rewrite exec_range in He.
  destruct (eval_rval rt mt f false ss a) as [x sa|e sa|sa] eqn:Ev1; cbn [sbind] in He; try discriminate.
  destruct (eval_rval rt mt f false sa b) as [y sb|e sb|sb] eqn:Ev2; cbn [sbind] in He; try discriminate.
  destruct (range_calc x y) as [[cnt incr]|e] eqn:Ecalc; [|discriminate].
  destruct (range_prep v a b Ha Hb im ss s x y sa sb cnt incr f [] d r Hsim Hfr Hc Ev1 Ev2 Ecalc)
    as (Hsa & Hsb & n & s' & lv' & r' & En & Hs' & Hpc & Hfr' & Her & Hsk & HlC & HlI). subst sa sb.
  exists cnt, incr, (assign ss v x), n, s', lv', r'.
  split; [exact He|]. split; [exact (proj2 (proj2 (assign_other_fields ss v x)))|].
  split; [exact En|]. split; [exact Hs'|]. split; [exact Hpc|]. split; [exact Hfr'|]. split; [exact Her|]. split; [exact Hsk|].
  split; [exact HlC|]. unfold lv_val. rewrite HlI. reflexivity.
Qed.

End Range.