(* C04: how often the repeat forms run their body and which values the loop variable takes,
   proved on the reference semantics (Lang/Sem.v). *)
From Coq Require Import ZArith String List Bool PrimFloat Lia QArith Sorted.
From Bardolph Require Import Base.PyFloat Gen.Codes Time.TimeSpec Time.TimeCore
  Lang.Value Lang.Units0 Lang.World Lang.Regs Lang.Devices Lang.Builtins Lang.Syntax Lang.Sem Lang.SemProofs Lang.Scope.
Open Scope string_scope.
Open Scope list_scope.
Import ListNotations.
Open Scope Z_scope.
Open Scope bool_scope.

Lemma lookup_assign_same s x v : lookup (assign s x v) x = v.
Proof.
  destruct s as [rf g [l|] w tr]; unfold lookup, assign, s_with_locals; cbn.
  - destruct (env_has l x) eqn:Hl; cbn.
    + rewrite env_get_set_same. reflexivity.
    + destruct (env_has g x) eqn:Hg; cbn.
      * unfold env_has in Hl. destruct (env_get l x); [discriminate|]. rewrite env_get_set_same. reflexivity.
      * rewrite env_get_set_same. reflexivity.
  - rewrite env_get_set_same. reflexivity.
Qed.

Lemma iter_succ_r {A} (f : A -> A) n : forall x, Nat.iter (S n) f x = Nat.iter n f (f x).
Proof. induction n as [|n IH]; intros x; [reflexivity|]. change (Nat.iter (S (S n)) f x) with (f (Nat.iter (S n) f x)). rewrite IH. reflexivity. Qed.

(* ---------- the loop driver: one unfolding step ---------- *)
Section Iterate.
Variable rt : rtable.
Variable mt : mtable.

Definition iter_step (f : nat) (m : bool) (s : sstate) (cond : option rval) (cnt : option value)
   (idx : option (string * value)) (lights : option (string * list value)) (body : stmt) : sres signal :=
  sbind (match cond, cnt with
         | Some c, _ => sbind (eval_rval rt mt f m s c) (fun x sa => ROk (truthy x) sa)
         | None, Some n => lift_res (positive n) s
         | None, None => ROk true s
         end)
    (fun go s1 =>
       if negb go then ROk SigNormal s1
       else
         let '(s2, lights') := match lights with
                               | Some (x, v :: r) => (assign s1 x v, Some (x, r))
                               | Some (x, []) => (assign s1 x VNone, Some (x, []))
                               | None => (s1, None)
                               end in
         sbind (Sem.exec rt mt f m s2 body)
           (fun sig s3 =>
              match sig with
              | SigBreak => ROk SigNormal s3
              | SigReturn v => ROk (SigReturn v) s3
              | SigNormal =>
                  match (match cnt with Some n => do n' <- sub1 n; Ok (Some n') | None => Ok None end) with
                  | Err e => RErr e s3
                  | Ok cnt' =>
                      match idx with
                      | Some (v, incr) =>
                          match (do a <- pushable (lookup s3 v); do b <- pushable incr; eval_binop OP_ADD a b) with
                          | Ok nv => iterate rt mt f m (assign s3 v nv) cond cnt' idx lights' body
                          | Err e => RErr e s3
                          end
                      | None => iterate rt mt f m s3 cond cnt' idx lights' body
                      end
                  end
              end)).

Lemma iterate_unfold f m s cond cnt idx lights body :
  iterate rt mt (S f) m s cond cnt idx lights body = iter_step f m s cond cnt idx lights body.
Proof. reflexivity. Qed.

(* a body that always completes normally, computing the state transformer B, within fuel f0 *)
Definition body_total (m : bool) (body : stmt) (f0 : nat) (B : sstate -> sstate) : Prop :=
  forall f s, (f0 <= f)%nat -> Sem.exec rt mt f m s body = ROk SigNormal (B s).

Lemma positive_int n : positive (VInt n) = Ok (0 <? n).
Proof. reflexivity. Qed.

Lemma sub1_int n : sub1 (VInt n) = Ok (VInt (n - 1)).
Proof. reflexivity. Qed.

(* `repeat n`: the body runs exactly n times (n evaluated once, before the loop) *)
Theorem counted_runs_n m body f0 B : body_total m body f0 B ->
  forall (n : nat) f s, (f0 + n + 1 <= f)%nat ->
  iterate rt mt f m s None (Some (VInt (Z.of_nat n))) None None body = ROk SigNormal (Nat.iter n B s).
Proof.
  intros HB n. induction n as [|n IH]; intros f s Hf.
  - destruct f as [|f]; [lia|]. rewrite iterate_unfold. unfold iter_step. rewrite positive_int. reflexivity.
  - destruct f as [|f]; [lia|]. rewrite iterate_unfold. unfold iter_step. rewrite positive_int.
    replace (0 <? Z.of_nat (S n)) with true by (symmetry; apply Z.ltb_lt; lia).
    cbn [lift_res sbind negb]. rewrite (HB f s) by lia. cbn [sbind]. rewrite sub1_int. cbn [bind].
    replace (Z.of_nat (S n) - 1) with (Z.of_nat n) by lia.
    rewrite IH by lia. rewrite iter_succ_r. reflexivity.
Qed.

(* a count of zero, or a negative one, runs the body not at all *)
Theorem counted_zero m body f s n : n <= 0 ->
  iterate rt mt (S f) m s None (Some (VInt n)) None None body = ROk SigNormal s.
Proof.
  intros Hn. rewrite iterate_unfold. unfold iter_step. rewrite positive_int.
  replace (0 <? n) with false by (symmetry; apply Z.ltb_ge; lia). reflexivity.
Qed.

(* `break` ends the loop at once and only this loop: the enclosing statement list goes on *)
Theorem break_ends_innermost_only f m s cond cnt idx lights body s1 :
  (match cond, cnt with
   | Some c, _ => sbind (eval_rval rt mt f m s c) (fun x sa => ROk (truthy x) sa)
   | None, Some n => lift_res (positive n) s
   | None, None => ROk true s
   end) = ROk true s1 ->
  forall s2 lights', (s2, lights') = match lights with
                                     | Some (x, v :: r) => (assign s1 x v, Some (x, r))
                                     | Some (x, []) => (assign s1 x VNone, Some (x, []))
                                     | None => (s1, None)
                                     end ->
  forall s3, Sem.exec rt mt f m s2 body = ROk SigBreak s3 ->
  iterate rt mt (S f) m s cond cnt idx lights body = ROk SigNormal s3.
Proof.
  intros Ht s2 lights' Hl s3 Hb. rewrite iterate_unfold. unfold iter_step. rewrite Ht. cbn [sbind negb].
  rewrite <- Hl. rewrite Hb. reflexivity.
Qed.

(* `repeat while c` re-tests c before every pass: a false test ends the loop *)
Theorem while_false_ends f m s c x s1 body :
  eval_rval rt mt f m s c = ROk x s1 -> truthy x = false ->
  iterate rt mt (S f) m s (Some c) None None None body = ROk SigNormal s1.
Proof.
  intros He Ht. rewrite iterate_unfold. unfold iter_step. rewrite He. cbn [sbind]. rewrite Ht. reflexivity.
Qed.

Theorem while_true_runs_body_then_retests f m s c x s1 body s2 :
  eval_rval rt mt f m s c = ROk x s1 -> truthy x = true ->
  Sem.exec rt mt f m s1 body = ROk SigNormal s2 ->
  iterate rt mt (S f) m s (Some c) None None None body = iterate rt mt f m s2 (Some c) None None None body.
Proof.
  intros He Ht Hb. rewrite iterate_unfold. unfold iter_step. rewrite He. cbn [sbind]. rewrite Ht. cbn [negb].
  rewrite Hb. reflexivity.
Qed.

End Iterate.

(* ---------- the values of the loop variable ---------- *)
(* v0 = a, v(k+1) = vk + incr: the integer case, as `repeat with v from a to b` produces it *)
Fixpoint int_values (a incr : Z) (n : nat) : list Z :=
  match n with O => [] | S k => a :: int_values (a + incr) incr k end.

Lemma int_values_nth a incr n : forall k, (k < n)%nat -> nth k (int_values a incr n) 0 = a + Z.of_nat k * incr.
Proof.
  revert a. induction n as [|n IH]; intros a k Hk; [lia|].
  destruct k as [|k]; cbn [int_values nth]; [lia|]. rewrite IH by lia. lia.
Qed.

(* count and increment the two-bound form computes: |b - a| + 1 and +-1 *)
Definition range_count (a b : Z) : Z := Z.abs (b - a) + 1.
Definition range_incr (a b : Z) : Z := if b - a <? 0 then -1 else 1.

Lemma range_prep a b :
  (do y' <- pushable (VInt b); do x' <- pushable (VInt a);
   do d <- eval_binop OP_SUB y' x';
   do neg <- ordering CLt d (VInt 0);
   do cnt0 <- (if truthy neg then eval_binop OP_MUL d (VInt (-1)) else Ok d);
   do cnt <- eval_binop OP_ADD cnt0 (VInt 1);
   Ok (cnt, if truthy neg then VInt (-1) else VInt 1))
  = Ok (VInt (range_count a b), VInt (range_incr a b)).
Proof.
  cbn. unfold range_count, range_incr. destruct (b - a <? 0) eqn:E; cbn.
  - apply Z.ltb_lt in E. do 3 f_equal. lia.
  - apply Z.ltb_ge in E. do 3 f_equal. lia.
Qed.

(* `repeat with v from a to b` gives v each integer from a to b in order, either direction *)
Theorem range_values_are_a_to_b a b :
  let n := Z.to_nat (range_count a b) in
  let vals := int_values a (range_incr a b) n in
  length vals = n /\ nth 0 vals 0 = a /\ nth (n - 1) vals 0 = b /\
  (forall k, (S k < n)%nat -> nth (S k) vals 0 - nth k vals 0 = range_incr a b) /\
  (forall k, (k < n)%nat -> Z.min a b <= nth k vals 0 <= Z.max a b).
Proof.
  cbv zeta. unfold range_count, range_incr.
  assert (Hlen : forall x i n, length (int_values x i n) = n) by (intros x i n; revert x; induction n; intros; cbn; auto).
  split; [apply Hlen|].
  assert (Hn : (0 < Z.to_nat (Z.abs (b - a) + 1))%nat) by lia.
  split; [rewrite int_values_nth by lia; lia|].
  split.
  - rewrite int_values_nth by lia. destruct (b - a <? 0) eqn:E; [apply Z.ltb_lt in E|apply Z.ltb_ge in E]; lia.
  - split; intros k Hk.
    + rewrite !int_values_nth by lia. lia.
    + rewrite int_values_nth by lia. destruct (b - a <? 0) eqn:E; [apply Z.ltb_lt in E|apply Z.ltb_ge in E]; lia.
Qed.

(* interpolating and cycle forms over exact arithmetic: v(k) = a + k * incr with
   incr = (b - a) / (n - 1) resp. turn / n -- evenly spaced, both ends included *)
Open Scope Q_scope.
Fixpoint q_values (a incr : Q) (n : nat) : list Q :=
  match n with O => [] | S k => a :: q_values (a + incr) incr k end.

Lemma q_values_nth a incr n : forall k, (k < n)%nat -> nth k (q_values a incr n) 0 == a + inject_Z (Z.of_nat k) * incr.
Proof.
  revert a. induction n as [|n IH]; intros a k Hk; [lia|].
  destruct k as [|k]; cbn [q_values nth].
  - cbn. ring.
  - rewrite IH by lia. rewrite Nat2Z.inj_succ. unfold Z.succ. rewrite inject_Z_plus. ring.
Qed.

Theorem interpolation_includes_both_ends (a b : Q) (n : nat) : (2 <= n)%nat ->
  let incr := (b - a) / inject_Z (Z.of_nat n - 1) in
  nth 0 (q_values a incr n) 0 == a /\ nth (n - 1) (q_values a incr n) 0 == b.
Proof.
  intros Hn incr. split.
  - rewrite q_values_nth by lia. cbn. ring.
  - rewrite q_values_nth by lia. unfold incr.
    replace (Z.of_nat (n - 1)) with (Z.of_nat n - 1)%Z by lia.
    field. intro H. unfold Qeq in H. cbn in H. lia.
Qed.

Theorem cycle_values_closed_form (s turn : Q) (n : nat) : (1 <= n)%nat ->
  let incr := turn / inject_Z (Z.of_nat n) in
  forall k, (k < n)%nat -> nth k (q_values s incr n) 0 == s + inject_Z (Z.of_nat k) * turn / inject_Z (Z.of_nat n).
Proof.
  intros Hn incr k Hk. rewrite q_values_nth by lia. unfold incr. field.
  intro H. unfold Qeq in H. cbn in H. lia.
Qed.
Close Scope Q_scope.

(* ---------- light loops: each name once, in name order ---------- *)
Definition str_lt (a b : string) : Prop := str_ltb a b = true.

Lemma str_ltb_irrefl a : str_ltb a a = false.
Proof. induction a as [|c a IH]; cbn [str_ltb]; [reflexivity|]. rewrite Nat.ltb_irrefl. exact IH. Qed.

Lemma str_ltb_trans a : forall b c, str_ltb a b = true -> str_ltb b c = true -> str_ltb a c = true.
Proof.
  induction a as [|x a IH]; intros b c Hab Hbc.
  - destruct b as [|y b]; [discriminate|]. destruct c as [|z c]; [discriminate|]. reflexivity.
  - destruct b as [|y b]; [discriminate|]. destruct c as [|z c]; [cbn [str_ltb] in Hbc; discriminate|].
    cbn [str_ltb] in *.
    destruct (Nat.ltb (Ascii.nat_of_ascii x) (Ascii.nat_of_ascii y)) eqn:E1.
    + apply Nat.ltb_lt in E1.
      destruct (Nat.ltb (Ascii.nat_of_ascii y) (Ascii.nat_of_ascii z)) eqn:E2.
      * apply Nat.ltb_lt in E2. replace (Nat.ltb (Ascii.nat_of_ascii x) (Ascii.nat_of_ascii z)) with true; [reflexivity|].
        symmetry. apply Nat.ltb_lt. lia.
      * destruct (Nat.ltb (Ascii.nat_of_ascii z) (Ascii.nat_of_ascii y)) eqn:E3; [discriminate|].
        apply Nat.ltb_ge in E2. apply Nat.ltb_ge in E3.
        replace (Nat.ltb (Ascii.nat_of_ascii x) (Ascii.nat_of_ascii z)) with true; [reflexivity|].
        symmetry. apply Nat.ltb_lt. lia.
    + destruct (Nat.ltb (Ascii.nat_of_ascii y) (Ascii.nat_of_ascii x)) eqn:E1'; [discriminate|].
      apply Nat.ltb_ge in E1. apply Nat.ltb_ge in E1'. assert (Ascii.nat_of_ascii x = Ascii.nat_of_ascii y) as Exy by lia.
      rewrite Exy.
      destruct (Nat.ltb (Ascii.nat_of_ascii y) (Ascii.nat_of_ascii z)); [reflexivity|].
      destruct (Nat.ltb (Ascii.nat_of_ascii z) (Ascii.nat_of_ascii y)); [discriminate|].
      eapply IH; eassumption.
Qed.

Lemma str_ltb_total a : forall b, str_ltb a b = false -> str_ltb b a = false -> a = b.
Proof.
  induction a as [|x a IH]; intros b H1 H2.
  - destruct b; [reflexivity|discriminate].
  - destruct b as [|y b]; [discriminate|]. cbn [str_ltb] in *.
    destruct (Nat.ltb (Ascii.nat_of_ascii x) (Ascii.nat_of_ascii y)) eqn:E1; [discriminate|].
    destruct (Nat.ltb (Ascii.nat_of_ascii y) (Ascii.nat_of_ascii x)) eqn:E2; [discriminate|].
    apply Nat.ltb_ge in E1. apply Nat.ltb_ge in E2.
    assert (Ascii.nat_of_ascii x = Ascii.nat_of_ascii y) as E by lia.
    apply (f_equal Ascii.ascii_of_nat) in E. rewrite !Ascii.ascii_nat_embedding in E. subst y.
    f_equal. apply IH; assumption.
Qed.

Lemma sorted_insert_sorted x l : StronglySorted str_lt l -> StronglySorted str_lt (sorted_insert x l).
Proof.
  intros Hs. induction Hs as [|y r Hr IH Hall]; cbn [sorted_insert].
  - constructor; constructor.
  - destruct (String.eqb x y) eqn:E; [constructor; assumption|].
    destruct (str_ltb x y) eqn:L.
    + constructor; [constructor; assumption|]. constructor; [exact L|].
      eapply Forall_impl; [|exact Hall]. intros z Hz. unfold str_lt in *. eapply str_ltb_trans; eassumption.
    + constructor; [exact IH|].
      assert (str_ltb y x = true) as Hyx.
      { destruct (str_ltb y x) eqn:L2; [reflexivity|]. exfalso.
        pose proof (str_ltb_total x y L L2) as Heq. subst y. rewrite String.eqb_refl in E. discriminate. }
      apply Forall_forall. intros z Hz. apply sorted_insert_In in Hz. destruct Hz as [->|Hz]; [exact Hyx|].
      rewrite Forall_forall in Hall. apply Hall. exact Hz.
Qed.

Lemma sort_names_sorted l : StronglySorted str_lt (sort_names l).
Proof.
  unfold sort_names.
  assert (forall acc, StronglySorted str_lt acc -> StronglySorted str_lt (fold_left (fun acc x => sorted_insert x acc) l acc)) as H.
  { induction l as [|x r IH]; intros acc Ha; cbn [fold_left]; [exact Ha|]. apply IH. apply sorted_insert_sorted. exact Ha. }
  apply H. constructor.
Qed.

Lemma sorted_NoDup l : StronglySorted str_lt l -> NoDup l.
Proof.
  induction 1 as [|x r Hr IH Hall]; constructor; [|exact IH].
  intros Hin. rewrite Forall_forall in Hall. specialize (Hall x Hin). unfold str_lt in Hall.
  rewrite str_ltb_irrefl in Hall. discriminate.
Qed.

(* `repeat all as x` binds x to each known light exactly once, in name order; likewise
   group names, location names, and the members of a group or location *)
Theorem light_names_each_once w :
  StronglySorted str_lt (light_names w) /\ NoDup (light_names w) /\
  (forall n, In n (light_names w) <-> exists l, In l w /\ l_name l = n).
Proof.
  unfold light_names. split; [apply sort_names_sorted|]. split; [apply sorted_NoDup, sort_names_sorted|].
  intros n. unfold sort_names. rewrite sort_names_In. cbn [In]. rewrite in_map_iff. split.
  - intros [[l [H1 H2]]|[]]. exists l. tauto.
  - intros [l [H1 H2]]. left. exists l. tauto.
Qed.

Theorem members_each_once sel w g names :
  members sel w g = Some names -> StronglySorted str_lt names /\ NoDup names /\ names <> [].
Proof.
  unfold members. destruct (sort_names _) as [|a r] eqn:E; [discriminate|]. intros H. inversion H. subst names.
  rewrite <- E. split; [apply sort_names_sorted|]. split; [apply sorted_NoDup, sort_names_sorted|]. rewrite E. discriminate.
Qed.
