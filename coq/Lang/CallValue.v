(* C01 / C03: the value of a call `[f a b ...]` where a statement takes it directly -- `assign y [f ...]`, `hue [f ...]`,
   `print [f ...]`, `println [f ...]`, `return [f ...]`.  The compiler emits the call (CTX; arguments; JSR f; END_CTX) and then
   takes the value from RESULT: MOVE RESULT y / MOVE RESULT r / OUT REGISTER RESULT; OUT PRINT / RETURN.

   RESULT holds the value of the call only when the routine left through a `return` (running into END f leaves RESULT as it
   was; the documentation does not say what such a call is worth, the reference semantics says "nothing").  [must_return] is the
   syntactic test the theorem asks of the routine's body: its last word on every path is a `return`. *)
From Coq Require Import ZArith String List Bool Lia.
From Bardolph Require Import Gen.Codes Lang.Value Lang.Instr Lang.Loader Lang.World Lang.Units0 Lang.Regs Lang.Devices Lang.Builtins
  Lang.Machine Lang.Syntax Lang.Sem Lang.CodeGen Lang.Scope Lang.ExprCompile Lang.Simulation Lang.Simulation2.
Open Scope string_scope.
Open Scope list_scope.
Import ListNotations.
Open Scope Z_scope.

(* every path through the statement ends in a return (or leaves earlier by a break or a return) *)
Fixpoint must_return (st : stmt) : bool :=
  match st with
  | SReturn _ => true
  | SIf _ a (Some b) => must_return a && must_return b
  | SBlock l => existsb must_return l
  | _ => false
  end.

Section CallValue.
Variable rt : rtable.
Variable mt : mtable.

Lemma must_return_sound : forall fuel,
  (forall st ss sig ss', must_return st = true -> Sem.exec rt mt fuel false ss st = ROk sig ss' -> sig <> SigNormal) /\
  (forall l ss sig ss', existsb must_return l = true -> exec_seq rt mt fuel false ss l = ROk sig ss' -> sig <> SigNormal).
Proof.
  induction fuel as [|fuel [IHs IHl]]; [split; intros; discriminate|]. split.
  - intros st ss sig ss' Hm He. destruct st; cbn [must_return] in Hm; try discriminate.
    + (* return *)
      destruct v as [v|].
      * change (Sem.exec rt mt (S fuel) false ss (SReturn (Some v))) with (let* (x, s1) := eval_rval rt mt fuel false ss v in ROk (SigReturn x) s1) in He.
        destruct (eval_rval rt mt fuel false ss v) as [x s1|e s1|s1]; cbn [sbind] in He; try discriminate. injection He as H _. subst sig. discriminate.
      * change (Sem.exec rt mt (S fuel) false ss (SReturn None)) with (ROk (SigReturn VNone) ss) in He. injection He as H _. subst sig. discriminate.
    + (* if / else *)
      destruct s2 as [b|]; [|discriminate]. apply andb_true_iff in Hm. destruct Hm as [Ha Hb]. rewrite exec_if in He.
      destruct (eval_rval rt mt fuel false ss c) as [x sa|e sa|sa]; cbn [sbind] in He; try discriminate.
      destruct (truthy x); [exact (IHs _ _ _ _ Ha He)|exact (IHs _ _ _ _ Hb He)].
    + (* block *)
      rewrite exec_block in He. exact (IHl _ _ _ _ Hm He).
  - intros l ss sig ss' Hm He. destruct l as [|st r]; [discriminate|]. rewrite exec_seq_cons in He. cbn [existsb] in Hm.
    destruct (Sem.exec rt mt fuel false ss st) as [sg sa|e sa|sa] eqn:Est; cbn [sbind] in He; try discriminate.
    destruct sg.
    + apply orb_true_iff in Hm. destruct Hm as [Hst|Hr]; [exfalso; exact (IHs _ _ _ _ Hst Est eq_refl)|exact (IHl _ _ _ _ Hr He)].
    + injection He as H _. subst sig. discriminate.
    + injection He as H _. subst sig. discriminate.
Qed.

(* ---- where the value of the call goes ---- *)
Inductive use := UAssign (y : string) | UReg (r : register) | UPrint (nl : bool).
Definition use_stmt (u : use) (v : rval) : stmt :=
  match u with UAssign y => SAssign y v | UReg r => SReg r v | UPrint nl => if nl then SPrintln (Some v) else SPrint (Some v) end.
Definition use_ok (u : use) : bool := match u with UReg r => script_reg r | _ => true end.
Definition use_tail (u : use) : program :=
  match u with
  | UAssign y => [I2 OC_MOVE (PReg R_RESULT) (PStr y)]
  | UReg r => [I2 OC_MOVE (PReg R_RESULT) (PReg r)]
  | UPrint nl => [I2 OC_OUT (PIoOp IO_REGISTER) (PReg R_RESULT); I1 OC_OUT (PIoOp IO_PRINT)] ++ (if nl then [I1 OC_OUT (PIoOp IO_PRINT_END)] else [])
  end.
Definition use_sem (u : use) (x : value) (ss : sstate) : sstate :=
  match u with
  | UAssign y => assign ss y x
  | UReg r => s_with_regs ss (rf_set (s_regs ss) r x)
  | UPrint nl => s_emit ss (EvOut x :: (if nl then [EvNewline] else []))
  end.

Lemma exec_use f ss u v : Sem.exec rt mt (S f) false ss (use_stmt u v) =
  (let* (x, s1) := eval_rval rt mt f false ss v in ROk SigNormal (use_sem u x s1)).
Proof. destruct u as [y|r|[|]]; reflexivity. Qed.

Lemma use_tail_no_routine u : forallb not_routine (use_tail u) = true.
Proof. destruct u as [y|r|[|]]; reflexivity. Qed.

(* the instructions behind the call, from a state whose RESULT holds the value *)
Lemma use_tail_runs u im ss s x : use_ok u = true -> sim ss s -> rf_get (m_regs s) R_RESULT = Some x ->
  code_at im (m_pc s) (use_tail u) ->
  exists n s' evs, esteps n im s = Some (s', evs) /\ sim (use_sem u x ss) s' /\ m_pc s' = m_pc s + zlength (use_tail u) /\
                   (m_stack s', fr s') = (m_stack s, fr s) /\ rev (s_trace (use_sem u x ss)) = rev (s_trace ss) ++ evs.
Proof.
  intros Hok Hsim Hr Hc. destruct u as [y|r|nl]; cbn [use_tail use_sem use_ok] in *.
  - (* MOVE RESULT y *)
    cbn [code_at] in Hc. destruct Hc as [Hf _].
    exists 1%nat, (put_vm s (DVar y) x 1), []. split.
    { apply (estep1 im s _ _ _ Hf). cbn [Machine.exec i_op i_p0 i_p1 I2]. unfold get_reg. rewrite Hr. cbn [bind].
      change (PStr y) with (dest_param (DVar y)). apply lift_put. reflexivity. }
    split; [apply sim_put_var; exact Hsim|]. split; [rewrite put_vm_var_pc, zlength1; reflexivity|].
    split; [apply put_vm_var_stack_fr; exact (sim_settled _ _ Hsim)|]. rewrite app_nil_r. destruct (assign_other_fields ss y x) as [_ [_ Et]]. rewrite Et. reflexivity.
  - (* MOVE RESULT r *)
    cbn [code_at] in Hc. destruct Hc as [Hf _].
    exists 1%nat, (put_vm s (DReg r) x 1), []. split.
    { apply (estep1 im s _ _ _ Hf). cbn [Machine.exec i_op i_p0 i_p1 I2]. unfold get_reg. rewrite Hr. cbn [bind].
      change (PReg r) with (dest_param (DReg r)). apply lift_put. destruct r; try discriminate; reflexivity. }
    split; [apply sim_put_reg_visible; [exact Hsim|apply script_reg_visible; exact Hok]|]. split; [rewrite zlength1; reflexivity|].
    split; [reflexivity|]. rewrite app_nil_r. reflexivity.
  - (* OUT REGISTER RESULT; OUT PRINT [; OUT PRINT_END] *)
    pose proof (out_register_print im s x nl (sim_unnamed _ _ Hsim) Hr Hc) as Hout.
    exists (if nl then 3 else 2)%nat, (with_pc s (m_pc s + (if nl then 3 else 2))), (EvOut x :: (if nl then [EvNewline] else [])).
    split; [exact Hout|]. split; [apply sim_emit; apply sim_with_pc; exact Hsim|].
    split; [cbn [with_pc m_pc]; destruct nl; reflexivity|]. split; [reflexivity|]. apply trace_emit.
Qed.
End CallValue.
