(* Proofs about Lang/Matrix.v against Lang/MatrixSpec.v. *)
From Coq Require Import ZArith List Bool Lia.
From Bardolph Require Import Base.PyStr Gen.MatrixShape Lang.MatrixSpec Lang.Matrix.
Open Scope list_scope.
Import ListNotations.
Open Scope Z_scope.
Open Scope bool_scope.

(* ---------- ties to the source text (break when the source changes shape) ---------- *)

Lemma code_shape_current : shape_matrix_code_modelled = true.
Proof. reflexivity. Qed.
