(* Proofs about Lang/Matrix.v against Lang/MatrixSpec.v. *)
From Coq Require Import ZArith List Bool Lia.
From Bardolph Require Import Base.PyStr Gen.MatrixShape Lang.MatrixSpec Lang.Matrix.
Open Scope list_scope.
Import ListNotations.
Open Scope Z_scope.
Open Scope bool_scope.

(* ---------- ties to the source text (break when the source changes shape) ---------- *)

Lemma code_shape_current : shape_matrix_code_modelled = true.
Proof. reflexivity. Qed.

Lemma as_raw_matrix_unrounded : shape_as_raw_matrix_unrounded = true.
Proof. reflexivity. Qed.

Lemma index_rounded : shape_index_rounded = true.
Proof. reflexivity. Qed.

(* ---------- lists ---------- *)

Lemma list_set_length {A} (l : list A) : forall k v, length (list_set l k v) = length l.
Proof.
  induction l as [|x l IH]; intros k v; destruct k; cbn [list_set length]; try reflexivity.
  rewrite IH. reflexivity.
Qed.

Lemma nth_list_set {A} (l : list A) : forall k i v d, (k < length l)%nat ->
  nth i (list_set l k v) d = if Nat.eqb i k then v else nth i l d.
Proof.
  induction l as [|x l IH]; intros k i v d Hk; cbn [length] in Hk; [lia|].
  destruct k; destruct i; cbn [list_set nth Nat.eqb]; try reflexivity.
  apply IH. lia.
Qed.

Lemma Forall_list_set {A} (P : A -> Prop) (l : list A) : forall k v,
  Forall P l -> P v -> Forall P (list_set l k v).
Proof.
  induction l as [|x l IH]; intros k v Hl Hv; destruct k; cbn [list_set]; try exact Hl.
  - inversion Hl; subst. constructor; assumption.
  - inversion Hl; subst. constructor; [assumption|]. apply IH; assumption.
Qed.

Lemma zrange_aux_length n : forall a, length (zrange_aux n a) = n.
Proof. induction n as [|n IH]; intros a; cbn [zrange_aux length]; [reflexivity|]. rewrite IH. reflexivity. Qed.

Lemma zrange_length a b : length (zrange a b) = Z.to_nat (b - a).
Proof. unfold zrange. apply zrange_aux_length. Qed.

Lemma zrange_aux_nth n : forall a k d, (k < n)%nat -> nth k (zrange_aux n a) d = a + Z.of_nat k.
Proof.
  induction n as [|n IH]; intros a k d Hk; [lia|].
  destruct k; cbn [zrange_aux nth].
  - lia.
  - rewrite IH by lia. lia.
Qed.

Lemma zrange_nil a b : b <= a -> zrange a b = [].
Proof. intros H. unfold zrange. replace (Z.to_nat (b - a)) with O by lia. reflexivity. Qed.

Lemma zrange_nonempty a b : a < b -> zrange a b <> [].
Proof.
  intros H E. assert (L : length (zrange a b) = O) by (rewrite E; reflexivity).
  rewrite zrange_length in L. lia.
Qed.

Lemma const_map_nth {A B} (v d : B) (l : list A) : forall k, (k < length l)%nat ->
  nth k (map (fun _ => v) l) d = v.
Proof.
  induction l as [|x l IH]; intros k Hk; cbn [length] in Hk; [lia|].
  destruct k; cbn [map nth]; [reflexivity|]. apply IH. lia.
Qed.

(* ---------- rounding ---------- *)

(* round_half_even n d is a nearest integer to n/d, and the even one on a tie *)
Lemma round_half_even_nearest n d : 0 < d ->
  let z := round_half_even n d in
  - d <= 2 * n - 2 * d * z <= d /\
  ((2 * n - 2 * d * z = d \/ 2 * n - 2 * d * z = - d) -> Z.even z = true).
Proof.
  intros Hd. unfold round_half_even.
  pose proof (Z.div_mod n d ltac:(lia)) as E.
  pose proof (Z.mod_pos_bound n d Hd) as B.
  set (q := n / d) in *. set (r := n mod d) in *.
  assert (Hq1 : d * (q + 1) = d * q + d) by ring.
  destruct (2 * r <? d) eqn:H1; [apply Z.ltb_lt in H1 | apply Z.ltb_ge in H1].
  - cbv zeta. split; [lia|]. intros [H|H]; lia.
  - destruct (d <? 2 * r) eqn:H2; [apply Z.ltb_lt in H2 | apply Z.ltb_ge in H2].
    + cbv zeta. split; [lia|]. intros [H|H]; lia.
    + destruct (Z.even q) eqn:Hev; cbv zeta.
      * split; [lia|]. intros _. exact Hev.
      * split; [lia|]. intros _. rewrite Z.even_add. rewrite Hev. reflexivity.
Qed.

Lemma round_half_even_int z d : 0 < d -> round_half_even (z * d) d = z.
Proof.
  intros Hd. unfold round_half_even.
  rewrite Z.div_mul by lia. rewrite Z.mod_mul by lia.
  destruct (2 * 0 <? d) eqn:H; [reflexivity|]. apply Z.ltb_ge in H. lia.
Qed.

(* adding one commutes with rounding except exactly half way between two integers *)
Lemma round_succ n d : 0 < d -> 2 * (n mod d) <> d ->
  round_half_even (n + d) d = round_half_even n d + 1.
Proof.
  intros Hd Hn. unfold round_half_even.
  replace (n + d) with (n + 1 * d) by ring.
  rewrite Z.div_add by lia. rewrite Z.mod_add by lia.
  destruct (2 * (n mod d) <? d) eqn:H1; [reflexivity|].
  destruct (d <? 2 * (n mod d)) eqn:H2; [ring|].
  apply Z.ltb_ge in H1. apply Z.ltb_ge in H2. lia.
Qed.

Lemma to_index_rounded v : to_index v = Some (index_of v).
Proof. destruct v as [z|n d]; cbn [to_index index_of py_round]; [reflexivity|]. rewrite index_rounded. reflexivity. Qed.

Lemma idx2_rounded a b : idx2 a b = Some (option_map index_of a, option_map index_of b).
Proof.
  unfold idx2. destruct a as [a|]; destruct b as [b|]; cbn [option_map];
    repeat rewrite to_index_rounded; reflexivity.
Qed.

(* ---------- Python list indexing ---------- *)

Definition idx_ok (n i : Z) : Prop := - n <= i < n.

Lemma py_idx_ok n i : idx_ok n i -> py_idx n i = Some (Z.to_nat (wrap n i)) /\ 0 <= wrap n i < n.
Proof.
  unfold idx_ok, py_idx, wrap. intros H.
  destruct (i <? 0) eqn:Hi; [apply Z.ltb_lt in Hi | apply Z.ltb_ge in Hi].
  - destruct ((0 <=? i + n) && (i + n <? n)) eqn:Hb.
    + split; [reflexivity|lia].
    + apply andb_false_iff in Hb. destruct Hb as [Hb|Hb]; [apply Z.leb_gt in Hb | apply Z.ltb_ge in Hb]; lia.
  - destruct ((0 <=? i) && (i <? n)) eqn:Hb.
    + split; [reflexivity|lia].
    + apply andb_false_iff in Hb. destruct Hb as [Hb|Hb]; [apply Z.leb_gt in Hb | apply Z.ltb_ge in Hb]; lia.
Qed.

Lemma py_idx_bad n i : 0 <= n -> ~ idx_ok n i -> py_idx n i = None.
Proof.
  unfold idx_ok, py_idx, wrap. intros Hn H.
  destruct (i <? 0) eqn:Hi; [apply Z.ltb_lt in Hi | apply Z.ltb_ge in Hi].
  - destruct ((0 <=? i + n) && (i + n <? n)) eqn:Hb; [|reflexivity].
    apply andb_true_iff in Hb. destruct Hb as [H1 H2]. apply Z.leb_le in H1. apply Z.ltb_lt in H2. lia.
  - destruct ((0 <=? i) && (i <? n)) eqn:Hb; [|reflexivity].
    apply andb_true_iff in Hb. destruct Hb as [H1 H2]. apply Z.leb_le in H1. apply Z.ltb_lt in H2. lia.
Qed.

Definition hits (n : Z) (xs : list Z) (x : Z) : Prop := exists y, In y xs /\ x = wrap n y.

Lemma hits_dec n xs x : hits n xs x \/ ~ hits n xs x.
Proof.
  induction xs as [|a xs IH].
  - right. intros [y [[] _]].
  - destruct (Z.eq_dec x (wrap n a)) as [E|E].
    + left. exists a. split; [left; reflexivity|exact E].
    + destruct IH as [[y [Hy Ey]]|IH].
      * left. exists y. split; [right; exact Hy|exact Ey].
      * right. intros [y [[Hy|Hy] Ey]]; [subst y; exact (E Ey)|apply IH; exists y; split; assumption].
Qed.

Lemma idx_ok_dec n i : idx_ok n i \/ ~ idx_ok n i.
Proof. unfold idx_ok. destruct (Z_le_dec (- n) i); destruct (Z_lt_dec i n); (left; lia) || (right; lia). Qed.

Lemma all_ok_or_bad n xs : Forall (idx_ok n) xs \/ Exists (fun y => ~ idx_ok n y) xs.
Proof.
  induction xs as [|x xs IH]; [left; constructor|].
  destruct (idx_ok_dec n x) as [Hx|Hx].
  - destruct IH as [IH|IH]; [left; constructor; assumption|right; apply Exists_cons_tl; exact IH].
  - right. apply Exists_cons_hd. exact Hx.
Qed.

Section Proofs.
Variable C : Type.
Variable std : C -> C.
Variable conv : mode -> C -> C.
Variable switch : mode -> mode -> C -> C.
Variable black : C.

Notation rows_t := (list (list (option C))).
Notation cmatrix := (cmatrix C).
Notation state := (state C).
Notation cmd := (cmd C).
Notation stage := (stage C).
Notation set_cell := (set_cell C).
Notation set_cols := (set_cols C).
Notation set_rows := (set_rows C).
Notation overlay_color := (overlay_color C).
Notation exec := (exec C std conv switch black).
Notation run := (run C std conv switch black).
Notation compile_stage := (compile_stage C).
Notation compile_stmt := (compile_stmt C).
Notation compile := (compile C).
Notation stage_operand := (stage_operand C).

(* ---------- the matrix as a function of (row, column) ---------- *)

Definition cell (rows : rows_t) (r c : Z) : option C :=
  nth (Z.to_nat c) (nth (Z.to_nat r) rows []) None.

Definition wf (h w : Z) (rows : rows_t) : Prop :=
  0 <= h /\ 0 <= w /\ length rows = Z.to_nat h /\ Forall (fun r => length r = Z.to_nat w) rows.

Lemma wf_row_length h w rows i : wf h w rows -> (i < Z.to_nat h)%nat -> length (nth i rows []) = Z.to_nat w.
Proof.
  intros (Hh & Hw & Hl & Hf) Hi.
  rewrite Forall_forall in Hf. apply Hf. apply nth_In. lia.
Qed.

Lemma new_from_constant_wf h w v : 0 <= h -> 0 <= w -> wf h w (m_rows (new_from_constant C h w v)).
Proof.
  intros Hh Hw. cbn [new_from_constant m_rows]. repeat split; try assumption.
  - rewrite map_length, zrange_length. f_equal. lia.
  - apply Forall_forall. intros r Hr. apply in_map_iff in Hr. destruct Hr as [x [Hx _]]. subst r.
    rewrite map_length, zrange_length. f_equal. lia.
Qed.

Lemma new_from_constant_cell h w v r c : 0 <= r < h -> 0 <= c < w ->
  cell (m_rows (new_from_constant C h w v)) r c = v.
Proof.
  intros Hr Hc. unfold cell. cbn [new_from_constant m_rows].
  assert (Lr : (Z.to_nat r < length (zrange 0 h))%nat) by (rewrite zrange_length; lia).
  assert (Lc : (Z.to_nat c < length (zrange 0 w))%nat) by (rewrite zrange_length; lia).
  rewrite (nth_indep _ [] (map (fun _ => v) (zrange 0 w))) by (rewrite map_length; exact Lr).
  rewrite (const_map_nth (map (fun _ : Z => v) (zrange 0 w)) (map (fun _ : Z => v) (zrange 0 w)) (zrange 0 h)) by exact Lr.
  apply const_map_nth. exact Lc.
Qed.

(* ---------- one cell assignment ---------- *)

Lemma set_cell_ok h w rows row col v :
  wf h w rows -> idx_ok h row -> idx_ok w col ->
  exists rows', set_cell rows row col v = Some rows' /\ wf h w rows' /\
    forall r c, 0 <= r < h -> 0 <= c < w ->
      cell rows' r c = if (r =? wrap h row) && (c =? wrap w col) then v else cell rows r c.
Proof.
  intros Hwf Hrow Hcol.
  destruct Hwf as (Hh & Hw & Hl & Hf).
  destruct (py_idx_ok h row Hrow) as [Pr Br].
  destruct (py_idx_ok w col Hcol) as [Pc Bc].
  unfold set_cell. rewrite Hl. rewrite Z2Nat.id by lia. rewrite Pr.
  set (i := Z.to_nat (wrap h row)).
  assert (Hi : (i < Z.to_nat h)%nat) by (unfold i; lia).
  assert (Lrow : length (nth i rows []) = Z.to_nat w).
  { apply (wf_row_length h w); [repeat split; assumption|exact Hi]. }
  rewrite Lrow. rewrite Z2Nat.id by lia. rewrite Pc.
  set (j := Z.to_nat (wrap w col)).
  assert (Hj : (j < Z.to_nat w)%nat) by (unfold j; lia).
  eexists. split; [reflexivity|]. split.
  - repeat split; try assumption.
    + rewrite list_set_length. exact Hl.
    + apply Forall_list_set; [exact Hf|]. rewrite list_set_length. exact Lrow.
  - intros r c Hr Hc. unfold cell.
    rewrite nth_list_set by lia.
    destruct (r =? wrap h row) eqn:Er; [apply Z.eqb_eq in Er | apply Z.eqb_neq in Er].
    + replace (Nat.eqb (Z.to_nat r) i) with true by (symmetry; apply Nat.eqb_eq; unfold i; lia).
      rewrite nth_list_set by lia.
      destruct (c =? wrap w col) eqn:Ec; [apply Z.eqb_eq in Ec | apply Z.eqb_neq in Ec]; cbn [andb].
      * replace (Nat.eqb (Z.to_nat c) j) with true by (symmetry; apply Nat.eqb_eq; unfold j; lia). reflexivity.
      * replace (Nat.eqb (Z.to_nat c) j) with false by (symmetry; apply Nat.eqb_neq; unfold j; lia).
        unfold i. rewrite <- Er. reflexivity.
    + replace (Nat.eqb (Z.to_nat r) i) with false by (symmetry; apply Nat.eqb_neq; unfold i; lia).
      reflexivity.
Qed.

Lemma set_cell_bad h w rows row col v :
  wf h w rows -> (~ idx_ok h row \/ (idx_ok h row /\ ~ idx_ok w col)) -> set_cell rows row col v = None.
Proof.
  intros Hwf Hbad. destruct Hwf as (Hh & Hw & Hl & Hf).
  unfold set_cell. rewrite Hl. rewrite Z2Nat.id by lia.
  destruct Hbad as [Hr | [Hr Hc]].
  - rewrite (py_idx_bad h row Hh Hr). reflexivity.
  - destruct (py_idx_ok h row Hr) as [Pr Br]. rewrite Pr.
    rewrite (wf_row_length h w) by (try (repeat split; assumption); lia).
    rewrite Z2Nat.id by lia. rewrite (py_idx_bad w col Hw Hc). reflexivity.
Qed.

(* ---------- the two loops ---------- *)

Lemma set_cols_ok h w row v cols : forall rows,
  wf h w rows -> idx_ok h row -> Forall (idx_ok w) cols ->
  exists rows', set_cols rows row cols v = Some rows' /\ wf h w rows' /\
    forall r c, 0 <= r < h -> 0 <= c < w ->
      (r = wrap h row /\ hits w cols c -> cell rows' r c = v) /\
      (~ (r = wrap h row /\ hits w cols c) -> cell rows' r c = cell rows r c).
Proof.
  induction cols as [|x cols IH]; intros rows Hwf Hrow Hcols; cbn [set_cols].
  - exists rows. split; [reflexivity|]. split; [exact Hwf|].
    intros r c Hr Hc. split.
    + intros [_ [y [[] _]]].
    + reflexivity.
  - inversion Hcols as [|? ? Hx Hrest]; subst.
    destruct (set_cell_ok h w rows row x v Hwf Hrow Hx) as (rows1 & E1 & W1 & C1).
    rewrite E1.
    destruct (IH rows1 W1 Hrow Hrest) as (rows2 & E2 & W2 & C2).
    exists rows2. split; [exact E2|]. split; [exact W2|].
    intros r c Hr Hc. destruct (C2 r c Hr Hc) as [C2a C2b]. specialize (C1 r c Hr Hc).
    split.
    + intros [Er [y [Hy Ey]]].
      destruct (hits_dec w cols c) as [Hh|Hn].
      * apply C2a. split; assumption.
      * rewrite C2b by (intros [_ Hh]; exact (Hn Hh)).
        destruct Hy as [Hy|Hy]; [|exfalso; apply Hn; exists y; split; assumption].
        subst y. rewrite C1. rewrite Er, Ey. rewrite !Z.eqb_refl. reflexivity.
    + intros Hn.
      rewrite C2b by (intros [Er [y [Hy Ey]]]; apply Hn; split; [exact Er|exists y; split; [right; exact Hy|exact Ey]]).
      rewrite C1.
      destruct (r =? wrap h row) eqn:Er; [apply Z.eqb_eq in Er|reflexivity].
      destruct (c =? wrap w x) eqn:Ec; [apply Z.eqb_eq in Ec|reflexivity].
      exfalso. apply Hn. split; [exact Er|]. exists x. split; [left; reflexivity|exact Ec].
Qed.

Lemma set_rows_nil_cols rws v : forall rows, set_rows rows rws [] v = Some rows.
Proof. induction rws as [|x rws IH]; intros rows; cbn [set_rows set_cols]; [reflexivity|apply IH]. Qed.

Lemma set_rows_ok h w v cols rws : forall rows,
  wf h w rows -> Forall (idx_ok h) rws -> Forall (idx_ok w) cols ->
  exists rows', set_rows rows rws cols v = Some rows' /\ wf h w rows' /\
    forall r c, 0 <= r < h -> 0 <= c < w ->
      (hits h rws r /\ hits w cols c -> cell rows' r c = v) /\
      (~ (hits h rws r /\ hits w cols c) -> cell rows' r c = cell rows r c).
Proof.
  induction rws as [|x rws IH]; intros rows Hwf Hrws Hcols; cbn [set_rows].
  - exists rows. split; [reflexivity|]. split; [exact Hwf|].
    intros r c Hr Hc. split.
    + intros [[y [[] _]] _].
    + reflexivity.
  - inversion Hrws as [|? ? Hx Hrest]; subst.
    destruct (set_cols_ok h w x v cols rows Hwf Hx Hcols) as (rows1 & E1 & W1 & C1).
    rewrite E1.
    destruct (IH rows1 W1 Hrest Hcols) as (rows2 & E2 & W2 & C2).
    exists rows2. split; [exact E2|]. split; [exact W2|].
    intros r c Hr Hc. destruct (C2 r c Hr Hc) as [C2a C2b]. destruct (C1 r c Hr Hc) as [C1a C1b].
    split.
    + intros [[y [Hy Ey]] Hcc].
      destruct (hits_dec h rws r) as [Hh|Hn].
      * apply C2a. split; assumption.
      * rewrite C2b by (intros [Hh _]; exact (Hn Hh)).
        destruct Hy as [Hy|Hy]; [|exfalso; apply Hn; exists y; split; assumption].
        subst y. apply C1a. split; assumption.
    + intros Hn.
      rewrite C2b by (intros [[y [Hy Ey]] Hcc]; apply Hn; split; [exists y; split; [right; exact Hy|exact Ey]|exact Hcc]).
      apply C1b. intros [Er Hcc]. apply Hn. split; [exists x; split; [left; reflexivity|exact Er]|exact Hcc].
Qed.

(* an index outside [-n, n) raises IndexError as soon as a cell is touched *)
Lemma set_cols_bad_row h w rows row cols v :
  wf h w rows -> ~ idx_ok h row -> cols <> [] -> set_cols rows row cols v = None.
Proof.
  intros Hwf Hrow Hne. destruct cols as [|x cols]; [contradiction|]. cbn [set_cols].
  rewrite (set_cell_bad h w) by (try exact Hwf; left; exact Hrow). reflexivity.
Qed.

Lemma set_cols_bad_col h w row v cols : forall rows,
  wf h w rows -> idx_ok h row -> Exists (fun y => ~ idx_ok w y) cols -> set_cols rows row cols v = None.
Proof.
  induction cols as [|x cols IH]; intros rows Hwf Hrow Hex; [inversion Hex|]. cbn [set_cols].
  destruct (idx_ok_dec w x) as [Hx|Hx].
  - destruct (set_cell_ok h w rows row x v Hwf Hrow Hx) as (rows1 & E1 & W1 & _). rewrite E1.
    apply IH; [exact W1|exact Hrow|]. inversion Hex; subst; [contradiction|assumption].
  - rewrite (set_cell_bad h w) by (try exact Hwf; right; split; assumption). reflexivity.
Qed.

Lemma set_rows_bad h w v cols rws : forall rows,
  wf h w rows -> cols <> [] ->
  (Exists (fun x => ~ idx_ok h x) rws \/ (rws <> [] /\ Exists (fun y => ~ idx_ok w y) cols)) ->
  set_rows rows rws cols v = None.
Proof.
  induction rws as [|x rws IH]; intros rows Hwf Hne Hbad.
  - destruct Hbad as [Hbad|[Hbad _]]; [inversion Hbad|contradiction].
  - cbn [set_rows].
    destruct (idx_ok_dec h x) as [Hx|Hx].
    + destruct (all_ok_or_bad w cols) as [Hall|Hex].
      * destruct (set_cols_ok h w x v cols rows Hwf Hx Hall) as (rows1 & E1 & W1 & _). rewrite E1.
        apply IH; [exact W1|exact Hne|].
        destruct Hbad as [Hbad|[_ Hbad]].
        -- left. inversion Hbad; subst; [contradiction|assumption].
        -- exfalso. apply Exists_exists in Hbad. destruct Hbad as [y [Hy Hny]].
           rewrite Forall_forall in Hall. exact (Hny (Hall y Hy)).
      * rewrite (set_cols_bad_col h w x v cols rows Hwf Hx Hex). reflexivity.
    + rewrite (set_cols_bad_row h w rows x cols v Hwf Hx Hne). reflexivity.
Qed.

(* ---------- overlay_color ---------- *)

Definition reg_first (cl : option clause) : option num :=
  match cl with Some c => Some (c_first c) | None => None end.
Definition reg_last (cl : option clause) : option num :=
  match cl with Some c => c_last c | None => None end.

Lemma norm_clause cl n :
  norm_pair (option_map index_of (reg_first cl)) (option_map index_of (reg_last cl)) n = clause_range cl n.
Proof. destruct cl as [[a [b|]]|]; reflexivity. Qed.

Lemma zrange_Forall_ok n a b : - n <= a -> b <= n -> Forall (idx_ok n) (zrange a b).
Proof. intros Ha Hb. apply Forall_forall. intros x Hx. apply zrange_In in Hx. unfold idx_ok. lia. Qed.

(* Whatever the rectangle (empty ranges, or indices inside [-h, h) x [-w, w)): overlay_color
   succeeds and writes exactly the cells (wrap h x, wrap w y), x in top..bottom, y in left..right. *)
Lemma overlay_ok (m : cmatrix) top bottom left right col t b l r :
  let h := m_height m in let w := m_width m in
  wf h w (m_rows m) ->
  norm_pair (option_map index_of top) (option_map index_of bottom) h = (t, b) ->
  norm_pair (option_map index_of left) (option_map index_of right) w = (l, r) ->
  (b < t \/ r < l \/ (- h <= t /\ b < h /\ - w <= l /\ r < w)) ->
  exists m', overlay_color m top bottom left right col = Some m' /\
    m_height m' = h /\ m_width m' = w /\ wf h w (m_rows m') /\
    forall rr cc, 0 <= rr < h -> 0 <= cc < w ->
      (hits h (zrange t (b + 1)) rr /\ hits w (zrange l (r + 1)) cc -> cell (m_rows m') rr cc = Some col) /\
      (~ (hits h (zrange t (b + 1)) rr /\ hits w (zrange l (r + 1)) cc) -> cell (m_rows m') rr cc = cell (m_rows m) rr cc).
Proof.
  intros h w Hwf Hrows Hcols Hguard.
  unfold overlay_color. rewrite idx2_rounded. fold h. rewrite Hrows.
  destruct (zrange t (b + 1)) as [|z0 zs] eqn:Erows.
  - exists m. split; [reflexivity|]. split; [reflexivity|]. split; [reflexivity|]. split; [exact Hwf|].
    intros rr cc _ _. split; [intros [[y [[] _]] _]|reflexivity].
  - rewrite <- Erows. rewrite idx2_rounded. fold w. rewrite Hcols.
    assert (Htb : t <= b).
    { destruct (Z_lt_dec b t) as [Hlt|]; [|lia]. rewrite zrange_nil in Erows by lia. discriminate. }
    destruct (Z_lt_dec r l) as [Hrl|Hrl].
    + rewrite (zrange_nil l (r + 1)) by lia. rewrite set_rows_nil_cols.
      eexists. split; [reflexivity|]. cbn [m_height m_width m_rows].
      split; [reflexivity|]. split; [reflexivity|]. split; [exact Hwf|].
      intros rr cc _ _. split; [intros [_ [y [[] _]]]|reflexivity].
    + destruct Hguard as [Hg|[Hg|Hg]]; try lia.
      destruct (set_rows_ok h w (Some col) (zrange l (r + 1)) (zrange t (b + 1)) (m_rows m) Hwf)
        as (rows' & E & W & Cs).
      * apply zrange_Forall_ok; lia.
      * apply zrange_Forall_ok; lia.
      * rewrite E. eexists. split; [reflexivity|]. cbn [m_height m_width m_rows].
        split; [reflexivity|]. split; [reflexivity|]. split; [exact W|]. exact Cs.
Qed.

(* non-empty ranges with an index outside [-h, h) x [-w, w): IndexError *)
Lemma overlay_bad (m : cmatrix) top bottom left right col t b l r :
  let h := m_height m in let w := m_width m in
  wf h w (m_rows m) ->
  norm_pair (option_map index_of top) (option_map index_of bottom) h = (t, b) ->
  norm_pair (option_map index_of left) (option_map index_of right) w = (l, r) ->
  t <= b -> l <= r -> (t < - h \/ h <= b \/ l < - w \/ w <= r) ->
  overlay_color m top bottom left right col = None.
Proof.
  intros h w Hwf Hrows Hcols Htb Hlr Hout.
  unfold overlay_color. rewrite idx2_rounded. fold h. rewrite Hrows.
  destruct (zrange t (b + 1)) as [|z0 zs] eqn:Erows.
  - exfalso. apply (zrange_nonempty t (b + 1)); [lia|exact Erows].
  - rewrite <- Erows. rewrite idx2_rounded. fold w. rewrite Hcols.
    rewrite (set_rows_bad h w); [reflexivity|exact Hwf|apply zrange_nonempty; lia|].
    destruct (Z_lt_dec t (- h)) as [H1|H1].
    { left. apply Exists_exists. exists t. split; [apply zrange_In; lia|unfold idx_ok; lia]. }
    destruct (Z_le_dec h b) as [H2|H2].
    { left. apply Exists_exists. exists b. split; [apply zrange_In; lia|unfold idx_ok; lia]. }
    right. split; [apply zrange_nonempty; lia|].
    destruct (Z_lt_dec l (- w)) as [H3|H3].
    { apply Exists_exists. exists l. split; [apply zrange_In; lia|unfold idx_ok; lia]. }
    apply Exists_exists. exists r. split; [apply zrange_In; lia|unfold idx_ok; lia].
Qed.

(* ---------- matrices as tables ---------- *)

Lemma tabulate {A} (l : list A) (d : A) :
  l = map (fun i => nth (Z.to_nat i) l d) (zrange 0 (Z.of_nat (length l))).
Proof.
  apply (nth_ext _ _ d d).
  - rewrite map_length, zrange_length. lia.
  - intros n Hn.
    set (F := fun i => nth (Z.to_nat i) l d).
    rewrite (nth_indep (map F (zrange 0 (Z.of_nat (length l)))) d (F 0)) by (rewrite map_length, zrange_length; lia).
    rewrite map_nth. unfold zrange. rewrite zrange_aux_nth by lia.
    unfold F. replace (Z.to_nat (0 + Z.of_nat n)) with n by lia. reflexivity.
Qed.

Lemma table_of_cells h w (rows : rows_t) (f : Z -> Z -> option C) :
  wf h w rows ->
  (forall r c, 0 <= r < h -> 0 <= c < w -> cell rows r c = f r c) ->
  concat rows = flat_map (fun r => map (fun c => f r c) (zrange 0 w)) (zrange 0 h).
Proof.
  intros (Hh & Hw & Hl & Hf) Hcells.
  rewrite flat_map_concat_map. f_equal.
  rewrite (tabulate rows []) at 1. rewrite Hl. rewrite Z2Nat.id by lia.
  apply map_ext_in. intros r Hr. apply zrange_In in Hr.
  assert (Lr : length (nth (Z.to_nat r) rows []) = Z.to_nat w).
  { rewrite Forall_forall in Hf. apply Hf. apply nth_In. lia. }
  rewrite (tabulate (nth (Z.to_nat r) rows []) None) at 1. rewrite Lr. rewrite Z2Nat.id by lia.
  apply map_ext_in. intros c Hc. apply zrange_In in Hc.
  apply (Hcells r c); lia.
Qed.

Lemma wf_map h w (g : option C -> option C) rows : wf h w rows -> wf h w (map (map g) rows).
Proof.
  intros (Hh & Hw & Hl & Hf). repeat split; try assumption.
  - rewrite map_length. exact Hl.
  - apply Forall_forall. intros r Hr. apply in_map_iff in Hr. destruct Hr as [x [Ex Hx]]. subst r.
    rewrite map_length. rewrite Forall_forall in Hf. apply Hf. exact Hx.
Qed.

Lemma cell_map h w (g : option C -> option C) rows r c :
  wf h w rows -> 0 <= r < h -> 0 <= c < w -> cell (map (map g) rows) r c = g (cell rows r c).
Proof.
  intros Hwf Hr Hc. unfold cell.
  change (@nil (option C)) with (map g (@nil (option C))) at 1. rewrite map_nth.
  assert (Lr : length (nth (Z.to_nat r) rows []) = Z.to_nat w) by (apply (wf_row_length h w); [exact Hwf|lia]).
  rewrite (nth_indep _ None (g None)) by (rewrite map_length; lia).
  rewrite map_nth. reflexivity.
Qed.

Lemma map_flat_map {A B D} (g : B -> D) (f : A -> list B) l :
  map g (flat_map f l) = flat_map (fun x => map g (f x)) l.
Proof. induction l as [|x l IH]; cbn [flat_map map]; [reflexivity|]. rewrite map_app, IH. reflexivity. Qed.

(* ---------- the machine ---------- *)

Definition set_tx (m : mode) (c : C) : C := std (as_raw_color C conv m c).
Definition black_tx : C := std black.

Lemma run_app cs1 : forall cs2 st st',
  run cs1 st = (st', true) -> run (cs1 ++ cs2) st = run cs2 st'.
Proof.
  induction cs1 as [|c cs1 IH]; intros cs2 st st' H; cbn [run app] in *.
  - inversion H. reflexivity.
  - destruct (exec c st) as [st1|]; [|discriminate]. apply IH. exact H.
Qed.

(* the registers after `colour ; stage-operand` *)
Definition stage_regs (s : stage) (st : state) : state :=
  mkState (unit_mode st) (reg_first (s_rows s)) (reg_last (s_rows s)) (reg_first (s_cols s)) (reg_last (s_cols s))
          (first_zone st) (last_zone st) OpMatrix (name_l st) (name_kind st) (s_colour s)
          (default st) (matrix st) (out st).

Lemma run_stage_operand (s : stage) rest st :
  run (CColour (s_colour s) :: stage_operand s ++ rest) st = run rest (stage_regs s st).
Proof. destruct s as [[[a b]|] [[c d]|] [|] col]; reflexivity. Qed.

Lemma exec_color_stage (s : stage) st m :
  matrix st = Some m ->
  exec CColor (stage_regs s st) =
  match overlay_color m (reg_first (s_rows s)) (reg_last (s_rows s)) (reg_first (s_cols s)) (reg_last (s_cols s)) (s_colour s) with
  | None => None
  | Some m' => Some (set_matrix_reg C (stage_regs s st) (Some m'))
  end.
Proof. intros H. cbn. unfold color_matrix. cbn. rewrite H. reflexivity. Qed.

Lemma stage_ok_guard h w (s : stage) t b l r :
  stage_ok C h w s = true ->
  clause_range (s_rows s) h = (t, b) -> clause_range (s_cols s) w = (l, r) ->
  b < t \/ r < l \/ (0 <= t /\ b < h /\ 0 <= l /\ r < w).
Proof.
  unfold stage_ok, range_empty. intros H Er Ec. rewrite Er, Ec in H. cbn [fst snd] in H.
  apply orb_true_iff in H. destruct H as [H|H].
  - apply orb_true_iff in H. destruct H as [H|H]; apply Z.ltb_lt in H; lia.
  - repeat (apply andb_true_iff in H; destruct H as [H ?]).
    apply Z.leb_le in H. apply Z.ltb_lt in H0. apply Z.leb_le in H1. apply Z.ltb_lt in H2. lia.
Qed.

Lemma hits_in_range n a b x : 0 <= a -> 0 <= x < n ->
  (hits n (zrange a (b + 1)) x <-> a <= x <= b).
Proof.
  intros Ha Hx. split.
  - intros [y [Hy Ey]]. apply zrange_In in Hy. unfold wrap in Ey.
    destruct (y <? 0) eqn:E; [apply Z.ltb_lt in E; lia|]. lia.
  - intros H. exists x. split; [apply zrange_In; lia|]. unfold wrap.
    destruct (x <? 0) eqn:E; [apply Z.ltb_lt in E; lia|reflexivity].
Qed.

Lemma covered_iff h w t b l r rr cc :
  (b < t \/ r < l \/ (0 <= t /\ b < h /\ 0 <= l /\ r < w)) -> 0 <= rr < h -> 0 <= cc < w ->
  (hits h (zrange t (b + 1)) rr /\ hits w (zrange l (r + 1)) cc <->
   in_range (t, b) rr && in_range (l, r) cc = true).
Proof.
  intros G Hr Hc. unfold in_range. cbn [fst snd].
  rewrite !andb_true_iff, !Z.leb_le.
  destruct G as [G|[G|G]].
  - split.
    + intros [[y [Hy _]] _]. apply zrange_In in Hy. lia.
    + lia.
  - split.
    + intros [_ [y [Hy _]]]. apply zrange_In in Hy. lia.
    + lia.
  - rewrite (hits_in_range h t b rr) by lia. rewrite (hits_in_range w l r cc) by lia. lia.
Qed.

Definition outside_eq (st st' : state) : Prop :=
  unit_mode st' = unit_mode st /\ name_l st' = name_l st /\ name_kind st' = name_kind st /\
  default st' = default st /\ out st' = out st.

(* The stages of a block, any number of them: the matrix register ends up holding, at
   every cell, the colour of the last stage that covers it, else what it held before. *)
Lemma run_stages h w (ss : list stage) : forall st m rest,
  matrix st = Some m -> m_height m = h -> m_width m = w -> wf h w (m_rows m) ->
  forallb (stage_ok C h w) ss = true ->
  exists st' m', run (flat_map compile_stage ss ++ rest) st = run rest st' /\
    outside_eq st st' /\ matrix st' = Some m' /\ m_height m' = h /\ m_width m' = w /\ wf h w (m_rows m') /\
    forall r c, 0 <= r < h -> 0 <= c < w ->
      cell (m_rows m') r c =
      match last_covering C h w ss r c with Some x => Some x | None => cell (m_rows m) r c end.
Proof.
  induction ss as [|s ss IH]; intros st m rest Hm Hh Hw Hwf Hok.
  - exists st, m. cbn [flat_map app]. split; [reflexivity|]. split; [repeat split; reflexivity|].
    repeat (split; [assumption|]). intros r c _ _. reflexivity.
  - cbn [forallb] in Hok. apply andb_true_iff in Hok. destruct Hok as [Hs Hss].
    cbn [flat_map]. unfold compile_stage at 1. rewrite <- app_assoc. rewrite <- app_comm_cons.
    rewrite <- app_assoc. rewrite run_stage_operand.
    cbn [app run]. rewrite (exec_color_stage s st m Hm).
    destruct (clause_range (s_rows s) h) as [t b] eqn:Er.
    destruct (clause_range (s_cols s) w) as [l r0] eqn:Ec.
    pose proof (stage_ok_guard h w s t b l r0 Hs Er Ec) as G.
    destruct Hwf as (Hh0 & Hw0 & Hl & Hf).
    assert (Hwf : wf (m_height m) (m_width m) (m_rows m)) by (rewrite Hh, Hw; repeat split; assumption).
    destruct (overlay_ok m (reg_first (s_rows s)) (reg_last (s_rows s)) (reg_first (s_cols s)) (reg_last (s_cols s))
                (s_colour s) t b l r0 Hwf) as (m1 & E1 & H1 & W1 & Wf1 & C1).
    { rewrite norm_clause, Hh. exact Er. }
    { rewrite norm_clause, Hw. exact Ec. }
    { rewrite Hh, Hw. destruct G as [G|[G|G]]; [left; exact G|right; left; exact G|right; right; lia]. }
    rewrite E1.
    rewrite Hh in H1. rewrite Hw in W1. rewrite Hh, Hw in Wf1. rewrite Hh, Hw in C1.
    destruct (IH (set_matrix_reg C (stage_regs s st) (Some m1)) m1 rest eq_refl H1 W1 Wf1 Hss)
      as (st' & m' & Erun & Hout & Hm' & Hh' & Hw' & Wf' & C').
    exists st', m'. split; [exact Erun|]. split.
    { destruct Hout as (O1 & O2 & O3 & O4 & O5). repeat split; assumption. }
    repeat (split; [assumption|]).
    intros rr cc Hr Hc. rewrite (C' rr cc Hr Hc). cbn [last_covering].
    destruct (last_covering C h w ss rr cc) as [x|]; [reflexivity|].
    destruct (C1 rr cc Hr Hc) as [C1a C1b].
    pose proof (covered_iff h w t b l r0 rr cc G Hr Hc) as Hiff.
    unfold covers. rewrite Er, Ec.
    destruct (in_range (t, b) rr && in_range (l, r0) cc) eqn:Ecov.
    + apply C1a. apply Hiff. reflexivity.
    + apply C1b. intros Hc'. apply Hiff in Hc'. discriminate.
Qed.

(* COLOR with operand MATRIX_LIGHT on a matrix light *)
Lemma color_matrix_light_sends st m h w :
  name_kind st = KMatrix h w -> matrix st = Some m ->
  exists st', color_matrix_light C std conv black st = Some st' /\
    unit_mode st' = unit_mode st /\ default st' = default st /\
    out st' = out st ++
      [EMatrix (name_l st) (m_height m) (m_width m)
         (get_colors C std (find_replace_none C (as_raw_matrix C std conv (unit_mode st) m)
                              (match default st with Some d => d | None => black end)))].
Proof.
  intros Hk Hm. unfold color_matrix_light. rewrite Hk, Hm.
  destruct (unit_mode st) eqn:Em; eexists; (split; [reflexivity|]); cbn; rewrite ?Em;
    repeat split; try reflexivity; destruct m; reflexivity.
Qed.

Lemma as_raw_matrix_wf h w mo (m : cmatrix) :
  wf h w (m_rows m) -> wf h w (m_rows (as_raw_matrix C std conv mo m)).
Proof.
  intros Hwf. unfold as_raw_matrix. destruct mo; cbn [mat_map m_rows]; try apply wf_map; exact Hwf.
Qed.

Lemma as_raw_matrix_cell h w mo (m : cmatrix) r c :
  wf h w (m_rows m) -> 0 <= r < h -> 0 <= c < w ->
  cell (m_rows (as_raw_matrix C std conv mo m)) r c = option_map (as_raw_color C conv mo) (cell (m_rows m) r c).
Proof.
  intros Hwf Hr Hc. unfold as_raw_matrix. rewrite as_raw_matrix_unrounded.
  destruct mo; cbn [mat_map m_rows as_raw_color].
  - apply (cell_map h w); assumption.
  - destruct (cell (m_rows m) r c); reflexivity.
  - apply (cell_map h w); assumption.
Qed.

(* what the device receives for a matrix register whose cells are given by last_covering *)
Lemma transmitted_matrix h w mo (m : cmatrix) (ss : list stage) (d : option C) :
  m_height m = h -> m_width m = w -> wf h w (m_rows m) ->
  (forall r c, 0 <= r < h -> 0 <= c < w ->
     cell (m_rows m) r c = match last_covering C h w ss r c with Some x => Some x | None => None end) ->
  get_colors C std (find_replace_none C (as_raw_matrix C std conv mo m) (match d with Some x => x | None => black end))
  = map Some (spec_matrix C set_tx black_tx mo h w ss (option_map std d)).
Proof.
  intros Hh Hw Hwf Hcells.
  unfold get_colors, as_list, find_replace_none, mat_map. cbn [m_rows].
  rewrite concat_map.
  pose proof (as_raw_matrix_wf h w mo m Hwf) as W1.
  unfold spec_matrix. rewrite map_flat_map.
  erewrite (table_of_cells h w).
  2:{ apply wf_map. apply wf_map. exact W1. }
  2:{ intros r c Hr Hc.
      rewrite (cell_map h w) by (try apply wf_map; assumption).
      rewrite (cell_map h w) by assumption.
      rewrite (as_raw_matrix_cell h w mo m r c Hwf Hr Hc), (Hcells r c Hr Hc). reflexivity. }
  apply flat_map_ext. intros r. rewrite map_map. apply map_ext. intros c.
  unfold spec_cell, set_tx, black_tx.
  destruct (last_covering C h w ss r c) as [x|]; cbn [option_map]; [reflexivity|].
  destruct d; reflexivity.
Qed.

(* ---------- statements ---------- *)

Definition with_operand (st : state) (o : operand_t) : state :=
  mkState (unit_mode st) (first_row st) (last_row st) (first_column st) (last_column st)
          (first_zone st) (last_zone st) o (name_l st) (name_kind st)
          (colour st) (default st) (matrix st) (out st).

Lemma run_matrix_tail st m h w rest :
  name_kind st = KMatrix h w -> matrix st = Some m ->
  exists st', run (matrix_tail C ++ rest) st = run rest st' /\
    unit_mode st' = unit_mode st /\ default st' = default st /\
    out st' = out st ++
      [EMatrix (name_l st) (m_height m) (m_width m)
         (get_colors C std (find_replace_none C (as_raw_matrix C std conv (unit_mode st) m)
                              (match default st with Some d => d | None => black end)))].
Proof.
  intros Hk Hm.
  destruct (color_matrix_light_sends (with_operand st OpMatrixLight) m h w Hk Hm) as (st' & E & U & D & O).
  exists st'. split; [|split; [exact U|split; [exact D|exact O]]].
  unfold matrix_tail. cbn [app run]. change (exec CEndMatrix st) with (Some st). cbv iota.
  change (exec (COperand OpMatrixLight) st) with (Some (with_operand st OpMatrixLight)). cbv iota.
  change (exec CColor (with_operand st OpMatrixLight))
    with (color_matrix_light C std conv black (with_operand st OpMatrixLight)).
  rewrite E. reflexivity.
Qed.

Lemma run_block l h w (ss : list stage) rest st :
  0 <= h -> 0 <= w -> forallb (stage_ok C h w) ss = true ->
  exists st', run (compile_stmt (SBlock l h w ss) ++ rest) st = run rest st' /\
    unit_mode st' = unit_mode st /\ default st' = default st /\
    out st' = out st ++
      [EMatrix l h w (map Some (spec_matrix C set_tx black_tx (unit_mode st) h w ss (option_map std (default st))))].
Proof.
  intros Hh Hw Hok.
  set (st0 := mkState (unit_mode st) (first_row st) (last_row st) (first_column st) (last_column st)
                      (first_zone st) (last_zone st) (operand st) l (KMatrix h w)
                      (colour st) (default st) (Some (new_from_constant C h w None)) (out st)).
  assert (E0 : run (compile_stmt (SBlock l h w ss) ++ rest) st
               = run (flat_map compile_stage ss ++ (matrix_tail C ++ rest)) st0).
  { unfold compile_stmt. rewrite <- !app_assoc. reflexivity. }
  destruct (run_stages h w ss st0 (new_from_constant C h w None) (matrix_tail C ++ rest))
    as (st1 & m1 & E1 & (U1 & N1 & K1 & D1 & O1) & M1 & H1 & W1 & Wf1 & C1);
    try reflexivity; [apply new_from_constant_wf; assumption|exact Hok|].
  destruct (run_matrix_tail st1 m1 h w rest) as (st2 & E2 & U2 & D2 & O2); [rewrite K1; reflexivity|exact M1|].
  exists st2. split; [rewrite E0, E1, E2; reflexivity|].
  split; [rewrite U2, U1; reflexivity|]. split; [rewrite D2, D1; reflexivity|].
  rewrite O2, O1, N1, H1, W1, U1, D1. cbn [st0 out name_l unit_mode default].
  f_equal. f_equal. f_equal.
  apply (transmitted_matrix h w); try assumption.
  intros r c Hr Hc. rewrite (C1 r c Hr Hc). rewrite new_from_constant_cell by assumption. reflexivity.
Qed.

(* the one-line form is the block with the single stage *)
Lemma inline_is_block l h w (s : stage) rest st :
  run (compile_stmt (SInline l h w s) ++ rest) st = run (compile_stmt (SBlock l h w [s]) ++ rest) st.
Proof.
  unfold compile_stmt, compile_stage. cbn [flat_map]. rewrite <- !app_assoc. cbn [app]. rewrite <- !app_assoc.
  reflexivity.
Qed.

Lemma py_round_index v : py_round v = index_of v.
Proof. destruct v; reflexivity. Qed.

Lemma param_16_id v : 0 <= index_of v <= 65535 -> param_16 v = index_of v.
Proof. intros H. unfold param_16, clamp16. rewrite py_round_index. lia. Qed.

Lemma param_16_succ v : not_tie v = true -> 0 <= index_of v + 1 <= 65535 ->
  param_16 (num_succ v) = index_of v + 1.
Proof.
  intros Ht H. unfold param_16, clamp16. destruct v as [z|n d]; cbn [num_succ py_round index_of] in *.
  - lia.
  - rewrite round_succ; [lia|lia|]. cbn [not_tie] in Ht. apply negb_true_iff in Ht. apply Z.eqb_neq in Ht. exact Ht.
Qed.

Lemma run_zone l c a b rest st :
  zone_ok a b = true ->
  exists st', run (compile_stmt (SZone l c a b) ++ rest) st = run rest st' /\
    unit_mode st' = unit_mode st /\ default st' = default st /\
    out st' = out st ++ [EZone l (fst (spec_zone a b)) (snd (spec_zone a b)) (set_tx (unit_mode st) c)].
Proof.
  intros Hok. unfold zone_ok in Hok.
  repeat (apply andb_true_iff in Hok; destruct Hok as [Hok ?]).
  apply Z.leb_le in Hok. apply Z.leb_le in H0. apply Z.leb_le in H1. apply Z.leb_le in H2.
  cbn [spec_zone fst snd] in *.
  eexists. split; [reflexivity|]. cbn. split; [reflexivity|]. split; [reflexivity|].
  f_equal. f_equal. f_equal.
  - apply param_16_id. lia.
  - destruct b as [y|]; apply param_16_succ; try assumption; lia.
Qed.

Definition embed (e : sevent C) : event C :=
  match e with
  | SESet l tx => ESet l tx
  | SEZone l a b tx => EZone l a b tx
  | SEMatrix l h w cells => EMatrix l h w (map Some cells)
  end.

(* Every script whose statements are inside the domain runs to its end and makes the
   devices receive exactly the events the specification lists, in that order. *)
Theorem script_meets_spec : forall (prog : list (stmt C)) st,
  forallb (stmt_ok C) prog = true ->
  exists st', run (compile prog) st = (st', true) /\
    out st' = out st ++ map embed (spec_run C set_tx black_tx prog (unit_mode st) (option_map std (default st))).
Proof.
  induction prog as [|s prog IH]; intros st Hok.
  - exists st. split; [reflexivity|]. cbn. rewrite app_nil_r. reflexivity.
  - cbn [forallb] in Hok. apply andb_true_iff in Hok. destruct Hok as [Hs Hp].
    unfold compile. cbn [flat_map]. fold (compile prog).
    destruct s as [m|c|l c|l c a b|l h w s|l h w ss]; cbn [stmt_ok] in Hs.
    + (* units *)
      destruct (IH (mkState m (first_row st) (last_row st) (first_column st) (last_column st)
                      (first_zone st) (last_zone st) (operand st) (name_l st) (name_kind st)
                      (if match unit_mode st, m with
                          | Logical, Logical | Raw, Raw | Rgb, Rgb => true | _, _ => false end
                       then colour st else switch (unit_mode st) m (colour st))
                      (default st) (matrix st) (out st)) Hp) as (st' & E & O).
      exists st'. split; [exact E|exact O].
    + (* set default *)
      destruct (IH (mkState (unit_mode st) (first_row st) (last_row st) (first_column st) (last_column st)
                      (first_zone st) (last_zone st) OpDefault (name_l st) (name_kind st) c
                      (Some (as_raw_color C conv (unit_mode st) c)) (matrix st) (out st)) Hp) as (st' & E & O).
      exists st'. split; [exact E|exact O].
    + (* plain set *)
      destruct (IH (mkState (unit_mode st) (first_row st) (last_row st) (first_column st) (last_column st)
                      (first_zone st) (last_zone st) OpLight l KPlain c
                      (default st) (matrix st) (out st ++ [ESet l (std (as_raw_color C conv (unit_mode st) c))])) Hp)
        as (st' & E & O).
      exists st'. split; [exact E|]. rewrite O. cbn [out unit_mode default spec_run map embed].
      rewrite <- app_assoc. reflexivity.
    + (* zone *)
      destruct (run_zone l c a b (compile prog) st Hs) as (st1 & E1 & U1 & D1 & O1).
      destruct (IH st1 Hp) as (st' & E & O).
      exists st'. split; [rewrite E1; exact E|].
      rewrite O, O1, U1, D1. cbn [spec_run map embed]. rewrite <- app_assoc. reflexivity.
    + (* one-line matrix command *)
      apply andb_true_iff in Hs. destruct Hs as [Hs Hst]. apply andb_true_iff in Hs. destruct Hs as [Hh Hw].
      apply Z.leb_le in Hh. apply Z.leb_le in Hw.
      destruct (run_block l h w [s] (compile prog) st Hh Hw) as (st1 & E1 & U1 & D1 & O1).
      { cbn [forallb]. rewrite Hst. reflexivity. }
      destruct (IH st1 Hp) as (st' & E & O).
      exists st'. split; [rewrite inline_is_block, E1; exact E|].
      rewrite O, O1, U1, D1. cbn [spec_run map embed]. rewrite <- app_assoc. reflexivity.
    + (* block *)
      apply andb_true_iff in Hs. destruct Hs as [Hs Hst]. apply andb_true_iff in Hs. destruct Hs as [Hh Hw].
      apply Z.leb_le in Hh. apply Z.leb_le in Hw.
      destruct (run_block l h w ss (compile prog) st Hh Hw Hst) as (st1 & E1 & U1 & D1 & O1).
      destruct (IH st1 Hp) as (st' & E & O).
      exists st'. split; [rewrite E1; exact E|].
      rewrite O, O1, U1, D1. cbn [spec_run map embed]. rewrite <- app_assoc. reflexivity.
Qed.

(* ---------- row-major position of a cell in the transmitted list ---------- *)

Lemma map_zrange_nth {A} (g : Z -> A) w c d : 0 <= c < w -> nth (Z.to_nat c) (map g (zrange 0 w)) d = g c.
Proof.
  intros Hc. rewrite (nth_indep _ d (g 0)) by (rewrite map_length, zrange_length; lia).
  rewrite map_nth. unfold zrange. rewrite zrange_aux_nth by lia. f_equal. lia.
Qed.

Lemma flat_table_nth {A} (f : Z -> Z -> A) w d : 0 <= w -> forall n a r c,
  0 <= r < Z.of_nat n -> 0 <= c < w ->
  nth (Z.to_nat (r * w + c)) (flat_map (fun x => map (f x) (zrange 0 w)) (zrange_aux n a)) d = f (a + r) c.
Proof.
  intros Hw. induction n as [|n IH]; intros a r c Hr Hc; [lia|].
  cbn [zrange_aux flat_map].
  assert (L : length (map (f a) (zrange 0 w)) = Z.to_nat w) by (rewrite map_length, zrange_length; f_equal; lia).
  destruct (Z.eq_dec r 0) as [E|E].
  - subst r. rewrite app_nth1 by (rewrite L; lia).
    replace (0 * w + c) with c by ring. rewrite map_zrange_nth by lia. f_equal. lia.
  - rewrite app_nth2 by (rewrite L; nia). rewrite L.
    replace (Z.to_nat (r * w + c) - Z.to_nat w)%nat with (Z.to_nat ((r - 1) * w + c)) by nia.
    rewrite IH by lia. f_equal. lia.
Qed.

Lemma flat_table_length {A} (f : Z -> Z -> A) w : 0 <= w -> forall n a,
  length (flat_map (fun x => map (f x) (zrange 0 w)) (zrange_aux n a)) = (n * Z.to_nat w)%nat.
Proof.
  intros Hw. induction n as [|n IH]; intros a; cbn [zrange_aux flat_map]; [reflexivity|].
  rewrite app_length, IH, map_length, zrange_length. replace (w - 0) with w by ring. lia.
Qed.

Lemma spec_matrix_nth mo h w (ss : list stage) dtx r c d : 0 <= w -> 0 <= r < h -> 0 <= c < w ->
  nth (Z.to_nat (r * w + c)) (spec_matrix C set_tx black_tx mo h w ss dtx) d
  = spec_cell C set_tx black_tx mo h w ss dtx r c.
Proof.
  intros Hw Hr Hc. unfold spec_matrix, zrange at 2.
  rewrite (flat_table_nth (fun r c => spec_cell C set_tx black_tx mo h w ss dtx r c) w d Hw) by lia.
  f_equal.
Qed.

Lemma spec_matrix_length mo h w (ss : list stage) dtx : 0 <= h -> 0 <= w ->
  length (spec_matrix C set_tx black_tx mo h w ss dtx) = Z.to_nat (h * w).
Proof.
  intros Hh Hw. unfold spec_matrix, zrange at 2.
  rewrite (flat_table_length (fun r c => spec_cell C set_tx black_tx mo h w ss dtx r c) w Hw). nia.
Qed.

Lemma cells_ext {A} h w (l1 l2 : list A) d : 0 <= h -> 0 <= w ->
  length l1 = Z.to_nat (h * w) -> length l2 = Z.to_nat (h * w) ->
  (forall r c, 0 <= r < h -> 0 <= c < w -> nth (Z.to_nat (r * w + c)) l1 d = nth (Z.to_nat (r * w + c)) l2 d) ->
  l1 = l2.
Proof.
  intros Hh Hw L1 L2 Hn. apply (nth_ext _ _ d d); [rewrite L1, L2; reflexivity|].
  intros n Hlt. rewrite L1 in Hlt.
  destruct (Z.eq_dec w 0) as [Hw0|Hw0]; [subst w; replace (h * 0) with 0 in Hlt by ring; lia|].
  set (r := Z.of_nat n / w). set (c := Z.of_nat n mod w).
  assert (Hc : 0 <= c < w) by (apply Z.mod_pos_bound; lia).
  assert (En : Z.of_nat n = r * w + c) by (unfold r, c; rewrite Z.mul_comm; apply Z.div_mod; lia).
  assert (Hr : 0 <= r < h).
  { split; [apply Z.div_pos; lia|]. apply Z.div_lt_upper_bound; [lia|]. nia. }
  replace n with (Z.to_nat (r * w + c)) by lia. apply Hn; assumption.
Qed.

(* ---------- the named statements of C15 ---------- *)

Lemma compile_single (s : stmt C) : compile [s] = compile_stmt s ++ [].
Proof. unfold compile. cbn [flat_map]. reflexivity. Qed.

(* the final colour of a cell, as the specification words it *)
Definition cell_tx (mo : mode) (h w : Z) (ss : list stage) (d : option C) (r c : Z) : C :=
  match last_covering C h w ss r c with
  | Some col => std (as_raw_color C conv mo col)
  | None => match d with Some x => std x | None => std black end
  end.

Lemma spec_cell_cell_tx mo h w ss d r c :
  spec_cell C set_tx black_tx mo h w ss (option_map std d) r c = cell_tx mo h w ss d r c.
Proof. unfold spec_cell, cell_tx, set_tx, black_tx. destruct (last_covering C h w ss r c); [reflexivity|]. destruct d; reflexivity. Qed.

Theorem zone_exact l c a b st :
  zone_ok a b = true ->
  let e := match b with Some y => y | None => a end in
  exists st', run (compile [SZone l c a b]) st = (st', true) /\
    out st' = out st ++ [EZone l (index_of a) (index_of e + 1) (std (as_raw_color C conv (unit_mode st) c))] /\
    forall z, In z (zrange (index_of a) (index_of e + 1)) <-> index_of a <= z <= index_of e.
Proof.
  intros Hok e.
  destruct (script_meets_spec [SZone l c a b] st) as (st' & E & O); [cbn [forallb stmt_ok]; rewrite Hok; reflexivity|].
  exists st'. split; [exact E|]. split.
  - rewrite O. reflexivity.
  - intros z. rewrite zrange_In. lia.
Qed.

Theorem matrix_cells l h w (ss : list stage) st :
  0 <= h -> 0 <= w -> forallb (stage_ok C h w) ss = true ->
  exists st' cells, run (compile [SBlock l h w ss]) st = (st', true) /\
    out st' = out st ++ [EMatrix l h w cells] /\
    length cells = Z.to_nat (h * w) /\
    forall r c, 0 <= r < h -> 0 <= c < w ->
      nth (Z.to_nat (r * w + c)) cells None = Some (cell_tx (unit_mode st) h w ss (default st) r c).
Proof.
  intros Hh Hw Hok.
  destruct (script_meets_spec [SBlock l h w ss] st) as (st' & E & O).
  { cbn [forallb stmt_ok]. rewrite Hok.
    replace (0 <=? h) with true by (symmetry; apply Z.leb_le; exact Hh).
    replace (0 <=? w) with true by (symmetry; apply Z.leb_le; exact Hw). reflexivity. }
  exists st'. eexists. split; [exact E|]. split; [rewrite O; reflexivity|]. split.
  - rewrite map_length. apply spec_matrix_length; assumption.
  - intros r c Hr Hc.
    rewrite (nth_indep _ None (Some black)) by (rewrite map_length, spec_matrix_length by assumption; nia).
    rewrite map_nth. rewrite spec_matrix_nth by assumption. rewrite spec_cell_cell_tx. reflexivity.
Qed.

(* exactly one tile message, carrying the whole matrix, and nothing else, for either form *)
Theorem matrix_sent_once (s : stmt C) st :
  (exists l h w ss, s = SBlock l h w ss) \/ (exists l h w sg, s = SInline l h w sg) ->
  stmt_ok C s = true ->
  exists st' l h w cells, run (compile [s]) st = (st', true) /\
    out st' = out st ++ [EMatrix l h w cells] /\ length cells = Z.to_nat (h * w).
Proof.
  intros Hform Hok.
  destruct (script_meets_spec [s] st) as (st' & E & O); [cbn [forallb]; rewrite Hok; reflexivity|].
  destruct Hform as [(l & h & w & ss & Es)|(l & h & w & sg & Es)]; subst s;
    cbn [stmt_ok] in Hok;
    apply andb_true_iff in Hok; destruct Hok as [Hok _]; apply andb_true_iff in Hok; destruct Hok as [Hh Hw];
    apply Z.leb_le in Hh; apply Z.leb_le in Hw;
    exists st', l, h, w; eexists; (split; [exact E|]); (split; [rewrite O; reflexivity|]);
    rewrite map_length; apply spec_matrix_length; assumption.
Qed.

Theorem inline_equals_block l h w (sg : stage) st :
  run (compile [SInline l h w sg]) st = run (compile [SBlock l h w [sg]]) st.
Proof. rewrite !compile_single. apply inline_is_block. Qed.

(* two stages that denote the same ranges and carry the same colour are interchangeable *)
Definition stage_equiv (h w : Z) (s s' : stage) : Prop :=
  clause_range (s_rows s) h = clause_range (s_rows s') h /\
  clause_range (s_cols s) w = clause_range (s_cols s') w /\
  s_colour s = s_colour s'.

Lemma equiv_last_covering h w (ss ss' : list stage) r c :
  Forall2 (stage_equiv h w) ss ss' -> last_covering C h w ss r c = last_covering C h w ss' r c.
Proof.
  induction 1 as [|s s' ss ss' (E1 & E2 & E3) _ IH]; [reflexivity|].
  cbn [last_covering]. rewrite IH. unfold covers. rewrite E1, E2, E3. reflexivity.
Qed.

Lemma equiv_stage_ok h w (ss ss' : list stage) :
  Forall2 (stage_equiv h w) ss ss' -> forallb (stage_ok C h w) ss = forallb (stage_ok C h w) ss'.
Proof.
  induction 1 as [|s s' ss ss' (E1 & E2 & E3) _ IH]; [reflexivity|].
  cbn [forallb]. rewrite IH. unfold stage_ok. rewrite E1, E2. reflexivity.
Qed.

Lemma equiv_refl h w (ss : list stage) : Forall2 (stage_equiv h w) ss ss.
Proof. induction ss; constructor; [repeat split|assumption]. Qed.

Theorem block_depends_on_ranges_only l h w (ss ss' : list stage) st :
  0 <= h -> 0 <= w -> forallb (stage_ok C h w) ss = true -> Forall2 (stage_equiv h w) ss ss' ->
  exists st1 st2, run (compile [SBlock l h w ss]) st = (st1, true) /\
    run (compile [SBlock l h w ss']) st = (st2, true) /\ out st1 = out st2.
Proof.
  intros Hh Hw Hok Heq.
  assert (Hok' : forallb (stage_ok C h w) ss' = true) by (rewrite <- (equiv_stage_ok h w ss ss' Heq); exact Hok).
  destruct (matrix_cells l h w ss st Hh Hw Hok) as (st1 & cells1 & E1 & O1 & L1 & C1).
  destruct (matrix_cells l h w ss' st Hh Hw Hok') as (st2 & cells2 & E2 & O2 & L2 & C2).
  exists st1, st2. split; [exact E1|]. split; [exact E2|].
  rewrite O1, O2. f_equal. f_equal. f_equal.
  apply (cells_ext h w _ _ None Hh Hw L1 L2).
  intros r c Hr Hc. rewrite (C1 r c Hr Hc), (C2 r c Hr Hc). unfold cell_tx.
  rewrite (equiv_last_covering h w ss ss' r c Heq). reflexivity.
Qed.

Lemma equiv_middle h w (ss1 ss2 : list stage) s s' :
  stage_equiv h w s s' -> Forall2 (stage_equiv h w) (ss1 ++ s :: ss2) (ss1 ++ s' :: ss2).
Proof.
  intros H. apply Forall2_app; [apply equiv_refl|]. constructor; [exact H|apply equiv_refl].
Qed.

(* no row clause = rows 0 .. height-1; no column clause = columns 0 .. width-1 *)
Theorem omitted_means_full_extent l h w (ss1 ss2 : list stage) rows cols cf cf' col st :
  0 <= h -> 0 <= w ->
  let full n := Some (mkClause (NInt 0) (Some (NInt (n - 1)))) in
  forall s s', (s = mkStage None cols cf col /\ s' = mkStage (full h) cols cf' col) \/
               (s = mkStage rows None cf col /\ s' = mkStage rows (full w) cf' col) ->
  forallb (stage_ok C h w) (ss1 ++ s :: ss2) = true ->
  exists st1 st2, run (compile [SBlock l h w (ss1 ++ s :: ss2)]) st = (st1, true) /\
    run (compile [SBlock l h w (ss1 ++ s' :: ss2)]) st = (st2, true) /\ out st1 = out st2.
Proof.
  intros Hh Hw full s s' Hs Hok.
  apply block_depends_on_ranges_only; try assumption. apply equiv_middle.
  destruct Hs as [[E E']|[E E']]; subst s s'; repeat split.
Qed.

(* `row a` = `row a a` *)
Theorem omitted_end_equals_start l h w (ss1 ss2 : list stage) a rows cols cf cf' col st :
  0 <= h -> 0 <= w ->
  let one := Some (mkClause a None) in let two := Some (mkClause a (Some a)) in
  forall s s', (s = mkStage one cols cf col /\ s' = mkStage two cols cf' col) \/
               (s = mkStage rows one cf col /\ s' = mkStage rows two cf' col) ->
  forallb (stage_ok C h w) (ss1 ++ s :: ss2) = true ->
  exists st1 st2, run (compile [SBlock l h w (ss1 ++ s :: ss2)]) st = (st1, true) /\
    run (compile [SBlock l h w (ss1 ++ s' :: ss2)]) st = (st2, true) /\ out st1 = out st2.
Proof.
  intros Hh Hw one two s s' Hs Hok.
  apply block_depends_on_ranges_only; try assumption. apply equiv_middle.
  destruct Hs as [[E E']|[E E']]; subst s s'; repeat split.
Qed.

(* a cell covered by a stage carries exactly what a plain `set` of that stage's colour
   transmits in the same unit mode *)
Theorem cell_conversion_is_set_conversion l l' h w (ss : list stage) st st0 r c col :
  0 <= h -> 0 <= w -> forallb (stage_ok C h w) ss = true ->
  unit_mode st0 = unit_mode st -> 0 <= r < h -> 0 <= c < w ->
  last_covering C h w ss r c = Some col ->
  exists st' cells stp tx,
    run (compile [SBlock l h w ss]) st = (st', true) /\ out st' = out st ++ [EMatrix l h w cells] /\
    run (compile [SPlain l' col]) st0 = (stp, true) /\ out stp = out st0 ++ [ESet l' tx] /\
    nth (Z.to_nat (r * w + c)) cells None = Some tx /\
    tx = std (as_raw_color C conv (unit_mode st) col).
Proof.
  intros Hh Hw Hok Hm Hr Hc Hcov.
  destruct (matrix_cells l h w ss st Hh Hw Hok) as (st' & cells & E & O & L & Cs).
  exists st', cells. eexists. eexists. split; [exact E|]. split; [exact O|].
  split; [reflexivity|]. cbn [out]. split; [reflexivity|]. split.
  - rewrite (Cs r c Hr Hc). unfold cell_tx. rewrite Hcov, Hm. reflexivity.
  - rewrite Hm. reflexivity.
Qed.

(* what _as_raw_matrix does to a cell on either shape of the source (no shape lemma used):
   with the repair of D25 the colour is converted as it is, on the pinned text it is
   clamped and rounded first *)
Lemma as_raw_matrix_cell_shape h w mo (m : cmatrix) r c :
  wf h w (m_rows m) -> 0 <= r < h -> 0 <= c < w ->
  cell (m_rows (as_raw_matrix C std conv mo m)) r c =
  option_map (fun x => match mo with
                       | Raw => x
                       | _ => conv mo (if shape_as_raw_matrix_unrounded then x else std x)
                       end) (cell (m_rows m) r c).
Proof.
  intros Hwf Hr Hc. unfold as_raw_matrix.
  destruct mo; cbn [mat_map m_rows].
  - rewrite (cell_map h w) by assumption. destruct (cell (m_rows m) r c); destruct shape_as_raw_matrix_unrounded; reflexivity.
  - destruct (cell (m_rows m) r c); reflexivity.
  - rewrite (cell_map h w) by assumption. destruct (cell (m_rows m) r c); destruct shape_as_raw_matrix_unrounded; reflexivity.
Qed.

(* ---------- outside the domain ---------- *)

(* a stage with non-empty ranges and a number outside [-h, h) x [-w, w) raises IndexError:
   the script stops there and the block transmits nothing *)
Theorem out_of_range_aborts l h w (ss1 ss2 : list stage) (s : stage) st t b le ri :
  0 <= h -> 0 <= w -> forallb (stage_ok C h w) ss1 = true ->
  clause_range (s_rows s) h = (t, b) -> clause_range (s_cols s) w = (le, ri) ->
  t <= b -> le <= ri -> (t < - h \/ h <= b \/ le < - w \/ w <= ri) ->
  exists st', run (compile [SBlock l h w (ss1 ++ s :: ss2)]) st = (st', false) /\ out st' = out st.
Proof.
  intros Hh Hw Hok Er Ec Htb Hlr Hout.
  set (st0 := mkState (unit_mode st) (first_row st) (last_row st) (first_column st) (last_column st)
                      (first_zone st) (last_zone st) (operand st) l (KMatrix h w)
                      (colour st) (default st) (Some (new_from_constant C h w None)) (out st)).
  assert (E0 : run (compile [SBlock l h w (ss1 ++ s :: ss2)]) st
               = run (flat_map compile_stage ss1 ++ (compile_stage s ++ flat_map compile_stage ss2 ++ matrix_tail C ++ [])) st0).
  { rewrite compile_single. unfold compile_stmt. rewrite flat_map_app. cbn [flat_map]. rewrite <- !app_assoc. reflexivity. }
  destruct (run_stages h w ss1 st0 (new_from_constant C h w None)
              (compile_stage s ++ flat_map compile_stage ss2 ++ matrix_tail C ++ []))
    as (st1 & m1 & E1 & (U1 & N1 & K1 & D1 & O1) & M1 & H1 & W1 & Wf1 & C1);
    try reflexivity; [apply new_from_constant_wf; assumption|exact Hok|].
  rewrite E0, E1. unfold compile_stage. rewrite <- app_comm_cons. rewrite <- app_assoc.
  rewrite run_stage_operand. cbn [app run]. rewrite (exec_color_stage s st1 m1 M1).
  rewrite (overlay_bad m1 _ _ _ _ (s_colour s) t b le ri).
  - eexists. split; [reflexivity|]. cbn [stage_regs out]. rewrite O1. reflexivity.
  - rewrite H1, W1. exact Wf1.
  - rewrite norm_clause, H1. exact Er.
  - rewrite norm_clause, W1. exact Ec.
  - exact Htb.
  - exact Hlr.
  - rewrite H1, W1. exact Hout.
Qed.

(* numbers in [-h, 0) x [-w, 0) count from the end, as Python list indices do *)
Theorem negative_index_wraps (m : cmatrix) top bottom left right col t b le ri :
  let h := m_height m in let w := m_width m in
  wf h w (m_rows m) ->
  norm_pair (option_map index_of top) (option_map index_of bottom) h = (t, b) ->
  norm_pair (option_map index_of left) (option_map index_of right) w = (le, ri) ->
  - h <= t -> b < h -> - w <= le -> ri < w ->
  exists m', overlay_color m top bottom left right col = Some m' /\
    forall rr cc, 0 <= rr < h -> 0 <= cc < w ->
      ((exists x y, t <= x <= b /\ le <= y <= ri /\ rr = wrap h x /\ cc = wrap w y) ->
         cell (m_rows m') rr cc = Some col) /\
      (~ (exists x y, t <= x <= b /\ le <= y <= ri /\ rr = wrap h x /\ cc = wrap w y) ->
         cell (m_rows m') rr cc = cell (m_rows m) rr cc).
Proof.
  intros h w Hwf Er Ec H1 H2 H3 H4.
  destruct (overlay_ok m top bottom left right col t b le ri Hwf Er Ec) as (m' & E & _ & _ & _ & Cs).
  { right. right. repeat split; assumption. }
  exists m'. split; [exact E|]. intros rr cc Hr Hc. destruct (Cs rr cc Hr Hc) as [Ca Cb]. split.
  - intros (x & y & Hx & Hy & Ex & Ey). apply Ca. split.
    + exists x. split; [apply zrange_In; lia|exact Ex].
    + exists y. split; [apply zrange_In; lia|exact Ey].
  - intros Hn. apply Cb. intros [[x [Hx Ex]] [y [Hy Ey]]]. apply Hn. exists x, y.
    apply zrange_In in Hx. apply zrange_In in Hy. repeat split; try lia; assumption.
Qed.

(* a reversed range addresses nothing: the stage can be dropped *)
Theorem reversed_range_colours_nothing l h w (ss1 ss2 : list stage) (s : stage) st :
  0 <= h -> 0 <= w -> forallb (stage_ok C h w) (ss1 ++ s :: ss2) = true ->
  (range_empty (clause_range (s_rows s) h) = true \/ range_empty (clause_range (s_cols s) w) = true) ->
  exists st1 st2, run (compile [SBlock l h w (ss1 ++ s :: ss2)]) st = (st1, true) /\
    run (compile [SBlock l h w (ss1 ++ ss2)]) st = (st2, true) /\ out st1 = out st2.
Proof.
  intros Hh Hw Hok Hemp.
  assert (Hok2 : forallb (stage_ok C h w) (ss1 ++ ss2) = true).
  { rewrite forallb_app in *. cbn [forallb] in Hok. apply andb_true_iff in Hok. destruct Hok as [A B].
    apply andb_true_iff in B. destruct B as [_ B]. rewrite A, B. reflexivity. }
  destruct (matrix_cells l h w _ st Hh Hw Hok) as (st1 & cells1 & E1 & O1 & L1 & C1).
  destruct (matrix_cells l h w _ st Hh Hw Hok2) as (st2 & cells2 & E2 & O2 & L2 & C2).
  exists st1, st2. split; [exact E1|]. split; [exact E2|]. rewrite O1, O2. f_equal. f_equal. f_equal.
  apply (cells_ext h w _ _ None Hh Hw L1 L2). intros r c Hr Hc.
  rewrite (C1 r c Hr Hc), (C2 r c Hr Hc). f_equal. unfold cell_tx.
  replace (last_covering C h w (ss1 ++ s :: ss2) r c) with (last_covering C h w (ss1 ++ ss2) r c); [reflexivity|].
  clear - Hemp. induction ss1 as [|x ss1 IH]; cbn [app last_covering].
  - replace (covers C h w s r c) with false; [destruct (last_covering C h w ss2 r c); reflexivity|].
    unfold covers, in_range, range_empty in *. symmetry.
    destruct Hemp as [H|H]; apply Z.ltb_lt in H; apply andb_false_iff; [left|right];
      apply andb_false_iff; destruct (Z_le_dec (fst (clause_range (s_rows s) h)) r);
      destruct (Z_le_dec (fst (clause_range (s_cols s) w)) c);
      try (left; apply Z.leb_gt; lia); try (right; apply Z.leb_gt; lia).
  - rewrite IH. reflexivity.
Qed.

End Proofs.

(* ---------- non-vacuity: a 6x5 candle, three overlapping stages and a default ---------- *)

Module Candle.
  (* raw unit mode: colours are four integers, conversion is the identity, standardising clamps *)
  Definition colour := zcolour.
  Definition clamp := standardize_raw_z.
  Definition conv_id (m : mode) (c : colour) : colour := c.
  Definition switch_id (a b : mode) (c : colour) : colour := c.
  Definition black : colour := (0, 0, 0, 0).

  Definition dflt : colour := (1000, 2000, 3000, 2700).
  Definition c1 : colour := (10000, 2000, 3000, 2700).
  Definition c2 : colour := (20000, 2000, 3000, 2700).
  Definition c3 : colour := (30000, 70000, -5, 2700).     (* clamped on the wire *)
  Definition rg (a b : Z) := Some (mkClause (NInt a) (Some (NInt b))).
  Definition one (a : num) := Some (mkClause a None).

  (* stage row 1 2 column 1 2 ; stage column 2 4 row 2 4 ; stage row {9 / 2}   (4.5 -> row 4) *)
  Definition stages : list (stage colour) :=
    [mkStage (rg 1 2) (rg 1 2) false c1; mkStage (rg 2 4) (rg 2 4) true c2; mkStage (one (NFlt 9 2)) None false c3].
  Definition prog : list (stmt colour) :=
    [SUnits Raw; SDefault dflt; SBlock 7 6 5 stages; SZone 3 c1 (NInt 2) (Some (NInt 5)); SZone 3 c2 (NFlt 4 2) None].

  Example prog_in_domain : forallb (stmt_ok colour) prog = true.
  Proof. reflexivity. Qed.

  Definition d := clamp dflt.
  Definition x1 := clamp c1.
  Definition x2 := clamp c2.
  Definition x3 := clamp c3.

  Example candle_run :
    let '(st, ok) := run colour clamp conv_id switch_id black (compile colour prog) (initial black) in
    ok = true /\
    out st =
      [EMatrix 7 6 5 (map Some [d;  d;  d;  d;  d;
                                d;  x1; x1; d;  d;
                                d;  x1; x2; x2; x2;
                                d;  d;  x2; x2; x2;
                                x3; x3; x3; x3; x3;
                                d;  d;  d;  d;  d]);
       EZone 3 2 6 x1;
       EZone 3 2 3 x2].
  Proof. vm_compute. split; reflexivity. Qed.

  Example x3_clamped : x3 = (30000, 65535, 0, 2700).
  Proof. reflexivity. Qed.

  Lemma standardize_raw_z_idempotent c : standardize_raw_z (standardize_raw_z c) = standardize_raw_z c.
  Proof.
    assert (I : forall z, clamp16 (clamp16 z) = clamp16 z) by (intros z; unfold clamp16; lia).
    destruct c as [[[a b] c] d]. unfold standardize_raw_z. rewrite !I. reflexivity.
  Qed.

  (* the hypotheses of the out-of-domain theorems are satisfiable, too *)
  Example row_6_aborts :
    snd (run colour clamp conv_id switch_id black
           (compile colour [SBlock 7 6 5 [mkStage (one (NInt 6)) None false c1]]) (initial black)) = false.
  Proof. vm_compute. reflexivity. Qed.

  Example row_minus_1_is_row_5 :
    out (fst (run colour clamp conv_id switch_id black
           (compile colour [SUnits Raw; SBlock 7 6 5 [mkStage (one (NInt (-1))) (rg 0 0) false c1]]) (initial black)))
    = [EMatrix 7 6 5 (map Some (map (fun _ => black) (zrange 0 25) ++ [x1; black; black; black; black]))].
  Proof. vm_compute. reflexivity. Qed.
End Candle.
