(* C17: the compiler object and the machine as objects with history.
   The reset functions below bring back exactly those parts of the state that the source
   resets, as reported by the generated table Gen/ResetGen.v (tools/gen_reset.py): a field whose
   reset disappears from the source stays as the previous compile / run left it, and the
   theorems of HistoryProofs.v stop being provable. *)
From Coq Require Import ZArith String List Bool.
From Bardolph Require Import Gen.ResetGen Lang.Value Lang.Instr Lang.Loader Lang.World Lang.Regs Lang.Machine
  Lang.Syntax Front.Lexer Front.Parser.
Open Scope string_scope.
Open Scope list_scope.
Import ListNotations.
Open Scope bool_scope.

Definition fld_reset (name : string) : bool := existsb (String.eqb (String.append name ":reset")) reset_table.
Definition call_made (name : string) : bool := existsb (String.eqb name) reset_calls.

(* ---------- the compiler object ---------- *)
(* what Parser.parse does before it reads the first token *)
Definition parser_begin (old : pst) (toks : list token) : pst :=
  let ctx := call_made "Parser._context.clear" in
  mkP (if fld_reset "Parser._tokens" && fld_reset "Parser._current_token" then toks else p_toks old)
      (if ctx && fld_reset "Context._globals" then builtin_symbols else p_globals old)
      (if ctx && fld_reset "Context._locals" then [] else p_locals old)
      (if ctx && fld_reset "Context._in_routine" then false else p_in_routine old)
      (if ctx && fld_reset "Context._in_matrix" then false else p_in_matrix old)
      (if ctx && fld_reset "Context._loop_stack" then 0%nat else p_loops old).

Definition result_of (r : pres (list stmt)) : parse_result :=
  match r with POk p _ => Accepted p | PErr l => Rejected l | PUnm w => Unmodelled w | PFuel => Parser.OutOfFuel end.

(* compiling [text] with a compiler object that earlier work left in state [old] *)
Definition compile_on (old : pst) (text : string) : parse_result :=
  let toks := lex text in
  result_of (p_body (4 * length toks + 16)%nat (parser_begin old toks)).

(* the state an earlier compile can leave behind: any state reached while parsing, which for
   the theorems is simply any value of the record *)

(* ---------- the machine ---------- *)
(* Machine.reset followed by the loader's assignments; the devices are as they are *)
Definition machine_begin (old : mstate) (w : world) : mstate :=
  let regs := call_made "Machine._reg.reset" in
  let stack := call_made "Machine._call_stack.reset" in
  mkM (if regs && fld_reset "Registers.pc" then 0%Z else m_pc old)
      (if regs && forallb fld_reset
            ["Registers.hue"; "Registers.saturation"; "Registers.brightness"; "Registers.kelvin";
             "Registers.red"; "Registers.green"; "Registers.blue";
             "Registers.duration"; "Registers.time"; "Registers.power"; "Registers.name"; "Registers.operand";
             "Registers.first_zone"; "Registers.last_zone"; "Registers.first_row"; "Registers.last_row";
             "Registers.first_column"; "Registers.last_column"; "Registers.matrix"; "Registers.default";
             "Registers.result"; "Registers.unit_mode"; "Registers.disc_forward"]
       then init_regs else m_regs old)
      (if stack && fld_reset "Machine._constants" then [] else m_globals old)
      (if stack then [] else m_frames old)
      (if call_made "Machine._vm_math.reset" && fld_reset "VmMath._eval_stack" then [] else m_stack old)
      (if call_made "Machine._vm_io.reset" && fld_reset "VmIo._unnamed" then [] else m_unnamed old)
      w.

(* running an image on a machine that earlier work left in state [old] *)
Definition run_on (fuel : nat) (im : image) (old : mstate) (w : world) : final :=
  fst (run_from fuel im (machine_begin old w) []).

(* where a run that is stopped from outside after [k] instructions leaves the machine *)
Definition stopped_after (k : nat) (im : image) (w : world) : mstate := snd (run_from k im (init_state w) []).
