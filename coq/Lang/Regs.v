(* Registers of the VM (machine.py: class Registers), name environments, and the
   unit-mode switch.  Shared by the reference semantics and the machine model. *)
From Coq Require Import ZArith String List Bool PrimFloat.
From Bardolph Require Import Base.PyFloat Gen.Codes Time.TimeSpec Time.TimeCore
  Lang.Value Lang.Units0.
Open Scope string_scope.
Open Scope list_scope.
Import ListNotations.
Open Scope Z_scope.
Open Scope bool_scope.

(* ---------- environments (Python dicts keyed by name) ---------- *)
Definition env := list (string * value).
Fixpoint env_get (e : env) (k : string) : option value :=
  match e with
  | [] => None
  | (k', v) :: r => if String.eqb k k' then Some v else env_get r k
  end.
Fixpoint env_set (e : env) (k : string) (v : value) : env :=
  match e with
  | [] => [(k, v)]
  | (k', v') :: r => if String.eqb k k' then (k, v) :: r else (k', v') :: env_set r k v
  end.
Definition env_has (e : env) (k : string) : bool := match env_get e k with Some _ => true | None => false end.

Definition lvenv := list (loopvar * value).
Fixpoint lv_get (e : lvenv) (k : loopvar) : option value :=
  match e with
  | [] => None
  | (k', v) :: r => if loopvar_eqb k k' then Some v else lv_get r k
  end.
Fixpoint lv_set (e : lvenv) (k : loopvar) (v : value) : lvenv :=
  match e with
  | [] => [(k, v)]
  | (k', v') :: r => if loopvar_eqb k k' then (k, v) :: r else (k', v') :: lv_set r k v
  end.

(* ---------- registers ---------- *)
Definition regfile := list (register * value).
Definition init_regs : regfile :=
  [ (R_BLUE, VFlt 0); (R_BRIGHTNESS, VFlt 0); (R_DEFAULT, VNone); (R_DISC_FORWARD, VBool false);
    (R_DURATION, VFlt 0); (R_FIRST_COLUMN, VNone); (R_FIRST_ROW, VNone); (R_FIRST_ZONE, VInt 0);
    (R_GREEN, VFlt 0); (R_HUE, VFlt 0); (R_LAST_COLUMN, VNone); (R_LAST_ROW, VNone);
    (R_LAST_ZONE, VInt 0); (R_KELVIN, VFlt 0); (R_MATRIX, VNone); (R_NAME, VNone);
    (R_OPERAND, VOperand OD_NULL); (R_POWER, VBool false); (R_RED, VFlt 0); (R_RESULT, VNone);
    (R_SATURATION, VFlt 0); (R_TIME, VFlt 0); (R_UNIT_MODE, VMode UM_LOGICAL) ].

Fixpoint rf_get (rf : regfile) (r : register) : option value :=
  match rf with
  | [] => None
  | (r', v) :: t => if register_eqb r r' then Some v else rf_get t r
  end.
Fixpoint rf_set (rf : regfile) (r : register) (v : value) : regfile :=
  match rf with
  | [] => [(r, v)]
  | (r', v') :: t => if register_eqb r r' then (r, v) :: t else (r', v') :: rf_set t r v
  end.


(* register read with None for a register that has no attribute *)
Definition rreg (rf : regfile) (r : register) : value :=
  match rf_get rf r with Some v => v | None => VNone end.

Definition rf_unit_mode (rf : regfile) : res unit_mode :=
  match rreg rf R_UNIT_MODE with VMode m => Ok m | _ => Err (EInternal "unit_mode register holds no mode") end.

(* Registers.get_color / store_color *)
Definition rf_get_color (rf : regfile) : res (list value) :=
  do m <- rf_unit_mode rf;
  match m with
  | UM_RGB => Ok [rreg rf R_RED; rreg rf R_GREEN; rreg rf R_BLUE; rreg rf R_KELVIN]
  | _ => Ok [rreg rf R_HUE; rreg rf R_SATURATION; rreg rf R_BRIGHTNESS; rreg rf R_KELVIN]
  end.
Definition rf_store_color (rf : regfile) (c : list value) : res regfile :=
  do m <- rf_unit_mode rf;
  match c with
  | [a; b; c'; k] =>
      let rs := match m with
                | UM_RGB => [(R_RED, a); (R_GREEN, b); (R_BLUE, c'); (R_KELVIN, k)]
                | _ => [(R_HUE, a); (R_SATURATION, b); (R_BRIGHTNESS, c'); (R_KELVIN, k)]
                end in
      Ok (fold_left (fun rf p => rf_set rf (fst p) (snd p)) rs rf)
  | _ => Err EValue
  end.

(* ---------- unit switch (Machine._switch_unit_mode) ---------- *)
Definition convert_color (from to : unit_mode) (c : list value) : res (list value) :=
  match from, to with
  | UM_LOGICAL, UM_RAW => logical_to_raw c
  | UM_RAW, UM_LOGICAL => raw_to_logical c
  | _, _ => Err (EUnsupported "rgb conversion (colorsys) is modelled in Gen/UnitsGen.v")
  end.

Definition time_conv (f : value -> res value) (v : value) : res value :=
  match v with
  | VTime _ => Ok v                    (* a pending time-of-day pattern is left alone *)
  | _ => f v
  end.

Definition rf_switch_unit_mode (rf : regfile) (v : value) : res regfile :=
  do from <- rf_unit_mode rf;
  match v with
  | VMode to =>
      if unit_mode_eqb from to then Ok rf
      else
        do orig <- rf_get_color rf;
        let rf1 := rf_set rf R_UNIT_MODE (VMode to) in
        do conv <- convert_color from to orig;
        do rf2 <- rf_store_color rf1 conv;
        match to, from with
        | UM_RAW, _ =>
            do d <- time_conv time_raw (rreg rf2 R_DURATION);
            do t <- time_conv time_raw (rreg rf2 R_TIME);
            Ok (rf_set (rf_set rf2 R_DURATION d) R_TIME t)
        | _, UM_RAW =>
            do d <- time_conv time_logical (rreg rf2 R_DURATION);
            do t <- time_conv time_logical (rreg rf2 R_TIME);
            Ok (rf_set (rf_set rf2 R_DURATION d) R_TIME t)
        | _, _ => Ok rf2
        end
  | _ => Err (EInternal "unit mode switched to a non-mode")
  end.

(* the delay a WAIT requests: Machine._wait *)
Inductive wait_req := WNone | WPause (t : value) | WUntil (p : tp).
Definition rf_wait (rf : regfile) : res wait_req :=
  match rreg rf R_TIME with
  | VTime p => Ok (WUntil p)
  | t =>
      do n <- as_num t;
      do pos <- num_cmp CGt n (NI 0);
      if pos then
        do m <- rf_unit_mode rf;
        match m with
        | UM_RAW => do q <- eval_binop OP_DIV t (VFlt 1000); Ok (WPause q)
        | _ => Ok (WPause t)
        end
      else Ok WNone
  end.
