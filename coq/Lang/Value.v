(* Run-time values of the Bardolph VM and the Python arithmetic on them.
   Shared by the reference semantics (Sem.v) and the machine model (Machine.v):
   the language theorems are parametric in what these operators compute. *)
From Coq Require Import ZArith String Ascii List Bool PrimFloat.
From Bardolph Require Import Base.PyFloat Gen.Codes Time.TimeSpec Time.TimeCore.
Open Scope string_scope.
Open Scope list_scope.
Import ListNotations.
Open Scope Z_scope.
Open Scope bool_scope.

Inductive value :=
| VInt (z : Z)
| VFlt (f : float)
| VBool (b : bool)
| VStr (s : string)
| VNone
| VOperand (o : operand)          (* members of the Operand enumeration, NULL included *)
| VMode (m : unit_mode)
| VTime (p : tp)
| VList (l : list value)          (* a raw colour kept in the `default` register *)
| VMatrix (h w : Z) (cells : list (option (list value))).

(* Why a run stops abnormally.  User*: Python exceptions caused by script data (the VM's
   blanket `except Exception` ends the script); Internal: states the compiler must never
   produce (C06); Unsupported: outside what the executable model reproduces (libm, huge
   ints meeting floats, ...) -- correspondence runs skip these, theorems never assume them. *)
Inductive err :=
| ETypeError | EZeroDiv | EIndex | EValue | EAssert
| EInternal (what : string)
| EUnsupported (what : string).

Inductive res (A : Type) := Ok (a : A) | Err (e : err).
Arguments Ok {A} a.
Arguments Err {A} e.

Definition bind {A B} (r : res A) (f : A -> res B) : res B :=
  match r with Ok a => f a | Err e => Err e end.
Notation "'do' x <- r ; k" := (bind r (fun x => k)) (at level 200, x pattern, r at level 100, k at level 200).

(* ---------- numeric tower ---------- *)
Inductive num := NI (z : Z) | NF (f : float).

Definition to_num (v : value) : option num :=
  match v with
  | VInt z => Some (NI z)
  | VBool b => Some (NI (if b then 1 else 0))
  | VFlt f => Some (NF f)
  | _ => None
  end.

Definition num_f (n : num) : res float :=
  match n with
  | NF f => Ok f
  | NI z => if z_exact z then Ok (z2f z) else Err (EUnsupported "int beyond 2^53 meets float")
  end.

Definition of_num (n : num) : value := match n with NI z => VInt z | NF f => VFlt f end.

Definition arith (fi : Z -> Z -> Z) (ff : float -> float -> float) (a b : num) : res value :=
  match a, b with
  | NI x, NI y => Ok (VInt (fi x y))
  | _, _ => do x <- num_f a; do y <- num_f b; Ok (VFlt (ff x y))
  end.

Definition num_div (a b : num) : res value :=
  match b with
  | NI 0 => Err EZeroDiv
  | _ =>
    do x <- num_f a; do y <- num_f b;
    if PrimFloat.eqb y PrimFloat.zero then Err EZeroDiv else Ok (VFlt (PrimFloat.div x y))
  end.

Definition num_mod (a b : num) : res value :=
  match a, b with
  | NI x, NI y => if y =? 0 then Err EZeroDiv else Ok (VInt (x mod y))
  | _, _ =>
    do x <- num_f a; do y <- num_f b;
    match py_fmod x y with
    | FmOk r => Ok (VFlt r)
    | FmZeroDiv => Err EZeroDiv
    | FmUnsupported => Err (EUnsupported "float modulo outside the exact range")
    end
  end.

Definition num_pow (a b : num) : res value :=
  match a, b with
  | NI x, NI y =>
      if (0 <=? y) && (y <=? 256) && (Z.abs x <=? 65536) then Ok (VInt (x ^ y))
      else Err (EUnsupported "integer power outside the modelled range")
  | _, _ => Err (EUnsupported "float power (libm)")
  end.

Inductive cmp := CLt | CLe | CGt | CGe.

Definition num_cmp (c : cmp) (a b : num) : res bool :=
  match a, b with
  | NI x, NI y => Ok (match c with CLt => x <? y | CLe => x <=? y | CGt => y <? x | CGe => y <=? x end)
  | _, _ =>
    do x <- num_f a; do y <- num_f b;
    Ok (match c with CLt => PrimFloat.ltb x y | CLe => PrimFloat.leb x y
                   | CGt => PrimFloat.ltb y x | CGe => PrimFloat.leb y x end)
  end.

Definition num_eq (a b : num) : res bool :=
  match a, b with
  | NI x, NI y => Ok (x =? y)
  | _, _ => do x <- num_f a; do y <- num_f b; Ok (PrimFloat.eqb x y)
  end.

(* Python's str ordering on ASCII strings: code points, shorter prefix first *)
Fixpoint str_ltb (a b : string) : bool :=
  match a, b with
  | EmptyString, EmptyString => false
  | EmptyString, String _ _ => true
  | String _ _, EmptyString => false
  | String x a', String y b' =>
      let nx := nat_of_ascii x in let ny := nat_of_ascii y in
      if Nat.ltb nx ny then true else if Nat.ltb ny nx then false else str_ltb a' b'
  end.

(* ---------- equality (==): never raises ---------- *)
Fixpoint value_eq (fuel : nat) (a b : value) : res bool :=
  match to_num a, to_num b with
  | Some x, Some y => num_eq x y
  | _, _ =>
    match a, b with
    | VStr s, VStr t => Ok (String.eqb s t)
    | VNone, VNone => Ok true
    | VOperand o, VOperand p => Ok (operand_eqb o p)
    | VMode m, VMode n => Ok (unit_mode_eqb m n)
    | VTime _, VTime _ => Err (EUnsupported "identity comparison of time patterns")
    | VList l, VList m =>
        match fuel with
        | O => Err (EUnsupported "nested list comparison")
        | S f =>
          (fix go (l m : list value) : res bool :=
             match l, m with
             | [], [] => Ok true
             | x :: l', y :: m' => do e <- value_eq f x y; if e then go l' m' else Ok false
             | _, _ => Ok false
             end) l m
        end
    | VMatrix _ _ _, VMatrix _ _ _ => Err (EUnsupported "identity comparison of matrices")
    | _, _ => Ok false
    end
  end.

(* ---------- truthiness: bool(v) ---------- *)
Definition truthy (v : value) : bool :=
  match v with
  | VInt z => negb (z =? 0)
  | VFlt f => negb (PrimFloat.eqb f PrimFloat.zero)
  | VBool b => b
  | VStr s => negb (String.eqb s "")
  | VNone => false
  | VOperand _ | VMode _ | VTime _ | VMatrix _ _ _ => true
  | VList l => match l with [] => false | _ => true end
  end.

(* ---------- the binary operators of VmMath._fn_table and logical_op ---------- *)
Definition ordering (c : cmp) (a b : value) : res value :=
  match to_num a, to_num b with
  | Some x, Some y => do r <- num_cmp c x y; Ok (VBool r)
  | _, _ =>
    match a, b with
    | VStr s, VStr t =>
        Ok (VBool (match c with
                   | CLt => str_ltb s t | CLe => negb (str_ltb t s)
                   | CGt => str_ltb t s | CGe => negb (str_ltb s t) end))
    | _, _ => Err ETypeError
    end
  end.

Definition numeric2 (f : num -> num -> res value) (a b : value) : res value :=
  match to_num a, to_num b with
  | Some x, Some y => f x y
  | _, _ => Err ETypeError
  end.

Definition eval_binop (op : operator) (a b : value) : res value :=
  match op with
  | OP_ADD =>
      match a, b with
      | VStr s, VStr t => Ok (VStr (String.append s t))
      | VList _, VList _ => Err (EUnsupported "list concatenation")
      | _, _ => numeric2 (arith Z.add PrimFloat.add) a b
      end
  | OP_SUB => numeric2 (arith Z.sub PrimFloat.sub) a b
  | OP_MUL =>
      match a, b with
      | VStr _, _ | _, VStr _ | VList _, _ | _, VList _ =>
          match to_num a, to_num b with
          | None, None => Err ETypeError
          | _, _ => Err (EUnsupported "sequence repetition")
          end
      | _, _ => numeric2 (arith Z.mul PrimFloat.mul) a b
      end
  | OP_DIV => numeric2 num_div a b
  | OP_MOD =>
      match a with
      | VStr _ => Err (EUnsupported "string formatting operator")
      | _ => numeric2 num_mod a b
      end
  | OP_POW => numeric2 num_pow a b
  | OP_EQ => do r <- value_eq 2 a b; Ok (VBool r)
  | OP_NOTEQ => do r <- value_eq 2 a b; Ok (VBool (negb r))
  | OP_LT => ordering CLt a b
  | OP_LTE => ordering CLe a b
  | OP_GT => ordering CGt a b
  | OP_GTE => ordering CGe a b
  | OP_AND => Ok (VBool (truthy a && truthy b))
  | OP_OR => Ok (VBool (truthy a || truthy b))
  | OP_NOT | OP_UADD | OP_USUB => Err (EInternal "unary operator used as binary")
  end.

Definition eval_unop (op : operator) (a : value) : res value :=
  match op with
  | OP_NOT => Ok (VBool (negb (truthy a)))
  | OP_USUB =>
      match to_num a with
      | Some (NI z) => Ok (VInt (- z))
      | Some (NF f) => Ok (VFlt (PrimFloat.opp f))
      | None => Err ETypeError
      end
  | OP_UADD => Ok a
  | _ => Err (EInternal "binary operator used as unary")
  end.

Definition is_unary (op : operator) : bool :=
  match op with OP_NOT | OP_UADD | OP_USUB => true | _ => false end.
