(* REFERENCE SEMANTICS of Bardolph scripts: a fuelled definitional interpreter over the
   abstract syntax, written from docs/language.rst and the property statements (not from
   the VM).  It is the yard-stick of C01, C03 and C04: what a script's source says.

   Scoping: globals; inside a routine call one dictionary of parameters and locals.
   A name is looked up among the call's parameters/locals first, then the globals.
   Assignment targets a parameter/local of that name, else an existing global, else
   creates a local (a global at top level).  Macros are compile-time constants resolved
   by name from the table of top-level definitions.  Arguments are evaluated left to
   right in the caller's scope and bound by value.  `return v` ends the current call from
   any depth; `break` ends the innermost loop.  A group or location action is the same
   action on each member in name order; the operands of one statement share one delay. *)
From Coq Require Import ZArith String List Bool PrimFloat.
From Bardolph Require Import Base.PyFloat Gen.Codes Time.TimeSpec Time.TimeCore
  Lang.Value Lang.Units0 Lang.World Lang.Regs Lang.Devices Lang.Builtins Lang.Syntax.
Open Scope string_scope.
Open Scope list_scope.
Import ListNotations.
Open Scope Z_scope.
Open Scope bool_scope.

(* ---------- static tables ---------- *)
Record routine_def := mkRdef { rd_params : list string; rd_body : stmt }.
Definition rtable := list (string * routine_def).
Definition mtable := list (string * value).

Fixpoint find_rdef (t : rtable) (f : string) : option routine_def :=
  match t with
  | [] => None
  | (k, d) :: r => if String.eqb k f then Some d else find_rdef r f
  end.

Definition macro_value (mt : mtable) (d : macro_def) : option value :=
  match d with
  | MLit l => Some (lit_value l)
  | MTime _ p => Some (VTime p)
  | MRef m => env_get mt m
  end.

(* routine and macro definitions in program order; a definition may sit inside the
   branches of an `if` or the body of a loop; a routine is never defined inside a routine, a constant may be -- it is global
   all the same (Parser._macro_definition: "The symbol has global scope, even if it is defined inside a routine") *)
Fixpoint collect_stmt (fuel : nat) (s : stmt) (acc : rtable * mtable) {struct fuel} : rtable * mtable :=
  match fuel with
  | O => acc
  | S f =>
    match s with
    | SDefineRoutine g ps body => (fst acc ++ [(g, mkRdef ps body)], snd (collect_stmt f body acc))
    | SDefineMacro m d =>
        match macro_value (snd acc) d with
        | Some v => (fst acc, snd acc ++ [(m, v)])
        | None => acc
        end
    | SIf _ s1 None => collect_stmt f s1 acc
    | SIf _ s1 (Some s2) => collect_stmt f s2 (collect_stmt f s1 acc)
    | SRepeat _ body => collect_stmt f body acc
    | SBlock ss => fold_left (fun a st => collect_stmt f st a) ss acc
    | _ => acc
    end
  end.

Definition collect (ss : list stmt) (rt : rtable) (mt : mtable) : rtable * mtable :=
  fold_left (fun a st => collect_stmt 64 st a) ss (rt, mt).

(* ---------- dynamic state ---------- *)
Record sstate := mkS {
  s_regs : regfile;
  s_globals : env;
  s_locals : option env;          (* parameters and locals of the call in progress *)
  s_world : world;
  s_trace : list event            (* most recent first *)
}.

Definition init_sstate (w : world) : sstate := mkS init_regs [] None w [].

Definition s_with_regs (s : sstate) (rf : regfile) := mkS rf (s_globals s) (s_locals s) (s_world s) (s_trace s).
Definition s_with_locals (s : sstate) (l : option env) := mkS (s_regs s) (s_globals s) l (s_world s) (s_trace s).
Definition s_emit (s : sstate) (evs : list event) := mkS (s_regs s) (s_globals s) (s_locals s) (s_world s) (rev_append evs (s_trace s)).

Definition lookup (s : sstate) (x : string) : value :=
  match (match s_locals s with Some l => env_get l x | None => None end) with
  | Some v => v
  | None => match env_get (s_globals s) x with Some v => v | None => VNone end
  end.

Definition assign (s : sstate) (x : string) (v : value) : sstate :=
  match s_locals s with
  | Some l =>
      if env_has l x then s_with_locals s (Some (env_set l x v))
      else if env_has (s_globals s) x then mkS (s_regs s) (env_set (s_globals s) x v) (s_locals s) (s_world s) (s_trace s)
      else s_with_locals s (Some (env_set l x v))
  | None => mkS (s_regs s) (env_set (s_globals s) x v) None (s_world s) (s_trace s)
  end.

Inductive signal := SigNormal | SigBreak | SigReturn (v : value).

Inductive sres (A : Type) :=
| ROk (a : A) (s : sstate)
| RErr (e : err) (s : sstate)
| RFuel (s : sstate).
Arguments ROk {A} a s.
Arguments RErr {A} e s.
Arguments RFuel {A} s.

Definition sbind {A B} (r : sres A) (f : A -> sstate -> sres B) : sres B :=
  match r with
  | ROk a s => f a s
  | RErr e s => RErr e s
  | RFuel s => RFuel s
  end.
Notation "'let*' ( x , s ) := r 'in' k" := (sbind r (fun x s => k)) (at level 200, x pattern, s pattern, r at level 100, k at level 200).

Definition lift_res {A} (r : res A) (s : sstate) : sres A :=
  match r with Ok a => ROk a s | Err e => RErr e s end.

(* a device command: registers and population in, events out *)
Definition dev_step (s : sstate) (r : dres) : sres unit :=
  match r with
  | Ok d => ROk tt (mkS (d_regs d) (s_globals s) (s_locals s) (d_world d) (rev_append (d_events d) (s_trace s)))
  | Err e => RErr e s
  end.

(* the delay requested before a command *)
Definition do_wait (s : sstate) : sres unit :=
  match rf_wait (s_regs s) with
  | Ok WNone => ROk tt s
  | Ok (WPause t) => ROk tt (s_emit s [EvPause t])
  | Ok (WUntil p) => ROk tt (s_emit s [EvWaitUntil p])
  | Err e => RErr e s
  end.

(* an operand of an expression may not be None (the VM refuses to push it) *)
Definition operand_value (v : value) (s : sstate) : sres value :=
  match v with VNone => RErr EAssert s | _ => ROk v s end.

Definition neg_value (v : value) : res value := eval_binop OP_MUL v (VInt (-1)).

Fixpoint bind_params (ps : list string) (vs : list value) (acc : env) : option env :=
  match ps, vs with
  | [], [] => Some acc
  | p :: ps', v :: vs' => bind_params ps' vs' (env_set acc p v)
  | _, _ => None
  end.

(* values the VM pushes on its evaluation stack may not be None *)
Definition pushable (v : value) : res value := match v with VNone => Err EAssert | _ => Ok v end.
Definition positive (v : value) : res bool := do v' <- pushable v; do r <- ordering CGt v' (VInt 0); Ok (truthy r).
Definition sub1 (v : value) : res value := do v' <- pushable v; eval_binop OP_SUB v' (VInt 1).


Section Interp.
Variable rt : rtable.
Variable mt : mtable.

Definition macro (m : string) : value := match env_get mt m with Some v => v | None => VNone end.

Definition name_of (s : sstate) (n : nameref) : value :=
  match n with
  | NStr x => VStr x
  | NMacro m => macro m
  | NVar x => lookup s x
  end.

(* everything is structurally recursive on the fuel; every recursive call spends one unit *)
Fixpoint eval_rval (fuel : nat) (in_matrix : bool) (s : sstate) (r : rval) {struct fuel} : sres value :=
  match fuel with
  | O => RFuel s
  | S f =>
    match r with
    | RLit l => ROk (lit_value l) s
    | RNeg l => lift_res (neg_value (lit_value l)) s
    | RMacro m => ROk (macro m) s
    | RNegMacro m => lift_res (neg_value (macro m)) s
    | RVar x => ROk (lookup s x) s
    | RReg r => ROk (rreg (s_regs s) r) s
    | RExpr e => eval_expr f in_matrix s e
    | RCall g args => call f in_matrix s g args
    end
  end
with eval_expr (fuel : nat) (in_matrix : bool) (s : sstate) (e : expr) {struct fuel} : sres value :=
  match fuel with
  | O => RFuel s
  | S f =>
    match e with
    | ELit l => ROk (lit_value l) s
    | EMacro m => operand_value (macro m) s
    | EVar x => operand_value (lookup s x) s
    | EReg r => operand_value (rreg (s_regs s) r) s
    | ECall g args => let* (v, s1) := call f in_matrix s g args in operand_value v s1
    | EBin op a b =>
        let* (x, s1) := eval_expr f in_matrix s a in
        let* (y, s2) := eval_expr f in_matrix s1 b in
        lift_res (eval_binop (binop_operator op) x y) s2
    | ENeg a => let* (x, s1) := eval_expr f in_matrix s a in lift_res (neg_value x) s1
    | EPos a => eval_expr f in_matrix s a
    | EParen a => eval_expr f in_matrix s a
    end
  end
with eval_args (fuel : nat) (in_matrix : bool) (s : sstate) (args : list rval) {struct fuel} : sres (list value) :=
  match fuel with
  | O => RFuel s
  | S f =>
    match args with
    | [] => ROk [] s
    | a :: r =>
        let* (v, s1) := eval_rval f in_matrix s a in
        let* (vs, s2) := eval_args f in_matrix s1 r in
        ROk (v :: vs) s2
    end
  end
with call (fuel : nat) (in_matrix : bool) (s : sstate) (g : string) (args : list rval) {struct fuel} : sres value :=
  match fuel with
  | O => RFuel s
  | S f =>
    let* (vs, s1) := eval_args f in_matrix s args in
    match builtin_params g builtin_table with
    | Some ps =>
        match bind_params ps vs [] with
        | Some p => lift_res (call_builtin g p) s1
        | None => RErr (EInternal "arity") s1
        end
    | None =>
        match find_rdef rt g with
        | Some d =>
            match bind_params (rd_params d) vs [] with
            | Some p =>
                let caller := s_locals s1 in
                match exec f false (s_with_locals s1 (Some p)) (rd_body d) with
                | ROk sig s2 =>
                    let s3 := s_with_locals s2 caller in
                    match sig with
                    | SigReturn v => ROk v s3
                    | _ => ROk VNone s3
                    end
                | RErr e s2 => RErr e s2
                | RFuel s2 => RFuel s2
                end
            | None => RErr (EInternal "arity") s1
            end
        | None => RErr (EInternal "call of a routine that does not exist") s1
        end
    end
  end
with exec (fuel : nat) (in_matrix : bool) (s : sstate) (st : stmt) {struct fuel} : sres signal :=
  match fuel with
  | O => RFuel s
  | S f =>
    match st with
    | SReg r v =>
        let* (x, s1) := eval_rval f in_matrix s v in
        ROk SigNormal (s_with_regs s1 (rf_set (s_regs s1) r x))
    | SUnits m =>
        match rf_switch_unit_mode (s_regs s) (VMode m) with
        | Ok rf => ROk SigNormal (s_with_regs s rf)
        | Err e => RErr e s
        end
    | SSet ops =>
        let* (_, s1) := (if in_matrix then ROk tt s else do_wait s) in
        let* (_, s2) := exec_ops f in_matrix s1 true ops in ROk SigNormal s2
    | SOn ops =>
        let s0 := s_with_regs s (rf_set (s_regs s) R_POWER (VBool true)) in
        let* (_, s1) := (if in_matrix then ROk tt s0 else do_wait s0) in
        let* (_, s2) := exec_ops f in_matrix s1 false ops in ROk SigNormal s2
    | SOff ops =>
        let s0 := s_with_regs s (rf_set (s_regs s) R_POWER (VBool false)) in
        let* (_, s1) := (if in_matrix then ROk tt s0 else do_wait s0) in
        let* (_, s2) := exec_ops f in_matrix s1 false ops in ROk SigNormal s2
    | SStage rows cols rows_first =>
        let* (rc, s1) := eval_spans f in_matrix s rows cols rows_first in
        let '(r1, r2, c1, c2) := rc in
        match do_stage (s_regs s1) r1 r2 c1 c2 with
        | Ok rf => ROk SigNormal (s_with_regs s1 rf)
        | Err e => RErr e s1
        end
    | SGet n =>
        let* (x, s1) := eval_rval f in_matrix s n in
        let* (_, s2) := dev_step s1 (do_get (s_regs s1) (s_world s1) x) in ROk SigNormal s2
    | SWait => let* (_, s1) := do_wait s in ROk SigNormal s1
    | STimeAt ps =>
        let pats := map (fun p => match p with
                                  | TPat _ q => Some q
                                  | TMacro m => match macro m with VTime q => Some q | _ => None end
                                  end) ps in
        match pats with
        | Some p :: rest =>
            if forallb (fun o => match o with Some _ => true | None => false end) rest
            then let qs := flat_map (fun o => match o with Some q => [q] | None => [] end) rest in
                 ROk SigNormal (s_with_regs s (rf_set (s_regs s) R_TIME (VTime (tp_union_all p qs))))
            else RErr (EInternal "time pattern expected") s
        | _ => RErr (EInternal "time pattern expected") s
        end
    | SAssign x v => let* (y, s1) := eval_rval f in_matrix s v in ROk SigNormal (assign s1 x y)
    | SDefineMacro _ _ => ROk SigNormal s
    | SDefineRoutine _ _ _ => ROk SigNormal s
    | SCall g args _ => let* (_, s1) := call f in_matrix s g args in ROk SigNormal s1
    | SReturn None => ROk (SigReturn VNone) s
    | SReturn (Some v) => let* (x, s1) := eval_rval f in_matrix s v in ROk (SigReturn x) s1
    | SIf c s1 s2 =>
        let* (x, sa) := eval_rval f in_matrix s c in
        if truthy x then exec f in_matrix sa s1
        else match s2 with Some e => exec f in_matrix sa e | None => ROk SigNormal sa end
    | SRepeat l body => exec_loop f in_matrix s l body
    | SBreak => ROk SigBreak s
    | SPrint None => ROk SigNormal s
    | SPrint (Some v) => let* (x, s1) := eval_rval f in_matrix s v in ROk SigNormal (s_emit s1 [EvOut x])
    | SPrintln None => ROk SigNormal (s_emit s [EvNewline])
    | SPrintln (Some v) => let* (x, s1) := eval_rval f in_matrix s v in ROk SigNormal (s_emit s1 [EvOut x; EvNewline])
    | SPrintf fmt args =>
        let* (vs, s1) := eval_args f in_matrix s args in
        match printf_names fmt with
        | Some names =>
            let named := map (fun n => (n, match register_of_name n with
                                           | Some r => rreg (s_regs s1) r
                                           | None => lookup s1 n
                                           end)) names in
            ROk SigNormal (s_emit s1 [EvPrintf fmt vs named])
        | None => RErr (EUnsupported "printf format outside the scanned subset") s1
        end
    | SBlock ss => exec_seq f in_matrix s ss
    end
  end
with exec_seq (fuel : nat) (in_matrix : bool) (s : sstate) (ss : list stmt) {struct fuel} : sres signal :=
  match fuel with
  | O => RFuel s
  | S f =>
    match ss with
    | [] => ROk SigNormal s
    | st :: r =>
        let* (sig, s1) := exec f in_matrix s st in
        match sig with
        | SigNormal => exec_seq f in_matrix s1 r
        | _ => ROk sig s1
        end
    end
  end
with eval_span (fuel : nat) (in_matrix : bool) (s : sstate) (sp : span) {struct fuel} : sres (value * value) :=
  match fuel with
  | O => RFuel s
  | S f =>
    match sp with
    | None => ROk (VNone, VNone) s
    | Some (a, None) => let* (x, s1) := eval_rval f in_matrix s a in ROk (x, VNone) s1
    | Some (a, Some b) =>
        let* (x, s1) := eval_rval f in_matrix s a in
        let* (y, s2) := eval_rval f in_matrix s1 b in ROk (x, y) s2
    end
  end
with eval_spans (fuel : nat) (in_matrix : bool) (s : sstate) (rows cols : span) (rows_first : bool) {struct fuel}
  : sres (value * value * value * value) :=
  match fuel with
  | O => RFuel s
  | S f =>
    if rows_first then
      let* (r, s1) := eval_span f in_matrix s rows in
      let* (c, s2) := eval_span f in_matrix s1 cols in ROk (fst r, snd r, fst c, snd c) s2
    else
      let* (c, s1) := eval_span f in_matrix s cols in
      let* (r, s2) := eval_span f in_matrix s1 rows in ROk (fst r, snd r, fst c, snd c) s2
  end
with exec_ops (fuel : nat) (in_matrix : bool) (s : sstate) (is_color : bool) (ops : operands) {struct fuel} : sres unit :=
  match fuel with
  | O => RFuel s
  | S f =>
    match ops with
    | OpAll => dev_step s (if is_color then do_color_all (s_regs s) (s_world s) else do_power_all (s_regs s) (s_world s))
    | OpDefault => dev_step s (if is_color then do_color_default (s_regs s) (s_world s)
                               else Err (EInternal "POWER with an operand it has no handler for"))
    | OpList l => exec_oplist f in_matrix s is_color l
    end
  end
with exec_oplist (fuel : nat) (in_matrix : bool) (s : sstate) (is_color : bool) (l : list opnd) {struct fuel} : sres unit :=
  match fuel with
  | O => RFuel s
  | S f =>
    match l with
    | [] => ROk tt s
    | o :: r =>
        let* (_, s1) := exec_operand f in_matrix s is_color o in
        exec_oplist f in_matrix s1 is_color r
    end
  end
with exec_operand (fuel : nat) (in_matrix : bool) (s : sstate) (is_color : bool) (o : opnd) {struct fuel} : sres unit :=
  match fuel with
  | O => RFuel s
  | S f =>
    match o with
    | Target k n =>
        let name := name_of s n in
        let rf := s_regs s in let w := s_world s in
        dev_step s (match k, is_color with
                    | TLight, true => do_color_light rf w name
                    | TGroup, true => do_color_set OD_GROUP rf w name
                    | TLocation, true => do_color_set OD_LOCATION rf w name
                    | TLight, false => do_power_light rf w name
                    | TGroup, false => do_power_set OD_GROUP rf w name
                    | TLocation, false => do_power_set OD_LOCATION rf w name
                    end)
    | Zone n a b =>
        let name := name_of s n in
        let* (x, s1) := eval_rval f in_matrix s a in
        let* (y, s2) := (match b with
                         | Some b' => eval_rval f in_matrix s1 b'
                         | None => ROk VNone s1
                         end) in
        dev_step s2 (do_color_zone (s_regs s2) (s_world s2) name x y)
    | MatrixInline n rows cols rows_first =>
        let name := name_of s n in
        let s0 := s_with_regs s (do_matrix_begin (s_regs s) (s_world s) name) in
        let* (rc, s1) := eval_spans f in_matrix s0 rows cols rows_first in
        let '(r1, r2, c1, c2) := rc in
        match do_stage (s_regs s1) r1 r2 c1 c2 with
        | Ok rf => dev_step (s_with_regs s1 rf) (do_matrix_light rf (s_world s1) name)
        | Err e => RErr e s1
        end
    | MatrixBlock n body =>
        let name := name_of s n in
        let s0 := s_with_regs s (do_matrix_begin (s_regs s) (s_world s) name) in
        let* (sig, s1) := exec f true s0 body in
        match sig with
        | SigNormal => dev_step s1 (do_matrix_light (s_regs s1) (s_world s1) name)
        | _ => RErr (EUnsupported "break or return out of a matrix block") s1
        end
    end
  end
(* loops: [exec_loop] prepares the loop, [iterate] runs it.  The loop state is the
   remaining count (a value, or None for while/infinite), the optional index variable
   with its increment, and the names still to be bound to the light variable. *)
with exec_loop (fuel : nat) (in_matrix : bool) (s : sstate) (l : loop) (body : stmt) {struct fuel} : sres signal :=
  match fuel with
  | O => RFuel s
  | S f =>
    match l with
    | LInfinite => iterate f in_matrix s None None None None body
    | LWhile c => iterate f in_matrix s (Some c) None None None body
    | LCount n =>
        let* (cnt, s1) := eval_rval f in_matrix s n in
        iterate f in_matrix s1 None (Some cnt) None None body
    | LRange v a b =>
        let* (x, s1) := eval_rval f in_matrix s a in
        let* (y, s2) := eval_rval f in_matrix s1 b in
        match (do y' <- pushable y; do x' <- pushable x;
               do d <- eval_binop OP_SUB y' x';
               do neg <- ordering CLt d (VInt 0);
               do cnt0 <- (if truthy neg then eval_binop OP_MUL d (VInt (-1)) else Ok d);
               do cnt <- eval_binop OP_ADD cnt0 (VInt 1);
               Ok (cnt, if truthy neg then VInt (-1) else VInt 1)) with
        | Ok (cnt, incr) => iterate f in_matrix (assign s2 v x) None (Some cnt) (Some (v, incr)) None body
        | Err e => RErr e s2
        end
    | LCountWith n w =>
        let* (cnt, s1) := eval_rval f in_matrix s n in
        let* (vi, s2) := prep_with f in_matrix s1 cnt w in
        iterate f in_matrix s2 None (Some cnt) (Some vi) None body
    | LAll x w => light_loop f in_matrix s (light_names (s_world s)) x w body
    | LGroups x w => light_loop f in_matrix s (group_names (s_world s)) x w body
    | LLocations x w => light_loop f in_matrix s (location_names (s_world s)) x w body
    | LIn srcs x w =>
        let* (names, s1) := eval_srcs f in_matrix s srcs in
        light_loop_values f in_matrix s1 names x w body
    end
  end
with prep_with (fuel : nat) (in_matrix : bool) (s : sstate) (cnt : value) (w : loop_with) {struct fuel}
  : sres (string * value) :=
  match fuel with
  | O => RFuel s
  | S f =>
    match w with
    | WRange v a b =>
        let* (x, s1) := eval_rval f in_matrix s a in
        let* (y, s2) := eval_rval f in_matrix s1 b in
        match (do cnt' <- pushable cnt;
               do ne <- eval_binop OP_NOTEQ cnt' (VInt 1);
               if truthy ne then
                 do y' <- pushable y; do x' <- pushable x;
                 do d <- eval_binop OP_SUB y' x';
                 do c1 <- eval_binop OP_SUB cnt (VInt 1);
                 eval_binop OP_DIV d c1
               else Ok (VInt 0)) with
        | Ok incr => ROk (v, incr) (assign s2 v x)
        | Err e => RErr e s2
        end
    | WCycle v start =>
        let* (x, s1) := (match start with
                         | Some a => eval_rval f in_matrix s a
                         | None => ROk (VInt 0) s
                         end) in
        match (do cnt' <- pushable cnt;
               do ne <- eval_binop OP_NOTEQ cnt' (VInt 0);
               if truthy ne then
                 do m <- rf_unit_mode (s_regs s1);
                 eval_binop OP_DIV (VInt (match m with UM_RAW => 65536 | _ => 360 end)) cnt
               else Ok VNone) with
        | Ok incr => ROk (v, incr) (assign s1 v x)
        | Err e => RErr e s1
        end
    end
  end
with eval_srcs (fuel : nat) (in_matrix : bool) (s : sstate) (srcs : list light_src) {struct fuel} : sres (list value) :=
  match fuel with
  | O => RFuel s
  | S f =>
    match srcs with
    | [] => ROk [] s
    | src :: r =>
        (* code for the sources is emitted last-to-first, so the last source is evaluated first *)
        let* (rest, s1) := eval_srcs f in_matrix s r in
        match src with
        | SrcLight n =>
            let* (x, s2) := eval_rval f in_matrix s1 n in
            match x with VNone => RErr EAssert s2 | _ => ROk (x :: rest) s2 end
        | SrcGroup n =>
            let* (x, s2) := eval_rval f in_matrix s1 n in
            ROk (match set_members OD_GROUP (s_world s2) x with Some l => map VStr l | None => [] end ++ rest) s2
        | SrcLocation n =>
            let* (x, s2) := eval_rval f in_matrix s1 n in
            ROk (match set_members OD_LOCATION (s_world s2) x with Some l => map VStr l | None => [] end ++ rest) s2
        end
    end
  end
with light_loop (fuel : nat) (in_matrix : bool) (s : sstate) (names : list string) (x : string)
                (w : option loop_with) (body : stmt) {struct fuel} : sres signal :=
  match fuel with
  | O => RFuel s
  | S f => light_loop_values f in_matrix s (map VStr names) x w body
  end
with light_loop_values (fuel : nat) (in_matrix : bool) (s : sstate) (names : list value) (x : string)
                (w : option loop_with) (body : stmt) {struct fuel} : sres signal :=
  match fuel with
  | O => RFuel s
  | S f =>
    let cnt := VInt (Z.of_nat (length names)) in
    match w with
    | None => iterate f in_matrix s None (Some cnt) None (Some (x, names)) body
    | Some w' =>
        let* (vi, s1) := prep_with f in_matrix s cnt w' in
        iterate f in_matrix s1 None (Some cnt) (Some vi) (Some (x, names)) body
    end
  end
with iterate (fuel : nat) (in_matrix : bool) (s : sstate) (cond : option rval) (cnt : option value)
             (idx : option (string * value)) (lights : option (string * list value)) (body : stmt) {struct fuel}
  : sres signal :=
  match fuel with
  | O => RFuel s
  | S f =>
    (* test *)
    let* (go, s1) := (match cond, cnt with
                      | Some c, _ => let* (x, sa) := eval_rval f in_matrix s c in ROk (truthy x) sa
                      | None, Some n => lift_res (positive n) s
                      | None, None => ROk true s
                      end) in
    if negb go then ROk SigNormal s1
    else
      (* bind the light variable *)
      let '(s2, lights') := match lights with
                            | Some (x, v :: r) => (assign s1 x v, Some (x, r))
                            | Some (x, []) => (assign s1 x VNone, Some (x, []))
                            | None => (s1, None)
                            end in
      let* (sig, s3) := exec f in_matrix s2 body in
      match sig with
      | SigBreak => ROk SigNormal s3
      | SigReturn v => ROk (SigReturn v) s3
      | SigNormal =>
          match (match cnt with Some n => do n' <- sub1 n; Ok (Some n') | None => Ok None end) with
          | Err e => RErr e s3
          | Ok cnt' =>
              match idx with
              | Some (v, incr) =>
                  match (do a <- pushable (lookup s3 v); do b <- pushable incr; eval_binop OP_ADD a b) with
                  | Ok nv => iterate f in_matrix (assign s3 v nv) cond cnt' idx lights' body
                  | Err e => RErr e s3
                  end
              | None => iterate f in_matrix s3 cond cnt' idx lights' body
              end
          end
      end
  end.

End Interp.

(* ---------- whole scripts ---------- *)
Inductive sfinal :=
| SFinished (evs : list event)
| SAborted (e : err) (evs : list event)
| SOutOfFuel (evs : list event).

Definition run_src (fuel : nat) (p : script) (w : world) : sfinal :=
  let '(rt, mt) := collect p [] [] in
  match exec_seq rt mt fuel false (init_sstate w) p with
  | ROk _ s => SFinished (rev (s_trace s) ++ [EvFlush])
  | RErr e s => SAborted e (rev (s_trace s))
  | RFuel s => SOutOfFuel (rev (s_trace s))
  end.
