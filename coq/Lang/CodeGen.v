(* Model of the code the compiler emits (parser/parse.py, loop_parser.py, matrix_parser.py,
   io_parser.py, expr_parser.py through code_gen.py), as a function from abstract syntax
   to instruction lists.  Back-patched jumps are computed from the lengths of the pieces;
   `break` needs the distance to the END_LOOP of the innermost loop, which is passed down
   as the number of instructions that follow the current position inside that loop.
   Static information threaded through: the routine table (parameter names), the macro
   table (compile-time constants) and whether the code is inside a matrix block.
   No proofs here. *)
From Coq Require Import ZArith String List Bool PrimFloat.
From Bardolph Require Import Base.PyFloat Gen.Codes Time.TimeSpec Time.TimeCore
  Lang.Value Lang.Instr Lang.Loader Lang.Regs Lang.Builtins Lang.Syntax Lang.Sem.
Open Scope string_scope.
Open Scope list_scope.
Import ListNotations.
Open Scope Z_scope.
Open Scope bool_scope.

Definition lit_param (l : lit) : param :=
  match l with LInt z => PInt z | LFlt f => PFlt f | LStr s => PStr s end.

Definition value_param (v : value) : param :=
  match v with
  | VInt z => PInt z | VFlt f => PFlt f | VBool b => PBool b | VStr s => PStr s
  | VNone => PNone | VOperand o => POperand o | VMode m => PMode m | VTime p => PTime p
  | _ => POther "value"
  end.

(* value * -1 as the parser computes it at compile time *)
Definition neg_param (v : value) : param :=
  match eval_binop OP_MUL v (VInt (-1)) with Ok r => value_param r | Err _ => POther "neg" end.

(* destination of an rvalue: a register / variable / loop variable, or the evaluation stack *)
Inductive dest := DReg (r : register) | DVar (x : string) | DLoop (v : loopvar) | DPush.

Definition dest_param (d : dest) : param :=
  match d with DReg r => PReg r | DVar x => PStr x | DLoop v => PLoopVar v | DPush => POpCode OC_PUSH end.

(* code_gen.push: PUSHQ for numbers and unit modes, PUSH otherwise *)
Definition push_of (p : param) : instr :=
  match p with
  | PInt _ | PFlt _ | PBool _ | PMode _ => I1 OC_PUSHQ p
  | _ => I1 OC_PUSH p
  end.

(* moving a compile-time constant / a variable or register into a destination *)
Definition move_const (p : param) (d : dest) : program :=
  match d with
  | DPush => [push_of p]
  | _ => [I2 OC_MOVEQ p (dest_param d)]
  end.
Definition move_ref (p : param) (d : dest) : program :=
  match d with
  | DPush => [push_of p]
  | _ =>
      (* `value is not dest`: identical registers, and identical one-character names
         (CPython shares one-character strings), need no instruction *)
      let same := match p, d with
                  | PReg a, DReg b => register_eqb a b
                  | PStr a, DVar b => String.eqb a b && Nat.eqb (String.length a) 1
                  | _, _ => false
                  end in
      if same then [] else [I2 OC_MOVE p (dest_param d)]
  end.

Definition operator_instr (op : binop) : instr := I1 OC_OP (POperator (binop_operator op)).

Section Compile.
Variable rt : rtable.
Variable mt : mtable.

Definition params_of_routine (f : string) : list string :=
  match builtin_params f builtin_table with
  | Some ps => ps
  | None => match find_rdef rt f with Some d => rd_params d | None => [] end
  end.

Definition macro_param (m : string) : param := value_param (macro mt m).

(* CTX ; (argument ; PARAM p RESULT)* ; JSR f ; END_CTX -- one argument per declared parameter *)
Definition mk_call (f : string) (arg_codes : list program) : program :=
  let fix go (ps : list string) (cs : list program) : program :=
    match ps, cs with
    | p :: ps', c :: cs' => c ++ [I2 OC_PARAM (PStr p) (PReg R_RESULT)] ++ go ps' cs'
    | _, _ => []
    end in
  [I0 OC_CTX] ++ go (params_of_routine f) arg_codes ++ [I1 OC_JSR (PStr f); I0 OC_END_CTX].

Fixpoint c_expr (e : expr) : program :=
  match e with
  | ELit l => [I1 OC_PUSHQ (lit_param l)]           (* a constant is pushed as it is (D64: a string used to go through push_of, i.e. be read as a variable) *)
  | EMacro m => [I1 OC_PUSHQ (macro_param m)]
  | EVar x => [I1 OC_PUSH (PStr x)]
  | EReg r => [I1 OC_PUSH (PReg r)]
  | ECall f args =>
      mk_call f ((fix go (args : list rval) : list program :=
                    match args with [] => [] | a :: r => c_rval a (DReg R_RESULT) :: go r end) args)
      ++ [I1 OC_PUSH (PReg R_RESULT)]
  | EBin op a b => c_expr a ++ c_expr b ++ [operator_instr op]
  | ENeg a => c_expr a ++ [I1 OC_PUSHQ (PInt (-1)); I1 OC_OP (POperator OP_MUL)]
  | EPos a => c_expr a
  | EParen a => c_expr a
  end
with c_rval (r : rval) (d : dest) : program :=
  match r with
  | RLit l => move_const (lit_param l) d
  | RNeg l => move_const (neg_param (lit_value l)) d
  | RMacro m => move_const (macro_param m) d
  | RNegMacro m => move_const (neg_param (macro mt m)) d
  | RVar x => move_ref (PStr x) d
  | RReg r => move_ref (PReg r) d
  | RExpr e => c_expr e ++ [I1 OC_POP (dest_param d)]
  | RCall f args =>
      mk_call f ((fix go (args : list rval) : list program :=
                    match args with [] => [] | a :: r => c_rval a (DReg R_RESULT) :: go r end) args) ++
      match d with
      | DPush => [I1 OC_PUSH (PReg R_RESULT)]
      | DReg R_RESULT => []
      | _ => [I2 OC_MOVE (PReg R_RESULT) (dest_param d)]
      end
  end.

Definition c_call (f : string) (args : list rval) : program :=
  mk_call f (map (fun a => c_rval a (DReg R_RESULT)) args).

Definition c_name (n : nameref) : program :=
  match n with
  | NStr s => [I2 OC_MOVEQ (PStr s) (PReg R_NAME)]
  | NMacro m => [I2 OC_MOVEQ (macro_param m) (PReg R_NAME)]
  | NVar x => [I2 OC_MOVE (PStr x) (PReg R_NAME)]
  end.

Definition c_range (sp : rval * option rval) (first last : register) : program :=
  c_rval (fst sp) (DReg first) ++
  match snd sp with
  | Some b => c_rval b (DReg last)
  | None => [I2 OC_MOVEQ PNone (PReg last)]
  end.

(* MatrixParser._inline_operand *)
Definition c_spans (rows cols : span) (rows_first : bool) : program :=
  let r := match rows with Some sp => c_range sp R_FIRST_ROW R_LAST_ROW | None => [] end in
  let c := match cols with Some sp => c_range sp R_FIRST_COLUMN R_LAST_COLUMN | None => [] end in
  [I2 OC_MOVEQ (POperand OD_MATRIX) (PReg R_OPERAND)] ++
  (if rows_first then r ++ c else c ++ r) ++
  (match rows with None => [I2 OC_MOVEQ PNone (PReg R_FIRST_ROW); I2 OC_MOVEQ PNone (PReg R_LAST_ROW)] | _ => [] end) ++
  (match cols with None => [I2 OC_MOVEQ PNone (PReg R_FIRST_COLUMN); I2 OC_MOVEQ PNone (PReg R_LAST_COLUMN)] | _ => [] end).

Definition jump (c : jumpcond) (off : Z) : instr := I2 OC_JUMP (PJump c) (PInt off).
(* CodeGen.current_offset: routine bodies are moved out of line by the loader, so they do
   not count for the relative branches in the code around them *)
Fixpoint rlen_go (p : program) (cur : option param) (acc : Z) : Z :=
  match p with
  | [] => acc
  | i :: r =>
      match cur with
      | Some name => rlen_go r (if is_end_of name i then None else cur) acc
      | None => match i_op i with
                | OC_ROUTINE => rlen_go r (Some (i_p0 i)) acc
                | _ => rlen_go r None (acc + 1)
                end
      end
  end.
Definition len (p : program) : Z := rlen_go p None 0.

(* code_gen.test_op *)
Definition test_op (op : operator) (a b : param) : program :=
  [push_of a; push_of b; I1 OC_OP (POperator op); I1 OC_POP (PReg R_RESULT)].
(* code_gen._op_equals *)
Definition op_equals (op : operator) (x delta : param) : program :=
  [push_of x; push_of delta; I1 OC_OP (POperator op); I1 OC_POP x].

(* if_true_start / if_else / if_end around already generated pieces *)
Definition c_if (test then_ : program) (else_ : option program) : program :=
  match else_ with
  | None => test ++ [jump JC_IF_FALSE (len then_ + 1)] ++ then_
  | Some e => test ++ [jump JC_IF_FALSE (len then_ + 2)] ++ then_ ++ [jump JC_ALWAYS (len e + 1)] ++ e
  end.

(* iter_lights / iter_sets / iter_members: the scanning loop that pushes names *)
Definition scan (start : program) (test_src : param) (next : program) (operand : operand) : program :=
  let inner := op_equals OP_ADD (PLoopVar LV_COUNTER) (PInt 1) ++ [I1 OC_PUSH (PLoopVar LV_CURRENT)] in
  let tail := inner ++ [I2 OC_MOVEQ (POperand operand) (PReg R_OPERAND)] ++ next in
  let head := [I2 OC_MOVE (PReg R_RESULT) (PLoopVar LV_CURRENT)] ++ test_op OP_NOTEQ test_src (POperand OD_NULL) in
  start ++ head ++ [jump JC_IF_FALSE (len tail + 2)] ++ tail ++ [jump JC_ALWAYS (- (len head + 1 + len tail))].

Definition scan_all : program :=
  scan [I2 OC_MOVEQ (POperand OD_LIGHT) (PReg R_OPERAND); I0 OC_DISC] (PLoopVar LV_CURRENT)
       [I1 OC_DNEXT (PLoopVar LV_CURRENT)] OD_LIGHT.
Definition scan_sets (o : operand) : program :=
  scan [I2 OC_MOVEQ (POperand o) (PReg R_OPERAND); I0 OC_DISC] (PReg R_RESULT)
       [I1 OC_DNEXT (PLoopVar LV_CURRENT)] o.
Definition scan_members (o : operand) : program :=
  scan [I2 OC_MOVEQ (POperand o) (PReg R_OPERAND); I1 OC_DISCM (PLoopVar LV_FIRST)] (PLoopVar LV_CURRENT)
       [I2 OC_DNEXTM (PLoopVar LV_FIRST) (PLoopVar LV_CURRENT)] o.

Definition c_src (s : light_src) : program :=
  match s with
  | SrcLight n => c_rval n (DReg R_RESULT) ++ [I1 OC_PUSH (PReg R_RESULT)] ++ op_equals OP_ADD (PLoopVar LV_COUNTER) (PInt 1)
  | SrcGroup n => c_rval n (DLoop LV_FIRST) ++ scan_members OD_GROUP
  | SrcLocation n => c_rval n (DLoop LV_FIRST) ++ scan_members OD_LOCATION
  end.

(* LoopParser._calc_incr / _calc_counter / _cycle_var_range *)
Definition calc_incr : program :=
  c_if (test_op OP_NOTEQ (PLoopVar LV_COUNTER) (PInt 1))
       ([push_of (PLoopVar LV_LAST); push_of (PLoopVar LV_FIRST); I1 OC_OP (POperator OP_SUB);
         push_of (PLoopVar LV_COUNTER); push_of (PInt 1); I1 OC_OP (POperator OP_SUB);
         I1 OC_OP (POperator OP_DIV); I1 OC_POP (PLoopVar LV_INCR)])
       (Some [I2 OC_MOVEQ (PInt 0) (PLoopVar LV_INCR)]).
Definition calc_counter : program :=
  [push_of (PLoopVar LV_LAST); push_of (PLoopVar LV_FIRST); I1 OC_OP (POperator OP_SUB); I1 OC_POP (PLoopVar LV_COUNTER)] ++
  c_if (test_op OP_LT (PLoopVar LV_COUNTER) (PInt 0))
       (op_equals OP_MUL (PLoopVar LV_COUNTER) (PInt (-1)) ++ [I2 OC_MOVEQ (PInt (-1)) (PLoopVar LV_INCR)])
       (Some [I2 OC_MOVEQ (PInt 1) (PLoopVar LV_INCR)]) ++
  op_equals OP_ADD (PLoopVar LV_COUNTER) (PInt 1).
Definition cycle_incr : program :=
  c_if (test_op OP_NOTEQ (PLoopVar LV_COUNTER) (PInt 0))
       (c_if (test_op OP_EQ (PReg R_UNIT_MODE) (PMode UM_RAW))
             [push_of (PInt 65536)] (Some [push_of (PInt 360)]) ++
        [push_of (PLoopVar LV_COUNTER); I1 OC_OP (POperator OP_DIV); I1 OC_POP (PLoopVar LV_INCR)])
       None.

Definition c_with (w : loop_with) : program * string :=
  match w with
  | WRange v a b =>
      (c_rval a (DLoop LV_FIRST) ++ c_rval b (DLoop LV_LAST) ++ [I2 OC_MOVE (PLoopVar LV_FIRST) (PStr v)] ++ calc_incr, v)
  | WCycle v start =>
      ((match start with Some a => c_rval a (DLoop LV_FIRST) | None => [I2 OC_MOVEQ (PInt 0) (PLoopVar LV_FIRST)] end) ++
       [I2 OC_MOVE (PLoopVar LV_FIRST) (PStr v)] ++ cycle_incr, v)
  end.

Definition counter_test : program := test_op OP_GT (PLoopVar LV_COUNTER) (PInt 0).
Definition counter_post (idx : option string) : program :=
  op_equals OP_SUB (PLoopVar LV_COUNTER) (PInt 1) ++
  match idx with Some v => op_equals OP_ADD (PStr v) (PLoopVar LV_INCR) | None => [] end.

(* pre, test, [POP lightvar], post of each loop form *)
Definition loop_parts (l : loop) : program * program * option string * program :=
  let zero := [I2 OC_MOVEQ (PInt 0) (PLoopVar LV_COUNTER)] in
  let with_opt (w : option loop_with) : program * option string :=
    match w with Some w' => let '(c, v) := c_with w' in (c, Some v) | None => ([], None) end in
  match l with
  | LInfinite => ([], [I2 OC_MOVEQ (PBool true) (PReg R_RESULT)], None, [])
  | LWhile c => ([], c_rval c (DReg R_RESULT), None, [])
  | LCount n => (c_rval n (DLoop LV_COUNTER), counter_test, None, counter_post None)
  | LRange v a b =>
      (c_rval a (DLoop LV_FIRST) ++ c_rval b (DLoop LV_LAST) ++ [I2 OC_MOVE (PLoopVar LV_FIRST) (PStr v)] ++ calc_counter,
       counter_test, None, counter_post (Some v))
  | LCountWith n w =>
      let '(c, v) := c_with w in
      (c_rval n (DLoop LV_COUNTER) ++ c, counter_test, None, counter_post (Some v))
  | LAll x w =>
      let '(c, v) := with_opt w in (zero ++ scan_all ++ c, counter_test, Some x, counter_post v)
  | LGroups x w =>
      let '(c, v) := with_opt w in (zero ++ scan_sets OD_GROUP ++ c, counter_test, Some x, counter_post v)
  | LLocations x w =>
      let '(c, v) := with_opt w in (zero ++ scan_sets OD_LOCATION ++ c, counter_test, Some x, counter_post v)
  | LIn srcs x w =>
      let '(c, v) := with_opt w in
      (zero ++ flat_map c_src (rev srcs) ++ c, counter_test, Some x, counter_post v)
  end.

(* [after] = number of instructions between the end of the statement being compiled and
   the END_LOOP of the innermost enclosing loop (None outside loops): a `break` at this
   point is JUMP ALWAYS (after + 1). *)
Fixpoint c_stmt (in_matrix : bool) (after : option Z) (s : stmt) : program :=
  let wait := if in_matrix then [] else [I0 OC_WAIT] in
  match s with
  | SReg r v => c_rval v (DReg r)
  | SUnits m => [I2 OC_MOVEQ (PMode m) (PReg R_UNIT_MODE)]
  | SSet ops => wait ++ c_ops in_matrix OC_COLOR ops
  | SOn ops => [I2 OC_MOVEQ (PBool true) (PReg R_POWER)] ++ wait ++ c_ops in_matrix OC_POWER ops
  | SOff ops => [I2 OC_MOVEQ (PBool false) (PReg R_POWER)] ++ wait ++ c_ops in_matrix OC_POWER ops
  | SStage rows cols rf => c_spans rows cols rf ++ [I0 OC_COLOR]
  | SGet n => c_rval n (DReg R_RESULT) ++ [I2 OC_MOVE (PReg R_RESULT) (PReg R_NAME); I0 OC_GET_COLOR]
  | SWait => [I0 OC_WAIT]
  | STimeAt ps =>
      let pat (t : time_ref) : param :=
        match t with TPat _ p => PTime p | TMacro m => macro_param m end in
      match ps with
      | [] => []
      | p :: r => I2 OC_TIME_PATTERN (PSetOp SO_INIT) (pat p) :: map (fun q => I2 OC_TIME_PATTERN (PSetOp SO_UNION) (pat q)) r
      end
  | SAssign x v => c_rval v (DVar x)
  | SDefineMacro m _ => [I2 OC_CONSTANT (PStr m) (macro_param m)]
  | SDefineRoutine f _ body =>
      [I1 OC_ROUTINE (PStr f)] ++ c_stmt false None body ++ [I1 OC_END (PStr f)]
  | SCall f args _ => c_call f args
  | SReturn None => [I2 OC_MOVEQ PNone (PReg R_RESULT); I0 OC_RETURN]
  | SReturn (Some v) => c_rval v (DReg R_RESULT) ++ [I0 OC_RETURN]
  | SIf c s1 None =>
      let body := c_stmt in_matrix after s1 in
      c_rval c (DReg R_RESULT) ++ [jump JC_IF_FALSE (len body + 1)] ++ body
  | SIf c s1 (Some s2) =>
      let e := c_stmt in_matrix after s2 in
      let t := c_stmt in_matrix (option_map (fun a => a + 1 + len e) after) s1 in
      c_rval c (DReg R_RESULT) ++ [jump JC_IF_FALSE (len t + 2)] ++ t ++ [jump JC_ALWAYS (len e + 1)] ++ e
  | SRepeat l body =>
      let '(pre, test, lightvar, post) := loop_parts l in
      let pop := match lightvar with Some x => [I1 OC_POP (PStr x)] | None => [] end in
      let b := c_stmt in_matrix (Some (len post + 1)) body in
      let inner := pop ++ b ++ post in
      [I0 OC_LOOP] ++ pre ++ test ++ [jump JC_IF_FALSE (len inner + 2)] ++ inner ++
      [jump JC_ALWAYS (- (len test + 1 + len inner))] ++ [I0 OC_END_LOOP]
  | SBreak => match after with Some a => [jump JC_ALWAYS (a + 1)] | None => [jump JC_ALWAYS 0] end
  | SPrint None => []
  | SPrint (Some v) => c_rval v (DReg R_RESULT) ++ [I2 OC_OUT (PIoOp IO_REGISTER) (PReg R_RESULT); I1 OC_OUT (PIoOp IO_PRINT)]
  | SPrintln None => [I1 OC_OUT (PIoOp IO_PRINT_END)]
  | SPrintln (Some v) =>
      c_rval v (DReg R_RESULT) ++ [I2 OC_OUT (PIoOp IO_REGISTER) (PReg R_RESULT); I1 OC_OUT (PIoOp IO_PRINT); I1 OC_OUT (PIoOp IO_PRINT_END)]
  | SPrintf fmt args =>
      flat_map (fun a => c_rval a (DReg R_RESULT) ++ [I2 OC_OUT (PIoOp IO_REGISTER) (PReg R_RESULT)]) args ++
      [I2 OC_OUT (PIoOp IO_PRINTF) (PStr fmt)]
  | SBlock ss =>
      (fix go (ss : list stmt) (after : option Z) : program :=
         match ss with
         | [] => []
         | st :: r =>
             let rest := go r after in
             c_stmt in_matrix (option_map (fun a => a + len rest) after) st ++ rest
         end) ss after
  end
with c_ops (in_matrix : bool) (op : opcode) (ops : operands) : program :=
  match ops with
  | OpAll => [I2 OC_MOVEQ (POperand OD_ALL) (PReg R_OPERAND); I0 op]
  | OpDefault => [I2 OC_MOVEQ (POperand OD_DEFAULT) (PReg R_OPERAND); I0 op]
  | OpList l =>
      (* Parser._operand: after a matrix operand the command code is COLOR -- a matrix is sent as colours whatever commands
         its block held (D69) -- and stays so for the operands that follow *)
      (fix go (op : opcode) (l : list opnd) : program :=
         match l with
         | [] => []
         | o :: r =>
             let op' := match o with MatrixInline _ _ _ _ | MatrixBlock _ _ => OC_COLOR | _ => op end in
             c_operand in_matrix o ++ [I0 op'] ++ go op' r
         end) op l
  end
with c_operand (in_matrix : bool) (o : opnd) : program :=
  match o with
  | Target k n =>
      c_name n ++ [I2 OC_MOVEQ (POperand (match k with TLight => OD_LIGHT | TGroup => OD_GROUP | TLocation => OD_LOCATION end)) (PReg R_OPERAND)]
  | Zone n a b =>
      c_name n ++ c_range (a, b) R_FIRST_ZONE R_LAST_ZONE ++ [I2 OC_MOVEQ (POperand OD_MZ_LIGHT) (PReg R_OPERAND)]
  | MatrixInline n rows cols rf =>
      c_name n ++ [I0 OC_MATRIX] ++ c_spans rows cols rf ++ [I0 OC_COLOR; I1 OC_END (POperand OD_MATRIX)] ++
      [I2 OC_MOVEQ (POperand OD_MATRIX_LIGHT) (PReg R_OPERAND)]
  | MatrixBlock n body =>
      c_name n ++ [I0 OC_MATRIX] ++ c_stmt true None body ++ [I1 OC_END (POperand OD_MATRIX)] ++
      [I2 OC_MOVEQ (POperand OD_MATRIX_LIGHT) (PReg R_OPERAND)]
  end.

End Compile.

(* Parser.parse on the text of a well-formed script.  Routine bodies that the loader will
   move out of line do not count for the relative branches around them: at top level there
   are none, so nothing needs adjusting. *)
Definition compile (p : script) : program :=
  let '(rt, mt) := collect p [] [] in
  flat_map (c_stmt rt mt false None) p.
