(* Call frames: what RETURN and END do to the frames of the routine in progress (used by Lang/Simulation3.v). *)
From Coq Require Import ZArith String List Bool Lia.
From Bardolph Require Import Gen.Codes Lang.Value Lang.Instr Lang.Loader Lang.World Lang.Units0 Lang.Regs Lang.Devices Lang.Builtins
  Lang.Machine Lang.Syntax Lang.Sem Lang.CodeGen Lang.Scope Lang.ExprCompile Lang.Simulation Lang.Simulation2.
Open Scope string_scope.
Open Scope list_scope.
Import ListNotations.
Open Scope Z_scope.

(* ---- the call frame of the routine in progress ---- *)
Fixpoint call_tail (fs : frames) : option (Z * frames) :=
  match fs with
  | FLoop _ _ :: r => call_tail r
  | FCall _ true (Some ret) :: r => Some (ret, r)
  | _ => None
  end.
Lemma call_tail_erase fs : call_tail (erase fs) = call_tail fs.
Proof. induction fs as [|[p [|] [ra|]|lv d] t IH]; cbn [erase call_tail]; try reflexivity. exact IH. Qed.
Lemma call_tail_fr_eq fs fs' : erase fs = erase fs' -> call_tail fs = call_tail fs'.
Proof. intros H. rewrite <- (call_tail_erase fs), <- (call_tail_erase fs'), H. reflexivity. Qed.

(* every loop frame of the routine in progress was opened on the present stack *)
Fixpoint depth_ok (fs : frames) (z : Z) : Prop :=
  match fs with
  | FLoop _ d :: r => d = z /\ depth_ok r z
  | _ => True
  end.
Lemma depth_ok_erase fs z : depth_ok (erase fs) z <-> depth_ok fs z.
Proof. induction fs as [|[p [|] ra|lv d] t IH]; cbn [erase depth_ok]; try tauto. Qed.
Lemma depth_ok_fr_eq fs fs' z : erase fs = erase fs' -> depth_ok fs z -> depth_ok fs' z.
Proof. intros H Hd. apply depth_ok_erase. rewrite <- H. apply depth_ok_erase. exact Hd. Qed.

(* RETURN: the loop frames go, the stack is cut back to where the outermost of them was opened (the present stack), the
   call frame goes, control goes on behind the call *)
Lemma unwind_call_tail fs z d0 ret F : call_tail fs = Some (ret, F) -> depth_ok fs z -> (d0 = None \/ d0 = Some z) ->
  exists p d, unwind fs d0 = (FCall p true (Some ret) :: F, d) /\ (d = None \/ d = Some z).
Proof.
  revert d0. induction fs as [|[p [|] [ra|]|lv dd] t IH]; cbn [call_tail depth_ok unwind]; intros d0 H Hd H0; try discriminate.
  - injection H as H1 H2. subst ra t. exists p, d0. split; [reflexivity|exact H0].
  - destruct Hd as [-> Hd]. apply (IH (Some z) H Hd). right. reflexivity.
Qed.

Lemma truncate_own (k : list value) : truncate_to k (zlength k) = k.
Proof. destruct k as [|v k]; cbn [truncate_to]; [reflexivity|]. rewrite Z.leb_refl. reflexivity. Qed.

Lemma do_return_steps s ret F :
  call_tail (m_frames s) = Some (ret, F) -> depth_ok (m_frames s) (zlength (m_stack s)) ->
  do_return s = Next (with_pc (with_stack (with_frames s F) (m_stack s)) ret) [].
Proof.
  intros Hc Hd. unfold do_return.
  destruct (unwind_call_tail (m_frames s) (zlength (m_stack s)) None ret F Hc Hd (or_introl eq_refl)) as (p & d & Hu & Hdd).
  rewrite Hu. destruct Hdd as [-> | ->]; [reflexivity|]. rewrite truncate_own. reflexivity.
Qed.

Lemma not_builtin f : builtin_params f builtin_table = None -> is_builtin f = false.
Proof.
  unfold is_builtin, builtin_names. induction builtin_table as [|[k ps] t IH]; cbn [builtin_params map fst existsb]; [reflexivity|].
  rewrite (String.eqb_sym f k). destruct (String.eqb k f); cbn [orb]; intros H; [discriminate|]. exact (IH H).
Qed.
