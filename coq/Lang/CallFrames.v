(* Call frames: what RETURN and END do to the frames of the routine in progress (used by Lang/Simulation3.v). *)
From Coq Require Import ZArith String List Bool Lia.
From Bardolph Require Import Gen.Codes Lang.Value Lang.Instr Lang.Loader Lang.World Lang.Units0 Lang.Regs Lang.Devices Lang.Builtins
  Lang.Machine Lang.Syntax Lang.Sem Lang.CodeGen Lang.Scope Lang.ExprCompile Lang.Simulation Lang.Simulation2.
Open Scope string_scope.
Open Scope list_scope.
Import ListNotations.
Open Scope Z_scope.

(* ---- the call frame of the routine in progress ---- *)
Fixpoint call_tail (fs : frames) : option (Z * frames) :=
  match fs with
  | FLoop _ _ :: r => call_tail r
  | FCall _ true (Some ret) :: r => Some (ret, r)
  | _ => None
  end.
Lemma call_tail_erase fs : call_tail (erase fs) = call_tail fs.
Proof. induction fs as [|[p [|] [ra|]|lv d] t IH]; cbn [erase call_tail]; try reflexivity. exact IH. Qed.
Lemma call_tail_fr_eq fs fs' : erase fs = erase fs' -> call_tail fs = call_tail fs'.
Proof. intros H. rewrite <- (call_tail_erase fs), <- (call_tail_erase fs'), H. reflexivity. Qed.

(* the loop frames of the routine in progress: each was opened on a stack no longer than the present one, the inner loops on stacks
   no shorter than the outer ones (a loop over lights keeps the names still to visit on the stack while its body runs) *)
Fixpoint depth_ok (fs : frames) (z : Z) : Prop :=
  match fs with
  | FLoop _ d :: r => d <= z /\ depth_ok r d
  | _ => True
  end.
Lemma depth_ok_erase fs : forall z, depth_ok (erase fs) z <-> depth_ok fs z.
Proof. induction fs as [|[p [|] ra|lv d] t IH]; intros z; cbn [erase depth_ok]; try tauto. rewrite (IH d). tauto. Qed.
Lemma depth_ok_fr_eq fs fs' z : erase fs = erase fs' -> depth_ok fs z -> depth_ok fs' z.
Proof. intros H Hd. apply depth_ok_erase. rewrite <- H. apply depth_ok_erase. exact Hd. Qed.
Lemma depth_ok_le fs : forall z z', z <= z' -> depth_ok fs z -> depth_ok fs z'.
Proof. destruct fs as [|[p b ra|lv d] t]; intros z z' Hle H; cbn [depth_ok] in *; try exact I. split; [lia|tauto]. Qed.

(* RETURN: the loop frames go, the stack is cut back to where the outermost of them was opened, the call frame goes, control goes
   on behind the call *)
Fixpoint outer_depth (fs : frames) (d0 : option Z) : option Z :=
  match fs with
  | FLoop _ d :: r => outer_depth r (Some d)
  | _ => d0
  end.
Definition ret_stack (fs : frames) (stk : list value) : list value :=
  match outer_depth fs None with Some d => truncate_to stk d | None => stk end.

Lemma unwind_outer fs : forall d0, snd (unwind fs d0) = outer_depth fs d0.
Proof. induction fs as [|[p b ra|lv d] t IH]; intros d0; cbn [unwind outer_depth snd]; try reflexivity. apply IH. Qed.
Lemma unwind_call_tail fs ret F : forall d0, call_tail fs = Some (ret, F) -> exists p, fst (unwind fs d0) = FCall p true (Some ret) :: F.
Proof.
  induction fs as [|[p [|] [ra|]|lv dd] t IH]; cbn [call_tail unwind]; intros d0 H; try discriminate.
  - injection H as H1 H2. subst ra t. exists p. reflexivity.
  - exact (IH (Some dd) H).
Qed.
Lemma outer_depth_erase fs : forall d0, outer_depth (erase fs) d0 = outer_depth fs d0.
Proof. induction fs as [|[p [|] ra|lv d] t IH]; intros d0; cbn [erase outer_depth]; try reflexivity. apply IH. Qed.
Lemma ret_stack_fr_eq fs fs' stk : erase fs = erase fs' -> ret_stack fs stk = ret_stack fs' stk.
Proof. intros H. unfold ret_stack. rewrite <- (outer_depth_erase fs), <- (outer_depth_erase fs'), H. reflexivity. Qed.

Lemma truncate_own (k : list value) : truncate_to k (zlength k) = k.
Proof. destruct k as [|v k]; cbn [truncate_to]; [reflexivity|]. rewrite Z.leb_refl. reflexivity. Qed.
Lemma truncate_over (extra k : list value) d : d <= zlength k -> truncate_to (extra ++ k) d = truncate_to k d.
Proof.
  intros Hd. induction extra as [|v e IH]; [reflexivity|]. cbn [app truncate_to].
  assert (H : (zlength (v :: e ++ k) <=? d) = false) by (apply Z.leb_gt; unfold zlength in *; cbn [length]; rewrite app_length; lia).
  rewrite H. exact IH.
Qed.
Lemma truncate_extra (extra k : list value) : truncate_to (extra ++ k) (zlength k) = k.
Proof. rewrite truncate_over by lia. apply truncate_own. Qed.

(* with loops around: the outermost depth is that of the outermost loop frame, whatever lies above it *)
Lemma outer_depth_some fs : forall d0 d1, outer_depth fs (Some d0) = outer_depth fs (Some d1) \/ (outer_depth fs (Some d0) = Some d0 /\ outer_depth fs (Some d1) = Some d1).
Proof. destruct fs as [|[p b ra|lv d] t]; intros d0 d1; cbn [outer_depth]; try (right; split; reflexivity). left. reflexivity. Qed.
Lemma outer_depth_none fs d : outer_depth fs None = None -> outer_depth fs (Some d) = Some d.
Proof. destruct fs as [|[p b ra|lv d'] t]; cbn [outer_depth]; intros H; try reflexivity. exfalso. revert H. generalize d'. induction t as [|[p b ra|lv2 d2] t2 IH]; intros d3; cbn [outer_depth]; try discriminate. apply IH. Qed.
Lemma outer_depth_inner fs d d' : outer_depth fs None = Some d' -> outer_depth fs (Some d) = Some d'.
Proof. destruct fs as [|[p b ra|lv d2] t]; cbn [outer_depth]; intros H; try discriminate. exact H. Qed.
Lemma outer_depth_le fs : forall z d, depth_ok fs z -> outer_depth fs None = Some d -> d <= z.
Proof.
  induction fs as [|[p b ra|lv d2] t IH]; cbn [outer_depth depth_ok]; intros z d Hd H; try discriminate.
  destruct Hd as [Hle Hd]. destruct (outer_depth t None) as [d3|] eqn:E.
  - rewrite (outer_depth_inner t d2 d3 E) in H. injection H as <-. pose proof (IH d2 d3 Hd eq_refl). lia.
  - rewrite (outer_depth_none t d2 E) in H. injection H as <-. exact Hle.
Qed.

(* inside a loop opened on the stack stk (names of a loop over lights may lie above it): RETURN leaves what it would have left there *)
Lemma ret_stack_in_loop lv r extra fs stk : erase r = erase fs -> depth_ok fs (zlength stk) ->
  ret_stack (FLoop lv (zlength stk) :: r) (extra ++ stk) = ret_stack fs stk.
Proof.
  intros He Hd. unfold ret_stack. cbn [outer_depth]. rewrite <- (outer_depth_erase r), He, outer_depth_erase.
  destruct (outer_depth fs None) as [d|] eqn:E.
  - rewrite (outer_depth_inner fs (zlength stk) d E). apply truncate_over. exact (outer_depth_le fs (zlength stk) d Hd E).
  - rewrite (outer_depth_none fs (zlength stk) E). apply truncate_extra.
Qed.
Lemma depth_ok_in_loop lv r (extra : list value) fs (stk : list value) : erase r = erase fs -> depth_ok fs (zlength stk) -> depth_ok (FLoop lv (zlength stk) :: r) (zlength (extra ++ stk)).
Proof.
  intros He Hd. cbn [depth_ok]. split; [unfold zlength; rewrite app_length; lia|]. exact (depth_ok_fr_eq fs r _ (eq_sym He) Hd).
Qed.

Lemma do_return_steps s ret F :
  call_tail (m_frames s) = Some (ret, F) ->
  do_return s = Next (with_pc (with_stack (with_frames s F) (ret_stack (m_frames s) (m_stack s))) ret) [].
Proof.
  intros Hc. unfold do_return, ret_stack. destruct (unwind_call_tail (m_frames s) ret F None Hc) as (p & Hu).
  pose proof (unwind_outer (m_frames s) None) as Ho. destruct (unwind (m_frames s) None) as [fs d]. cbn [fst snd] in *. subst fs. rewrite <- Ho. reflexivity.
Qed.

Lemma not_builtin f : builtin_params f builtin_table = None -> is_builtin f = false.
Proof.
  unfold is_builtin, builtin_names. induction builtin_table as [|[k ps] t IH]; cbn [builtin_params map fst existsb]; [reflexivity|].
  rewrite (String.eqb_sym f k). destruct (String.eqb k f); cbn [orb]; intros H; [discriminate|]. exact (IH H).
Qed.
