(* Built-in routines (runtime/bardolph_math.py) and the field-name scan of printf
   format strings (vm_io.py); shared by the reference semantics and the machine model. *)
From Coq Require Import ZArith String Ascii List Bool PrimFloat.
From Bardolph Require Import Base.PyFloat Gen.Codes Lang.Value Lang.Units0 Lang.Regs.
Open Scope string_scope.
Open Scope list_scope.
Import ListNotations.
Open Scope Z_scope.
Open Scope bool_scope.

(* ---------- built-in routines (runtime/bardolph_math.py) ---------- *)
(* name and parameter names, as inspect.signature gives them *)
Definition builtin_table : list (string * list string) :=
  [("round", ["x"]); ("trunc", ["x"]); ("floor", ["x"]); ("ceil", ["x"]); ("sqrt", ["x"]);
   ("sin", ["x"]); ("cos", ["x"]); ("tan", ["x"]); ("asin", ["x"]); ("acos", ["x"]); ("atan", ["x"]);
   ("cycle", ["theta"]); ("random", ["min"; "max"])].
Definition builtin_names : list string := map fst builtin_table.
Definition is_builtin (n : string) : bool := existsb (String.eqb n) builtin_names.
Fixpoint builtin_params (n : string) (t : list (string * list string)) : option (list string) :=
  match t with
  | [] => None
  | (k, ps) :: r => if String.eqb k n then Some ps else builtin_params n r
  end.

Definition int_fn (f : float -> option Z) (v : value) : res value :=
  match to_num v with
  | Some (NI z) => Ok (VInt z)
  | Some (NF x) => match f x with Some z => Ok (VInt z) | None => Err EValue end
  | None => Err ETypeError
  end.

Definition call_builtin (n : string) (p : env) : res value :=
  let arg k := match env_get p k with Some v => v | None => VNone end in
  if String.eqb n "round" then int_fn py_round (arg "x")
  else if String.eqb n "trunc" then int_fn py_trunc (arg "x")
  else if String.eqb n "floor" then int_fn py_floor (arg "x")
  else if String.eqb n "ceil" then int_fn py_ceil (arg "x")
  else if String.eqb n "sqrt" then
    (do x <- as_num (arg "x");
     do ge <- num_cmp CGe x (NF 0);
     if ge then do f <- num_f x; Ok (VFlt (PrimFloat.sqrt f)) else Ok (VInt (-1)))
  else if String.eqb n "cycle" then
    (let t := arg "theta" in
     do x <- as_num t;
     do a <- num_cmp CGe x (NF 0);
     do b <- num_cmp CLt x (NF 360);
     if a && b then Ok t else eval_binop OP_MOD t (VFlt 360))
  else Err (EUnsupported "libm / random built-in").


(* ---------- printf: the field names of a format string ---------- *)
(* Names of the replacement fields as string.Formatter().parse yields them, for format
   strings without nested fields in the spec; None = outside this subset.  Only names
   that are neither empty nor all digits are looked up (registers first, then variables). *)
Fixpoint scan_fmt (fuel : nat) (s : string) (infield : bool) (inspec : bool) (cur : string) (acc : list string)
  : option (list string) :=
  match fuel with
  | O => None
  | S f =>
    match s with
    | EmptyString => if infield then None else Some (rev acc)
    | String c r =>
        let n := Ascii.nat_of_ascii c in
        if infield then
          if Nat.eqb n 125 (* } *) then scan_fmt f r false false "" (cur :: acc)
          else if Nat.eqb n 123 (* { *) then None
          else if inspec then scan_fmt f r true true cur acc
          else if Nat.eqb n 58 (* : *) || Nat.eqb n 33 (* ! *) then scan_fmt f r true true cur acc
          else scan_fmt f r true false (String.append cur (String c EmptyString)) acc
        else
          if Nat.eqb n 123 then
            match r with
            | String c2 r2 => if Nat.eqb (Ascii.nat_of_ascii c2) 123 then scan_fmt f r2 false false "" acc
                              else scan_fmt f r true false "" acc
            | EmptyString => None
            end
          else if Nat.eqb n 125 then
            match r with
            | String c2 r2 => if Nat.eqb (Ascii.nat_of_ascii c2) 125 then scan_fmt f r2 false false "" acc else None
            | EmptyString => None
            end
          else scan_fmt f r false false "" acc
    end
  end.

Definition all_digits (s : string) : bool :=
  match s with
  | EmptyString => false
  | _ => (fix go (s : string) : bool :=
            match s with
            | EmptyString => true
            | String c r => let n := Ascii.nat_of_ascii c in Nat.leb 48 n && Nat.leb n 57 && go r
            end) s
  end.

Fixpoint dedup (l : list string) : list string :=
  match l with
  | [] => []
  | x :: r => if existsb (String.eqb x) r then dedup r else x :: dedup r
  end.

Definition printf_names (fmt : string) : option (list string) :=
  match scan_fmt (S (String.length fmt)) fmt false false "" [] with
  | Some names =>
      let named := filter (fun n => negb (String.eqb n "") && negb (all_digits n)) names in
      if existsb (fun n => existsb (fun c => existsb (Nat.eqb (Ascii.nat_of_ascii c)) [46; 91]%nat) (list_ascii_of_string n)) named
      then None else Some (dedup named)
  | None => None
  end.

(* number of positional fields ({} or {0}), counted as io_parser.printf and VmIo._printf do *)
Definition printf_positional (fmt : string) : option Z :=
  match scan_fmt (S (String.length fmt)) fmt false false "" [] with
  | Some names => Some (Z.of_nat (length (filter (fun n => String.eqb n "" || all_digits n) names)))
  | None => None
  end.

Definition upper_ascii (c : Ascii.ascii) : Ascii.ascii :=
  let n := Ascii.nat_of_ascii c in if Nat.leb 97 n && Nat.leb n 122 then Ascii.ascii_of_nat (n - 32) else c.
Fixpoint upper (s : string) : string :=
  match s with EmptyString => EmptyString | String c r => String (upper_ascii c) (upper r) end.

(* Register.from_string: case-insensitive member name *)
Definition register_of_name (n : string) : option register :=
  find (fun r => String.eqb (register_name r) (upper n)) all_register.

