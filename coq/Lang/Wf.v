(* C05: a static checker of loaded images and its soundness for the machine model.

   Every instruction of an image gets a label (d, c): d = loop frames entered in the
   current segment (main program or one routine body), c = call contexts opened (CTX) and
   not yet consumed (JSR).  [wf_image] checks, over the whole instruction graph:
   jumps stay inside their segment and preserve the label; LOOP/END_LOOP and CTX/JSR
   bracket properly; every JSR names a built-in or a routine of the table whose body is a
   checked segment; a routine body ends with END at label (0,0); the main segment ends at
   label (0,0); nothing writes the program counter; ROUTINE is never in a segment's path.
   Soundness: every state reachable in the machine model on a checked image has its
   program counter inside the segment of the routine in progress, and a frame stack of
   exactly the shape the label prescribes -- on every path, whatever the data. *)
From Coq Require Import ZArith String List Bool PrimFloat Lia.
From Bardolph Require Import Base.PyFloat Gen.Codes Time.TimeSpec Time.TimeCore
  Lang.Value Lang.Instr Lang.Loader Lang.Units0 Lang.World Lang.Regs Lang.Devices Lang.Builtins Lang.Machine.
Open Scope string_scope.
Open Scope list_scope.
Import ListNotations.
Open Scope Z_scope.
Open Scope bool_scope.

(* ---------- control abstraction of a machine state ---------- *)
Inductive fsh := ShCall (entered : bool) (ret : option Z) | ShLoop.
Definition sh_of (f : frame) : fsh := match f with FCall _ e r => ShCall e r | FLoop _ _ => ShLoop end.
Definition shape_of (fs : frames) : list fsh := map sh_of fs.

Definition is_pc_reg (p : param) : bool := match p with PReg R_PC => true | _ => false end.
Definition no_pc_write (i : instr) : bool := negb (is_pc_reg (i_p0 i)) && negb (is_pc_reg (i_p1 i)).

Fixpoint unwind_sh (sh : list fsh) : list fsh :=
  match sh with ShLoop :: r => unwind_sh r | _ => sh end.

(* where a return leads: the return address of the innermost call, its frames popped *)
Definition areturn (sh : list fsh) : list (Z * list fsh) :=
  match unwind_sh sh with
  | ShCall _ (Some ret) :: r => [(ret, r)]
  | _ => []
  end.

(* all control successors of an instruction, whatever the data *)
Definition anext (im : image) (i : instr) (pc : Z) (sh : list fsh) : list (Z * list fsh) :=
  match i_op i with
  | OC_STOP | OC_ROUTINE | OC_PAUSE => []
  | OC_JUMP =>
      match i_p0 i, i_p1 i with
      | PJump JC_ALWAYS, PInt off => [(pc + off, sh)]
      | PJump JC_INDIRECT, _ => []
      | PJump _, PInt off => [(pc + off, sh); (pc + 1, sh)]
      | PJump _, _ => [(pc + 1, sh)]
      | _, _ => []
      end
  | OC_LOOP => [(pc + 1, ShLoop :: sh)]
  | OC_END_LOOP => match sh with ShLoop :: r => [(pc + 1, r)] | _ => [] end
  | OC_CTX => [(pc + 1, ShCall false None :: sh)]
  | OC_PARAM => match sh with ShCall _ _ :: _ => [(pc + 1, sh)] | _ => [] end
  | OC_JSR =>
      match sh, i_p0 i with
      | ShCall _ _ :: r, PStr n =>
          if is_builtin n then [(pc + 1, r)]
          else match find_routine (PStr n) (im_routines im) with
               | Some (addr, _) => [(addr, ShCall true (Some (pc + 1)) :: r)]
               | None => []
               end
      | _, _ => []
      end
  | OC_END =>
      match i_p0 i with
      | POperand OD_MATRIX => [(pc + 1, sh)]
      | _ => areturn sh
      end
  | OC_RETURN => map (fun p => (fst p + 1, snd p)) (areturn sh)
  | _ => [(pc + 1, sh)]
  end.

(* ---------- helpers of the machine leave pc and frame shape alone ---------- *)
Definition same_ctl (s s' : mstate) : Prop :=
  m_pc s' = m_pc s /\ shape_of (m_frames s') = shape_of (m_frames s).

Lemma same_ctl_refl s : same_ctl s s. Proof. split; reflexivity. Qed.
Lemma same_ctl_trans a b c : same_ctl a b -> same_ctl b c -> same_ctl a c.
Proof. intros [H1 H2] [H3 H4]. split; congruence. Qed.

Lemma shape_upd_params fs f : shape_of (upd_params fs f) = shape_of fs.
Proof. induction fs as [|[p e r|lv d] t IH]; cbn; [reflexivity|reflexivity|]. f_equal. exact IH. Qed.

Lemma shape_upd_vars fs f fs' : upd_vars fs f = Some fs' -> shape_of fs' = shape_of fs.
Proof.
  revert fs'. induction fs as [|[p [|] r|lv d] t IH]; intros fs' H; cbn in H; try discriminate.
  - inversion H. reflexivity.
  - destruct (upd_vars t f) eqn:E; [|discriminate]. inversion H. cbn. f_equal. apply IH. reflexivity.
  - destruct (upd_vars t f) eqn:E; [|discriminate]. inversion H. cbn. f_equal. apply IH. reflexivity.
Qed.

Lemma shape_put_var g fs k v : shape_of (snd (put_var g fs k v)) = shape_of fs.
Proof.
  unfold put_var. destruct (env_has (params_of fs) k); [apply shape_upd_params|].
  destruct (env_has g k); [reflexivity|].
  destruct (upd_vars fs (fun e => env_set e k v)) eqn:E; cbn; [eapply shape_upd_vars; exact E|reflexivity].
Qed.

Lemma set_reg_ctl s r v s' : r <> R_PC -> set_reg s r v = Ok s' -> same_ctl s s'.
Proof.
  intros Hr H. unfold set_reg in H. destruct r; try congruence; try discriminate; inversion H; split; reflexivity.
Qed.

Lemma put_dest_ctl s d v s' : is_pc_reg d = false -> put_dest s d v = Ok s' -> same_ctl s s'.
Proof.
  intros Hd H. unfold put_dest in H. destruct d; try discriminate.
  - destruct (put_var (m_globals s) (m_frames s) s0 v) as [g fs] eqn:E. inversion H. split; [reflexivity|].
    cbn. pose proof (shape_put_var (m_globals s) (m_frames s) s0 v) as P. rewrite E in P. exact P.
  - eapply set_reg_ctl; [|exact H]. intros ->. discriminate.
  - destruct (put_loopvar (m_frames s) v0 v) as [fs|e] eqn:E; [|discriminate]. inversion H. split; [reflexivity|].
    cbn. unfold put_loopvar in E. destruct (m_frames s) as [|[p e r|lv d] t]; try discriminate. inversion E. reflexivity.
Qed.

Lemma lift_next r evs s' e : lift r evs = Next s' e -> r = Ok s'.
Proof. destruct r; cbn; intros H; inversion H; reflexivity. Qed.

Lemma bind_ok {A B} (r : res A) (k : A -> res B) b : bind r k = Ok b -> exists a, r = Ok a /\ k a = Ok b.
Proof. destruct r; cbn; [intros H; eexists; split; [reflexivity|exact H]|discriminate]. Qed.

Lemma advance_ctl s s1 : same_ctl s s1 ->
  m_pc (advance s1) = m_pc s + 1 /\ shape_of (m_frames (advance s1)) = shape_of (m_frames s).
Proof. intros [H1 H2]. cbn. rewrite H1. split; [reflexivity|exact H2]. Qed.

Definition succ_same (s s' : mstate) : Prop :=
  m_pc s' = m_pc s + 1 /\ shape_of (m_frames s') = shape_of (m_frames s).

Lemma succ_in s s' : succ_same s s' ->
  In (m_pc s', shape_of (m_frames s')) [(m_pc s + 1, shape_of (m_frames s))].
Proof. intros [H1 H2]. left. rewrite H1, H2. reflexivity. Qed.

Lemma dev_outcome_ctl s r s' e : dev_outcome s r = Next s' e -> succ_same s s'.
Proof. unfold dev_outcome. destruct r as [d|]; intros H; inversion H. split; reflexivity. Qed.

Lemma unwind_shape fs d : shape_of (fst (unwind fs d)) = unwind_sh (shape_of fs).
Proof.
  revert d. induction fs as [|[p e r|lv dd] t IH]; intros d; cbn; [reflexivity|reflexivity|]. apply IH.
Qed.

Lemma do_return_ctl s s' e : do_return s = Next s' e ->
  In (m_pc s', shape_of (m_frames s')) (areturn (shape_of (m_frames s))).
Proof.
  unfold do_return, areturn. destruct (unwind (m_frames s) None) as [fs d] eqn:E.
  pose proof (unwind_shape (m_frames s) None) as U. rewrite E in U. cbn in U. rewrite <- U.
  destruct fs as [|[p en [ret|]|lv dd] r]; cbn; intros H; inversion H. left. reflexivity.
Qed.

(* ---------- the machine's steps are among the abstract successors ---------- *)
Ltac done_same := solve [subst; apply succ_in; split; cbn; reflexivity].

Theorem exec_abstracts im i s s' evs :
  no_pc_write i = true -> exec im i s = Next s' evs ->
  In (m_pc s', shape_of (m_frames s')) (anext im i (m_pc s) (shape_of (m_frames s))).
Proof.
  intros Hn H. unfold no_pc_write in Hn. apply andb_true_iff in Hn. destruct Hn as [Hp0 Hp1].
  apply negb_true_iff in Hp0. apply negb_true_iff in Hp1.
  unfold exec in H. unfold anext.
  destruct (i_op i) eqn:Eop.
  - (* BREAKPOINT *) inversion H. done_same.
  - (* COLOR *) apply succ_in.
    unfold cmd_color in H.
    destruct (reg s R_OPERAND) as [| | | | |o| | | |]; try discriminate.
    destruct o; try discriminate; try (eapply dev_outcome_ctl; exact H).
    destruct (do_stage _ _ _ _ _) as [rf|]; inversion H. split; reflexivity.
  - (* CONSTANT *) inversion H. done_same.
  - (* CTX *) inversion H. left. reflexivity.
  - (* DISC *)
    destruct (names_by_oper s) as [l|]; [|discriminate]. apply lift_next in H. apply bind_ok in H.
    destruct H as [s1 [H1 H2]]. inversion H2. apply succ_in. apply advance_ctl. eapply set_reg_ctl; [|exact H1]. discriminate.
  - (* DISCM *)
    apply lift_next in H. apply bind_ok in H. destruct H as [nm [_ H]]. apply bind_ok in H. destruct H as [s1 [H1 H2]].
    inversion H2. apply succ_in. apply advance_ctl. eapply set_reg_ctl; [|exact H1]. discriminate.
  - (* DNEXT *)
    apply lift_next in H. apply bind_ok in H. destruct H as [l [_ H]]. apply bind_ok in H. destruct H as [cur [_ H]].
    apply bind_ok in H. destruct H as [r [_ H]]. apply bind_ok in H. destruct H as [s1 [H1 H2]].
    inversion H2. apply succ_in. apply advance_ctl. eapply set_reg_ctl; [|exact H1]. discriminate.
  - (* DNEXTM *)
    apply lift_next in H. apply bind_ok in H. destruct H as [nm [_ H]]. apply bind_ok in H. destruct H as [cur [_ H]].
    destruct (set_by_oper s nm).
    + apply bind_ok in H. destruct H as [r [_ H]]. apply bind_ok in H. destruct H as [s1 [H1 H2]].
      inversion H2. apply succ_in. apply advance_ctl. eapply set_reg_ctl; [|exact H1]. discriminate.
    + apply bind_ok in H. destruct H as [s1 [H1 H2]].
      inversion H2. apply succ_in. apply advance_ctl. eapply set_reg_ctl; [|exact H1]. discriminate.
  - (* END *)
    destruct (i_p0 i) as [| | | | | | |o| | | | | | | |]; try (eapply do_return_ctl; exact H).
    destruct o; try (eapply do_return_ctl; exact H). inversion H. done_same.
  - (* END_CTX *) inversion H. done_same.
  - (* END_LOOP *)
    destruct (m_frames s) as [|[p e r|lv d] t] eqn:Ef; try discriminate. inversion H. cbn. left. reflexivity.
  - (* GET_COLOR *) apply succ_in. eapply dev_outcome_ctl. exact H.
  - (* JSR *)
    destruct (m_frames s) as [|[p e r|lv d] t] eqn:Ef; try discriminate.
    destruct (i_p0 i) as [| | | |n| | | | | | | | | | |]; try discriminate. cbn [shape_of map sh_of].
    destruct (is_builtin n).
    + destruct (call_builtin n p) as [v|]; [|discriminate].
      destruct (set_reg _ R_RESULT v) as [s2|] eqn:Es; [|discriminate].
      apply do_return_ctl in H.
      assert (same_ctl (with_frames s (FCall p true (Some (m_pc s + 1)) :: t)) s2) as [Hpc Hsh]
        by (eapply set_reg_ctl; [|exact Es]; discriminate).
      rewrite Hsh in H. cbn in H. destruct H as [H|[]]. left. rewrite <- H. reflexivity.
    + destruct (find_routine (PStr n) (im_routines im)) as [[addr rr]|]; [|discriminate].
      inversion H. cbn. left. reflexivity.
  - (* JUMP *)
    destruct (i_p0 i) as [| | | | | | | | | |c| | | | |]; try discriminate.
    destruct c; cbn [jump_taken] in H.
    + destruct (i_p1 i); try discriminate. inversion H. left. reflexivity.
    + destruct (negb (truthy (reg s R_RESULT))).
      * destruct (i_p1 i); try discriminate. inversion H. left. reflexivity.
      * inversion H. destruct (i_p1 i); cbn; auto.
    + destruct (truthy (reg s R_RESULT)).
      * destruct (i_p1 i); try discriminate. inversion H. left. reflexivity.
      * inversion H. destruct (i_p1 i); cbn; auto.
    + discriminate.
  - (* LOOP *) inversion H. left. reflexivity.
  - (* MATRIX *) inversion H. done_same.
  - (* MOVE *)
    apply lift_next in H. apply bind_ok in H. destruct H as [x [_ H]]. apply bind_ok in H. destruct H as [s1 [H1 H2]].
    inversion H2. apply succ_in. apply advance_ctl. eapply put_dest_ctl; [exact Hp1|exact H1].
  - (* MOVEQ *)
    destruct (i_p1 i) as [| | | | |r| | | | | | | | | |] eqn:Ep1;
      try (destruct (param_value (i_p0 i)); [|discriminate]; apply lift_next in H; apply bind_ok in H;
           destruct H as [s1 [H1 H2]]; inversion H2; apply succ_in; apply advance_ctl;
           eapply put_dest_ctl; [|exact H1]; reflexivity).
    destruct r;
      try (destruct (param_value (i_p0 i)); [|discriminate]; apply lift_next in H; apply bind_ok in H;
           destruct H as [s1 [H1 H2]]; inversion H2; apply succ_in; apply advance_ctl;
           eapply put_dest_ctl; [|exact H1]; reflexivity).
    + discriminate.
    + destruct (param_value (i_p0 i)); [|discriminate]. apply lift_next in H. apply bind_ok in H.
      destruct H as [s1 [H1 H2]]. inversion H2. apply succ_in. apply advance_ctl.
      unfold switch_unit_mode in H1. apply bind_ok in H1. destruct H1 as [rf [_ H1]]. inversion H1. split; reflexivity.
  - (* NOP *) inversion H. done_same.
  - (* OP *)
    destruct (i_p0 i) as [| | | | | | | | |op| | | | | |]; try discriminate.
    destruct (is_unary op) eqn:Eu.
    + destruct op; try discriminate Eu.
      * destruct (m_stack s); [discriminate|]. apply lift_next in H. apply bind_ok in H. destruct H as [r [_ H]].
        inversion H. done_same.
      * inversion H. done_same.
      * destruct (m_stack s); [discriminate|]. apply lift_next in H. apply bind_ok in H. destruct H as [r [_ H]].
        inversion H. done_same.
    + apply lift_next in H. apply bind_ok in H. destruct H as [[b s1] [H1 H]]. apply bind_ok in H.
      destruct H as [[a s2] [H2 H]]. apply bind_ok in H. destruct H as [r [_ H]]. inversion H.
      unfold pop1 in H1, H2. destruct (m_stack s); [discriminate|]. inversion H1. subst s1. cbn in H2.
      destruct l; [discriminate|]. inversion H2. subst s2. done_same.
  - (* OUT *)
    destruct (i_p0 i) as [| | | | | | | | | | |o| | | |]; try (inversion H; done_same).
    destruct o.
    + destruct (param_value (i_p1 i)); inversion H; done_same.
    + destruct (rev (m_unnamed s)); inversion H; done_same.
    + inversion H. done_same.
    + destruct (i_p1 i); try discriminate.
      destruct (printf_names s0); [|discriminate]. destruct (printf_positional s0); [|discriminate]. inversion H. done_same.
    + destruct (i_p1 i); try discriminate. apply lift_next in H. apply bind_ok in H. destruct H as [v [_ H]].
      inversion H. done_same.
  - (* PARAM *)
    destruct (i_p0 i); try discriminate. apply lift_next in H. apply bind_ok in H. destruct H as [x [_ H]].
    destruct (m_frames s) as [|[p e r|lv d] t] eqn:Ef; try discriminate. inversion H. cbn. left. reflexivity.
  - (* PAUSE *) discriminate.
  - (* POP *)
    apply lift_next in H. apply bind_ok in H. destruct H as [[v s1] [H1 H]].
    unfold pop1 in H1. destruct (m_stack s) eqn:Ek; [discriminate|]. inversion H1. subst v s1.
    destruct (i_p0 i) eqn:Ep0; try (inversion H; done_same);
      (apply bind_ok in H; destruct H as [s2 [H2 H3]]; inversion H3; apply succ_in;
       assert (same_ctl (with_stack s l) s2) as [A B] by (eapply put_dest_ctl; [|exact H2]; first [reflexivity|exact Hp0]);
       split; [cbn; rewrite A; reflexivity|unfold advance, with_pc; cbn [m_frames]; rewrite B; reflexivity]).
  - (* POWER *)
    apply succ_in. unfold cmd_power in H.
    destruct (reg s R_OPERAND) as [| | | | |o| | | |]; try discriminate.
    destruct o; try discriminate; eapply dev_outcome_ctl; exact H.
  - (* PUSH *)
    apply lift_next in H. apply bind_ok in H. destruct H as [x [_ H]]. destruct x; inversion H; done_same.
  - (* PUSHQ *) destruct (param_value (i_p0 i)); inversion H; done_same.
  - (* RETURN *)
    destruct (do_return s) as [s1 e1| |] eqn:Er; try discriminate. inversion H. subst s' evs.
    apply do_return_ctl in Er. apply in_map_iff. eexists. split; [|exact Er]. reflexivity.
  - (* ROUTINE *) discriminate.
  - (* STOP *) discriminate.
  - (* TIME_PATTERN *)
    destruct (i_p0 i) as [| | | | | | | | | | | |so| | |]; try discriminate.
    destruct so.
    + destruct (i_p1 i); try discriminate. apply lift_next in H. apply bind_ok in H. destruct H as [s1 [H1 H2]].
      inversion H2. apply succ_in. apply advance_ctl. eapply set_reg_ctl; [|exact H1]. discriminate.
    + destruct (i_p1 i); try discriminate. destruct (reg s R_TIME); try discriminate.
      apply lift_next in H. apply bind_ok in H. destruct H as [s1 [H1 H2]].
      inversion H2. apply succ_in. apply advance_ctl. eapply set_reg_ctl; [|exact H1]. discriminate.
  - (* WAIT *)
    destruct (rf_wait (m_regs s)) as [[| |]|]; inversion H; done_same.
Qed.

(* ====================================================================== *)
(* ---------- the static checker ---------- *)
Definition label := (nat * nat)%type.       (* loops entered, call contexts pending *)

Definition is_named_end (i : instr) : bool :=
  match i_op i, i_p0 i with
  | OC_END, POperand OD_MATRIX => false
  | OC_END, _ => true
  | _, _ => false
  end.

(* label of the next instruction in program text *)
Definition next_label (i : instr) (l : label) : label :=
  let '(d, c) := l in
  match i_op i with
  | OC_ROUTINE => (O, O)
  | OC_LOOP => (S d, c)
  | OC_END_LOOP => (Nat.pred d, c)
  | OC_CTX => (d, S c)
  | OC_JSR => (d, Nat.pred c)
  | OC_END => if is_named_end i then (O, O) else l
  | _ => l
  end.

Fixpoint labels_from (code : program) (cur : label) : list label :=
  match code with
  | [] => [cur]
  | i :: r => cur :: labels_from r (next_label i cur)
  end.

Definition main_start (im : image) : Z := if im_nroutine im =? 0 then 0 else im_nroutine im + 1.

(* labels of all positions 0 .. len; the main segment restarts at (0, 0) *)
Definition labels (im : image) : list label :=
  let code := im_code im in
  let n := Z.to_nat (main_start im) in
  match n with
  | O => labels_from code (O, O)
  | _ => removelast (labels_from (firstn n code) (O, O)) ++ labels_from (skipn n code) (O, O)
  end.

Definition lab (im : image) (pc : Z) : option label :=
  if pc <? 0 then None else nth_error (labels im) (Z.to_nat pc).

(* the segment a position belongs to: bounds for jump targets (inclusive upper bound for
   the main program: running off the end is how it finishes) and whether it is a routine *)
Definition in_main (im : image) (pc : Z) : bool := (main_start im <=? pc) && (pc <=? zlength (im_code im)).

Definition routine_of (im : image) (pc : Z) : option (Z * Z) :=
  find (fun ar => (fst ar <=? pc) && (pc <? snd ar)) (map snd (im_routines im)).

Inductive segment := SegMain | SegRtn (a r : Z) | SegBoot.
Definition seg_of (im : image) (pc : Z) : option segment :=
  if in_main im pc then Some SegMain
  else match routine_of im pc with
       | Some (a, r) => Some (SegRtn a r)
       | None => if pc =? 0 then Some SegBoot else None     (* the initial jump over the routines *)
       end.
Definition same_segment (im : image) (pc t : Z) : bool :=
  match seg_of im pc, seg_of im t with
  | Some SegMain, Some SegMain => true
  | Some SegBoot, Some SegMain => true
  | Some (SegRtn a r), Some (SegRtn a' r') => (a =? a') && (r =? r')
  | _, _ => false
  end.

Definition target_ok (im : image) (pc : Z) (req : Z * label) : bool :=
  let '(t, l) := req in
  same_segment im pc t &&
  match lab im t with Some l' => Nat.eqb (fst l) (fst l') && Nat.eqb (snd l) (snd l') | None => false end &&
  match fetch im t with Some i => negb (opcode_eqb (i_op i) OC_ROUTINE) | None => t =? zlength (im_code im) end.

(* requirements of one instruction at a label: None = not allowed there *)
Definition requirements (im : image) (i : instr) (pc : Z) (l : label) : option (list (Z * label)) :=
  let '(d, c) := l in
  let in_rtn := match seg_of im pc with Some (SegRtn _ _) => true | _ => false end in
  match i_op i with
  | OC_ROUTINE => None
  | OC_STOP | OC_PAUSE => Some []
  | OC_JUMP =>
      match i_p0 i, i_p1 i with
      | PJump JC_ALWAYS, PInt off => Some [(pc + off, l)]
      | PJump JC_IF_FALSE, PInt off | PJump JC_IF_TRUE, PInt off => Some [(pc + off, l); (pc + 1, l)]
      | _, _ => None
      end
  | OC_LOOP => match c with O => Some [(pc + 1, (S d, O))] | _ => None end
  | OC_END_LOOP => match c, d with O, S d' => Some [(pc + 1, (d', O))] | _, _ => None end
  | OC_CTX => Some [(pc + 1, (d, S c))]
  | OC_PARAM => match c with S _ => Some [(pc + 1, l)] | O => None end
  | OC_JSR =>
      match c, i_p0 i with
      | S c', PStr n =>
          if is_builtin n then Some [(pc + 1, (d, c'))]
          else match find_routine (PStr n) (im_routines im) with
               | Some (addr, ret) =>
                   (* the body is a checked segment starting at (0,0); the call resumes at an
                      END_CTX so that RETURN (which skips one instruction) resumes right after it *)
                   if (match lab im addr with Some (O, O) => true | _ => false end)
                      && (match seg_of im addr with Some (SegRtn a r) => (a =? addr) && (r =? ret) | _ => false end)
                      && (match fetch im (pc + 1) with Some j => opcode_eqb (i_op j) OC_END_CTX | None => false end)
                      && (match fetch im addr with Some j => negb (opcode_eqb (i_op j) OC_ROUTINE) | None => false end)
                   then Some [(pc + 1, (d, c'))] else None
               | None => None
               end
      | _, _ => None
      end
  | OC_END =>
      if is_named_end i then (if in_rtn && Nat.eqb d 0 && Nat.eqb c 0 then Some [] else None)
      else Some [(pc + 1, l)]
  | OC_RETURN => if in_rtn && Nat.eqb c 0 then Some [] else None
  | _ => Some [(pc + 1, l)]
  end.

Definition check_pc (im : image) (pc : Z) : bool :=
  match fetch im pc, lab im pc with
  | Some i, Some l =>
      if opcode_eqb (i_op i) OC_ROUTINE then true      (* never a target: see target_ok *)
      else no_pc_write i &&
           match requirements im i pc l with
           | Some reqs => forallb (target_ok im pc) reqs
           | None => false
           end
  | _, _ => false
  end.

Fixpoint zrange_n (start : Z) (n : nat) : list Z :=
  match n with O => [] | S k => start :: zrange_n (start + 1) k end.

Definition wf_image (im : image) : bool :=
  let len := zlength (im_code im) in
  (0 <=? im_nroutine im) && (im_nroutine im <? len + 1) &&
  forallb (check_pc im) (zrange_n 0 (length (im_code im))) &&
  (* the program starts in the main segment, or with the jump to it *)
  (if im_nroutine im =? 0 then true
   else match fetch im 0 with
        | Some i => opcode_eqb (i_op i) OC_JUMP && param_eqb (i_p0 i) (PJump JC_ALWAYS) && param_eqb (i_p1 i) (PInt (main_start im))
        | None => false
        end) &&
  (* the main program ends with every loop and call context closed *)
  match lab im len with Some (O, O) => true | _ => false end &&
  (* one label per position, and the start is a consistent point *)
  Nat.eqb (length (labels im)) (S (length (im_code im))) &&
  match lab im 0 with Some (O, O) => true | _ => false end &&
  match seg_of im 0 with Some SegMain | Some SegBoot => true | _ => false end &&
  match fetch im 0 with Some i => negb (opcode_eqb (i_op i) OC_ROUTINE) | None => true end.

(* ====================================================================== *)
(* ---------- soundness of the checker ---------- *)
Definition pend (c : nat) : list fsh := repeat (ShCall false None) c.
Definition loops (d : nat) : list fsh := repeat ShLoop d.

(* What the frame stack must look like when control is at pc: the pending call contexts,
   the loop frames of the segment, and below them nothing (main program) or the frame of
   the routine in progress, whose return address is again a consistent point. *)
Definition not_routine_at (im : image) (pc : Z) : Prop :=
  match fetch im pc with Some i => opcode_eqb (i_op i) OC_ROUTINE = false | None => True end.

Inductive ok_state (im : image) : Z -> list fsh -> Prop :=
| ok_st : forall pc d c sg base,
    lab im pc = Some (d, c) -> seg_of im pc = Some sg -> base_ok im sg base -> not_routine_at im pc ->
    ok_state im pc (pend c ++ loops d ++ base)
with base_ok (im : image) : segment -> list fsh -> Prop :=
| base_main : base_ok im SegMain []
| base_boot : base_ok im SegBoot []
| base_rtn : forall a r ret rest,
    ok_state im ret rest -> ok_state im (ret + 1) rest ->
    base_ok im (SegRtn a r) (ShCall true (Some ret) :: rest).

Section Sound.
Variable im : image.
Hypothesis Hwf : wf_image im = true.

Lemma zrange_n_In n : forall start x, In x (zrange_n start n) <-> start <= x < start + Z.of_nat n.
Proof.
  induction n as [|n IH]; intros start x; cbn [zrange_n In]; [lia|]. rewrite IH. lia.
Qed.

Lemma fetch_bounds pc i : fetch im pc = Some i -> 0 <= pc < zlength (im_code im).
Proof.
  unfold fetch. destruct (pc <? 0) eqn:E; [discriminate|]. apply Z.ltb_ge in E. intros H.
  assert (nth_error (im_code im) (Z.to_nat pc) <> None) as Hn by congruence.
  apply nth_error_Some in Hn. unfold zlength. lia.
Qed.

Lemma check_all pc i : fetch im pc = Some i -> check_pc im pc = true.
Proof.
  intros Hf. pose proof (fetch_bounds pc i Hf) as Hb.
  pose proof Hwf as W. unfold wf_image in W.
  do 6 (apply andb_true_iff in W; destruct W as [W _]).
  apply andb_true_iff in W. destruct W as [_ W]. rewrite forallb_forall in W. apply W.
  apply zrange_n_In. unfold zlength in Hb. lia.
Qed.

Lemma segment_move pc t sg : seg_of im pc = Some sg -> same_segment im pc t = true ->
  exists sg', seg_of im t = Some sg' /\ forall b, base_ok im sg b -> base_ok im sg' b.
Proof.
  intros Hs Hm. unfold same_segment in Hm. rewrite Hs in Hm.
  destruct sg as [|a r|]; destruct (seg_of im t) as [[|a' r'|]|]; try discriminate.
  - exists SegMain. split; [reflexivity|auto].
  - apply andb_true_iff in Hm. destruct Hm as [Ha Hr]. apply Z.eqb_eq in Ha. apply Z.eqb_eq in Hr. subst.
    exists (SegRtn a' r'). split; [reflexivity|auto].
  - exists SegMain. split; [reflexivity|]. intros b Hb. inversion Hb. constructor.
Qed.

(* a checked edge leads to a consistent point with the same base *)
Lemma target_not_routine pc t l : target_ok im pc (t, l) = true -> not_routine_at im t.
Proof.
  intros Ht. unfold target_ok in Ht. apply andb_true_iff in Ht. destruct Ht as [_ Ht]. unfold not_routine_at.
  destruct (fetch im t) as [i|]; [|exact I]. apply negb_true_iff in Ht. exact Ht.
Qed.

Lemma target_sound pc t (d' c' : nat) sg base :
  seg_of im pc = Some sg -> base_ok im sg base ->
  target_ok im pc (t, (d', c')) = true ->
  ok_state im t (pend c' ++ loops d' ++ base).
Proof.
  intros Hs Hb Ht. pose proof (target_not_routine pc t (d', c') Ht) as Hnr.
  unfold target_ok in Ht. apply andb_true_iff in Ht. destruct Ht as [Ht _].
  apply andb_true_iff in Ht. destruct Ht as [Hseg Hlab].
  destruct (lab im t) as [[d2 c2]|] eqn:El; [|discriminate]. cbn [fst snd] in Hlab.
  apply andb_true_iff in Hlab. destruct Hlab as [Hd Hc]. apply Nat.eqb_eq in Hd. apply Nat.eqb_eq in Hc. subst d2 c2.
  destruct (segment_move pc t sg Hs Hseg) as [sg' [Hs' Hb']].
  econstructor; [exact El|exact Hs'|apply Hb'; exact Hb|exact Hnr].
Qed.

Lemma target_facts pc t (d' c' : nat) sg :
  seg_of im pc = Some sg -> target_ok im pc (t, (d', c')) = true ->
  lab im t = Some (d', c') /\ exists sg', seg_of im t = Some sg' /\ forall b, base_ok im sg b -> base_ok im sg' b.
Proof.
  intros Hs Ht. unfold target_ok in Ht. apply andb_true_iff in Ht. destruct Ht as [Ht _].
  apply andb_true_iff in Ht. destruct Ht as [Hseg Hlab].
  destruct (lab im t) as [[d2 c2]|] eqn:El; [|discriminate]. cbn [fst snd] in Hlab.
  apply andb_true_iff in Hlab. destruct Hlab as [Hd Hc]. apply Nat.eqb_eq in Hd. apply Nat.eqb_eq in Hc. subst d2 c2.
  split; [reflexivity|]. exact (segment_move pc t sg Hs Hseg).
Qed.

Lemma pend_S c : pend (S c) = ShCall false None :: pend c. Proof. reflexivity. Qed.
Lemma loops_S d : loops (S d) = ShLoop :: loops d. Proof. reflexivity. Qed.

Lemma unwind_loops_base d base :
  match base with ShLoop :: _ => False | _ => True end -> unwind_sh (loops d ++ base) = base.
Proof.
  intros Hb. induction d as [|d IH]; cbn; [|exact IH]. destruct base as [|[e r|] t]; try reflexivity. destruct Hb.
Qed.

Lemma base_not_loop sg base : base_ok im sg base -> match base with ShLoop :: _ => False | _ => True end.
Proof. intros H. inversion H; exact I. Qed.

(* the step theorem on control abstractions *)
Theorem ok_step pc sh i pc' sh' :
  ok_state im pc sh -> fetch im pc = Some i -> In (pc', sh') (anext im i pc sh) -> ok_state im pc' sh'.
Proof.
  intros Hok Hf Hin. pose proof (check_all pc i Hf) as Hc.
  inversion Hok as [pc0 d c sg base Hl Hs Hb Hnr Epc Esh]. subst pc0 sh. clear Hok.
  unfold check_pc in Hc. rewrite Hf, Hl in Hc.
  destruct (opcode_eqb (i_op i) OC_ROUTINE) eqn:Ert.
  { apply internal_opcode_dec_bl in Ert. unfold anext in Hin. rewrite Ert in Hin. destruct Hin. }
  apply andb_true_iff in Hc. destruct Hc as [_ Hc].
  destruct (requirements im i pc (d, c)) as [reqs|] eqn:Er; [|discriminate].
  rewrite forallb_forall in Hc.
  (* the generic case: one successor, same label *)
  assert (Hdefault : reqs = [(pc + 1, (d, c))] -> (pc', sh') = (pc + 1, pend c ++ loops d ++ base) -> ok_state im pc' sh').
  { intros -> E. inversion E. subst. eapply target_sound; [exact Hs|exact Hb|]. apply Hc. left. reflexivity. }
  unfold requirements in Er. cbv zeta in Er. unfold anext in Hin.
  destruct (i_op i) eqn:Eop;
    try (injection Er as Er'; destruct Hin as [Hin|[]]; apply Hdefault; [symmetry; exact Er'|symmetry; exact Hin]).
  - (* CTX *) inversion Er as [Er']. subst reqs. destruct Hin as [Hin|[]]. inversion Hin. subst.
    change (ShCall false None :: pend c ++ loops d ++ base) with (pend (S c) ++ loops d ++ base).
    eapply target_sound; [exact Hs|exact Hb|]. apply Hc. left. reflexivity.
  - (* END *)
    destruct (is_named_end i) eqn:En.
    + destruct (match seg_of im pc with Some (SegRtn _ _) => true | _ => false end && Nat.eqb d 0 && Nat.eqb c 0) eqn:Eg; [|discriminate].
      apply andb_true_iff in Eg. destruct Eg as [Eg Ec0]. apply andb_true_iff in Eg. destruct Eg as [_ Ed0].
      apply Nat.eqb_eq in Ec0. apply Nat.eqb_eq in Ed0. subst c d.
      assert (Hret : In (pc', sh') (areturn (pend 0 ++ loops 0 ++ base))).
      { unfold is_named_end in En. rewrite Eop in En. destruct (i_p0 i) as [| | | | | | |o| | | | | | | |]; try exact Hin.
        destruct o; try exact Hin; discriminate. }
      cbn [pend loops repeat app] in Hret. unfold areturn in Hret.
      destruct Hb as [| |a r ret rest H1 H2]; cbn in Hret.
      * destruct Hret.
      * destruct Hret.
      * destruct Hret as [E|[]]. inversion E. subst. exact H1.
    + inversion Er as [Er']. subst reqs.
      assert (Hin' : (pc', sh') = (pc + 1, pend c ++ loops d ++ base)).
      { unfold is_named_end in En. rewrite Eop in En. destruct (i_p0 i) as [| | | | | | |o| | | | | | | |]; try discriminate.
        destruct o; try discriminate. destruct Hin as [Hin|[]]. symmetry. exact Hin. }
      apply Hdefault; [reflexivity|exact Hin'].
  - (* END_LOOP *)
    destruct c; [|discriminate]. destruct d as [|d']; [discriminate|]. inversion Er. subst reqs.
    cbn [pend repeat app] in Hin. rewrite loops_S in Hin. cbn [app] in Hin. destruct Hin as [Hin|[]]. inversion Hin. subst.
    change (loops d' ++ base) with (pend 0 ++ loops d' ++ base).
    eapply target_sound; [exact Hs|exact Hb|]. apply Hc. left. reflexivity.
  - (* JSR *)
    destruct c as [|c']; [discriminate|]. destruct (i_p0 i) as [| | | |n| | | | | | | | | | |] eqn:Ep0; try discriminate.
    rewrite pend_S in Hin. cbn [app] in Hin.
    destruct (is_builtin n).
    + inversion Er. subst reqs. destruct Hin as [Hin|[]]. inversion Hin. subst.
      eapply target_sound; [exact Hs|exact Hb|]. apply Hc. left. reflexivity.
    + destruct (find_routine (PStr n) (im_routines im)) as [[addr ret]|]; [|discriminate].
      destruct (match lab im addr with Some (O, O) => true | _ => false end) eqn:Ela; [|discriminate].
      destruct (match seg_of im addr with Some (SegRtn a r) => (a =? addr) && (r =? ret) | _ => false end) eqn:Esa; [|discriminate].
      destruct (fetch im (pc + 1)) as [j|] eqn:Efj; [|discriminate].
      destruct (opcode_eqb (i_op j) OC_END_CTX) eqn:Ej; [|discriminate].
      destruct (fetch im addr) as [ja|] eqn:Efa; [|discriminate].
      destruct (negb (opcode_eqb (i_op ja) OC_ROUTINE)) eqn:Eja; [|discriminate].
      cbn [andb] in Er. inversion Er. subst reqs.
      destruct Hin as [Hin|[]]. inversion Hin. subst pc' sh'. clear Hin.
      destruct (lab im addr) as [[[|] [|]]|] eqn:Ela'; try discriminate.
      destruct (seg_of im addr) as [[|a r|]|] eqn:Esa'; try discriminate.
      (* the caller's resumption points *)
      assert (Hr1 : ok_state im (pc + 1) (pend c' ++ loops d ++ base)).
      { eapply target_sound; [exact Hs|exact Hb|]. apply Hc. left. reflexivity. }
      assert (Hr2 : ok_state im (pc + 1 + 1) (pend c' ++ loops d ++ base)).
      { assert (Ht1 : target_ok im pc (pc + 1, (d, c')) = true) by (apply Hc; left; reflexivity).
        destruct (target_facts pc (pc + 1) d c' sg Hs Ht1) as [Hl1 [sg1 [Hs1 Hb1]]].
        pose proof (check_all (pc + 1) j Efj) as Hc2. unfold check_pc in Hc2. rewrite Efj, Hl1 in Hc2.
        apply internal_opcode_dec_bl in Ej.
        rewrite Ej in Hc2. cbn [opcode_eqb opcode_beq] in Hc2.
        apply andb_true_iff in Hc2. destruct Hc2 as [_ Hc2]. unfold requirements in Hc2. rewrite Ej in Hc2.
        rewrite forallb_forall in Hc2.
        eapply target_sound; [exact Hs1|apply Hb1; exact Hb|]. apply Hc2. left. reflexivity. }
      change (ShCall true (Some (pc + 1)) :: pend c' ++ loops d ++ base)
        with (pend 0 ++ loops 0 ++ (ShCall true (Some (pc + 1)) :: pend c' ++ loops d ++ base)).
      econstructor; [exact Ela'|exact Esa'|constructor; assumption|].
      unfold not_routine_at. rewrite Efa. apply negb_true_iff. exact Eja.
  - (* JUMP *)
    destruct (i_p0 i) as [| | | | | | | | | |jc| | | | |]; try discriminate.
    destruct jc; destruct (i_p1 i) as [|off| | | | | | | | | | | | | |]; try discriminate; inversion Er; subst reqs.
    + destruct Hin as [Hin|[]]. inversion Hin. subst. eapply target_sound; [exact Hs|exact Hb|]. apply Hc. left. reflexivity.
    + destruct Hin as [Hin|[Hin|[]]]; inversion Hin; subst; (eapply target_sound; [exact Hs|exact Hb|]); apply Hc; [left|right; left]; reflexivity.
    + destruct Hin as [Hin|[Hin|[]]]; inversion Hin; subst; (eapply target_sound; [exact Hs|exact Hb|]); apply Hc; [left|right; left]; reflexivity.
  - (* LOOP *)
    destruct c; [|discriminate]. inversion Er. subst reqs. destruct Hin as [Hin|[]]. inversion Hin. subst.
    cbn [pend repeat app]. change (ShLoop :: loops d ++ base) with (pend 0 ++ loops (S d) ++ base).
    eapply target_sound; [exact Hs|exact Hb|]. apply Hc. left. reflexivity.
  - (* PARAM *)
    destruct c as [|c']; [discriminate|]. inversion Er. subst reqs. rewrite pend_S in Hin. cbn [app] in Hin.
    destruct Hin as [Hin|[]]. inversion Hin. subst.
    change (ShCall false None :: pend c' ++ loops d ++ base) with (pend (S c') ++ loops d ++ base).
    eapply target_sound; [exact Hs|exact Hb|]. apply Hc. left. reflexivity.
  - (* PAUSE *) destruct Hin.
  - (* RETURN *)
    destruct (match seg_of im pc with Some (SegRtn _ _) => true | _ => false end && Nat.eqb c 0) eqn:Eg; [|discriminate].
    apply andb_true_iff in Eg. destruct Eg as [_ Ec0]. apply Nat.eqb_eq in Ec0. subst c.
    cbn [pend repeat app] in Hin. unfold areturn in Hin.
    rewrite (unwind_loops_base d base (base_not_loop sg base Hb)) in Hin.
    destruct Hb as [| |a r ret rest H1 H2]; cbn in Hin.
    + destruct Hin.
    + destruct Hin.
    + destruct Hin as [E|[]]. inversion E. subst. exact H2.
  - (* ROUTINE *) discriminate.
  - (* STOP *) destruct Hin.
Qed.

(* the starting point is consistent *)
Lemma ok_initial : ok_state im 0 [].
Proof.
  pose proof Hwf as W. unfold wf_image in W.
  apply andb_true_iff in W. destruct W as [W Hnr]. apply andb_true_iff in W. destruct W as [W Hseg].
  apply andb_true_iff in W. destruct W as [W Hlab]. clear W.
  assert (Hnr' : not_routine_at im 0).
  { unfold not_routine_at. destruct (fetch im 0); [apply negb_true_iff; exact Hnr|exact I]. }
  destruct (lab im 0) as [[[|] [|]]|] eqn:El; try discriminate.
  destruct (seg_of im 0) as [[| |]|] eqn:Es; try discriminate.
  - change (@nil fsh) with (pend 0 ++ loops 0 ++ @nil fsh). econstructor; [exact El|exact Es|constructor|exact Hnr'].
  - change (@nil fsh) with (pend 0 ++ loops 0 ++ @nil fsh). econstructor; [exact El|exact Es|constructor|exact Hnr'].
Qed.

(* states the machine can reach on this image from its initial state *)
Inductive reach : mstate -> Prop :=
| reach_init : forall w, reach (init_state w)
| reach_step : forall s i s' evs, reach s -> fetch im (m_pc s) = Some i -> exec im i s = Next s' evs -> reach s'.

(* SOUNDNESS: on every path, whatever the data *)
Theorem wf_image_sound s : reach s -> ok_state im (m_pc s) (shape_of (m_frames s)).
Proof.
  induction 1 as [w|s i s' evs Hr IH Hf He].
  - exact ok_initial.
  - eapply ok_step; [exact IH|exact Hf|]. apply (exec_abstracts im i s s' evs); [|exact He].
    pose proof (check_all (m_pc s) i Hf) as Hc. unfold check_pc in Hc. rewrite Hf in Hc.
    inversion IH as [pc0 d c sg base Hl Hs Hb Hnr Epc Esh]. rewrite Hl in Hc.
    destruct (opcode_eqb (i_op i) OC_ROUTINE) eqn:Ert.
    + apply internal_opcode_dec_bl in Ert. unfold exec in He. rewrite Ert in He. discriminate.
    + apply andb_true_iff in Hc. tauto.
Qed.

(* ---------- what a consistent point guarantees ---------- *)
Lemma ok_pc_in_program pc sh : ok_state im pc sh -> 0 <= pc <= zlength (im_code im).
Proof.
  intros H. inversion H as [pc0 d c sg base Hl Hs Hb Hnr Epc Esh]. unfold lab in Hl.
  destruct (pc <? 0) eqn:E; [discriminate|]. apply Z.ltb_ge in E.
  assert (nth_error (labels im) (Z.to_nat pc) <> None) as Hn by congruence. apply nth_error_Some in Hn.
  pose proof Hwf as W. unfold wf_image in W.
  do 3 (apply andb_true_iff in W; destruct W as [W _]).
  apply andb_true_iff in W. destruct W as [_ Hlen]. apply Nat.eqb_eq in Hlen. unfold zlength. lia.
Qed.

(* inside a routine body only while a call of it is in progress; its frames sit on the caller's *)
Lemma ok_in_routine pc sh a r : ok_state im pc sh -> seg_of im pc = Some (SegRtn a r) ->
  exists c d ret rest, lab im pc = Some (d, c) /\ sh = pend c ++ loops d ++ ShCall true (Some ret) :: rest /\
                       ok_state im ret rest /\ ok_state im (ret + 1) rest.
Proof.
  intros H Hs. inversion H as [pc0 d c sg base Hl Hs' Hb Hnr Epc Esh]. rewrite Hs in Hs'. inversion Hs'. subst sg.
  inversion Hb as [| |a' r' ret rest H1 H2]. subst. exists c, d, ret, rest. repeat split; assumption.
Qed.

(* in the main program exactly the loops and call contexts opened so far are on the stack *)
Lemma ok_in_main pc sh : ok_state im pc sh -> seg_of im pc = Some SegMain ->
  exists c d, lab im pc = Some (d, c) /\ sh = pend c ++ loops d.
Proof.
  intros H Hs. inversion H as [pc0 d c sg base Hl Hs' Hb Hnr Epc Esh]. rewrite Hs in Hs'. inversion Hs'. subst sg.
  inversion Hb. subst. exists c, d. rewrite !app_nil_r. split; [exact Hl|reflexivity].
Qed.

(* when the program runs off its end nothing is left dangling *)
Lemma ok_at_end sh : ok_state im (zlength (im_code im)) sh -> in_main im (zlength (im_code im)) = true -> sh = [].
Proof.
  intros H Hm. inversion H as [pc0 d c sg base Hl Hs Hb Hnr Epc Esh].
  pose proof Hwf as W. unfold wf_image in W.
  do 4 (apply andb_true_iff in W; destruct W as [W _]).
  apply andb_true_iff in W. destruct W as [_ E]. rewrite Hl in E. destruct d; [|discriminate]. destruct c; [|discriminate].
  unfold seg_of in Hs. rewrite Hm in Hs. inversion Hs. subst sg. inversion Hb. reflexivity.
Qed.

End Sound.


(* ====================================================================== *)
(* ---------- no internal control fault on a checked image (C06) ---------- *)
Section NoFault.
Variable im : image.
Hypothesis Hwf : wf_image im = true.

(* what the checker established about the instruction a reachable state is about to execute *)
Lemma reach_facts s i :
  reach im s -> fetch im (m_pc s) = Some i ->
  opcode_eqb (i_op i) OC_ROUTINE = false /\
  exists d c sg base reqs,
    seg_of im (m_pc s) = Some sg /\ base_ok im sg base /\
    shape_of (m_frames s) = pend c ++ loops d ++ base /\
    requirements im i (m_pc s) (d, c) = Some reqs.
Proof.
  intros Hr Hf. pose proof (wf_image_sound im Hwf s Hr) as Hok.
  inversion Hok as [pc0 d c sg base Hl Hs Hb Hnr Epc Esh].
  unfold not_routine_at in Hnr. rewrite Hf in Hnr. split; [exact Hnr|].
  pose proof (check_all im Hwf (m_pc s) i Hf) as Hc. unfold check_pc in Hc. rewrite Hf, Hl, Hnr in Hc.
  apply andb_true_iff in Hc. destruct Hc as [_ Hc].
  destruct (requirements im i (m_pc s) (d, c)) as [reqs|] eqn:Er; [|discriminate].
  exists d, c, sg, base, reqs. split; [exact Hs|]. split; [exact Hb|]. split; [congruence|exact Er].
Qed.

(* control never arrives at a ROUTINE marker (a routine body is entered by a call only) *)
Theorem no_routine_marker_executed s i :
  reach im s -> fetch im (m_pc s) = Some i -> i_op i <> OC_ROUTINE.
Proof.
  intros Hr Hf Hop. destruct (reach_facts s i Hr Hf) as [Hn _]. rewrite Hop in Hn. discriminate.
Qed.

(* the program counter never leaves the program: either an instruction is there, or the
   program has just run off its end *)
Theorem pc_never_outside s : reach im s -> 0 <= m_pc s <= zlength (im_code im).
Proof. intros Hr. eapply ok_pc_in_program; [exact Hwf|]. apply wf_image_sound; assumption. Qed.

Lemma shape_head_loop fs r : shape_of fs = ShLoop :: r -> exists lv d t, fs = FLoop lv d :: t.
Proof. destruct fs as [|[p e rt|lv d] t]; cbn; intros H; inversion H. eauto. Qed.

Lemma shape_head_call fs e rt r : shape_of fs = ShCall e rt :: r -> exists p t, fs = FCall p e rt :: t.
Proof. destruct fs as [|[p e' rt'|lv d] t]; cbn; intros H; inversion H. subst. eauto. Qed.

(* END_LOOP always finds its loop frame *)
Theorem end_loop_finds_frame s i :
  reach im s -> fetch im (m_pc s) = Some i -> i_op i = OC_END_LOOP -> exists s', exec im i s = Next s' [].
Proof.
  intros Hr Hf Hop. destruct (reach_facts s i Hr Hf) as [_ [d [c [sg [base [reqs [Hs [Hb [Hsh Hrq]]]]]]]]].
  unfold requirements in Hrq. rewrite Hop in Hrq. destruct c; [|discriminate]. destruct d as [|d']; [discriminate|].
  cbn [pend repeat app] in Hsh. rewrite loops_S in Hsh. cbn [app] in Hsh.
  destruct (shape_head_loop _ _ Hsh) as [lv [dd [t Hfs]]].
  unfold exec. rewrite Hop, Hfs. eexists. reflexivity.
Qed.

(* every call names a routine that exists, and is made inside a call context *)
Theorem jsr_finds_routine s i :
  reach im s -> fetch im (m_pc s) = Some i -> i_op i = OC_JSR ->
  exists p e rt t n, m_frames s = FCall p e rt :: t /\ i_p0 i = PStr n /\
    (is_builtin n = true \/ exists addr ret, find_routine (PStr n) (im_routines im) = Some (addr, ret)).
Proof.
  intros Hr Hf Hop. destruct (reach_facts s i Hr Hf) as [_ [d [c [sg [base [reqs [Hs [Hb [Hsh Hrq]]]]]]]]].
  unfold requirements in Hrq. rewrite Hop in Hrq. destruct c as [|c']; [discriminate|].
  destruct (i_p0 i) as [| | | |n| | | | | | | | | | |] eqn:Ep0; try discriminate.
  rewrite pend_S in Hsh. cbn [app] in Hsh. destruct (shape_head_call _ _ _ _ Hsh) as [p [t Hfs]].
  exists p, false, None, t, n. split; [exact Hfs|]. split; [reflexivity|].
  destruct (is_builtin n); [left; reflexivity|right].
  destruct (find_routine (PStr n) (im_routines im)) as [[addr ret]|]; [eauto|discriminate].
Qed.

(* a routine's END and every RETURN find the frame of the call to return from *)
Lemma do_return_from_shape s d e ret rest :
  shape_of (m_frames s) = loops d ++ ShCall e (Some ret) :: rest -> exists s', do_return s = Next s' [].
Proof.
  intros Hsh. unfold do_return.
  destruct (unwind (m_frames s) None) as [fs dd] eqn:Eu.
  pose proof (unwind_shape (m_frames s) None) as U. rewrite Eu in U. cbn [fst] in U. rewrite Hsh in U.
  assert (Hu : unwind_sh (loops d ++ ShCall e (Some ret) :: rest) = ShCall e (Some ret) :: rest).
  { clear. induction d as [|d IH]; cbn; [reflexivity|exact IH]. }
  rewrite Hu in U. destruct (shape_head_call _ _ _ _ U) as [p [t Hfs]]. rewrite Hfs. eexists. reflexivity.
Qed.

Theorem return_finds_call s i :
  reach im s -> fetch im (m_pc s) = Some i -> i_op i = OC_RETURN \/ is_named_end i = true ->
  exists s', do_return s = Next s' [].
Proof.
  intros Hr Hf Hop. destruct (reach_facts s i Hr Hf) as [_ [d [c [sg [base [reqs [Hs [Hb [Hsh Hrq]]]]]]]]].
  unfold requirements in Hrq. cbv zeta in Hrq.
  assert (Hin : exists a r, sg = SegRtn a r /\ c = O).
  { destruct Hop as [Hop|Hop].
    - rewrite Hop in Hrq. rewrite Hs in Hrq. destruct sg as [|a r|]; try discriminate.
      destruct (Nat.eqb c 0) eqn:Ec; [|discriminate]. apply Nat.eqb_eq in Ec. eauto.
    - assert (Ho : i_op i = OC_END) by (unfold is_named_end in Hop; destruct (i_op i); try discriminate; reflexivity).
      rewrite Ho, Hop, Hs in Hrq. destruct sg as [|a r|]; try discriminate.
      destruct (Nat.eqb d 0); [|discriminate]. destruct (Nat.eqb c 0) eqn:Ec; [|discriminate]. apply Nat.eqb_eq in Ec. eauto. }
  destruct Hin as [a [r [-> ->]]]. inversion Hb as [| |a' r' ret rest H1 H2]. subst.
  cbn [pend repeat app] in Hsh. eapply do_return_from_shape. exact Hsh.
Qed.

End NoFault.
