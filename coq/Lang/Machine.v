(* Model of bardolph/vm/machine.py with call_stack.py, eval_stack.py, vm_math.py,
   vm_io.py and vm_discover.py: a step function over machine states, and a fuelled run.
   Written from the repaired sources (DESIGN section 2); tied to the code by the
   correspondence runs of the C01 family.  No proofs here. *)
From Coq Require Import ZArith String List Bool PrimFloat.
From Bardolph Require Import Base.PyFloat Gen.Codes Time.TimeSpec Time.TimeCore
  Lang.Value Lang.Instr Lang.Loader Lang.Units0 Lang.World Lang.Regs Lang.Devices Lang.Builtins.
Open Scope string_scope.
Open Scope list_scope.
Import ListNotations.
Open Scope Z_scope.
Open Scope bool_scope.

(* ---------- call stack ---------- *)
(* FCall: a StackFrame made by CTX; `entered` becomes true at JSR (vars := params).
   FLoop: a LoopFrame; it shares the variables and parameters of the frame below and
   records the evaluation-stack depth at LOOP. *)
Inductive frame :=
| FCall (params : env) (entered : bool) (ret : option Z)
| FLoop (lv : lvenv) (depth : Z).

Definition frames := list frame.    (* top first; the root frame is below the last element *)

(* the dictionary that holds the variables visible at the top frame, when it is not the globals *)
Fixpoint vars_of (fs : frames) : option env :=
  match fs with
  | [] => None
  | FLoop _ _ :: r => vars_of r
  | FCall p true _ :: _ => Some p
  | FCall _ false _ :: r => vars_of r
  end.
Fixpoint params_of (fs : frames) : env :=
  match fs with
  | [] => []
  | FLoop _ _ :: r => params_of r
  | FCall p _ _ :: _ => p
  end.

(* CallStack.get_variable for a name: vars, then globals (the constants dictionary the
   call stack holds is always empty: reset() replaces the machine's empty dict by a
   fresh one).  A missing name reads as None. *)
Definition get_var (g : env) (fs : frames) (k : string) : value :=
  match (match vars_of fs with Some e => env_get e k | None => None end) with
  | Some v => v
  | None => match env_get g k with Some v => v | None => VNone end
  end.

Fixpoint upd_params (fs : frames) (f : env -> env) : frames :=
  match fs with
  | [] => []
  | FLoop lv d :: r => FLoop lv d :: upd_params r f
  | FCall p e rt :: r => FCall (f p) e rt :: r
  end.
Fixpoint upd_vars (fs : frames) (f : env -> env) : option frames :=
  match fs with
  | [] => None
  | FLoop lv d :: r => match upd_vars r f with Some r' => Some (FLoop lv d :: r') | None => None end
  | FCall p true rt :: r => Some (FCall (f p) true rt :: r)
  | FCall p false rt :: r => match upd_vars r f with Some r' => Some (FCall p false rt :: r') | None => None end
  end.

(* CallStack.put_variable for a name *)
Definition put_var (g : env) (fs : frames) (k : string) (v : value) : env * frames :=
  if env_has (params_of fs) k then (g, upd_params fs (fun e => env_set e k v))
  else if env_has g k then (env_set g k v, fs)
  else match upd_vars fs (fun e => env_set e k v) with
       | Some fs' => (g, fs')
       | None => (env_set g k v, fs)
       end.

Definition get_loopvar (fs : frames) (k : loopvar) : value :=
  match fs with
  | FLoop lv _ :: _ => match lv_get lv k with Some v => v | None => VNone end
  | _ => VNone
  end.
Definition put_loopvar (fs : frames) (k : loopvar) (v : value) : res frames :=
  match fs with
  | FLoop lv d :: r => Ok (FLoop (lv_set lv k v) d :: r)
  | _ => Err (EInternal "loop variable written outside a loop frame")
  end.

(* ---------- machine state ---------- *)
Record mstate := mkM {
  m_pc : Z;
  m_regs : regfile;
  m_globals : env;
  m_frames : frames;
  m_stack : list value;          (* evaluation stack, top first *)
  m_unnamed : list value;        (* VmIo: values waiting for PRINT / PRINTF, oldest first *)
  m_world : world
}.

Definition init_state (w : world) : mstate := mkM 0 init_regs [] [] [] [] w.

Definition with_pc (s : mstate) (pc : Z) := mkM pc (m_regs s) (m_globals s) (m_frames s) (m_stack s) (m_unnamed s) (m_world s).
Definition with_regs (s : mstate) (r : regfile) := mkM (m_pc s) r (m_globals s) (m_frames s) (m_stack s) (m_unnamed s) (m_world s).
Definition with_vars (s : mstate) (g : env) (f : frames) := mkM (m_pc s) (m_regs s) g f (m_stack s) (m_unnamed s) (m_world s).
Definition with_frames (s : mstate) (f : frames) := with_vars s (m_globals s) f.
Definition with_stack (s : mstate) (k : list value) := mkM (m_pc s) (m_regs s) (m_globals s) (m_frames s) k (m_unnamed s) (m_world s).
Definition with_unnamed (s : mstate) (u : list value) := mkM (m_pc s) (m_regs s) (m_globals s) (m_frames s) (m_stack s) u (m_world s).
Definition with_world (s : mstate) (w : world) := mkM (m_pc s) (m_regs s) (m_globals s) (m_frames s) (m_stack s) (m_unnamed s) w.

(* Registers.get_by_enum / set_by_enum.  MAT_BODY and MAT_TIP have no attribute. *)
Definition get_reg (s : mstate) (r : register) : res value :=
  match r with
  | R_PC => Ok (VInt (m_pc s))
  | _ => match rf_get (m_regs s) r with
         | Some v => Ok v
         | None => Err (EInternal "register without attribute")
         end
  end.
Definition set_reg (s : mstate) (r : register) (v : value) : res mstate :=
  match r with
  | R_PC => match v with VInt z => Ok (with_pc s z) | _ => Err (EInternal "pc set to a non-integer") end
  | R_MAT_BODY | R_MAT_TIP => Err (EUnsupported "register without attribute written")
  | _ => Ok (with_regs s (rf_set (m_regs s) r v))
  end.
Definition reg (s : mstate) (r : register) : value :=
  match get_reg s r with Ok v => v | Err _ => VNone end.

Definition unit_mode_of (s : mstate) : res unit_mode := rf_unit_mode (m_regs s).

(* ---------- source / destination parameters ---------- *)
(* the variable a str / LoopVar parameter denotes *)
Definition read_name (s : mstate) (p : param) : option value :=
  match p with
  | PStr k => Some (get_var (m_globals s) (m_frames s) k)
  | PLoopVar k => Some (get_loopvar (m_frames s) k)
  | _ => None
  end.

(* Machine._do_put_value / VmMath.pop destination *)
Definition put_dest (s : mstate) (dest : param) (v : value) : res mstate :=
  match dest with
  | PReg r => set_reg s r v
  | PStr k => let '(g, fs) := put_var (m_globals s) (m_frames s) k v in Ok (with_vars s g fs)
  | PLoopVar k => do fs <- put_loopvar (m_frames s) k v; Ok (with_frames s fs)
  | _ => Err (EInternal "destination is neither register nor variable")
  end.

(* ---------- outcomes ---------- *)
Inductive outcome :=
| Next (s : mstate) (evs : list event)     (* pc already advanced *)
| Halt                                     (* STOP *)
| Abort (e : err) (evs : list event).      (* a Python exception ended the script *)

Definition lift (r : res mstate) (evs : list event) : outcome :=
  match r with Ok s => Next s evs | Err e => Abort e [] end.

Definition advance (s : mstate) : mstate := with_pc s (m_pc s + 1).

(* ---------- unit switch and device commands: Lang/Regs.v and Lang/Devices.v ---------- *)
Definition switch_unit_mode (s : mstate) (v : value) : res mstate :=
  do rf <- rf_switch_unit_mode (m_regs s) v; Ok (with_regs s rf).

Definition dev_outcome (s : mstate) (r : dres) : outcome :=
  match r with
  | Ok d => Next (advance (with_world (with_regs s (d_regs d)) (d_world d))) (d_events d)
  | Err e => Abort e []
  end.

Definition cmd_color (s : mstate) : outcome :=
  let rf := m_regs s in let w := m_world s in let name := reg s R_NAME in
  match reg s R_OPERAND with
  | VOperand OD_ALL => dev_outcome s (do_color_all rf w)
  | VOperand OD_DEFAULT => dev_outcome s (do_color_default rf w)
  | VOperand OD_LIGHT => dev_outcome s (do_color_light rf w name)
  | VOperand OD_GROUP => dev_outcome s (do_color_set OD_GROUP rf w name)
  | VOperand OD_LOCATION => dev_outcome s (do_color_set OD_LOCATION rf w name)
  | VOperand OD_MZ_LIGHT => dev_outcome s (do_color_zone rf w name (reg s R_FIRST_ZONE) (reg s R_LAST_ZONE))
  | VOperand OD_MATRIX =>
      match do_stage rf (reg s R_FIRST_ROW) (reg s R_LAST_ROW) (reg s R_FIRST_COLUMN) (reg s R_LAST_COLUMN) with
      | Ok rf' => Next (advance (with_regs s rf')) []
      | Err e => Abort e []
      end
  | VOperand OD_MATRIX_LIGHT => dev_outcome s (do_matrix_light rf w name)
  | _ => Abort (EInternal "COLOR with no operand") []
  end.

Definition cmd_power (s : mstate) : outcome :=
  let rf := m_regs s in let w := m_world s in let name := reg s R_NAME in
  match reg s R_OPERAND with
  | VOperand OD_ALL => dev_outcome s (do_power_all rf w)
  | VOperand OD_LIGHT => dev_outcome s (do_power_light rf w name)
  | VOperand OD_GROUP => dev_outcome s (do_power_set OD_GROUP rf w name)
  | VOperand OD_LOCATION => dev_outcome s (do_power_set OD_LOCATION rf w name)
  | _ => Abort (EInternal "POWER with an operand it has no handler for") []
  end.

Definition cmd_get_color (s : mstate) : outcome := dev_outcome s (do_get (m_regs s) (m_world s) (reg s R_NAME)).

(* ---------- discovery iteration (vm_discover.py); disc_forward is always False ---------- *)
Definition names_by_oper (s : mstate) : res (list string) :=
  match reg s R_OPERAND with
  | VOperand OD_GROUP => Ok (group_names (m_world s))
  | VOperand OD_LOCATION => Ok (location_names (m_world s))
  | VOperand OD_LIGHT => Ok (light_names (m_world s))
  | _ => Err EAssert
  end.
Definition set_by_oper (s : mstate) (name : value) : option (list string) :=
  match name with
  | VStr n =>
      match reg s R_OPERAND with
      | VOperand OD_GROUP => group_lights (m_world s) n
      | VOperand OD_LOCATION => location_lights (m_world s) n
      | _ => None
      end
  | _ => None
  end.
(* `x or Operand.NULL` *)
Definition or_null (o : option string) : value :=
  match o with
  | Some n => VStr n
  | None => VOperand OD_NULL
  end.
Definition param_to_value (s : mstate) (p : param) : res value :=
  match p with
  | PStr k => Ok (VStr k)
  | POperand o => Ok (VOperand o)
  | PReg r => get_reg s r
  | PLoopVar k => Ok (get_loopvar (m_frames s) k)
  | _ => Err (EUnsupported "discovery parameter of an unexpected kind")
  end.
Definition step_back (l : list string) (cur : value) : res value :=
  match cur with
  | VStr c => Ok (or_null (sl_prev l c))
  | _ => match l with [] => Ok (VOperand OD_NULL) | _ => Err ETypeError end
  end.
Definition step_forward (l : list string) (cur : value) : res value :=
  match cur with
  | VStr c => Ok (or_null (sl_next l c))
  | _ => match l with [] => Ok (VOperand OD_NULL) | _ => Err ETypeError end
  end.
Definition disc_fwd (s : mstate) : bool := truthy (reg s R_DISC_FORWARD).

(* ---------- one instruction ---------- *)
Definition pop1 (s : mstate) : res (value * mstate) :=
  match m_stack s with
  | v :: k => Ok (v, with_stack s k)
  | [] => Err EAssert
  end.

Fixpoint truncate_to (k : list value) (depth : Z) : list value :=
  if zlength k <=? depth then k else match k with [] => [] | _ :: r => truncate_to r depth end.

(* CallStack.unwind_loops: pops loop frames, returns the depth recorded by the last one popped *)
Fixpoint unwind (fs : frames) (d : option Z) : frames * option Z :=
  match fs with
  | FLoop _ depth :: r => unwind r (Some depth)
  | _ => (fs, d)
  end.

(* Machine._return *)
Definition do_return (s : mstate) : outcome :=
  let '(fs, d) := unwind (m_frames s) None in
  let k := match d with Some depth => truncate_to (m_stack s) depth | None => m_stack s end in
  match fs with
  | FCall _ _ (Some ret) :: r => Next (with_pc (with_stack (with_frames s r) k) ret) []
  | FCall _ _ None :: _ => Abort (EInternal "return address missing") []
  | _ => Abort (EInternal "return outside a routine") []     (* root frame: return_addr None, parent None *)
  end.

Definition jump_taken (c : jumpcond) (b : bool) : option bool :=
  match c with
  | JC_ALWAYS => Some true
  | JC_IF_FALSE => Some (negb b)
  | JC_IF_TRUE => Some b
  | JC_INDIRECT => None
  end.

Definition exec (im : image) (i : instr) (s : mstate) : outcome :=
  match i_op i with
  | OC_NOP | OC_END_CTX | OC_CONSTANT => Next (advance s) []
  | OC_BREAKPOINT => Next (advance s) [EvBreakpoint]
  | OC_STOP => Halt
  | OC_ROUTINE => Abort (EInternal "ROUTINE executed") []
  | OC_PAUSE => Abort (EUnsupported "interactive pause") []
  | OC_MOVEQ =>
      match i_p1 i with
      | PReg R_UNIT_MODE =>
          match param_value (i_p0 i) with
          | Some v => lift (do s' <- switch_unit_mode s v; Ok (advance s')) []
          | None => Abort (EInternal "MOVEQ of a non-literal") []
          end
      | dest =>
          match param_value (i_p0 i) with
          | Some v => lift (do s' <- put_dest s dest v; Ok (advance s')) []
          | None => Abort (EInternal "MOVEQ of a non-literal") []
          end
      end
  | OC_MOVE =>
      let v := match i_p0 i with
               | PReg r => get_reg s r
               | p => match read_name s p with
                      | Some v => Ok v
                      | None => match param_value p with Some v => Ok v | None => Err (EInternal "MOVE source") end
                      end
               end in
      lift (do x <- v; do s' <- put_dest s (i_p1 i) x; Ok (advance s')) []
  | OC_PUSH =>
      let v := match i_p0 i with
               | PInt z => Ok (VInt z)
               | PFlt f => Ok (VFlt f)
               | PBool b => Ok (VBool b)
               | POperand OD_NULL => Ok (VOperand OD_NULL)
               | PReg r => get_reg s r
               | p => match read_name s p with Some v => Ok v | None => Ok VNone end
               end in
      lift (do x <- v;
            match x with
            | VNone => Err EAssert
            | _ => Ok (advance (with_stack s (x :: m_stack s)))
            end) []
  | OC_PUSHQ =>
      match param_value (i_p0 i) with
      | Some v => Next (advance (with_stack s (v :: m_stack s))) []
      | None => Abort (EInternal "PUSHQ of a non-literal") []
      end
  | OC_POP =>
      lift (do vs <- pop1 s;
            let '(v, s1) := vs in
            match i_p0 i with
            | PReg _ | PStr _ | PLoopVar _ => do s2 <- put_dest s1 (i_p0 i) v; Ok (advance s2)
            | _ => Ok (advance s1)
            end) []
  | OC_OP =>
      match i_p0 i with
      | POperator op =>
          if is_unary op then
            match op with
            | OP_UADD => Next (advance s) []
            | _ =>
              match m_stack s with
              | v :: k => lift (do r <- eval_unop op v; Ok (advance (with_stack s (r :: k)))) []
              | [] => Abort EIndex []
              end
            end
          else
            lift (do vs2 <- pop1 s; let '(b, s1) := vs2 in
                  do vs1 <- pop1 s1; let '(a, s2) := vs1 in
                  do r <- eval_binop op a b;
                  Ok (advance (with_stack s2 (r :: m_stack s2)))) []
      | _ => Abort (EInternal "OP without operator") []
      end
  | OC_JUMP =>
      match i_p0 i with
      | PJump c =>
          match jump_taken c (truthy (reg s R_RESULT)) with
          | Some true =>
              match i_p1 i with
              | PInt off => Next (with_pc s (m_pc s + off)) []
              | _ => Abort ETypeError []
              end
          | Some false => Next (advance s) []
          | None => Abort (EUnsupported "indirect jump") []
          end
      | _ => Abort (EInternal "JUMP without condition") []
      end
  | OC_LOOP => Next (advance (with_frames s (FLoop [] (zlength (m_stack s)) :: m_frames s))) []
  | OC_END_LOOP =>
      match m_frames s with
      | FLoop _ d :: r => Next (advance (with_stack (with_frames s r) (truncate_to (m_stack s) d))) []
      | _ => Abort (EInternal "END_LOOP without loop frame") []
      end
  | OC_CTX => Next (advance (with_frames s (FCall [] false None :: m_frames s))) []
  | OC_PARAM =>
      match i_p0 i with
      | PStr name =>
          let v := match i_p1 i with
                   | PReg r => get_reg s r
                   | p => match param_value p with Some v => Ok v | None => Err (EInternal "PARAM value") end
                   end in
          lift (do x <- v;
                match m_frames s with
                | FCall p e rt :: r => Ok (advance (with_frames s (FCall (env_set p name x) e rt :: r)))
                | _ => Err (EUnsupported "PARAM outside a call context")
                end) []
      | _ => Abort (EInternal "PARAM name") []
      end
  | OC_JSR =>
      match m_frames s with
      | FCall p _ _ :: r =>
          let s1 := with_frames s (FCall p true (Some (m_pc s + 1)) :: r) in
          match i_p0 i with
          | PStr n =>
              if is_builtin n then
                match call_builtin n p with
                | Ok v => match set_reg s1 R_RESULT v with
                          | Ok s2 => do_return s2
                          | Err e => Abort e []
                          end
                | Err e => Abort e []
                end
              else
                match find_routine (PStr n) (im_routines im) with
                | Some (addr, _) => Next (with_pc s1 addr) []
                | None => Abort (EInternal "call of a routine that does not exist") []
                end
          | _ => Abort (EInternal "JSR name") []
          end
      | _ => Abort (EUnsupported "JSR outside a call context") []
      end
  | OC_END =>
      match i_p0 i with
      | POperand OD_MATRIX => Next (advance s) []
      | _ => do_return s
      end
  | OC_RETURN =>
      match do_return s with
      | Next s' evs => Next (advance s') evs      (* the run loop also increments after RETURN *)
      | o => o
      end
  | OC_COLOR => cmd_color s
  | OC_POWER => cmd_power s
  | OC_GET_COLOR => cmd_get_color s
  | OC_MATRIX => Next (advance (with_regs s (do_matrix_begin (m_regs s) (m_world s) (reg s R_NAME)))) []
  | OC_WAIT =>
      match rf_wait (m_regs s) with
      | Ok WNone => Next (advance s) []
      | Ok (WPause t) => Next (advance s) [EvPause t]
      | Ok (WUntil p) => Next (advance s) [EvWaitUntil p]
      | Err e => Abort e []
      end
  | OC_TIME_PATTERN =>
      match i_p0 i, i_p1 i with
      | PSetOp SO_INIT, PTime p => lift (do s' <- set_reg s R_TIME (VTime p); Ok (advance s')) []
      | PSetOp SO_UNION, PTime p =>
          match reg s R_TIME with
          | VTime q => lift (do s' <- set_reg s R_TIME (VTime (tp_union q p)); Ok (advance s')) []
          | _ => Abort (EInternal "TIME_PATTERN UNION without a pattern in the time register") []
          end
      | PSetOp SO_INIT, _ => Abort (EUnsupported "TIME_PATTERN INIT of a non-pattern") []
      | _, _ => Abort (EInternal "TIME_PATTERN parameters") []
      end
  | OC_DISC =>
      match names_by_oper s with
      | Ok l =>
          let r := match (if disc_fwd s then sl_first l else sl_last l) with
                   | Some n => VStr n | None => VOperand OD_NULL end in
          lift (do s' <- set_reg s R_RESULT r; Ok (advance s')) []
      | Err e => Abort e []
      end
  | OC_DISCM =>
      lift (do nm <- param_to_value s (i_p0 i);
            let r := match set_by_oper s nm with
                     | Some l => or_null (if disc_fwd s then sl_first l else sl_last l)
                     | None => VOperand OD_NULL
                     end in
            do s' <- set_reg s R_RESULT r; Ok (advance s')) []
  | OC_DNEXT =>
      lift (do l <- names_by_oper s;
            do cur <- param_to_value s (i_p0 i);
            do r <- (if disc_fwd s then step_forward l cur else step_back l cur);
            do s' <- set_reg s R_RESULT r; Ok (advance s')) []
  | OC_DNEXTM =>
      lift (do nm <- param_to_value s (i_p0 i);
            do cur <- param_to_value s (i_p1 i);
            match set_by_oper s nm with
            | Some l =>
                do r <- (if disc_fwd s then step_forward l cur else step_back l cur);
                do s' <- set_reg s R_RESULT r; Ok (advance s')
            | None => do s' <- set_reg s R_RESULT (VOperand OD_NULL); Ok (advance s')   (* the set vanished: exhausted *)
            end) []
  | OC_OUT =>
      match i_p0 i with
      | PIoOp IO_LITERAL =>
          match param_value (i_p1 i) with
          | Some v => Next (advance (with_unnamed s (m_unnamed s ++ [v]))) []
          | None => Abort (EInternal "OUT LITERAL") []
          end
      | PIoOp IO_REGISTER =>
          match i_p1 i with
          | PReg r => lift (do v <- get_reg s r; Ok (advance (with_unnamed s (m_unnamed s ++ [v])))) []
          | _ => Abort (EInternal "OUT REGISTER") []
          end
      | PIoOp IO_PRINT =>
          match rev (m_unnamed s) with
          | v :: r => Next (advance (with_unnamed s (rev r))) [EvOut v]      (* the value pushed last *)
          | [] => Next (advance s) []
          end
      | PIoOp IO_PRINT_END => Next (advance s) [EvNewline]
      | PIoOp IO_PRINTF =>
          match i_p1 i with
          | PStr fmt =>
              match printf_names fmt, printf_positional fmt with
              | Some names, Some k =>
                  let named := map (fun n => (n, match register_of_name n with
                                                 | Some r => reg s r
                                                 | None => get_var (m_globals s) (m_frames s) n
                                                 end)) names in
                  let n := zlength (m_unnamed s) in
                  let first := Z.to_nat (Z.max 0 (n - k)) in
                  Next (advance (with_unnamed s (firstn first (m_unnamed s))))
                       [EvPrintf fmt (skipn first (m_unnamed s)) named]
              | _, _ => Abort (EUnsupported "printf format outside the scanned subset") []
              end
          | _ => Abort (EInternal "OUT PRINTF") []
          end
      | _ => Next (advance s) []      (* logged as an internal error, execution continues *)
      end
  end.

(* ---------- the run loop of Machine.run ---------- *)
Inductive final :=
| Finished (evs : list event)            (* ran off the end or reached STOP; pending output flushed *)
| Aborted (e : err) (evs : list event)   (* a Python exception ended the run: no flush *)
| OutOfFuel (evs : list event).

Definition fetch (im : image) (pc : Z) : option instr :=
  if pc <? 0 then None else nth_error (im_code im) (Z.to_nat pc).

Definition flush_events (s : mstate) : list event := map EvOut (m_unnamed s) ++ [EvFlush].

Fixpoint run_from (fuel : nat) (im : image) (s : mstate) (acc : list event) : final * mstate :=
  match fuel with
  | O => (OutOfFuel (rev acc), s)
  | S f =>
      if zlength (im_code im) <=? m_pc s then (Finished (rev acc ++ flush_events s), s)
      else
        match fetch im (m_pc s) with
        | None => (Aborted (EInternal "program counter outside the program") (rev acc), s)
        | Some i =>
            match exec im i s with
            | Next s' evs => run_from f im s' (rev_append evs acc)
            | Halt => (Finished (rev acc ++ flush_events s), s)
            | Abort e evs => (Aborted e (rev acc ++ evs), s)
            end
        end
  end.

Definition run_image (fuel : nat) (im : image) (w : world) : final := fst (run_from fuel im (init_state w) []).
Definition run_program (fuel : nat) (p : program) (w : world) : final := run_image fuel (load p) w.
