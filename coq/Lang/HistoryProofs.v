From Coq Require Import ZArith String List Bool.
From Bardolph Require Import Gen.ResetGen Lang.Value Lang.Instr Lang.Loader Lang.World Lang.Regs Lang.Machine
  Lang.Syntax Front.Lexer Front.Parser Lang.History.
Open Scope string_scope.
Open Scope list_scope.
Import ListNotations.

Lemma no_reset_gaps : reset_gaps = [].
Proof. reflexivity. Qed.

Lemma parser_begin_fresh old toks : parser_begin old toks = mkP toks builtin_symbols [] false false 0.
Proof. reflexivity. Qed.

Lemma compile_history_free old text : compile_on old text = parse_text text.
Proof. unfold compile_on, parse_text, parse_tokens. rewrite parser_begin_fresh. destruct (p_body _ _); reflexivity. Qed.

(* any sequence of earlier compiles: the object state after them does not matter *)
Lemma compile_after_any_history (earlier : list string) (leftover : list string -> pst) text :
  compile_on (leftover earlier) text = compile_on (leftover []) text.
Proof. rewrite !compile_history_free. reflexivity. Qed.

Lemma machine_begin_fresh old w : machine_begin old w = init_state w.
Proof. reflexivity. Qed.

Lemma run_history_free fuel im old w : run_on fuel im old w = run_image fuel im w.
Proof. unfold run_on, run_image. rewrite machine_begin_fresh. reflexivity. Qed.

Lemma rerun_after_stop fuel k im w0 w : run_on fuel im (stopped_after k im w0) w = run_image fuel im w.
Proof. apply run_history_free. Qed.

Lemma rerun_after_other_job fuel k im other w0 w : run_on fuel im (stopped_after k other w0) w = run_image fuel im w.
Proof. apply run_history_free. Qed.

(* the image is an argument of the step function and not part of its result: a run cannot
   change it; stated for the record as: the run of the same image twice gives the same result *)
Lemma run_twice_same fuel k im w : run_on fuel im (snd (run_from k im (init_state w) [])) w = run_on fuel im (init_state w) w.
Proof. rewrite !run_history_free. reflexivity. Qed.
