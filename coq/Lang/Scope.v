(* C03: the machine's call stack refines the scoping of the reference semantics, and the
   reference semantics has the advertised scoping laws. *)
From Coq Require Import ZArith String List Bool PrimFloat Lia.
From Bardolph Require Import Base.PyFloat Gen.Codes Time.TimeSpec Time.TimeCore
  Lang.Value Lang.Units0 Lang.World Lang.Regs Lang.Devices Lang.Builtins Lang.Syntax Lang.Sem
  Lang.Instr Lang.Loader Lang.Machine.
Open Scope string_scope.
Open Scope list_scope.
Import ListNotations.
Open Scope Z_scope.
Open Scope bool_scope.

(* ---------- environments ---------- *)
Lemma env_get_set_same e k v : env_get (env_set e k v) k = Some v.
Proof.
  induction e as [|[k' v'] r IH]; cbn [env_set env_get].
  - rewrite String.eqb_refl. reflexivity.
  - destruct (String.eqb k k') eqn:E; cbn [env_get]; rewrite ?String.eqb_refl, ?E; [reflexivity|exact IH].
Qed.

Lemma env_get_set_other e k k' v : k <> k' -> env_get (env_set e k v) k' = env_get e k'.
Proof.
  intros Hne. induction e as [|[k0 v0] r IH]; cbn [env_set env_get].
  - destruct (String.eqb k' k) eqn:E; [apply String.eqb_eq in E; congruence|reflexivity].
  - destruct (String.eqb k k0) eqn:E; cbn [env_get].
    + apply String.eqb_eq in E. subst k0.
      destruct (String.eqb k' k) eqn:E2; [apply String.eqb_eq in E2; congruence|reflexivity].
    + destruct (String.eqb k' k0); [reflexivity|exact IH].
Qed.

(* ---------- the abstraction: machine frames -> scope of the semantics ---------- *)
(* the scope the semantics works with: globals and the dictionary of the call in progress *)
Definition scope_of (g : env) (fs : frames) : env * option env := (g, vars_of fs).

Definition scope_lookup (sc : env * option env) (x : string) : value :=
  match (match snd sc with Some l => env_get l x | None => None end) with
  | Some v => v
  | None => match env_get (fst sc) x with Some v => v | None => VNone end
  end.

Definition scope_assign (sc : env * option env) (x : string) (v : value) : env * option env :=
  match snd sc with
  | Some l =>
      if env_has l x then (fst sc, Some (env_set l x v))
      else if env_has (fst sc) x then (env_set (fst sc) x v, snd sc)
      else (fst sc, Some (env_set l x v))
  | None => (env_set (fst sc) x v, None)
  end.

(* these are literally the lookup and assignment of Sem.v *)
Lemma sem_lookup_is_scope_lookup s x : lookup s x = scope_lookup (s_globals s, s_locals s) x.
Proof. reflexivity. Qed.

Lemma sem_assign_is_scope_assign s x v :
  (s_globals (assign s x v), s_locals (assign s x v)) = scope_assign (s_globals s, s_locals s) x v.
Proof.
  unfold assign, scope_assign. cbn [fst snd]. destruct (s_locals s) as [l|]; [|reflexivity].
  destruct (env_has l x); [reflexivity|]. destruct (env_has (s_globals s) x); reflexivity.
Qed.

(* Executing frames: no call is under construction above the frame whose variables are
   visible, i.e. only loop frames lie above the innermost entered call (or the root). *)
Fixpoint settled (fs : frames) : bool :=
  match fs with
  | [] => true
  | FLoop _ _ :: r => settled r
  | FCall _ true _ :: _ => true
  | FCall _ false _ :: _ => false
  end.

Lemma params_are_vars fs : settled fs = true ->
  params_of fs = match vars_of fs with Some p => p | None => [] end.
Proof.
  induction fs as [|[p [|] rt|lv d] r IH]; cbn [settled params_of vars_of]; try reflexivity; try discriminate.
  exact IH.
Qed.

Lemma upd_params_vars fs f : settled fs = true ->
  vars_of (upd_params fs f) = option_map f (vars_of fs) /\ settled (upd_params fs f) = true.
Proof.
  induction fs as [|[p [|] rt|lv d] r IH]; cbn [settled upd_params vars_of option_map]; intros H; try discriminate.
  - split; reflexivity.
  - split; reflexivity.
  - exact (IH H).
Qed.

Lemma upd_vars_vars fs f : settled fs = true ->
  match vars_of fs with
  | Some p => exists fs', upd_vars fs f = Some fs' /\ vars_of fs' = Some (f p) /\ settled fs' = true
  | None => upd_vars fs f = None
  end.
Proof.
  induction fs as [|[p [|] rt|lv d] r IH]; cbn [settled upd_vars vars_of]; intros H; try discriminate.
  - reflexivity.
  - eexists. split; [reflexivity|]. split; reflexivity.
  - specialize (IH H). destruct (vars_of r) as [p|].
    + destruct IH as [fs' [Hu [Hv Hs]]]. rewrite Hu. eexists. split; [reflexivity|]. cbn [vars_of settled]. split; assumption.
    + rewrite IH. reflexivity.
Qed.

(* REFINEMENT, reads: the machine finds for a name what the scope of the semantics holds;
   loop frames are transparent, and a frame under construction is invisible. *)
Theorem get_var_refines g fs x : get_var g fs x = scope_lookup (scope_of g fs) x.
Proof. reflexivity. Qed.

Theorem loop_frames_transparent g fs lv d x : get_var g (FLoop lv d :: fs) x = get_var g fs x.
Proof. reflexivity. Qed.

Theorem frame_under_construction_invisible g fs p x :
  get_var g (FCall p false None :: fs) x = get_var g fs x.
Proof. reflexivity. Qed.

(* REFINEMENT, writes: on settled frames the machine's put_variable is the assignment of
   the semantics: a parameter/local of that name, else an existing global, else a new
   local (a new global at top level). *)
Theorem put_var_refines g fs x v : settled fs = true ->
  let '(g', fs') := put_var g fs x v in
  scope_of g' fs' = scope_assign (scope_of g fs) x v /\ settled fs' = true.
Proof.
  intros Hs. unfold put_var, scope_of, scope_assign. cbn [fst snd].
  rewrite (params_are_vars fs Hs).
  pose proof (upd_vars_vars fs (fun e => env_set e x v) Hs) as Hv.
  destruct (vars_of fs) as [p|] eqn:Hvars.
  - destruct (env_has p x) eqn:Hp.
    + destruct (upd_params_vars fs (fun e => env_set e x v) Hs) as [H1 H2]. rewrite H1, Hvars. split; [reflexivity|exact H2].
    + destruct (env_has g x) eqn:Hg; [split; [rewrite Hvars; reflexivity|exact Hs]|].
      destruct Hv as [fs' [Hu [Hv' Hs']]]. rewrite Hu, Hv'. split; [reflexivity|exact Hs'].
  - cbn [env_has env_get]. destruct (env_has g x) eqn:Hg; [split; [rewrite Hvars; reflexivity|exact Hs]|].
    rewrite Hv. split; [rewrite Hvars; reflexivity|exact Hs].
Qed.

(* return pops exactly the loop frames of the current call, then the call itself *)
Lemma unwind_loops_only loops : forall rest d,
  Forall (fun f => match f with FLoop _ _ => True | _ => False end) loops ->
  match rest with FLoop _ _ :: _ => False | _ => True end ->
  exists d', unwind (loops ++ rest) d = (rest, d').
Proof.
  induction loops as [|f loops IH]; intros rest d Hall Hrest; cbn [app unwind].
  - destruct rest as [|[p e rt|lv dd] r]; [eexists; reflexivity|eexists; reflexivity|destruct Hrest].
  - inversion Hall as [|? ? Hf Hl]. subst. destruct f as [p e rt|lv dd]; [destruct Hf|].
    cbn [unwind]. apply IH; assumption.
Qed.

Theorem return_restores_caller s loops p e ret caller :
  Forall (fun f => match f with FLoop _ _ => True | _ => False end) loops ->
  m_frames s = loops ++ FCall p e (Some ret) :: caller ->
  exists s', do_return s = Next s' [] /\ m_frames s' = caller /\ m_pc s' = ret /\
             m_globals s' = m_globals s /\ m_regs s' = m_regs s.
Proof.
  intros Hall Hfs. unfold do_return. rewrite Hfs.
  destruct (unwind_loops_only loops (FCall p e (Some ret) :: caller) None Hall I) as [d' Hu].
  rewrite Hu. eexists. split; [reflexivity|]. cbn. repeat split; reflexivity.
Qed.

(* ---------- scoping laws of the reference semantics ---------- *)
(* a parameter (or local) hides a global of the same name, for reads and for writes *)
Theorem param_hides_global s l x v :
  s_locals s = Some l -> env_has l x = true ->
  lookup s x = match env_get l x with Some y => y | None => VNone end /\
  s_globals (assign s x v) = s_globals s /\
  lookup (assign s x v) x = v.
Proof.
  intros Hl Hx. unfold lookup, assign. rewrite Hl, Hx. cbn.
  unfold env_has in Hx. destruct (env_get l x) as [y|] eqn:E; [|discriminate].
  repeat split. rewrite env_get_set_same. reflexivity.
Qed.

(* assigning to a name that is a global (and no parameter/local) updates the global *)
Theorem assign_global_updates_global s l x v :
  s_locals s = Some l -> env_has l x = false -> env_has (s_globals s) x = true ->
  s_locals (assign s x v) = Some l /\ env_get (s_globals (assign s x v)) x = Some v.
Proof.
  intros Hl Hx Hg. unfold assign. rewrite Hl, Hx, Hg. cbn. split; [reflexivity|apply env_get_set_same].
Qed.

(* any other name is local to the call: the globals do not change *)
Theorem fresh_name_is_local s l x v :
  s_locals s = Some l -> env_has l x = false -> env_has (s_globals s) x = false ->
  s_globals (assign s x v) = s_globals s /\ s_locals (assign s x v) = Some (env_set l x v).
Proof. intros Hl Hx Hg. unfold assign. rewrite Hl, Hx, Hg. cbn. split; reflexivity. Qed.

(* assigning to a parameter never changes any other name, caller's or global *)
Theorem assign_param_frame s l x v y :
  s_locals s = Some l -> env_has l x = true -> y <> x ->
  lookup (assign s x v) y = lookup s y.
Proof.
  intros Hl Hx Hne. unfold lookup, assign. rewrite Hl, Hx. cbn.
  rewrite env_get_set_other by congruence. reflexivity.
Qed.

(* Values are computed in the caller's scope and leave it as it was: evaluating a value
   position or a call -- nested and recursive calls included -- returns with the caller's
   parameters and locals unchanged (the callee's own are gone). *)
Section Frames.
Variable rt : rtable.
Variable mt : mtable.

Definition keeps {A} (s : sstate) (r : sres A) : Prop :=
  match r with ROk _ s' => s_locals s' = s_locals s | _ => True end.

Lemma keeps_lift {A} (r : res A) s : keeps s (lift_res r s).
Proof. destruct r; cbn; auto. Qed.

Lemma keeps_bind {A B} s (r : sres A) (k : A -> sstate -> sres B) :
  keeps s r -> (forall a s', s_locals s' = s_locals s -> keeps s' (k a s')) -> keeps s (sbind r k).
Proof.
  intros Hr Hk. destruct r as [a s'|e s'|s']; cbn [sbind keeps] in *; try exact I.
  specialize (Hk a s' Hr). unfold keeps in *. destruct (k a s'); try exact I. congruence.
Qed.

Lemma operand_value_keeps v s : keeps s (operand_value v s).
Proof. destruct v; cbn; auto. Qed.

Definition call_body (f : nat) (g : string) (vs : list value) (s1 : sstate) : sres value :=
  match builtin_params g builtin_table with
  | Some ps =>
      match bind_params ps vs [] with
      | Some p => lift_res (call_builtin g p) s1
      | None => RErr (EInternal "arity") s1
      end
  | None =>
      match find_rdef rt g with
      | Some d =>
          match bind_params (rd_params d) vs [] with
          | Some p =>
              match Sem.exec rt mt f false (s_with_locals s1 (Some p)) (rd_body d) with
              | ROk sig s2 =>
                  match sig with
                  | SigReturn v => ROk v (s_with_locals s2 (s_locals s1))
                  | _ => ROk VNone (s_with_locals s2 (s_locals s1))
                  end
              | RErr e s2 => RErr e s2
              | RFuel s2 => RFuel s2
              end
          | None => RErr (EInternal "arity") s1
          end
      | None => RErr (EInternal "call of a routine that does not exist") s1
      end
  end.

Lemma call_unfold f m s g args :
  call rt mt (S f) m s g args = sbind (eval_args rt mt f m s args) (fun vs s1 => call_body f g vs s1).
Proof. reflexivity. Qed.

Theorem values_keep_caller_scope : forall fuel,
  (forall m s r, keeps s (eval_rval rt mt fuel m s r)) /\
  (forall m s e, keeps s (eval_expr rt mt fuel m s e)) /\
  (forall m s args, keeps s (eval_args rt mt fuel m s args)) /\
  (forall m s g args, keeps s (call rt mt fuel m s g args)).
Proof.
  induction fuel as [|f IH]; [repeat split; intros; exact I|].
  destruct IH as [IHr [IHe [IHa IHc]]].
  repeat split.
  - intros m s r. cbn [eval_rval]. destruct r; try (cbn; reflexivity); try apply keeps_lift.
    + apply IHe.
    + apply IHc.
  - intros m s e. cbn [eval_expr]. destruct e; try (cbn; reflexivity); try apply operand_value_keeps.
    + apply keeps_bind; [apply IHc|]. intros v s' H. apply operand_value_keeps.
    + apply keeps_bind; [apply IHe|]. intros x s1 H1. apply keeps_bind; [apply IHe|]. intros y s2 H2. apply keeps_lift.
    + apply keeps_bind; [apply IHe|]. intros x s1 H1. apply keeps_lift.
    + apply IHe.
    + apply IHe.
  - intros m s args. cbn [eval_args]. destruct args as [|a r]; [cbn; reflexivity|].
    apply keeps_bind; [apply IHr|]. intros v s1 H1. apply keeps_bind; [apply IHa|]. intros vs s2 H2. cbn. reflexivity.
  - intros m s g args. rewrite call_unfold. apply keeps_bind; [apply IHa|]. intros vs s1 H1.
    unfold call_body.
    destruct (builtin_params g builtin_table) as [ps|].
    + destruct (bind_params ps vs []); [apply keeps_lift|exact I].
    + destruct (find_rdef rt g) as [d|]; [|exact I].
      destruct (bind_params (rd_params d) vs []) as [p|]; [|exact I].
      (* whatever the body does, the caller's dictionary is put back when it returns *)
      destruct (Sem.exec rt mt f false (s_with_locals s1 (Some p)) (rd_body d)) as [sig s2|e s2|s2]; try exact I.
      destruct sig; unfold keeps; cbn; reflexivity.
Qed.

(* `return v` ends the current call from any depth: a statement list stops at the
   statement that returned, and a loop ends with the iteration that returned. *)
Theorem return_skips_rest f m s st r v s1 :
  Sem.exec rt mt f m s st = ROk (SigReturn v) s1 ->
  exec_seq rt mt (S f) m s (st :: r) = ROk (SigReturn v) s1.
Proof.
  intros H.
  change (exec_seq rt mt (S f) m s (st :: r)) with
    (sbind (Sem.exec rt mt f m s st)
           (fun sig s1 => match sig with SigNormal => exec_seq rt mt f m s1 r | _ => ROk sig s1 end)).
  rewrite H. reflexivity.
Qed.

Theorem break_skips_rest f m s st r s1 :
  Sem.exec rt mt f m s st = ROk SigBreak s1 ->
  exec_seq rt mt (S f) m s (st :: r) = ROk SigBreak s1.
Proof.
  intros H.
  change (exec_seq rt mt (S f) m s (st :: r)) with
    (sbind (Sem.exec rt mt f m s st)
           (fun sig s1 => match sig with SigNormal => exec_seq rt mt f m s1 r | _ => ROk sig s1 end)).
  rewrite H. reflexivity.
Qed.

(* a call delivers the returned value (or nothing) to the point of call *)
Theorem call_delivers_return f m s g args vs s1 d p v s2 :
  eval_args rt mt f m s args = ROk vs s1 ->
  builtin_params g builtin_table = None ->
  find_rdef rt g = Some d ->
  bind_params (rd_params d) vs [] = Some p ->
  Sem.exec rt mt f false (s_with_locals s1 (Some p)) (rd_body d) = ROk (SigReturn v) s2 ->
  call rt mt (S f) m s g args = ROk v (s_with_locals s2 (s_locals s1)).
Proof.
  intros Ha Hb Hf Hp He. rewrite call_unfold, Ha. cbn [sbind]. unfold call_body. rewrite Hb, Hf, Hp, He. reflexivity.
Qed.

End Frames.
