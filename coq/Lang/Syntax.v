(* Abstract syntax of Bardolph scripts: the statement forms of docs/language.rst. *)
From Coq Require Import ZArith String List Bool PrimFloat.
From Bardolph Require Import Gen.Codes Time.TimeSpec Time.TimeCore Lang.Value.
Open Scope string_scope.
Open Scope list_scope.
Import ListNotations.
Open Scope Z_scope.

(* numeric literal as written (a minus sign in front of a literal is folded into it
   outside expressions) *)
Inductive lit := LInt (z : Z) | LFlt (f : float) | LStr (s : string).

Definition lit_value (l : lit) : value :=
  match l with LInt z => VInt z | LFlt f => VFlt f | LStr s => VStr s end.

(* binary operators of curly-brace expressions *)
Inductive binop :=
| BAdd | BSub | BMul | BDiv | BMod | BPow
| BEq | BNe | BLt | BLe | BGt | BGe
| BAnd | BOr.

Definition binop_operator (b : binop) : operator :=
  match b with
  | BAdd => OP_ADD | BSub => OP_SUB | BMul => OP_MUL | BDiv => OP_DIV | BMod => OP_MOD | BPow => OP_POW
  | BEq => OP_EQ | BNe => OP_NOTEQ | BLt => OP_LT | BLe => OP_LTE | BGt => OP_GT | BGe => OP_GTE
  | BAnd => OP_AND | BOr => OP_OR
  end.

(* expression trees (inside braces) and value positions (rvalues) *)
Inductive expr :=
| ELit (l : lit)
| EMacro (m : string)                   (* compile-time constant, by name *)
| EVar (x : string)
| EReg (r : register)
| ECall (f : string) (args : list rval) (* [f a b] *)
| EBin (op : binop) (a b : expr)
| ENeg (a : expr)                       (* leading minus *)
| EPos (a : expr)                       (* leading plus *)
| EParen (a : expr)                     (* explicit parentheses: no meaning of their own *)
with rval :=
| RLit (l : lit)
| RNeg (l : lit)                        (* -5 outside braces: minus folded into the constant *)
| RMacro (m : string)
| RNegMacro (m : string)
| RVar (x : string)
| RReg (r : register)
| RExpr (e : expr)                      (* { e } *)
| RCall (f : string) (args : list rval). (* [f a b] *)

(* the name of a light / group / location in an operand *)
Inductive nameref := NStr (s : string) | NMacro (m : string) | NVar (x : string).

Inductive target_kind := TLight | TGroup | TLocation.

(* rows / columns of a stage: first, optional last *)
Definition span := option (rval * option rval).

Inductive loop_with :=
| WRange (v : string) (a b : rval)             (* with v from a to b *)
| WCycle (v : string) (start : option rval).   (* with v cycle [s] *)

Inductive light_src :=
| SrcLight (n : rval)                          (* a light by name *)
| SrcGroup (n : rval)                          (* group "g" *)
| SrcLocation (n : rval).                      (* location "l" *)

Inductive time_ref := TPat (text : string) (p : tp) | TMacro (m : string).

Inductive stmt :=
| SReg (r : register) (v : rval)               (* hue 120 *)
| SUnits (m : unit_mode)
| SSet (ops : operands)
| SOn (ops : operands)
| SOff (ops : operands)
| SStage (rows cols : span) (rows_first : bool)
| SGet (n : rval)
| SWait
| STimeAt (ps : list time_ref)
| SAssign (x : string) (v : rval)
| SDefineMacro (m : string) (v : macro_def)
| SDefineRoutine (f : string) (params : list string) (body : stmt)
| SCall (f : string) (args : list rval) (bracketed : bool)
| SReturn (v : option rval)
| SIf (c : rval) (s1 : stmt) (s2 : option stmt)
| SRepeat (l : loop) (body : stmt)
| SBreak
| SPrint (v : option rval)
| SPrintln (v : option rval)
| SPrintf (fmt : string) (args : list rval)
| SBlock (ss : list stmt)                      (* begin ... end *)
with operands :=
| OpAll
| OpDefault
| OpList (l : list opnd)
with opnd :=
| Target (k : target_kind) (n : nameref)
| Zone (n : nameref) (a : rval) (b : option rval)
| MatrixInline (n : nameref) (rows cols : span) (rows_first : bool)
| MatrixBlock (n : nameref) (body : stmt)
with loop :=
| LInfinite
| LWhile (c : rval)
| LCount (n : rval)
| LRange (v : string) (a b : rval)
| LCountWith (n : rval) (w : loop_with)
| LAll (x : string) (w : option loop_with)
| LGroups (x : string) (w : option loop_with)
| LLocations (x : string) (w : option loop_with)
| LIn (srcs : list light_src) (x : string) (w : option loop_with)
with macro_def :=
| MLit (l : lit)
| MTime (text : string) (p : tp)
| MRef (m : string).

Definition script := list stmt.
