(* C15 model side: hand-written model of
     bardolph/controller/color_matrix.py   (Rect, ColorMatrix)
     bardolph/vm/machine.py                (_matrix, _color_matrix, _color_matrix_light,
                                            _color_mz_light, _color_default, _color_light,
                                            _end, _as_raw_matrix, _as_raw_color)
     the production wrappers' set_zone_colors / set_matrix (param_16, get_colors)
     and the instruction templates of parse.py / matrix_parser.py (DESIGN Appendix A)
   as a command-level machine.  Tied to the source by Gen/MatrixShape.v (exact text
   comparison, tools/gen_matrix.py) and by the correspondence runs.  No proofs here.

   Abstractions.  A colour is a value of an abstract type C (the list of four numbers
   Registers.get_color() builds); [std] is ColorMatrix._standardize_raw on a colour
   (= param_color on finite numbers), [conv m] is Machine._as_raw_color in unit mode m
   (units.logical_to_raw / rgb_to_raw), [black] is [0, 0, 0, 0].  A command stands for
   the instructions that leave a value in a register (MOVEQ / MOVE / POP), so literals,
   variables, expressions and loop indices all become [CPut r v] with the value v they
   produce.  An exception escaping an instruction aborts the script (Machine.run logs it
   and stops): [exec] returns None. *)
From Coq Require Import ZArith List Bool.
From Bardolph Require Import Base.PyStr Gen.MatrixShape.
From Bardolph Require Export Lang.MatrixSpec.
Open Scope list_scope.
Import ListNotations.
Open Scope Z_scope.
Open Scope bool_scope.

(* ---------- Python list indexing and index arithmetic ---------- *)

(* l[i] for a list of length n: a negative i counts from the end; None = IndexError *)
Definition wrap (n i : Z) : Z := if i <? 0 then i + n else i.
Definition py_idx (n i : Z) : option nat :=
  let j := wrap n i in
  if (0 <=? j) && (j <? n) then Some (Z.to_nat j) else None.

Fixpoint list_set {A} (l : list A) (k : nat) (v : A) : list A :=
  match l, k with
  | [], _ => []
  | _ :: t, O => v :: t
  | x :: t, S k' => x :: list_set t k' v
  end.

(* round(x) for an int or a float *)
Definition py_round (v : num) : Z :=
  match v with
  | NInt z => z
  | NFlt n d => round_half_even n (Zpos d)
  end.

(* x + 1 (exact for the magnitudes that occur) *)
Definition num_succ (v : num) : num :=
  match v with
  | NInt z => NInt (z + 1)
  | NFlt n d => NFlt (n + Zpos d) d
  end.

(* param_16: round(max(0, min(x, 0xffff))) *)
Definition clamp16 (z : Z) : Z := Z.max 0 (Z.min z 65535).
Definition param_16 (v : num) : Z := clamp16 (py_round v).

(* what range() makes of a register value: an int as it is; a float raises TypeError
   unless _color_matrix rounds the numbers first (repair of D37) *)
Definition to_index (v : num) : option Z :=
  match v with
  | NInt z => Some z
  | NFlt n d => if shape_index_rounded then Some (py_round v) else None
  end.

(* Some (a', b') = both usable (None stays None), None = TypeError *)
Definition idx2 (a b : option num) : option (option Z * option Z) :=
  let cv (o : option num) : option (option Z) :=
    match o with
    | None => Some None
    | Some v => match to_index v with Some z => Some (Some z) | None => None end
    end in
  match cv a, cv b with
  | Some x, Some y => Some (x, y)
  | _, _ => None
  end.

(* ColorMatrix._normalize_rect on one axis *)
Definition norm_pair (a b : option Z) (extent : Z) : Z * Z :=
  match a, b with
  | None, None => (0, extent - 1)
  | None, Some y => (y, y)
  | Some x, None => (x, x)
  | Some x, Some y => (x, y)
  end.

(* A raw colour is four integers; ColorMatrix._standardize_raw (= param_color) clamps each to
   0..65535 and rounds, and rounding an integer is the identity.  This is the instance of
   the abstract [std] below for `units raw` scripts with integer settings. *)
Definition zcolour := (Z * Z * Z * Z)%type.
Definition standardize_raw_z (c : zcolour) : zcolour :=
  let '(a, b, c', d) := c in (clamp16 a, clamp16 b, clamp16 c', clamp16 d).

Inductive kind := KPlain | KZones | KMatrix (h w : Z).
Inductive operand_t := OpNull | OpLight | OpDefault | OpMatrix | OpMatrixLight | OpMzLight.
Inductive reg := FIRST_ROW | LAST_ROW | FIRST_COLUMN | LAST_COLUMN | FIRST_ZONE | LAST_ZONE.

Section Model.
Variable C : Type.
Variable std : C -> C.
Variable conv : mode -> C -> C.
Variable switch : mode -> mode -> C -> C.   (* Machine._switch_unit_mode on the colour registers *)
Variable black : C.

(* ---------- ColorMatrix ---------- *)

(* _mat is a list of rows; a cell is None or a colour *)
Record cmatrix := mkMat { m_height : Z; m_width : Z; m_rows : list (list (option C)) }.

(* ColorMatrix(height, width).set_from_constant(v) *)
Definition new_from_constant (h w : Z) (v : option C) : cmatrix :=
  mkMat h w (map (fun _ => map (fun _ => v) (zrange 0 w)) (zrange 0 h)).

(* self._mat[row][column] = v *)
Definition set_cell (rows : list (list (option C))) (row col : Z) (v : option C)
  : option (list (list (option C))) :=
  match py_idx (Z.of_nat (length rows)) row with
  | None => None
  | Some i =>
      let r := nth i rows [] in
      match py_idx (Z.of_nat (length r)) col with
      | None => None
      | Some j => Some (list_set rows i (list_set r j v))
      end
  end.

(* for column in cols: self._mat[row][column] = v *)
Fixpoint set_cols rows (row : Z) (cols : list Z) (v : option C) :=
  match cols with
  | [] => Some rows
  | c :: cs =>
      match set_cell rows row c v with
      | None => None
      | Some rows' => set_cols rows' row cs v
      end
  end.

(* for row in rws: for column in cols: ... *)
Fixpoint set_rows rows (rws cols : list Z) (v : option C) :=
  match rws with
  | [] => Some rows
  | r :: rs =>
      match set_cols rows r cols v with
      | None => None
      | Some rows' => set_rows rows' rs cols v
      end
  end.

(* Rect(first_row, last_row, first_column, last_column) as _color_matrix builds it,
   then ColorMatrix.overlay_color: _normalize_rect, two nested range() loops.  The
   column range is only evaluated when the row range is not empty. *)
Definition overlay_color (m : cmatrix) (top bottom left right : option num) (c : C) : option cmatrix :=
  match idx2 top bottom with
  | None => None
  | Some (ot, ob) =>
      let '(t, b) := norm_pair ot ob (m_height m) in
      match zrange t (b + 1) with
      | [] => Some m
      | rws =>
          match idx2 left right with
          | None => None
          | Some (ol, or) =>
              let '(l, r) := norm_pair ol or (m_width m) in
              match set_rows (m_rows m) rws (zrange l (r + 1)) (Some c) with
              | None => None
              | Some rows' => Some (mkMat (m_height m) (m_width m) rows')
              end
          end
      end
  end.

Definition mat_map (g : option C -> option C) (m : cmatrix) : cmatrix :=
  mkMat (m_height m) (m_width m) (map (map g) (m_rows m)).

(* find_replace(None, d): every None cell becomes (a copy of) d *)
Definition find_replace_none (m : cmatrix) (d : C) : cmatrix :=
  mat_map (fun o => match o with None => Some d | Some _ => o end) m.

(* as_list(): row-major; get_colors(): _standardize_raw of each entry *)
Definition as_list (m : cmatrix) : list (option C) := concat (m_rows m).
Definition get_colors (m : cmatrix) : list (option C) := map (option_map std) (as_list m).

(* ---------- Machine ---------- *)

Inductive event :=
| ESet (l : Z) (c : C)                         (* impl.set_color(param_color(c), ..) *)
| EZone (l first last1 : Z) (c : C)            (* impl.set_zone_color(first, last1, param_color(c), ..) *)
| EMatrix (l h w : Z) (cells : list (option C)).  (* SetTileState64 payload "colors" = matrix.get_colors() *)

Record state := mkState {
  unit_mode : mode;
  first_row : option num; last_row : option num;
  first_column : option num; last_column : option num;
  first_zone : option num; last_zone : option num;
  operand : operand_t;
  name_l : Z; name_kind : kind;        (* the light light_set.get_light(reg.name) returns *)
  colour : C;                          (* Registers.get_color() *)
  default : option C;
  matrix : option cmatrix;
  out : list event }.

Definition initial (c0 : C) : state :=
  mkState Logical None None None None (Some (NInt 0)) (Some (NInt 0)) OpNull 0 KPlain c0 None None [].

(* Machine._as_raw_color *)
Definition as_raw_color (m : mode) (c : C) : C :=
  match m with Raw => c | _ => conv m c end.

(* Machine._as_raw_matrix: in raw mode the same object; otherwise a new matrix of the
   converted cells (None stays None: units functions are @noneable) -- of get_colors()
   on the pinned tree, of as_list() with the repair of D25 *)
Definition as_raw_matrix (m : mode) (mat : cmatrix) : cmatrix :=
  match m with
  | Raw => mat
  | _ => mat_map (fun o => option_map (conv m)
                    (if shape_as_raw_matrix_unrounded then o else option_map std o)) mat
  end.

Inductive cmd :=
| CUnits (m : mode)                 (* MOVEQ m UNIT_MODE *)
| CColour (c : C)                   (* the colour registers become c *)
| CName (l : Z) (k : kind)          (* MOVEQ "name" NAME, the light that name denotes *)
| CPut (r : reg) (v : option num)   (* a value arrives in a range register *)
| COperand (o : operand_t)          (* MOVEQ o OPERAND *)
| CMatrix                           (* MATRIX *)
| CColor                            (* COLOR *)
| CEndMatrix.                       (* END MATRIX *)

Definition set_out (st : state) (o : list event) : state :=
  mkState (unit_mode st) (first_row st) (last_row st) (first_column st) (last_column st)
          (first_zone st) (last_zone st) (operand st) (name_l st) (name_kind st)
          (colour st) (default st) (matrix st) o.
Definition set_matrix_reg (st : state) (m : option cmatrix) : state :=
  mkState (unit_mode st) (first_row st) (last_row st) (first_column st) (last_column st)
          (first_zone st) (last_zone st) (operand st) (name_l st) (name_kind st)
          (colour st) (default st) m (out st).
Definition set_default_reg (st : state) (d : option C) : state :=
  mkState (unit_mode st) (first_row st) (last_row st) (first_column st) (last_column st)
          (first_zone st) (last_zone st) (operand st) (name_l st) (name_kind st)
          (colour st) d (matrix st) (out st).
Definition emit (st : state) (e : event) : state := set_out st (out st ++ [e]).

Definition put_reg (st : state) (r : reg) (v : option num) : state :=
  let fr := first_row st in let lr := last_row st in
  let fc := first_column st in let lc := last_column st in
  let fz := first_zone st in let lz := last_zone st in
  let mk fr lr fc lc fz lz :=
    mkState (unit_mode st) fr lr fc lc fz lz (operand st) (name_l st) (name_kind st)
            (colour st) (default st) (matrix st) (out st) in
  match r with
  | FIRST_ROW => mk v lr fc lc fz lz
  | LAST_ROW => mk fr v fc lc fz lz
  | FIRST_COLUMN => mk fr lr v lc fz lz
  | LAST_COLUMN => mk fr lr fc v fz lz
  | FIRST_ZONE => mk fr lr fc lc v lz
  | LAST_ZONE => mk fr lr fc lc fz v
  end.

(* Machine._color_matrix *)
Definition color_matrix (st : state) : option state :=
  match matrix st with
  | None => if shape_stage_outside_skipped then Some st else None
  | Some m =>
      match overlay_color m (first_row st) (last_row st) (first_column st) (last_column st) (colour st) with
      | None => None
      | Some m' => Some (set_matrix_reg st (Some m'))
      end
  end.

(* Machine._color_matrix_light, MatrixLight.set_matrix *)
Definition color_matrix_light (st : state) : option state :=
  let send :=
    match matrix st with
    | None => None
    | Some m =>
        let m1 := as_raw_matrix (unit_mode st) m in
        let m2 := find_replace_none m1 (match default st with Some d => d | None => black end) in
        let st' := match unit_mode st with Raw => set_matrix_reg st (Some m2) | _ => st end in
        Some (emit st' (EMatrix (name_l st) (m_height m2) (m_width m2) (get_colors m2)))
    end in
  match name_kind st with
  | KMatrix _ _ => send
  | _ => if shape_matrix_light_checked then Some st else None
  end.

(* Machine._color_mz_light, MultizoneLight.set_zone_colors *)
Definition color_mz_light (st : state) : option state :=
  match name_kind st with
  | KZones =>
      match first_zone st with
      | None => None
      | Some a =>
          let e := match last_zone st with Some b => b | None => a end in
          Some (emit st (EZone (name_l st) (param_16 a) (param_16 (num_succ e))
                               (std (as_raw_color (unit_mode st) (colour st)))))
      end
  | _ => Some st
  end.

(* Machine._matrix *)
Definition do_matrix (st : state) : state :=
  match name_kind st with
  | KMatrix h w => set_matrix_reg st (Some (new_from_constant h w None))
  | _ => set_matrix_reg st (Some (new_from_constant 255 255 None))
  end.

Definition exec (c : cmd) (st : state) : option state :=
  match c with
  | CUnits m =>
      Some (mkState m (first_row st) (last_row st) (first_column st) (last_column st)
                    (first_zone st) (last_zone st) (operand st) (name_l st) (name_kind st)
                    (if match unit_mode st, m with
                        | Logical, Logical | Raw, Raw | Rgb, Rgb => true | _, _ => false end
                     then colour st else switch (unit_mode st) m (colour st))
                    (default st) (matrix st) (out st))
  | CColour c' =>
      Some (mkState (unit_mode st) (first_row st) (last_row st) (first_column st) (last_column st)
                    (first_zone st) (last_zone st) (operand st) (name_l st) (name_kind st)
                    c' (default st) (matrix st) (out st))
  | CName l k =>
      Some (mkState (unit_mode st) (first_row st) (last_row st) (first_column st) (last_column st)
                    (first_zone st) (last_zone st) (operand st) l k
                    (colour st) (default st) (matrix st) (out st))
  | CPut r v => Some (put_reg st r v)
  | COperand o =>
      Some (mkState (unit_mode st) (first_row st) (last_row st) (first_column st) (last_column st)
                    (first_zone st) (last_zone st) o (name_l st) (name_kind st)
                    (colour st) (default st) (matrix st) (out st))
  | CMatrix => Some (do_matrix st)
  | CEndMatrix => Some st
  | CColor =>
      match operand st with
      | OpNull => None
      | OpLight => Some (emit st (ESet (name_l st) (std (as_raw_color (unit_mode st) (colour st)))))
      | OpDefault => Some (set_default_reg st (Some (as_raw_color (unit_mode st) (colour st))))
      | OpMatrix => color_matrix st
      | OpMatrixLight => color_matrix_light st
      | OpMzLight => color_mz_light st
      end
  end.

(* (state reached, true) when every command ran; (state before the failing command,
   false) when one raised: what was transmitted before stays transmitted *)
Fixpoint run (cs : list cmd) (st : state) : state * bool :=
  match cs with
  | [] => (st, true)
  | c :: rest =>
      match exec c st with
      | None => (st, false)
      | Some st' => run rest st'
      end
  end.

(* ---------- instruction templates (DESIGN Appendix A) ---------- *)

Definition put_clause (fr lr : reg) (cl : clause) : list cmd :=
  [CPut fr (Some (c_first cl)); CPut lr (c_last cl)].
Definition put_missing (fr lr : reg) : list cmd := [CPut fr None; CPut lr None].

(* MatrixParser._inline_operand: MOVEQ MATRIX OPERAND ; the clauses in source order ;
   two MOVEQ None for a missing row clause, then for a missing column clause *)
Definition stage_operand (s : stage C) : list cmd :=
  let rows := match s_rows s with Some cl => put_clause FIRST_ROW LAST_ROW cl | None => [] end in
  let cols := match s_cols s with Some cl => put_clause FIRST_COLUMN LAST_COLUMN cl | None => [] end in
  [COperand OpMatrix]
  ++ (if s_cols_first s then cols ++ rows else rows ++ cols)
  ++ (match s_rows s with None => put_missing FIRST_ROW LAST_ROW | Some _ => [] end)
  ++ (match s_cols s with None => put_missing FIRST_COLUMN LAST_COLUMN | Some _ => [] end).

(* colour ; stage .. *)
Definition compile_stage (s : stage C) : list cmd :=
  CColour (s_colour s) :: stage_operand s ++ [CColor].

Definition matrix_tail : list cmd := [CEndMatrix; COperand OpMatrixLight; CColor].

Definition compile_stmt (s : stmt C) : list cmd :=
  match s with
  | SUnits m => [CUnits m]
  | SDefault c => [CColour c; COperand OpDefault; CColor]
  | SPlain l c => [CColour c; CName l KPlain; COperand OpLight; CColor]
  | SZone l c a b =>
      [CColour c; CName l KZones; CPut FIRST_ZONE (Some a); CPut LAST_ZONE b; COperand OpMzLight; CColor]
  | SInline l h w st =>
      (* colour ; set "L" row .. column ..: the colour is set before MATRIX *)
      [CColour (s_colour st); CName l (KMatrix h w); CMatrix] ++ stage_operand st ++ [CColor] ++ matrix_tail
  | SBlock l h w ss =>
      [CName l (KMatrix h w); CMatrix] ++ flat_map compile_stage ss ++ matrix_tail
  end.

Definition compile (prog : list (stmt C)) : list cmd := flat_map compile_stmt prog.

End Model.

Arguments mkMat {C}.
Arguments m_height {C}.
Arguments m_width {C}.
Arguments m_rows {C}.
Arguments mkState {C}.
Arguments unit_mode {C}.
Arguments first_row {C}.
Arguments last_row {C}.
Arguments first_column {C}.
Arguments last_column {C}.
Arguments first_zone {C}.
Arguments last_zone {C}.
Arguments operand {C}.
Arguments name_l {C}.
Arguments name_kind {C}.
Arguments colour {C}.
Arguments default {C}.
Arguments matrix {C}.
Arguments out {C}.
Arguments initial {C}.
Arguments ESet {C}.
Arguments EZone {C}.
Arguments EMatrix {C}.
Arguments CUnits {C}.
Arguments CColour {C}.
Arguments CName {C}.
Arguments CPut {C}.
Arguments COperand {C}.
Arguments CMatrix {C}.
Arguments CColor {C}.
Arguments CEndMatrix {C}.
