(* The arithmetic the compiled loops do on their loop variables (counter, first, last, increment) and on the index
   variable: single steps and the four-instruction groups push; push; OP; POP (used by Lang/RangeLoop.v). *)
From Coq Require Import ZArith String List Bool Lia.
From Bardolph Require Import Gen.Codes Lang.Value Lang.Instr Lang.Loader Lang.World Lang.Units0 Lang.Regs Lang.Devices
  Lang.Machine Lang.Syntax Lang.Sem Lang.CodeGen Lang.Scope Lang.ExprCompile Lang.Simulation Lang.Simulation2.
Open Scope string_scope.
Open Scope list_scope.
Import ListNotations.
Open Scope Z_scope.

(* what an operand of such a group denotes in a state *)
Definition operand (s : mstate) (p : param) : option value :=
  match p with
  | PInt z => Some (VInt z)
  | PLoopVar k => Some (get_loopvar (m_frames s) k)
  | PStr x => Some (get_var (m_globals s) (m_frames s) x)
  | PMode m => Some (VMode m)
  | POperand OD_NULL => Some (VOperand OD_NULL)
  | PReg rg => if register_eqb rg R_PC then None else rf_get (m_regs s) rg
  | _ => None
  end.

Lemma push_step im s p a : fetch im (m_pc s) = Some (push_of p) -> operand s p = Some a -> a <> VNone ->
  esteps 1 im s = Some (advance (with_stack s (a :: m_stack s)), []).
Proof.
  intros Hf Ho Hn. apply (estep1 im s _ _ _ Hf).
  destruct p as [|z|fl|bb|x|rg|kk|od|md|opr|jc|io|so|tm|oc|ot]; cbn [operand] in Ho; try discriminate.
  - injection Ho as <-. reflexivity.
  - injection Ho as <-. cbn [push_of Machine.exec i_op i_p0 I1 param_value read_name bind lift].
    destruct (get_var (m_globals s) (m_frames s) x); try reflexivity; contradiction.
  - destruct (register_eqb rg R_PC) eqn:Er; [discriminate|]. cbn [push_of Machine.exec i_op i_p0 I1].
    rewrite (get_reg_not_pc s rg Er). unfold rg_vm. rewrite Ho. cbn [bind lift]. destruct a; try reflexivity; contradiction.
  - injection Ho as <-. cbn [push_of Machine.exec i_op i_p0 I1 param_value read_name bind lift].
    destruct (get_loopvar (m_frames s) kk); try reflexivity; contradiction.
  - destruct od; try discriminate. injection Ho as <-. reflexivity.
  - injection Ho as <-. reflexivity.
Qed.

Lemma binop_step im s op a b k r : fetch im (m_pc s) = Some (I1 OC_OP (POperator op)) -> is_unary op = false ->
  m_stack s = b :: a :: k -> eval_binop op a b = Ok r ->
  esteps 1 im s = Some (advance (with_stack s (r :: k)), []).
Proof.
  intros Hf Hu Hs He. apply (estep1 im s _ _ _ Hf). cbn [Machine.exec i_op i_p0 I1]. rewrite Hu. unfold pop1. rewrite Hs. cbn [bind with_stack m_stack].
  rewrite He. reflexivity.
Qed.

(* the state after a store into a loop variable of the innermost loop frame *)
Definition with_lv (s : mstate) (kk : loopvar) (x : value) (n : Z) : mstate :=
  mkM (m_pc s + n) (m_regs s) (m_globals s)
      (match m_frames s with FLoop lv d :: r => FLoop (lv_set lv kk x) d :: r | fs => fs end)
      (m_stack s) (m_unnamed s) (m_world s).

Lemma sim_with_lv ss s kk x n : sim ss s -> sim ss (with_lv s kk x n).
Proof.
  intros H. destruct H as [Hr Hf Hg Hv Hst Hw Hu Hdf]. constructor; cbn [with_lv m_regs m_globals m_frames m_world m_unnamed]; try assumption;
  destruct (m_frames s) as [|[p b r|lv d] t]; assumption.
Qed.

Lemma pop_lv_step im s kk v k lv d rr : fetch im (m_pc s) = Some (I1 OC_POP (PLoopVar kk)) -> m_stack s = v :: k -> m_frames s = FLoop lv d :: rr ->
  esteps 1 im s = Some (with_lv (with_stack s k) kk v 1, []).
Proof.
  intros Hf Hs Hfr. apply (estep1 im s _ _ _ Hf). cbn [Machine.exec i_op i_p0 I1]. unfold pop1. rewrite Hs. cbn [bind put_dest].
  change (m_frames (with_stack s k)) with (m_frames s). rewrite Hfr. cbn [put_loopvar bind lift]. f_equal.
  unfold with_lv, advance, with_pc, with_frames, with_vars, with_stack. cbn [m_pc m_regs m_globals m_frames m_stack m_unnamed m_world]. rewrite Hfr. reflexivity.
Qed.

Lemma moveq_lv_step im s kk z lv d rr : fetch im (m_pc s) = Some (I2 OC_MOVEQ (PInt z) (PLoopVar kk)) -> m_frames s = FLoop lv d :: rr ->
  esteps 1 im s = Some (with_lv s kk (VInt z) 1, []).
Proof.
  intros Hf Hfr. apply (estep1 im s _ _ _ Hf). cbn [Machine.exec i_op i_p0 i_p1 I2 param_value put_dest]. rewrite Hfr. cbn [put_loopvar bind lift]. f_equal.
  unfold with_lv, advance, with_pc, with_frames, with_vars. cbn [m_pc m_regs m_globals m_frames m_stack m_unnamed m_world]. rewrite Hfr. reflexivity.
Qed.

(* the same state at another program counter and with another stack: the shape of every state inside such a group *)
Definition at_pc (s : mstate) (st : list value) (pc : Z) : mstate :=
  mkM pc (m_regs s) (m_globals s) (m_frames s) st (m_unnamed s) (m_world s).

Lemma operand_at_pc s st pc p : register_eqb (match p with PReg rg => rg | _ => R_RESULT end) R_PC = false -> operand (at_pc s st pc) p = operand s p.
Proof. destruct p; reflexivity. Qed.

Lemma push_at im s st pc p a : fetch im pc = Some (push_of p) -> operand s p = Some a -> a <> VNone ->
  esteps 1 im (at_pc s st pc) = Some (at_pc s (a :: st) (pc + 1), []).
Proof.
  intros Hf Ho Hn. assert (Ho' : operand (at_pc s st pc) p = Some a) by (destruct p; exact Ho).
  exact (push_step im (at_pc s st pc) p a Hf Ho' Hn).
Qed.

Lemma binop_at im s st pc op a b r : fetch im pc = Some (I1 OC_OP (POperator op)) -> is_unary op = false -> eval_binop op a b = Ok r ->
  esteps 1 im (at_pc s (b :: a :: st) pc) = Some (at_pc s (r :: st) (pc + 1), []).
Proof. intros Hf Hu He. exact (binop_step im (at_pc s (b :: a :: st) pc) op a b st r Hf Hu eq_refl He). Qed.

Lemma pop_lv_at im s st pc kk v lv d rr : fetch im pc = Some (I1 OC_POP (PLoopVar kk)) -> m_frames s = FLoop lv d :: rr ->
  esteps 1 im (at_pc s (v :: st) pc) = Some (with_lv (at_pc s st pc) kk v 1, []).
Proof. intros Hf Hfr. exact (pop_lv_step im (at_pc s (v :: st) pc) kk v st lv d rr Hf eq_refl Hfr). Qed.

(* push p1; push p2; OP op; POP loop variable *)
Lemma lv_group im s p1 p2 op kk a b r lv d rr :
  code_at im (m_pc s) [push_of p1; push_of p2; I1 OC_OP (POperator op); I1 OC_POP (PLoopVar kk)] ->
  is_unary op = false -> m_frames s = FLoop lv d :: rr ->
  operand s p1 = Some a -> a <> VNone -> operand s p2 = Some b -> b <> VNone -> eval_binop op a b = Ok r ->
  esteps 4 im s = Some (with_lv s kk r 4, []).
Proof.
  intros Hc Hu Hfr Ha Hna Hb Hnb He. cbn [code_at] in Hc. destruct Hc as [Hf1 [Hf2 [Hf3 [Hf4 _]]]].
  set (s1 := advance (with_stack s (a :: m_stack s))).
  pose proof (push_step im s p1 a Hf1 Ha Hna) as E1. fold s1 in E1.
  assert (Hb1 : operand s1 p2 = Some b) by (destruct p2; exact Hb).
  set (s2 := advance (with_stack s1 (b :: m_stack s1))).
  pose proof (push_step im s1 p2 b Hf2 Hb1 Hnb) as E2. fold s2 in E2.
  set (s3 := advance (with_stack s2 (r :: m_stack s))).
  assert (Hf3' : fetch im (m_pc s2) = Some (I1 OC_OP (POperator op))) by exact Hf3.
  pose proof (binop_step im s2 op a b (m_stack s) r Hf3' Hu eq_refl He) as E3. fold s3 in E3.
  assert (Hf4' : fetch im (m_pc s3) = Some (I1 OC_POP (PLoopVar kk))) by exact Hf4.
  pose proof (pop_lv_step im s3 kk r (m_stack s) lv d rr Hf4' eq_refl Hfr) as E4.
  change 4%nat with (1 + (1 + (1 + 1)))%nat. replace (@nil event) with (@nil event ++ (@nil event ++ (@nil event ++ @nil event))) by reflexivity.
  eapply esteps_app; [exact E1|]. eapply esteps_app; [exact E2|]. eapply esteps_app; [exact E3|].
  rewrite E4. f_equal. f_equal. unfold with_lv, s3, s2, s1, advance, with_pc, with_stack. cbn [m_pc m_regs m_globals m_frames m_stack m_unnamed m_world]. rewrite Hfr. f_equal. lia.
Qed.

(* push p1; push p2; OP op; POP RESULT *)
Lemma test_group im s p1 p2 op a b r :
  code_at im (m_pc s) (test_op op p1 p2) -> is_unary op = false ->
  operand s p1 = Some a -> a <> VNone -> operand s p2 = Some b -> b <> VNone -> eval_binop op a b = Ok r ->
  esteps 4 im s = Some (put_vm s (DReg R_RESULT) r 4, []).
Proof.
  intros Hc Hu Ha Hna Hb Hnb He. unfold test_op in Hc. cbn [code_at] in Hc. destruct Hc as [Hf1 [Hf2 [Hf3 [Hf4 _]]]].
  set (s1 := advance (with_stack s (a :: m_stack s))).
  pose proof (push_step im s p1 a Hf1 Ha Hna) as E1. fold s1 in E1.
  assert (Hb1 : operand s1 p2 = Some b) by (destruct p2; exact Hb).
  set (s2 := advance (with_stack s1 (b :: m_stack s1))).
  pose proof (push_step im s1 p2 b Hf2 Hb1 Hnb) as E2. fold s2 in E2.
  set (s3 := advance (with_stack s2 (r :: m_stack s))).
  assert (Hf3' : fetch im (m_pc s2) = Some (I1 OC_OP (POperator op))) by exact Hf3.
  pose proof (binop_step im s2 op a b (m_stack s) r Hf3' Hu eq_refl He) as E3. fold s3 in E3.
  assert (E4 : esteps 1 im s3 = Some (put_vm s (DReg R_RESULT) r 4, [])).
  { assert (Hf4' : fetch im (m_pc s3) = Some (I1 OC_POP (PReg R_RESULT))) by exact Hf4.
    apply (estep1 im s3 _ _ _ Hf4'). cbn [Machine.exec i_op i_p0 I1]. unfold pop1. cbn [s3 advance with_pc with_stack m_stack bind put_dest set_reg lift].
    f_equal. unfold put_vm, advance, with_pc, with_regs, with_stack, s2, s1. cbn. f_equal. lia. }
  change 4%nat with (1 + (1 + (1 + 1)))%nat. replace (@nil event) with (@nil event ++ (@nil event ++ (@nil event ++ @nil event))) by reflexivity.
  eapply esteps_app; [exact E1|]. eapply esteps_app; [exact E2|]. eapply esteps_app; [exact E3|exact E4].
Qed.

(* push variable; push p2; OP op; POP variable *)
Lemma var_group im s x p2 op a b r :
  code_at im (m_pc s) (op_equals op (PStr x) p2) -> is_unary op = false ->
  operand s (PStr x) = Some a -> a <> VNone -> operand s p2 = Some b -> b <> VNone -> eval_binop op a b = Ok r ->
  esteps 4 im s = Some (put_vm s (DVar x) r 4, []).
Proof.
  intros Hc Hu Ha Hna Hb Hnb He. unfold op_equals in Hc. cbn [code_at] in Hc. destruct Hc as [Hf1 [Hf2 [Hf3 [Hf4 _]]]].
  set (s1 := advance (with_stack s (a :: m_stack s))).
  pose proof (push_step im s (PStr x) a Hf1 Ha Hna) as E1. fold s1 in E1.
  assert (Hb1 : operand s1 p2 = Some b) by (destruct p2; exact Hb).
  set (s2 := advance (with_stack s1 (b :: m_stack s1))).
  pose proof (push_step im s1 p2 b Hf2 Hb1 Hnb) as E2. fold s2 in E2.
  set (s3 := advance (with_stack s2 (r :: m_stack s))).
  assert (Hf3' : fetch im (m_pc s2) = Some (I1 OC_OP (POperator op))) by exact Hf3.
  pose proof (binop_step im s2 op a b (m_stack s) r Hf3' Hu eq_refl He) as E3. fold s3 in E3.
  assert (E4 : esteps 1 im s3 = Some (put_vm s (DVar x) r 4, [])).
  { assert (Hf4' : fetch im (m_pc s3) = Some (I1 OC_POP (PStr x))) by exact Hf4.
    apply (estep1 im s3 _ _ _ Hf4'). cbn [Machine.exec i_op i_p0 I1]. unfold pop1. cbn [s3 advance with_pc with_stack m_stack bind].
    rewrite put_dest_var. cbn [bind lift]. f_equal.
    change (m_globals (with_stack s3 (m_stack s))) with (m_globals s). change (m_frames (with_stack s3 (m_stack s))) with (m_frames s).
    cbn [put_vm]. destruct (put_var (m_globals s) (m_frames s) x r) as [g fs].
    unfold advance, with_pc, with_vars, with_stack, s3, s2, s1. cbn. f_equal. lia. }
  change 4%nat with (1 + (1 + (1 + 1)))%nat. replace (@nil event) with (@nil event ++ (@nil event ++ (@nil event ++ @nil event))) by reflexivity.
  eapply esteps_app; [exact E1|]. eapply esteps_app; [exact E2|]. eapply esteps_app; [exact E3|exact E4].
Qed.
