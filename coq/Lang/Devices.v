(* What a device command does: the events that reach the lights (after the clamps of
   param_helper / the light wrappers), given the registers and the population.
   This is the meaning of set / on / off / get shared by the reference semantics
   (Sem.v) and the machine model (Machine.v): a group or location action is the same
   action on each member in name order. *)
From Coq Require Import ZArith String List Bool PrimFloat.
From Bardolph Require Import Base.PyFloat Gen.Codes Time.TimeSpec Time.TimeCore
  Lang.Value Lang.Units0 Lang.World Lang.Regs.
Open Scope string_scope.
Open Scope list_scope.
Import ListNotations.
Open Scope Z_scope.
Open Scope bool_scope.

(* colour and duration as transmitted: converted to raw units, then clamped and rounded *)
Definition rf_raw_color (rf : regfile) : res (list value) :=
  do m <- rf_unit_mode rf; do c <- rf_get_color rf; as_raw_color m c.
Definition rf_raw_duration (rf : regfile) : res value :=
  do m <- rf_unit_mode rf; as_raw_time m (rreg rf R_DURATION).
Definition sent_color (rf : regfile) : res (list Z) := do rc <- rf_raw_color rf; param_color rc.
Definition sent_duration (rf : regfile) : res Z := do d <- rf_raw_duration rf; param_32 d.

Definition as_name (v : value) : option string := match v with VStr n => Some n | _ => None end.

Record dev := mkDev { d_regs : regfile; d_world : world; d_events : list event }.
Definition dres := res dev.

(* light.set_color on each named light, in the order given *)
Fixpoint color_each (names : list string) (c : list Z) (d : Z) (w : world) : list event * world :=
  match names with
  | [] => ([], w)
  | n :: r =>
      match find_light w n with
      | Some _ => let '(evs, w') := color_each r c d (set_light_color n c w) in (EvColor n c d :: evs, w')
      | None => color_each r c d w
      end
  end.

Definition do_color_names (rf : regfile) (w : world) (names : list string) : dres :=
  do c <- sent_color rf; do d <- sent_duration rf;
  let '(evs, w') := color_each names c d w in Ok (mkDev rf w' evs).

Definition do_color_all (rf : regfile) (w : world) : dres :=
  do c <- sent_color rf; do d <- sent_duration rf;
  Ok (mkDev rf (set_all_colors c w) [EvAllColor c d]).

(* `set default`: the default register always holds raw values *)
Definition do_color_default (rf : regfile) (w : world) : dres :=
  do rc <- rf_raw_color rf; Ok (mkDev (rf_set rf R_DEFAULT (VList rc)) w []).

Definition do_color_light (rf : regfile) (w : world) (name : value) : dres :=
  match as_name name with
  | Some n => match find_light w n with
              | Some _ => do_color_names rf w [n]
              | None => Ok (mkDev rf w [])          (* unknown light: logged, nothing sent *)
              end
  | None => Ok (mkDev rf w [])
  end.

Definition set_members (k : operand) (w : world) (name : value) : option (list string) :=
  match as_name name with
  | Some n => match k with
              | OD_GROUP => group_lights w n
              | OD_LOCATION => location_lights w n
              | _ => None
              end
  | None => None
  end.

Definition do_color_set (k : operand) (rf : regfile) (w : world) (name : value) : dres :=
  match set_members k w name with
  | Some names => do_color_names rf w names
  | None => Ok (mkDev rf w [])
  end.

(* set L zone a [b]: zones [a, (b or a) + 1) *)
Definition do_color_zone (rf : regfile) (w : world) (name first last : value) : dres :=
  match as_name name with
  | Some n =>
      match find_light w n with
      | Some l =>
          match l_kind l with
          | KMulti _ =>
              let last' := match last with VNone => first | v => v end in
              do e <- eval_binop OP_ADD last' (VInt 1);
              do rc <- rf_raw_color rf; do rd <- rf_raw_duration rf;
              do a <- param_16 first; do b <- param_16 e;
              do c <- param_color rc; do d <- param_32 rd;
              Ok (mkDev rf w [EvZone n a b c d])
          | _ => Ok (mkDev rf w [])                  (* not multi-zone: logged *)
          end
      | None => Ok (mkDev rf w [])
      end
  | None => Ok (mkDev rf w [])
  end.

(* ---------- power ---------- *)
Definition power_sent (rf : regfile) : Z := param_bool (if truthy (rreg rf R_POWER) then VInt 65535 else VInt 0).

Fixpoint power_each (names : list string) (p d : Z) (w : world) : list event :=
  match names with
  | [] => []
  | n :: r => match find_light w n with Some _ => EvPower n p d :: power_each r p d w | None => power_each r p d w end
  end.

Definition do_power_all (rf : regfile) (w : world) : dres :=
  do d <- sent_duration rf; Ok (mkDev rf w [EvAllPower (power_sent rf) d]).
Definition do_power_light (rf : regfile) (w : world) (name : value) : dres :=
  match as_name name with
  | Some n => match find_light w n with
              | Some _ => do d <- sent_duration rf; Ok (mkDev rf w [EvPower n (power_sent rf) d])
              | None => Ok (mkDev rf w [])
              end
  | None => Ok (mkDev rf w [])
  end.
Definition do_power_set (k : operand) (rf : regfile) (w : world) (name : value) : dres :=
  match set_members k w name with
  | Some names => do d <- sent_duration rf; Ok (mkDev rf w (power_each names (power_sent rf) d w))
  | None => Ok (mkDev rf w [])
  end.

(* ---------- get ---------- *)
Definition do_get (rf : regfile) (w : world) (name : value) : dres :=
  match as_name name with
  | Some n =>
      match find_light w n with
      | Some l =>
          match l_kind l with
          | KPlain =>
              match (do m <- rf_unit_mode rf;
                     do c <- assure_units m (map VInt (l_color l));
                     rf_store_color rf c) with
              | Ok rf' => Ok (mkDev rf' w [EvGet n])
              | Err e => Err e
              end
          | _ => Ok (mkDev rf w [])                  (* multi-colour light: logged *)
          end
      | None => Ok (mkDev rf w [])
      end
  | None => Ok (mkDev rf w [])
  end.

(* ---------- matrix staging: color_matrix.py as used by the matrix handlers of machine.py ---------- *)
(* a row/column register: None, or round(value) *)
Definition index_of (v : value) : res (option Z) :=
  match v with
  | VNone => Ok None
  | _ => do n <- as_num v; do z <- num_round n; Ok (Some z)
  end.

(* ColorMatrix._normalize_rect on one axis *)
Definition normalize_axis (a b : option Z) (extent : Z) : Z * Z :=
  match a, b with
  | None, None => (0, extent - 1)
  | None, Some y => (y, y)
  | Some x, None => (x, x)
  | Some x, Some y => (x, y)
  end.

(* Python list index: negative indices wrap once, anything else out of range raises IndexError *)
Definition py_idx (i n : Z) : option Z :=
  if (0 <=? i) && (i <? n) then Some i
  else if (i <? 0) && (- n <=? i) then Some (n + i) else None.

Fixpoint zseq (start : Z) (n : nat) : list Z :=
  match n with O => [] | S k => start :: zseq (start + 1) k end.
Definition zrange' (a b : Z) : list Z := zseq a (Z.to_nat (b - a)).   (* range(a, b) *)

Fixpoint list_set {A} (l : list A) (i : nat) (x : A) : list A :=
  match l, i with
  | [], _ => []
  | _ :: r, O => x :: r
  | y :: r, S k => y :: list_set r k x
  end.

(* overlay_color: every cell of the (normalised) rectangle takes the colour *)
Definition overlay (h w : Z) (cells : list (option (list value))) (top bottom lft rgt : Z) (c : list value)
  : res (list (option (list value))) :=
  fold_left (fun acc row =>
    fold_left (fun acc col =>
      do cs <- acc;
      match py_idx row h, py_idx col w with
      | Some r, Some cidx => Ok (list_set cs (Z.to_nat (r * w + cidx)) (Some c))
      | _, _ => Err EIndex
      end) (zrange' lft (rgt + 1)) acc) (zrange' top (bottom + 1)) (Ok cells).

(* MATRIX: a fresh matrix of the light's size, every cell unset *)
Definition do_matrix_begin (rf : regfile) (w : world) (name : value) : regfile :=
  let '(h, wd) := match as_name name with
                  | Some n => match find_light w n with
                              | Some l => match l_kind l with KMatrix h wd => (h, wd) | _ => (255, 255) end
                              | None => (255, 255)
                              end
                  | None => (255, 255)
                  end in
  rf_set rf R_MATRIX (VMatrix h wd (repeat None (Z.to_nat (h * wd)))).

(* stage rows cols: COLOR with the MATRIX operand *)
Definition do_stage (rf : regfile) (r1 r2 c1 c2 : value) : res regfile :=
  do c <- rf_get_color rf;
  match rreg rf R_MATRIX with
  | VMatrix h w cells =>
      do a1 <- index_of r1; do a2 <- index_of r2; do b1 <- index_of c1; do b2 <- index_of c2;
      let '(top, bottom) := normalize_axis a1 a2 h in
      let '(lft, rgt) := normalize_axis b1 b2 w in
      do cells' <- overlay h w cells top bottom lft rgt c;
      Ok (rf_set rf R_MATRIX (VMatrix h w cells'))
  | VNone => Ok rf                                   (* "stage" outside a matrix block: logged and skipped *)
  | _ => Err (EInternal "matrix register holds no matrix")
  end.

(* COLOR with the MATRIX_LIGHT operand: the whole matrix is transmitted once *)
Definition do_matrix_light (rf : regfile) (w : world) (name : value) : dres :=
  match as_name name with
  | Some n =>
      match find_light w n with
      | Some l =>
          match l_kind l with
          | KMatrix _ _ =>
              match rreg rf R_MATRIX with
              | VMatrix h wd cells =>
                  do m <- rf_unit_mode rf;
                  do conv <- map_res (fun cell => match cell with
                                                  | None => Ok None
                                                  | Some c => do rc <- as_raw_color m c; Ok (Some rc)
                                                  end) cells;
                  let dflt := match rreg rf R_DEFAULT with
                              | VList (x :: r) => x :: r
                              | _ => [VInt 0; VInt 0; VInt 0; VInt 0]
                              end in
                  let filled := map (fun cell => match cell with None => dflt | Some c => c end) conv in
                  do d <- as_raw_time m (rreg rf R_DURATION);
                  do sent <- map_res standardize_raw filled;
                  let rf' := match m with
                             | UM_RAW => rf_set rf R_MATRIX (VMatrix h wd (map Some filled))
                             | _ => rf
                             end in
                  Ok (mkDev rf' w [EvMatrix n sent d])
              | _ => Err (EInternal "matrix command without a staged matrix")
              end
          | _ => Ok (mkDev rf w [])                  (* not a matrix light: logged *)
          end
      | None => Ok (mkDev rf w [])
      end
  | None => Ok (mkDev rf w [])
  end.
