(* The unit conversions and parameter clamps the VM applies to register values,
   over run-time values (Python ints and floats mixed as the registers hold them).
   Hand-written from controller/units.py and lib/param_helper.py; the translated,
   proved counterparts are Gen/UnitsGen.v / Gen/ParamGen.v (C07, C14).  RGB mode
   (colorsys) is left to those files: here it is Unsupported. *)
From Coq Require Import ZArith String List Bool PrimFloat.
From Bardolph Require Import Base.PyFloat Gen.Codes Lang.Value.
Open Scope string_scope.
Open Scope list_scope.
Import ListNotations.
Open Scope Z_scope.

Definition EPS : float := Eval vm_compute in (PrimFloat.div (PrimFloat.div 1 65536) 2).

Definition as_num (v : value) : res num :=
  match to_num v with Some n => Ok n | None => Err ETypeError end.

(* a < b on numbers (exact) *)
Definition nlt (a b : num) : res bool := num_cmp CLt a b.

(* round(x) for a number: ints unchanged *)
Definition num_round (n : num) : res Z :=
  match n with
  | NI z => Ok z
  | NF f => match py_round f with Some z => Ok z | None => Err EValue end
  end.

(* round(max(0, min(param, hi))) with Python's min/max argument-order semantics:
   min(a, b) = b if b < a else a ; max(a, b) = b if b > a else a *)
Definition param_n (hi : Z) (v : value) : res Z :=
  do p <- as_num v;
  do c1 <- nlt (NI hi) p;
  let m := if c1 then NI hi else p in
  do c2 <- nlt (NI 0) m;
  let x := if c2 then m else NI 0 in
  num_round x.

Definition param_16 := param_n 65535.
Definition param_32 := param_n 4294967295.
Definition param_bool (v : value) : Z := if truthy v then 1 else 0.

Fixpoint map_res {A B} (f : A -> res B) (l : list A) : res (list B) :=
  match l with
  | [] => Ok []
  | a :: r => do b <- f a; do bs <- map_res f r; Ok (b :: bs)
  end.

Definition param_color (c : list value) : res (list Z) := map_res param_16 c.

(* @noneable functions return None for a None argument *)
Definition fnum (v : value) : res float := do n <- as_num v; num_f n.

(* units.time_raw: logical_time * 1000.0 *)
Definition time_raw (v : value) : res value :=
  match v with
  | VNone => Ok VNone
  | _ => do f <- fnum v; Ok (VFlt (PrimFloat.mul f 1000))
  end.

(* units.time_logical *)
Definition time_logical (v : value) : res value :=
  match v with
  | VNone => Ok VNone
  | _ =>
    do f <- fnum v;
    if PrimFloat.ltb (PrimFloat.opp EPS) f && PrimFloat.ltb f EPS then Ok (VFlt 0)
    else Ok (VFlt (PrimFloat.div f 1000))
  end.

Definition near (v : value) (lo hi : float) : res bool :=
  do n <- as_num v;
  do a <- num_cmp CLt (NF lo) n;
  do b <- num_cmp CLt n (NF hi);
  Ok (a && b).

Definition pct_to_raw (v : value) : res value :=
  match v with VNone => Ok VNone | _ =>        (* @noneable *)
  do z <- near v (PrimFloat.opp EPS) EPS;
  if z then Ok (VFlt 0)
  else do f <- fnum v; Ok (VFlt (PrimFloat.mul (PrimFloat.div f 100) 65535))
  end.

(* units.logical_to_raw *)
Definition logical_to_raw (c : list value) : res (list value) :=
  match c with
  | [h; s; b; k] =>
      do z0 <- near h (PrimFloat.opp EPS) EPS;
      do z1 <- (if z0 then Ok true else near h (PrimFloat.sub 360 EPS) (PrimFloat.add 360 EPS));
      do h' <- (if z1 then Ok (VFlt 0)
                else do m <- eval_binop OP_MOD h (VFlt 360);
                     do f <- fnum m; Ok (VFlt (PrimFloat.mul (PrimFloat.div f 360) 65535)));
      do s' <- pct_to_raw s;
      do b' <- pct_to_raw b;
      Ok [h'; s'; b'; k]
  | _ => Err EValue
  end.

(* max(x, 0.0): 0.0 if 0.0 > x else x *)
Definition max0 (v : value) : res value :=
  do n <- as_num v;
  do c <- num_cmp CLt n (NF 0);
  Ok (if c then VFlt 0 else v).

(* units.raw_to_logical *)
Definition raw_to_logical (c : list value) : res (list value) :=
  match c with
  | [h; s; b; k] =>
      do fh <- fnum h;
      let h' := VFlt (PrimFloat.mul (PrimFloat.div fh 65535) 360) in
      let pct (v : value) : res value :=
        do n <- as_num v;
        do ge <- num_cmp CGe n (NF 65535);
        if ge then Ok (VFlt 100)
        else do f <- fnum v; Ok (VFlt (PrimFloat.mul (PrimFloat.div f 65535) 100)) in
      do s' <- pct s;
      do b' <- pct b;
      do h2 <- max0 h'; do s2 <- max0 s'; do b2 <- max0 b'; do k2 <- max0 k;
      Ok [h2; s2; b2; k2]
  | _ => Err EValue
  end.

(* Machine._as_raw_color / _as_raw_time / _assure_units by unit mode *)
Definition as_raw_color (m : unit_mode) (c : list value) : res (list value) :=
  match m with
  | UM_RAW => Ok c
  | UM_LOGICAL => logical_to_raw c
  | UM_RGB => Err (EUnsupported "rgb conversion (colorsys) is modelled in Gen/UnitsGen.v")
  end.

Definition as_raw_time (m : unit_mode) (v : value) : res value :=
  match m with
  | UM_RAW => Ok v
  | _ => time_raw v
  end.

Definition assure_units (m : unit_mode) (c : list value) : res (list value) :=
  match m with
  | UM_RAW => Ok c
  | UM_LOGICAL => raw_to_logical c
  | UM_RGB => Err (EUnsupported "rgb conversion (colorsys) is modelled in Gen/UnitsGen.v")
  end.

(* ColorMatrix._standardize_raw on one colour *)
Definition standardize_component (v : value) : res Z :=
  do n <- as_num v;
  do lo <- num_cmp CLt n (NF 0);
  if lo then Ok 0
  else do hi <- num_cmp CGt n (NF 65535);
       if hi then Ok 65535 else num_round n.
Definition standardize_raw (c : list value) : res (list Z) := map_res standardize_component c.
