(* The scanning loop of the light loops (`repeat all as x`, `repeat group as g`, `repeat location as l`): DISC; then, as long
   as the current name is not NULL, count it, push it and step to the previous name with DNEXT.  Lights are scanned from the
   last name to the first (DISC_FORWARD is false and no statement changes it -- [sim_disc]), so the names end up on the
   evaluation stack with the first name on top, and COUNTER holds how many there are.  For Lang/Simulation3.v. *)
From Coq Require Import ZArith String List Bool Lia Sorted.
From Bardolph Require Import Gen.Codes Lang.Value Lang.Instr Lang.Loader Lang.World Lang.Units0 Lang.Regs Lang.Devices
  Lang.Machine Lang.Syntax Lang.Sem Lang.CodeGen Lang.Scope Lang.Loops Lang.ExprCompile Lang.Simulation Lang.Simulation2 Lang.LoopVars Lang.RangeLoop.
Open Scope string_scope.
Open Scope list_scope.
Import ListNotations.
Open Scope Z_scope.

(* ---- the previous name in a sorted list ---- *)
Definition last_name (l : list string) : option string := last (map Some l) None.

Lemma last_name_app l c : last_name (l ++ [c]) = Some c.
Proof. unfold last_name. rewrite map_app. cbn [map]. induction (map Some l) as [|x t IH]; [reflexivity|]. cbn [app last]. destruct (t ++ [Some c]) eqn:E; [destruct t; discriminate|exact IH]. Qed.

Lemma last_name_cons a : forall z, exists w, last_name (z :: a) = Some w /\ last_name (z :: a) = match a with [] => Some z | _ => last_name a end.
Proof.
  induction a as [|y a IH]; intros z; [exists z; split; reflexivity|].
  destruct (IH y) as (w & Hw & _). exists w. split; [|reflexivity]. unfold last_name in *. cbn [map last] in *. exact Hw.
Qed.

Lemma sl_last_is_last_name l : sl_last l = last_name l.
Proof. reflexivity. Qed.

Lemma sl_prev_split a c b : StronglySorted str_lt (a ++ c :: b) -> sl_prev (a ++ c :: b) c = last_name a.
Proof.
  induction a as [|y a IH]; intros Hs.
  - cbn [app sl_prev]. rewrite str_ltb_irrefl. reflexivity.
  - cbn [app] in Hs |- *. inversion Hs as [|? ? Hs' Hall]; subst. cbn [sl_prev].
    assert (Hyc : str_ltb y c = true).
    { rewrite Forall_forall in Hall. apply Hall. apply in_or_app. right. left. reflexivity. }
    rewrite Hyc, (IH Hs'). destruct a as [|z a']; [reflexivity|].
    destruct (last_name_cons a' z) as (w & Hw & _). rewrite Hw. destruct (last_name_cons (z :: a') y) as (_ & _ & H2). rewrite H2, Hw. reflexivity.
Qed.

(* ---- the states of the scan: everything of s0 but the program counter, the registers, the loop variables and the stack ---- *)
Definition mk (s0 : mstate) (pc : Z) (rf : regfile) (lv : lvenv) (d : Z) (r : frames) (stk : list value) : mstate :=
  mkM pc rf (m_globals s0) (FLoop lv d :: r) stk (m_unnamed s0) (m_world s0).

(* registers that differ only in scratch registers (RESULT, OPERAND) *)
Definition scratch (r : register) : bool := match r with R_RESULT | R_OPERAND => true | _ => false end.
Definition same_but_scratch (rf rf0 : regfile) : Prop := forall r, scratch r = false -> rf_get rf r = rf_get rf0 r.
Lemma sbs_refl rf : same_but_scratch rf rf.
Proof. intros r _. reflexivity. Qed.
Lemma sbs_set rf rf0 r v : same_but_scratch rf rf0 -> scratch r = true -> same_but_scratch (rf_set rf r v) rf0.
Proof.
  intros H Hr r' Hr'. rewrite rf_get_set_other; [exact (H r' Hr')|]. destruct r, r'; try reflexivity; discriminate.
Qed.

Lemma sim_mk ss s0 pc rf lv lv0 d r stk : sim ss s0 -> m_frames s0 = FLoop lv0 d :: r -> same_but_scratch rf (m_regs s0) ->
  sim ss (mk s0 pc rf lv d r stk).
Proof.
  intros [Hr Hf Hg Hv Hst Hw Hu Hdf] Hfr Hsb. rewrite Hfr in Hv, Hst. constructor; cbn [mk m_regs m_globals m_frames m_world m_unnamed vars_of settled]; try assumption.
  - intros x Hx. rewrite (Hsb x); [exact (Hr x Hx)|]. destruct x; try reflexivity; discriminate.
  - rewrite (Hsb R_DISC_FORWARD eq_refl). exact Hdf.
Qed.

Section Steps.
Variable im : image.
Variable s0 : mstate.
Variable d : Z.
Variable r : frames.

Lemma st_moveq_reg pc rf lv stk p rg v : fetch im pc = Some (I2 OC_MOVEQ p (PReg rg)) -> param_value p = Some v -> scratch rg = true ->
  esteps 1 im (mk s0 pc rf lv d r stk) = Some (mk s0 (pc + 1) (rf_set rf rg v) lv d r stk, []).
Proof.
  intros Hf Hp Hs. apply (estep1 im (mk s0 pc rf lv d r stk) _ _ _ Hf). cbn [Machine.exec i_op i_p0 i_p1 I2]. rewrite Hp.
  destruct rg; try discriminate; reflexivity.
Qed.

Lemma st_move_result_lv pc rf lv stk kk v : fetch im pc = Some (I2 OC_MOVE (PReg R_RESULT) (PLoopVar kk)) -> rf_get rf R_RESULT = Some v ->
  esteps 1 im (mk s0 pc rf lv d r stk) = Some (mk s0 (pc + 1) rf (lv_set lv kk v) d r stk, []).
Proof.
  intros Hf Hr. apply (estep1 im (mk s0 pc rf lv d r stk) _ _ _ Hf). cbn [Machine.exec i_op i_p0 i_p1 I2]. unfold get_reg. cbn [mk m_regs]. rewrite Hr. reflexivity.
Qed.

Lemma st_disc pc rf lv stk o l : fetch im pc = Some (I0 OC_DISC) -> rf_get rf R_OPERAND = Some (VOperand o) -> rf_get rf R_DISC_FORWARD = Some (VBool false) ->
  match o with OD_LIGHT => light_names (m_world s0) | OD_GROUP => group_names (m_world s0) | OD_LOCATION => location_names (m_world s0) | _ => [] end = l ->
  match o with OD_LIGHT | OD_GROUP | OD_LOCATION => True | _ => False end ->
  esteps 1 im (mk s0 pc rf lv d r stk) =
  Some (mk s0 (pc + 1) (rf_set rf R_RESULT (match last_name l with Some n => VStr n | None => VOperand OD_NULL end)) lv d r stk, []).
Proof.
  intros Hf Ho Hd Hl Hok. apply (estep1 im (mk s0 pc rf lv d r stk) _ _ _ Hf). cbn [Machine.exec i_op I0].
  unfold names_by_oper, disc_fwd, reg, get_reg. cbn [mk m_regs m_world]. rewrite Ho, Hd. cbn [truthy].
  destruct o; try contradiction; rewrite Hl; reflexivity.
Qed.

Lemma st_dnext pc rf lv stk o l c : fetch im pc = Some (I1 OC_DNEXT (PLoopVar LV_CURRENT)) ->
  rf_get rf R_OPERAND = Some (VOperand o) -> rf_get rf R_DISC_FORWARD = Some (VBool false) -> lv_get lv LV_CURRENT = Some (VStr c) ->
  match o with OD_LIGHT => light_names (m_world s0) | OD_GROUP => group_names (m_world s0) | OD_LOCATION => location_names (m_world s0) | _ => [] end = l ->
  match o with OD_LIGHT | OD_GROUP | OD_LOCATION => True | _ => False end ->
  esteps 1 im (mk s0 pc rf lv d r stk) = Some (mk s0 (pc + 1) (rf_set rf R_RESULT (or_null (sl_prev l c))) lv d r stk, []).
Proof.
  intros Hf Ho Hd Hc Hl Hok. apply (estep1 im (mk s0 pc rf lv d r stk) _ _ _ Hf). cbn [Machine.exec i_op i_p0 I1].
  unfold names_by_oper, disc_fwd, reg, get_reg. cbn [mk m_regs m_world m_frames param_to_value get_loopvar]. rewrite Ho, Hd, Hc. cbn [truthy].
  destruct o; try contradiction; rewrite Hl; reflexivity.
Qed.

Lemma st_discm pc rf lv stk o nm : fetch im pc = Some (I1 OC_DISCM (PLoopVar LV_FIRST)) -> rf_get rf R_OPERAND = Some (VOperand o) ->
  rf_get rf R_DISC_FORWARD = Some (VBool false) -> lv_get lv LV_FIRST = Some nm -> (o = OD_GROUP \/ o = OD_LOCATION) ->
  esteps 1 im (mk s0 pc rf lv d r stk) =
  Some (mk s0 (pc + 1) (rf_set rf R_RESULT (match set_members o (m_world s0) nm with Some l => or_null (last_name l) | None => VOperand OD_NULL end)) lv d r stk, []).
Proof.
  intros Hf Ho Hd Hn Hok. apply (estep1 im (mk s0 pc rf lv d r stk) _ _ _ Hf). cbn [Machine.exec i_op i_p0 I1].
  unfold set_by_oper, disc_fwd, reg, get_reg. cbn [mk m_regs m_world m_frames param_to_value get_loopvar bind]. rewrite Hn, Ho, Hd. cbn [truthy bind lift].
  unfold set_members, as_name. destruct nm; destruct Hok as [-> | ->]; reflexivity.
Qed.

Lemma st_dnextm pc rf lv stk o nm l c : fetch im pc = Some (I2 OC_DNEXTM (PLoopVar LV_FIRST) (PLoopVar LV_CURRENT)) ->
  rf_get rf R_OPERAND = Some (VOperand o) -> rf_get rf R_DISC_FORWARD = Some (VBool false) ->
  lv_get lv LV_CURRENT = Some (VStr c) -> lv_get lv LV_FIRST = Some nm -> set_members o (m_world s0) nm = Some l -> (o = OD_GROUP \/ o = OD_LOCATION) ->
  esteps 1 im (mk s0 pc rf lv d r stk) = Some (mk s0 (pc + 1) (rf_set rf R_RESULT (or_null (sl_prev l c))) lv d r stk, []).
Proof.
  intros Hf Ho Hd Hc Hn Hl Hok. apply (estep1 im (mk s0 pc rf lv d r stk) _ _ _ Hf). cbn [Machine.exec i_op i_p0 i_p1 I2].
  unfold set_by_oper, disc_fwd, reg, get_reg. cbn [mk m_regs m_world m_frames param_to_value get_loopvar bind]. rewrite Hn, Hc, Ho, Hd. cbn [truthy bind lift].
  unfold set_members, as_name in Hl. destruct nm; try discriminate. destruct Hok as [-> | ->]; rewrite Hl; reflexivity.
Qed.

End Steps.

Lemma last_name_in t n : last_name t = Some n -> In n t.
Proof.
  induction t as [|y t IH]; [discriminate|]. intros H. destruct (last_name_cons t y) as (_ & _ & H2). rewrite H2 in H.
  destruct t as [|z t']; [injection H as <-; left; reflexivity|right; apply IH; exact H].
Qed.

Definition name_or_null (o : option string) : value := match o with Some n => VStr n | None => VOperand OD_NULL end.
Definition names_of (o : Codes.operand) (w : world) : list string :=
  match o with OD_LIGHT => light_names w | OD_GROUP => group_names w | OD_LOCATION => location_names w | _ => [] end.
Definition scannable (o : Codes.operand) : Prop := match o with OD_LIGHT | OD_GROUP | OD_LOCATION => True | _ => False end.

Section Scan.
Variable im : image.
Variable ss : sstate.
Variable s0 : mstate.
Variable lv0 : lvenv.
Variable d : Z.
Variable r : frames.
Variable o : Codes.operand.
Variable test_src : param.
Variable l : list string.
Variable base : list value.
Variable P : Z.
Variable inext : instr.
Hypothesis Hsim0 : sim ss s0.
Hypothesis Hfr0 : m_frames s0 = FLoop lv0 d :: r.
Hypothesis Hsorted : StronglySorted str_lt l.
(* the step to the name before the current one: DNEXT for all lights / groups / locations, DNEXTM for the members of a set *)
Hypothesis Hnext : forall pc rf lv stk c, fetch im pc = Some inext ->
  rf_get rf R_OPERAND = Some (VOperand o) -> rf_get rf R_DISC_FORWARD = Some (VBool false) ->
  lv_get lv LV_CURRENT = Some (VStr c) -> lv_get lv LV_FIRST = lv_get lv0 LV_FIRST -> In c l ->
  esteps 1 im (mk s0 pc rf lv d r stk) = Some (mk s0 (pc + 1) (rf_set rf R_RESULT (or_null (sl_prev l c))) lv d r stk, []).
Hypothesis Htest : test_src = PLoopVar LV_CURRENT \/ test_src = PReg R_RESULT.
Hypothesis Hf0 : fetch im P = Some (I2 OC_MOVE (PReg R_RESULT) (PLoopVar LV_CURRENT)).
Hypothesis Hc1 : code_at im (P + 1) (test_op OP_NOTEQ test_src (POperand OD_NULL)).
Hypothesis Hf5 : fetch im (P + 5) = Some (jump JC_IF_FALSE (7 + 2)).
Hypothesis Hc6 : code_at im (P + 6) (op_equals OP_ADD (PLoopVar LV_COUNTER) (PInt 1)).
Hypothesis Hf10 : fetch im (P + 10) = Some (I1 OC_PUSH (PLoopVar LV_CURRENT)).
Hypothesis Hf11 : fetch im (P + 11) = Some (I2 OC_MOVEQ (POperand o) (PReg R_OPERAND)).
Hypothesis Hf12 : fetch im (P + 12) = Some inext.
Hypothesis Hf13 : fetch im (P + 13) = Some (jump JC_ALWAYS (- (5 + 1 + 7))).

Lemma disc_of rf : same_but_scratch rf (m_regs s0) -> rf_get rf R_DISC_FORWARD = Some (VBool false).
Proof. intros H. rewrite (H R_DISC_FORWARD eq_refl). exact (sim_disc _ _ Hsim0). Qed.

Lemma scan_loop : forall todo done rf lv k,
  l = todo ++ done -> same_but_scratch rf (m_regs s0) -> rf_get rf R_RESULT = Some (name_or_null (last_name todo)) ->
  lv_get lv LV_COUNTER = Some (VInt k) -> lv_get lv LV_FIRST = lv_get lv0 LV_FIRST ->
  exists n rf' lv', esteps n im (mk s0 P rf lv d r (map VStr done ++ base)) = Some (mk s0 (P + 14) rf' lv' d r (map VStr l ++ base), []) /\
                    same_but_scratch rf' (m_regs s0) /\ lv_get lv' LV_COUNTER = Some (VInt (k + Z.of_nat (length todo))) /\
                    lv_get lv' LV_INCR = lv_get lv LV_INCR /\ lv_get lv' LV_FIRST = lv_get lv0 LV_FIRST.
Proof.
  induction todo as [|c t IH] using rev_ind; intros done rf lv k Hl Hsb Hres HlC HlF.
  - (* nothing left: the test fails, the scan is over *)
    cbn [app] in Hl. subst done. cbn [last_name map last name_or_null] in Hres.
    pose proof (st_move_result_lv im s0 d r P rf lv (map VStr l ++ base) LV_CURRENT _ Hf0 Hres) as E0.
    set (lv1 := lv_set lv LV_CURRENT (VOperand OD_NULL)) in *.
    set (S1 := mk s0 (P + 1) rf lv1 d r (map VStr l ++ base)) in *.
    assert (E1 : esteps 4 im S1 = Some (put_vm S1 (DReg R_RESULT) (VBool false) 4, [])).
    { apply (test_group im S1 test_src (POperand OD_NULL) OP_NOTEQ (VOperand OD_NULL) (VOperand OD_NULL) (VBool false)); try reflexivity; try discriminate.
      - exact Hc1.
      - destruct Htest as [-> | ->]; [cbn [operand S1 mk m_frames get_loopvar]; unfold lv1; rewrite lv_get_set; reflexivity|exact Hres]. }
    change (put_vm S1 (DReg R_RESULT) (VBool false) 4) with (mk s0 (P + 1 + 4) (rf_set rf R_RESULT (VBool false)) lv1 d r (map VStr l ++ base)) in E1.
    set (S2 := mk s0 (P + 1 + 4) (rf_set rf R_RESULT (VBool false)) lv1 d r (map VStr l ++ base)) in *.
    assert (Hf5' : fetch im (m_pc S2) = Some (jump JC_IF_FALSE (7 + 2))) by (cbn [S2 mk m_pc]; replace (P + 1 + 4) with (P + 5) by lia; exact Hf5).
    pose proof (jump_if_false im S2 (VBool false) (7 + 2) (rf_get_set_same _ _ _) Hf5') as Ej. cbn [truthy] in Ej.
    exists (1 + (4 + 1))%nat, (rf_set rf R_RESULT (VBool false)), lv1.
    split.
    { replace (@nil event) with (@nil event ++ (@nil event ++ @nil event)) by reflexivity.
      eapply esteps_app; [exact E0|eapply esteps_app; [exact E1|]]. rewrite Ej. f_equal. f_equal. unfold S2, mk, with_pc. cbn [m_pc m_regs m_globals m_frames m_stack m_unnamed m_world]. f_equal. lia. }
    split; [apply sbs_set; [exact Hsb|reflexivity]|].
    split; [unfold lv1; rewrite lv_get_set_other by reflexivity; rewrite HlC; f_equal; f_equal; cbn [length]; lia|].
    split; [unfold lv1; rewrite lv_get_set_other by reflexivity; reflexivity|].
    unfold lv1. rewrite lv_get_set_other by reflexivity. exact HlF.
  - (* the name c: count it, push it, step to the name before it *)
    rewrite <- app_assoc in Hl. cbn [app] in Hl. rewrite last_name_app in Hres. cbn [name_or_null] in Hres.
    pose proof (st_move_result_lv im s0 d r P rf lv (map VStr done ++ base) LV_CURRENT _ Hf0 Hres) as E0.
    set (lv1 := lv_set lv LV_CURRENT (VStr c)) in *.
    set (S1 := mk s0 (P + 1) rf lv1 d r (map VStr done ++ base)) in *.
    assert (E1 : esteps 4 im S1 = Some (put_vm S1 (DReg R_RESULT) (VBool true) 4, [])).
    { apply (test_group im S1 test_src (POperand OD_NULL) OP_NOTEQ (VStr c) (VOperand OD_NULL) (VBool true)); try reflexivity; try discriminate.
      - exact Hc1.
      - destruct Htest as [-> | ->]; [cbn [operand S1 mk m_frames get_loopvar]; unfold lv1; rewrite lv_get_set; reflexivity|exact Hres]. }
    change (put_vm S1 (DReg R_RESULT) (VBool true) 4) with (mk s0 (P + 1 + 4) (rf_set rf R_RESULT (VBool true)) lv1 d r (map VStr done ++ base)) in E1.
    set (rf1 := rf_set rf R_RESULT (VBool true)) in *.
    set (S2 := mk s0 (P + 1 + 4) rf1 lv1 d r (map VStr done ++ base)) in *.
    assert (Hf5' : fetch im (m_pc S2) = Some (jump JC_IF_FALSE (7 + 2))) by (cbn [S2 mk m_pc]; replace (P + 1 + 4) with (P + 5) by lia; exact Hf5).
    pose proof (jump_if_false im S2 (VBool true) (7 + 2) (rf_get_set_same _ _ _) Hf5') as Ej. cbn [truthy] in Ej.
    change (with_pc S2 (m_pc S2 + 1)) with (mk s0 (P + 1 + 4 + 1) rf1 lv1 d r (map VStr done ++ base)) in Ej.
    set (S3 := mk s0 (P + 1 + 4 + 1) rf1 lv1 d r (map VStr done ++ base)) in *.
    assert (HlC1 : lv_get lv1 LV_COUNTER = Some (VInt k)) by (unfold lv1; rewrite lv_get_set_other by reflexivity; exact HlC).
    assert (E2 : esteps 4 im S3 = Some (with_lv S3 LV_COUNTER (VInt (k + 1)) 4, [])).
    { apply (lv_group im S3 (PLoopVar LV_COUNTER) (PInt 1) OP_ADD LV_COUNTER (VInt k) (VInt 1) (VInt (k + 1)) lv1 d r); try reflexivity; try discriminate.
      - cbn [S3 mk m_pc]. replace (P + 1 + 4 + 1) with (P + 6) by lia. exact Hc6.
      - cbn [operand S3 mk m_frames get_loopvar]. rewrite HlC1. reflexivity. }
    set (lv2 := lv_set lv1 LV_COUNTER (VInt (k + 1))) in *.
    change (with_lv S3 LV_COUNTER (VInt (k + 1)) 4) with (mk s0 (P + 1 + 4 + 1 + 4) rf1 lv2 d r (map VStr done ++ base)) in E2.
    set (S4 := mk s0 (P + 1 + 4 + 1 + 4) rf1 lv2 d r (map VStr done ++ base)) in *.
    assert (HlCur2 : lv_get lv2 LV_CURRENT = Some (VStr c)) by (unfold lv2, lv1; rewrite lv_get_set_other by reflexivity; apply lv_get_set).
    assert (E3 : esteps 1 im S4 = Some (mk s0 (P + 1 + 4 + 1 + 4 + 1) rf1 lv2 d r (VStr c :: map VStr done ++ base), [])).
    { assert (Hf : fetch im (m_pc S4) = Some (push_of (PLoopVar LV_CURRENT))) by (cbn [S4 mk m_pc push_of]; replace (P + 1 + 4 + 1 + 4) with (P + 10) by lia; exact Hf10).
      assert (Ho : operand S4 (PLoopVar LV_CURRENT) = Some (VStr c)) by (cbn [operand S4 mk m_frames get_loopvar]; rewrite HlCur2; reflexivity).
      exact (push_step im S4 (PLoopVar LV_CURRENT) (VStr c) Hf Ho ltac:(discriminate)). }
    assert (Hf11' : fetch im (P + 1 + 4 + 1 + 4 + 1) = Some (I2 OC_MOVEQ (POperand o) (PReg R_OPERAND))) by (replace (P + 1 + 4 + 1 + 4 + 1) with (P + 11) by lia; exact Hf11).
    pose proof (st_moveq_reg im s0 d r _ rf1 lv2 (VStr c :: map VStr done ++ base) (POperand o) R_OPERAND (VOperand o) Hf11' eq_refl eq_refl) as E4.
    set (rf2 := rf_set rf1 R_OPERAND (VOperand o)) in *.
    assert (Hsb2 : same_but_scratch rf2 (m_regs s0)) by (apply sbs_set; [apply sbs_set; [exact Hsb|reflexivity]|reflexivity]).
    assert (Hf12' : fetch im (P + 1 + 4 + 1 + 4 + 1 + 1) = Some inext) by (replace (P + 1 + 4 + 1 + 4 + 1 + 1) with (P + 12) by lia; exact Hf12).
    assert (HlF2 : lv_get lv2 LV_FIRST = lv_get lv0 LV_FIRST) by (unfold lv2, lv1; rewrite !lv_get_set_other by reflexivity; exact HlF).
    assert (Hcl : In c l) by (rewrite Hl; apply in_or_app; right; left; reflexivity).
    pose proof (Hnext _ rf2 lv2 (VStr c :: map VStr done ++ base) c Hf12' (rf_get_set_same _ _ _) (disc_of rf2 Hsb2) HlCur2 HlF2 Hcl) as E5.
    assert (Hprev : or_null (sl_prev l c) = name_or_null (last_name t)).
    { rewrite Hl, (sl_prev_split t c done) by (rewrite <- Hl; exact Hsorted). destruct (last_name t); reflexivity. }
    rewrite Hprev in E5. set (rf3 := rf_set rf2 R_RESULT (name_or_null (last_name t))) in *.
    set (S7 := mk s0 (P + 1 + 4 + 1 + 4 + 1 + 1 + 1) rf3 lv2 d r (VStr c :: map VStr done ++ base)) in *.
    assert (Hf13' : fetch im (m_pc S7) = Some (jump JC_ALWAYS (- (5 + 1 + 7)))) by (cbn [S7 mk m_pc]; replace (P + 1 + 4 + 1 + 4 + 1 + 1 + 1) with (P + 13) by lia; exact Hf13).
    pose proof (jump_always im S7 _ Hf13') as E6.
    assert (Hback : with_pc S7 (m_pc S7 + - (5 + 1 + 7)) = mk s0 P rf3 lv2 d r (map VStr (c :: done) ++ base)).
    { unfold S7, mk, with_pc. cbn [m_pc m_regs m_globals m_frames m_stack m_unnamed m_world map app]. f_equal. lia. }
    rewrite Hback in E6.
    destruct (IH (c :: done) rf3 lv2 (k + 1) Hl (sbs_set rf2 (m_regs s0) R_RESULT _ Hsb2 eq_refl) (rf_get_set_same _ _ _) (lv_get_set _ _ _) HlF2) as (n & rf' & lv' & En & Hsb' & HlC' & HlI' & HlF').
    exists (1 + (4 + (1 + (4 + (1 + (1 + (1 + (1 + n))))))))%nat, rf', lv'.
    split.
    { replace (@nil event) with (@nil event ++ (@nil event ++ (@nil event ++ (@nil event ++ (@nil event ++ (@nil event ++ (@nil event ++ (@nil event ++ @nil event)))))))) by reflexivity.
      eapply esteps_app; [exact E0|eapply esteps_app; [exact E1|eapply esteps_app; [exact Ej|eapply esteps_app; [exact E2|eapply esteps_app; [exact E3|
      eapply esteps_app; [exact E4|eapply esteps_app; [exact E5|eapply esteps_app; [exact E6|exact En]]]]]]]]. }
    split; [exact Hsb'|]. split; [rewrite HlC'; f_equal; f_equal; rewrite app_length; cbn [length]; lia|].
    split; [rewrite HlI'; unfold lv2, lv1; rewrite !lv_get_set_other by reflexivity; reflexivity|exact HlF'].
Qed.

End Scan.
