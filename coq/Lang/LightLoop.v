(* The loops over lights, groups and locations: `repeat all as x [with ...]`, `repeat group as g [with ...]`,
   `repeat location as l [with ...]`.  The preparation code counts and pushes the names (Lang/LightScan.v), the optional `with`
   clause computes the first value and the increment of its variable from that count (Lang/CountWith.v); every pass pops one
   name into the loop variable.  [light_form] says what such a preparation establishes; Lang/Simulation3.v covers every loop of
   that form. *)
From Coq Require Import ZArith String List Bool Lia Sorted.
From Bardolph Require Import Gen.Codes Lang.Value Lang.Instr Lang.Loader Lang.World Lang.Units0 Lang.Regs Lang.Devices
  Lang.Machine Lang.Syntax Lang.Sem Lang.CodeGen Lang.Scope Lang.Loops Lang.ExprCompile Lang.Simulation Lang.Simulation2 Lang.LoopVars
  Lang.RangeLoop Lang.CountWith Lang.LightScan Lang.CallFrames.
Open Scope string_scope.
Open Scope list_scope.
Import ListNotations.
Open Scope Z_scope.

Lemma mk_self s lv d r : m_frames s = FLoop lv d :: r -> mk s (m_pc s) (m_regs s) lv d r (m_stack s) = s.
Proof. intros H. destruct s. cbn in *. subst. reflexivity. Qed.

Lemma names_of_sorted o w : StronglySorted str_lt (names_of o w).
Proof. destruct o; cbn [names_of]; try constructor; apply sort_names_sorted. Qed.

Ltac at_pc H := match type of H with fetch ?im ?a = _ => match goal with |- fetch im ?b = _ => replace b with a by lia; exact H end end.

(* the whole scan: OPERAND := o; DISC; the loop of Lang/LightScan.v *)
Lemma scan_names im ss s o test_src lv d r k :
  scannable o -> (test_src = PLoopVar LV_CURRENT \/ test_src = PReg R_RESULT) ->
  sim ss s -> m_frames s = FLoop lv d :: r -> lv_get lv LV_COUNTER = Some (VInt k) ->
  code_at im (m_pc s) (scan [I2 OC_MOVEQ (POperand o) (PReg R_OPERAND); I0 OC_DISC] test_src [I1 OC_DNEXT (PLoopVar LV_CURRENT)] o) ->
  exists n s' lv', esteps n im s = Some (s', []) /\ sim ss s' /\ m_pc s' = m_pc s + 16 /\ m_frames s' = FLoop lv' d :: r /\
                   m_stack s' = map VStr (names_of o (m_world s)) ++ m_stack s /\
                   lv_get lv' LV_COUNTER = Some (VInt (k + Z.of_nat (length (names_of o (m_world s))))) /\
                   lv_get lv' LV_INCR = lv_get lv LV_INCR.
Proof.
  intros Hscan Htest Hsim Hfr HlC Hc.
  set (l := names_of o (m_world s)) in *. set (P := m_pc s + 2).
  unfold scan, test_op, op_equals in Hc. cbn [app code_at push_of] in Hc.
  destruct Hc as (Hm & Hdisc & H0 & H1 & H2 & H3 & H4 & H5 & H6 & H7 & H8 & H9 & H10 & H11 & H12 & H13 & _).
  pose proof (mk_self s lv d r Hfr) as Hself.
  (* OPERAND := o; DISC *)
  pose proof (st_moveq_reg im s d r (m_pc s) (m_regs s) lv (m_stack s) (POperand o) R_OPERAND (VOperand o) Hm eq_refl eq_refl) as E0. rewrite Hself in E0.
  set (rf1 := rf_set (m_regs s) R_OPERAND (VOperand o)) in *.
  assert (Hsb1 : same_but_scratch rf1 (m_regs s)) by (apply sbs_set; [apply sbs_refl|reflexivity]).
  assert (Hd1 : rf_get rf1 R_DISC_FORWARD = Some (VBool false)) by (rewrite (Hsb1 R_DISC_FORWARD eq_refl); exact (sim_disc _ _ Hsim)).
  pose proof (st_disc im s d r (m_pc s + 1) rf1 lv (m_stack s) o l Hdisc (rf_get_set_same _ _ _) Hd1) as E1.
  assert (Hl : match o with OD_LIGHT => light_names (m_world s) | OD_GROUP => group_names (m_world s) | OD_LOCATION => location_names (m_world s) | _ => [] end = l) by reflexivity.
  specialize (E1 Hl Hscan).
  set (rf2 := rf_set rf1 R_RESULT (match last_name l with Some n => VStr n | None => VOperand OD_NULL end)) in *.
  assert (Hsb2 : same_but_scratch rf2 (m_regs s)) by (apply sbs_set; [exact Hsb1|reflexivity]).
  (* the loop *)
  assert (Hf0 : fetch im P = Some (I2 OC_MOVE (PReg R_RESULT) (PLoopVar LV_CURRENT))) by (unfold P; at_pc H0).
  assert (Hc1 : code_at im (P + 1) (test_op OP_NOTEQ test_src (POperand OD_NULL))).
  { unfold test_op. cbn [code_at push_of]. unfold P. repeat split; [at_pc H1|at_pc H2|at_pc H3|at_pc H4]. }
  assert (Hf5 : fetch im (P + 5) = Some (jump JC_IF_FALSE (7 + 2))) by (unfold P; at_pc H5).
  assert (Hc6 : code_at im (P + 6) (op_equals OP_ADD (PLoopVar LV_COUNTER) (PInt 1))).
  { unfold op_equals. cbn [code_at push_of]. unfold P. repeat split; [at_pc H6|at_pc H7|at_pc H8|at_pc H9]. }
  assert (Hf10 : fetch im (P + 10) = Some (I1 OC_PUSH (PLoopVar LV_CURRENT))) by (unfold P; at_pc H10).
  assert (Hf11 : fetch im (P + 11) = Some (I2 OC_MOVEQ (POperand o) (PReg R_OPERAND))) by (unfold P; at_pc H11).
  assert (Hf12 : fetch im (P + 12) = Some (I1 OC_DNEXT (PLoopVar LV_CURRENT))) by (unfold P; at_pc H12).
  assert (Hf13 : fetch im (P + 13) = Some (jump JC_ALWAYS (- (5 + 1 + 7)))) by (destruct Htest as [-> | ->]; unfold P; at_pc H13).
  assert (Hnext : forall pc rf lv1 stk c, fetch im pc = Some (I1 OC_DNEXT (PLoopVar LV_CURRENT)) ->
            rf_get rf R_OPERAND = Some (VOperand o) -> rf_get rf R_DISC_FORWARD = Some (VBool false) ->
            lv_get lv1 LV_CURRENT = Some (VStr c) -> lv_get lv1 LV_FIRST = lv_get lv LV_FIRST -> In c l ->
            esteps 1 im (mk s pc rf lv1 d r stk) = Some (mk s (pc + 1) (rf_set rf R_RESULT (or_null (sl_prev l c))) lv1 d r stk, [])).
  { intros pc rf lv1 stk c Hf Ho Hd Hcur _ _. exact (st_dnext im s d r pc rf lv1 stk o l c Hf Ho Hd Hcur Hl Hscan). }
  destruct (scan_loop im ss s lv d r o test_src l (m_stack s) P (I1 OC_DNEXT (PLoopVar LV_CURRENT)) Hsim (names_of_sorted o (m_world s)) Hnext Htest
              Hf0 Hc1 Hf5 Hc6 Hf10 Hf11 Hf12 Hf13 l [] rf2 lv k (eq_sym (app_nil_r l)) Hsb2 (rf_get_set_same _ _ _) HlC eq_refl)
    as (n & rf' & lv' & En & Hsb' & HlC' & HlI' & _).
  exists (1 + (1 + n))%nat, (mk s (P + 14) rf' lv' d r (map VStr l ++ m_stack s)), lv'.
  split.
  { replace (@nil event) with (@nil event ++ (@nil event ++ @nil event)) by reflexivity.
    eapply esteps_app; [exact E0|eapply esteps_app; [exact E1|]].
    replace (m_pc s + 1 + 1) with P by (unfold P; lia). exact En. }
  split; [exact (sim_mk ss s (P + 14) rf' lv' lv d r _ Hsim Hfr Hsb')|].
  split; [cbn [mk m_pc]; unfold P; lia|]. split; [reflexivity|]. split; [reflexivity|]. split; [exact HlC'|exact HlI'].
Qed.

Definition members_of (o : Codes.operand) (w : world) (nm : value) : list string :=
  match set_members o w nm with Some l => l | None => [] end.
Lemma members_of_sorted o w nm : StronglySorted str_lt (members_of o w nm).
Proof.
  unfold members_of, set_members. destruct (as_name nm) as [n|]; [|constructor]. destruct o; try constructor.
  - destruct (group_lights w n) as [l|] eqn:E; [exact (proj1 (members_each_once l_group w n l E))|constructor].
  - destruct (location_lights w n) as [l|] eqn:E; [exact (proj1 (members_each_once l_loc w n l E))|constructor].
Qed.

(* the scan over the members of a group or location whose name is in FIRST: OPERAND := o; DISCM; the same loop with DNEXTM *)
Lemma scan_members_names im ss s o lv d r k nm :
  (o = OD_GROUP \/ o = OD_LOCATION) ->
  sim ss s -> m_frames s = FLoop lv d :: r -> lv_get lv LV_COUNTER = Some (VInt k) -> lv_get lv LV_FIRST = Some nm ->
  code_at im (m_pc s) (scan_members o) ->
  exists n s' lv', esteps n im s = Some (s', []) /\ sim ss s' /\ m_pc s' = m_pc s + 16 /\ m_frames s' = FLoop lv' d :: r /\
                   m_stack s' = map VStr (members_of o (m_world s) nm) ++ m_stack s /\
                   lv_get lv' LV_COUNTER = Some (VInt (k + Z.of_nat (length (members_of o (m_world s) nm)))) /\
                   lv_get lv' LV_INCR = lv_get lv LV_INCR.
Proof.
  intros Hscan Hsim Hfr HlC HlF Hc.
  set (test_src := PLoopVar LV_CURRENT). assert (Htest : test_src = PLoopVar LV_CURRENT \/ test_src = PReg R_RESULT) by (left; reflexivity).
  set (l := members_of o (m_world s) nm) in *. set (P := m_pc s + 2).
  unfold scan_members, scan, test_op, op_equals in Hc. cbn [app code_at push_of] in Hc.
  destruct Hc as (Hm & Hdisc & H0 & H1 & H2 & H3 & H4 & H5 & H6 & H7 & H8 & H9 & H10 & H11 & H12 & H13 & _).
  pose proof (mk_self s lv d r Hfr) as Hself.
  (* OPERAND := o; DISC *)
  pose proof (st_moveq_reg im s d r (m_pc s) (m_regs s) lv (m_stack s) (POperand o) R_OPERAND (VOperand o) Hm eq_refl eq_refl) as E0. rewrite Hself in E0.
  set (rf1 := rf_set (m_regs s) R_OPERAND (VOperand o)) in *.
  assert (Hsb1 : same_but_scratch rf1 (m_regs s)) by (apply sbs_set; [apply sbs_refl|reflexivity]).
  assert (Hd1 : rf_get rf1 R_DISC_FORWARD = Some (VBool false)) by (rewrite (Hsb1 R_DISC_FORWARD eq_refl); exact (sim_disc _ _ Hsim)).
  pose proof (st_discm im s d r (m_pc s + 1) rf1 lv (m_stack s) o nm Hdisc (rf_get_set_same _ _ _) Hd1 HlF Hscan) as E1.
  assert (Hres : match set_members o (m_world s) nm with Some l0 => or_null (last_name l0) | None => VOperand OD_NULL end = name_or_null (last_name l)).
  { unfold l, members_of. destruct (set_members o (m_world s) nm) as [l0|]; [destruct (last_name l0); reflexivity|reflexivity]. }
  rewrite Hres in E1.
  set (rf2 := rf_set rf1 R_RESULT (name_or_null (last_name l))) in *.
  assert (Hsb2 : same_but_scratch rf2 (m_regs s)) by (apply sbs_set; [exact Hsb1|reflexivity]).
  (* the loop *)
  assert (Hf0 : fetch im P = Some (I2 OC_MOVE (PReg R_RESULT) (PLoopVar LV_CURRENT))) by (unfold P; at_pc H0).
  assert (Hc1 : code_at im (P + 1) (test_op OP_NOTEQ test_src (POperand OD_NULL))).
  { unfold test_op. cbn [code_at push_of]. unfold P. repeat split; [at_pc H1|at_pc H2|at_pc H3|at_pc H4]. }
  assert (Hf5 : fetch im (P + 5) = Some (jump JC_IF_FALSE (7 + 2))) by (unfold P; at_pc H5).
  assert (Hc6 : code_at im (P + 6) (op_equals OP_ADD (PLoopVar LV_COUNTER) (PInt 1))).
  { unfold op_equals. cbn [code_at push_of]. unfold P. repeat split; [at_pc H6|at_pc H7|at_pc H8|at_pc H9]. }
  assert (Hf10 : fetch im (P + 10) = Some (I1 OC_PUSH (PLoopVar LV_CURRENT))) by (unfold P; at_pc H10).
  assert (Hf11 : fetch im (P + 11) = Some (I2 OC_MOVEQ (POperand o) (PReg R_OPERAND))) by (unfold P; at_pc H11).
  assert (Hf12 : fetch im (P + 12) = Some (I2 OC_DNEXTM (PLoopVar LV_FIRST) (PLoopVar LV_CURRENT))) by (unfold P; at_pc H12).
  assert (Hf13 : fetch im (P + 13) = Some (jump JC_ALWAYS (- (5 + 1 + 7)))) by (destruct Htest as [-> | ->]; unfold P; at_pc H13).
  assert (Hnext : forall pc rf lv1 stk c, fetch im pc = Some (I2 OC_DNEXTM (PLoopVar LV_FIRST) (PLoopVar LV_CURRENT)) ->
            rf_get rf R_OPERAND = Some (VOperand o) -> rf_get rf R_DISC_FORWARD = Some (VBool false) ->
            lv_get lv1 LV_CURRENT = Some (VStr c) -> lv_get lv1 LV_FIRST = lv_get lv LV_FIRST -> In c l ->
            esteps 1 im (mk s pc rf lv1 d r stk) = Some (mk s (pc + 1) (rf_set rf R_RESULT (or_null (sl_prev l c))) lv1 d r stk, [])).
  { intros pc rf lv1 stk c Hf Ho Hd Hcur HlF1 Hin. rewrite HlF in HlF1.
    assert (Hset : set_members o (m_world s) nm = Some l) by (unfold l, members_of in Hin |- *; destruct (set_members o (m_world s) nm); [reflexivity|contradiction]).
    exact (st_dnextm im s d r pc rf lv1 stk o nm l c Hf Ho Hd Hcur HlF1 Hset Hscan). }
  destruct (scan_loop im ss s lv d r o test_src l (m_stack s) P (I2 OC_DNEXTM (PLoopVar LV_FIRST) (PLoopVar LV_CURRENT)) Hsim (members_of_sorted o (m_world s) nm) Hnext Htest
              Hf0 Hc1 Hf5 Hc6 Hf10 Hf11 Hf12 Hf13 l [] rf2 lv k (eq_sym (app_nil_r l)) Hsb2 (rf_get_set_same _ _ _) HlC eq_refl)
    as (n & rf' & lv' & En & Hsb' & HlC' & HlI' & _).
  exists (1 + (1 + n))%nat, (mk s (P + 14) rf' lv' d r (map VStr l ++ m_stack s)), lv'.
  split.
  { replace (@nil event) with (@nil event ++ (@nil event ++ @nil event)) by reflexivity.
    eapply esteps_app; [exact E0|eapply esteps_app; [exact E1|]].
    replace (m_pc s + 1 + 1) with P by (unfold P; lia). exact En. }
  split; [exact (sim_mk ss s (P + 14) rf' lv' lv d r _ Hsim Hfr Hsb')|].
  split; [cbn [mk m_pc]; unfold P; lia|]. split; [reflexivity|]. split; [reflexivity|]. split; [exact HlC'|exact HlI'].
Qed.

Section LightLoop.
Variable rt : rtable.
Variable mt : mtable.

Definition idx_ok (ov : option string) (idx : option (string * value)) (lv : lvenv) : Prop :=
  match ov, idx with
  | None, None => True
  | Some v, Some (v', incr) => v' = v /\ lv_val lv LV_INCR = incr
  | _, _ => False
  end.

(* [light_form l x ov pre]: l binds x to one name per pass (and steps the variable ov, if any); its code is LOOP; pre; the test of
   the counter; POP x; the body; the count-down (and the step of ov); END_LOOP; pre leaves the names on the stack, the first on top,
   their number in COUNTER and, with a `with` clause, the variable assigned and the increment in INCR *)
Definition light_form (l : loop) (x : string) (ov : option string) (pre : program) : Prop :=
  (forall body, c_stmt rt mt false None (SRepeat l body) =
     [I0 OC_LOOP] ++ pre ++ counter_test ++
     [jump JC_IF_FALSE (len ([I1 OC_POP (PStr x)] ++ c_stmt rt mt false (Some (len (counter_post ov) + 1)) body ++ counter_post ov) + 2)] ++
     ([I1 OC_POP (PStr x)] ++ c_stmt rt mt false (Some (len (counter_post ov) + 1)) body ++ counter_post ov) ++
     [jump JC_ALWAYS (- (len counter_test + 1 + len ([I1 OC_POP (PStr x)] ++ c_stmt rt mt false (Some (len (counter_post ov) + 1)) body ++ counter_post ov)))] ++
     [I0 OC_END_LOOP]) /\
  forallb not_routine pre = true /\
  (forall f ss body sig ss' im s d r,
     Sem.exec rt mt f false ss (SRepeat l body) = ROk sig ss' -> sim ss s -> m_frames s = FLoop [] d :: r -> code_at im (m_pc s) pre ->
     exists f' names idx s1 n s' lv' r',
       (f' < f)%nat /\ iterate rt mt f' false s1 None (Some (VInt (Z.of_nat (length names)))) idx (Some (x, names)) body = ROk sig ss' /\
       idx_ok ov idx lv' /\ s_trace s1 = s_trace ss /\
       esteps n im s = Some (s', []) /\ sim s1 s' /\ m_pc s' = m_pc s + zlength pre /\ m_frames s' = FLoop lv' d :: r' /\ erase r' = erase r /\
       m_stack s' = names ++ m_stack s /\ lv_get lv' LV_COUNTER = Some (VInt (Z.of_nat (length names)))).

Definition plain_with_opt (w : option loop_with) : bool := match w with Some w' => plain_with mt w' | None => true end.
Definition with_code (w : option loop_with) : program := match w with Some w' => fst (c_with rt mt w') | None => [] end.
Definition with_ov (w : option loop_with) : option string := match w with Some w' => Some (snd (c_with rt mt w')) | None => None end.
Definition scan_pre (o : Codes.operand) (test_src : param) (w : option loop_with) : program :=
  [I2 OC_MOVEQ (PInt 0) (PLoopVar LV_COUNTER)] ++
  scan [I2 OC_MOVEQ (POperand o) (PReg R_OPERAND); I0 OC_DISC] test_src [I1 OC_DNEXT (PLoopVar LV_CURRENT)] o ++ with_code w.

(* the three scanning loops at once: l is `repeat all / group / location as x [w]`, o what is scanned *)
Lemma scan_light_form (l : loop) (o : Codes.operand) (test_src : param) (x : string) (w : option loop_with) :
  scannable o -> (test_src = PLoopVar LV_CURRENT \/ test_src = PReg R_RESULT) -> plain_with_opt w = true ->
  (forall body, c_stmt rt mt false None (SRepeat l body) =
     [I0 OC_LOOP] ++ scan_pre o test_src w ++ counter_test ++
     [jump JC_IF_FALSE (len ([I1 OC_POP (PStr x)] ++ c_stmt rt mt false (Some (len (counter_post (with_ov w)) + 1)) body ++ counter_post (with_ov w)) + 2)] ++
     ([I1 OC_POP (PStr x)] ++ c_stmt rt mt false (Some (len (counter_post (with_ov w)) + 1)) body ++ counter_post (with_ov w)) ++
     [jump JC_ALWAYS (- (len counter_test + 1 + len ([I1 OC_POP (PStr x)] ++ c_stmt rt mt false (Some (len (counter_post (with_ov w)) + 1)) body ++ counter_post (with_ov w))))] ++
     [I0 OC_END_LOOP]) ->
  (forall f ss body, Sem.exec rt mt (S (S (S (S f)))) false ss (SRepeat l body) =
     (let names := map VStr (names_of o (s_world ss)) in
      let cnt := VInt (Z.of_nat (length names)) in
      match w with
      | None => iterate rt mt f false ss None (Some cnt) None (Some (x, names)) body
      | Some w' => let* (vi, s1) := prep_with rt mt f false ss cnt w' in iterate rt mt f false s1 None (Some cnt) (Some vi) (Some (x, names)) body
      end)) ->
  (forall k ss body sig ss', (k < 4)%nat -> Sem.exec rt mt k false ss (SRepeat l body) <> ROk sig ss') ->
  light_form l x (with_ov w) (scan_pre o test_src w).
Proof.
  intros Hscan Htest Hpw Hcode Hexec Hsmall. split; [exact Hcode|]. split.
  { unfold scan_pre. rewrite !forallb_app. assert (Hs : forallb not_routine (scan [I2 OC_MOVEQ (POperand o) (PReg R_OPERAND); I0 OC_DISC] test_src [I1 OC_DNEXT (PLoopVar LV_CURRENT)] o) = true) by (destruct Htest as [-> | ->]; reflexivity).
    rewrite Hs. destruct w as [w'|]; [cbn [with_code plain_with_opt] in *; rewrite (c_with_no_routine rt mt w' Hpw)|]; reflexivity. }
  intros f ss body sig ss' im s d r He Hsim Hfr Hc.
  destruct (Nat.lt_ge_cases f 4) as [Hlt|Hge]; [exfalso; exact (Hsmall f ss body sig ss' Hlt He)|].
  destruct f as [|[|[|[|f]]]]; try lia. rewrite Hexec in He. cbv zeta in He.
  set (l0 := names_of o (s_world ss)) in *. set (names := map VStr l0) in *. set (cnt := VInt (Z.of_nat (length names))) in *.
  unfold scan_pre in Hc |- *. apply code_at_app in Hc. destruct Hc as [Hz Hc]. cbn [code_at] in Hz. destruct Hz as [Hfz _]. rewrite zlength1 in Hc.
  apply code_at_app in Hc. destruct Hc as [Hsc Hw].
  assert (Hzs : zlength (scan [I2 OC_MOVEQ (POperand o) (PReg R_OPERAND); I0 OC_DISC] test_src [I1 OC_DNEXT (PLoopVar LV_CURRENT)] o) = 16) by (destruct Htest as [-> | ->]; reflexivity).
  rewrite Hzs in Hw.
  (* COUNTER := 0 *)
  pose proof (moveq_lv_step im s LV_COUNTER 0 [] d r Hfz Hfr) as E0.
  set (s1 := with_lv s LV_COUNTER (VInt 0) 1) in *.
  assert (Hs1 : sim ss s1) by (apply sim_with_lv; exact Hsim).
  assert (Hfr1 : m_frames s1 = FLoop (lv_set [] LV_COUNTER (VInt 0)) d :: r) by (unfold s1; cbn [with_lv m_frames]; rewrite Hfr; reflexivity).
  assert (Hsc1 : code_at im (m_pc s1) (scan [I2 OC_MOVEQ (POperand o) (PReg R_OPERAND); I0 OC_DISC] test_src [I1 OC_DNEXT (PLoopVar LV_CURRENT)] o)) by exact Hsc.
  destruct (scan_names im ss s1 o test_src _ d r 0 Hscan Htest Hs1 Hfr1 (lv_get_set _ _ _) Hsc1) as (n2 & s2 & lv2 & E2 & Hs2 & Hpc2 & Hfr2 & Hst2 & HlC2 & HlI2).
  assert (Hw1 : m_world s1 = s_world ss) by exact (sim_world _ _ Hsim). rewrite Hw1 in Hst2, HlC2. fold l0 in Hst2, HlC2. fold names in Hst2.
  assert (Hcnt : VInt (0 + Z.of_nat (length l0)) = cnt) by (unfold cnt, names; rewrite map_length; reflexivity). rewrite Hcnt in HlC2.
  assert (HlI2' : lv_get lv2 LV_INCR = None) by (rewrite HlI2; reflexivity).
  assert (Hpc2' : m_pc s2 = m_pc s + 1 + 16) by (rewrite Hpc2; reflexivity).
  destruct w as [w'|]; cbn [with_code with_ov plain_with_opt] in *.
  - (* with a `with` clause *)
    destruct (prep_with rt mt f false ss cnt w') as [vi sp|e sp|sp] eqn:Ep; cbn [sbind] in He; try discriminate.
    assert (Hw2 : code_at im (m_pc s2) (fst (c_with rt mt w'))) by (rewrite Hpc2'; exact Hw).
    destruct (with_prep rt mt w' Hpw im ss s2 cnt vi sp f lv2 d r Hs2 Hfr2 HlC2 HlI2' Hw2 Ep) as (Hv & Htr & n3 & s3 & lv3 & r3 & E3 & Hs3 & Hpc3 & Hfr3 & Her3 & Hst3 & HlC3 & HlI3).
    exists f, names, (Some vi), sp, (1 + (n2 + n3))%nat, s3, lv3, r3.
    split; [lia|]. split; [exact He|].
    split; [destruct vi as [v' incr]; cbn [idx_ok fst snd] in *; split; [rewrite Hv, c_with_var; reflexivity|exact HlI3]|].
    split; [exact Htr|].
    split; [replace (@nil event) with (@nil event ++ (@nil event ++ @nil event)) by reflexivity; eapply esteps_app; [exact E0|eapply esteps_app; [exact E2|exact E3]]|].
    split; [exact Hs3|].
    split; [rewrite Hpc3, Hpc2'; unfold zlength; rewrite !app_length, !Nat2Z.inj_add; fold (zlength (scan [I2 OC_MOVEQ (POperand o) (PReg R_OPERAND); I0 OC_DISC] test_src [I1 OC_DNEXT (PLoopVar LV_CURRENT)] o)); rewrite Hzs; cbn [length]; unfold zlength; lia|].
    split; [exact Hfr3|]. split; [exact Her3|]. split; [rewrite Hst3; exact Hst2|exact HlC3].
  - exists f, names, None, ss, (1 + n2)%nat, s2, lv2, r.
    split; [lia|]. split; [exact He|]. split; [exact I|]. split; [reflexivity|].
    split; [replace (@nil event) with (@nil event ++ @nil event) by reflexivity; eapply esteps_app; [exact E0|exact E2]|].
    split; [exact Hs2|].
    split; [rewrite Hpc2'; rewrite app_nil_r; unfold zlength; rewrite !app_length, !Nat2Z.inj_add; fold (zlength (scan [I2 OC_MOVEQ (POperand o) (PReg R_OPERAND); I0 OC_DISC] test_src [I1 OC_DNEXT (PLoopVar LV_CURRENT)] o)); rewrite Hzs; cbn [length]; lia|].
    split; [exact Hfr2|]. split; [reflexivity|]. split; [exact Hst2|exact HlC2].
Qed.

Ltac small_fuel := intros k ss body sig ss' Hk Hex; destruct k as [|[|[|[|k]]]]; [discriminate Hex|discriminate Hex|discriminate Hex|discriminate Hex|lia].

Lemma lall_form x w : plain_with_opt w = true -> light_form (LAll x w) x (with_ov w) (scan_pre OD_LIGHT (PLoopVar LV_CURRENT) w).
Proof.
  intros H. apply scan_light_form; [exact I|left; reflexivity|exact H| | |small_fuel].
  - intros body. destruct w as [[v a b|v st]|]; reflexivity.
  - intros f ss body. destruct w as [[v a b|v st]|]; reflexivity.
Qed.
Lemma lgroups_form x w : plain_with_opt w = true -> light_form (LGroups x w) x (with_ov w) (scan_pre OD_GROUP (PReg R_RESULT) w).
Proof.
  intros H. apply scan_light_form; [exact I|right; reflexivity|exact H| | |small_fuel].
  - intros body. destruct w as [[v a b|v st]|]; reflexivity.
  - intros f ss body. destruct w as [[v a b|v st]|]; reflexivity.
Qed.
Lemma llocations_form x w : plain_with_opt w = true -> light_form (LLocations x w) x (with_ov w) (scan_pre OD_LOCATION (PReg R_RESULT) w).
Proof.
  intros H. apply scan_light_form; [exact I|right; reflexivity|exact H| | |small_fuel].
  - intros body. destruct w as [[v a b|v st]|]; reflexivity.
  - intros f ss body. destruct w as [[v a b|v st]|]; reflexivity.
Qed.

(* ---- one pass of a light loop ---- *)
Definition idx_step (ss : sstate) (idx : option (string * value)) : res sstate :=
  match idx with Some (v, incr) => do nv <- idx_next ss v incr; Ok (assign ss v nv) | None => Ok ss end.

Lemma iterate_lights f ss cnt idx x names body : iterate rt mt (S f) false ss None (Some cnt) idx (Some (x, names)) body =
  (let* (go, s1) := lift_res (positive cnt) ss in
   if negb go then ROk SigNormal s1 else
   let '(s2, rest) := match names with v :: r => (assign s1 x v, r) | [] => (assign s1 x VNone, []) end in
   let* (sig, s3) := Sem.exec rt mt f false s2 body in
   match sig with
   | SigBreak => ROk SigNormal s3
   | SigReturn v => ROk (SigReturn v) s3
   | SigNormal => match (do n' <- sub1 cnt; Ok (Some n')) with
                  | Err e => RErr e s3
                  | Ok cnt' => match idx_step s3 idx with
                               | Ok s4 => iterate rt mt f false s4 None cnt' idx (Some (x, rest)) body
                               | Err e => RErr e s3
                               end
                  end
   end).
Proof.
  assert (E : iterate rt mt (S f) false ss None (Some cnt) idx (Some (x, names)) body =
    (let* (go, s1) := lift_res (positive cnt) ss in
     if negb go then ROk SigNormal s1 else
     let '(s2, lights') := match names with v :: r => (assign s1 x v, Some (x, r)) | [] => (assign s1 x VNone, Some (x, [])) end in
     let* (sig, s3) := Sem.exec rt mt f false s2 body in
     match sig with
     | SigBreak => ROk SigNormal s3
     | SigReturn v => ROk (SigReturn v) s3
     | SigNormal => match (do n' <- sub1 cnt; Ok (Some n')) with
                    | Err e => RErr e s3
                    | Ok cnt' => match idx with
                                 | Some (v, incr) => match idx_next s3 v incr with
                                                     | Ok nv => iterate rt mt f false (assign s3 v nv) None cnt' idx lights' body
                                                     | Err e => RErr e s3
                                                     end
                                 | None => iterate rt mt f false s3 None cnt' idx lights' body
                                 end
                    end
     end)) by reflexivity.
  rewrite E. clear E. destruct (positive cnt) as [go|e]; cbn [lift_res sbind]; [|reflexivity]. destruct (negb go); [reflexivity|].
  destruct names as [|v r].
  - destruct (Sem.exec rt mt f false (assign ss x VNone) body) as [sig s3|e s3|s3]; cbn [sbind]; try reflexivity.
    destruct sig; try reflexivity. destruct (sub1 cnt) as [c'|e]; cbn [bind]; [|reflexivity].
    destruct idx as [[w incr]|]; cbn [idx_step]; [destruct (idx_next s3 w incr); reflexivity|reflexivity].
  - destruct (Sem.exec rt mt f false (assign ss x v) body) as [sig s3|e s3|s3]; cbn [sbind]; try reflexivity.
    destruct sig; try reflexivity. destruct (sub1 cnt) as [c'|e]; cbn [bind]; [|reflexivity].
    destruct idx as [[w incr]|]; cbn [idx_step]; [destruct (idx_next s3 w incr); reflexivity|reflexivity].
Qed.

Lemma positive_len (names : list value) : positive (VInt (Z.of_nat (length names))) = Ok true -> names <> [].
Proof. destruct names; [cbn; discriminate|discriminate]. Qed.
Lemma sub1_len (v : value) (names : list value) c' : sub1 (VInt (Z.of_nat (length (v :: names)))) = Ok c' -> c' = VInt (Z.of_nat (length names)).
Proof.
  cbn [length]. rewrite Nat2Z.inj_succ. generalize (Z.of_nat (length names)). intros z.
  assert (E : sub1 (VInt (Z.succ z)) = Ok (VInt (Z.succ z - 1))) by reflexivity.
  rewrite E. intros H. injection H as <-. f_equal. lia.
Qed.

Lemma counter_post_no_routine ov : forallb not_routine (counter_post ov) = true.
Proof. destruct ov; reflexivity. Qed.
Lemma counter_post_len ov : zlength (counter_post ov) = match ov with Some _ => 8 | None => 4 end.
Proof. destruct ov; reflexivity. Qed.

Lemma sim_with_stack ss s k : sim ss s -> sim ss (with_stack s k).
Proof. intros H. destruct H. constructor; assumption. Qed.

(* POP x: the next name becomes the value of the loop variable, assigned like any other variable *)
Lemma pop_var_step im ss s x v k lv d r :
  sim ss s -> fetch im (m_pc s) = Some (I1 OC_POP (PStr x)) -> m_stack s = v :: k -> m_frames s = FLoop lv d :: r ->
  exists s' r', esteps 1 im s = Some (s', []) /\ sim (assign ss x v) s' /\ m_pc s' = m_pc s + 1 /\ m_frames s' = FLoop lv d :: r' /\
                erase r' = erase r /\ m_stack s' = k.
Proof.
  intros Hsim Hf Hst Hfr. set (s1 := with_stack s k). set (s2 := put_vm s1 (DVar x) v 1).
  assert (Hs1 : sim ss s1) by (apply sim_with_stack; exact Hsim).
  assert (E : esteps 1 im s = Some (s2, [])).
  { apply (estep1 im s _ _ _ Hf). cbn [Machine.exec i_op i_p0 I1]. unfold pop1. rewrite Hst. cbn [bind]. fold s1.
    rewrite put_dest_var. cbn [bind lift]. f_equal. unfold s2. cbn [put_vm]. destruct (put_var (m_globals s1) (m_frames s1) x v). reflexivity. }
  assert (Hfr1 : m_frames s1 = FLoop lv d :: r) by exact Hfr.
  assert (Hfr2 : exists r', m_frames s2 = FLoop lv d :: r' /\ erase r' = erase r).
  { unfold s2. cbn [put_vm]. rewrite Hfr1, put_var_loop. cbn [m_frames]. eexists. split; [reflexivity|].
    apply erase_put_var. pose proof (sim_settled _ _ Hs1) as Hse. rewrite Hfr1 in Hse. exact Hse. }
  destruct Hfr2 as (r' & Hfr2 & Her). exists s2, r'.
  split; [exact E|]. split; [apply sim_put_var; exact Hs1|]. split; [unfold s2; rewrite put_vm_var_pc; reflexivity|].
  split; [exact Hfr2|]. split; [exact Her|]. unfold s2. cbn [put_vm]. destruct (put_var (m_globals s1) (m_frames s1) x v). reflexivity.
Qed.

(* the count-down and, with a `with` clause, the step of its variable *)
Lemma light_post_steps im ss s ov idx lv d r cnt cnt' ss4 :
  sim ss s -> m_frames s = FLoop lv d :: r -> lv_get lv LV_COUNTER = Some cnt -> idx_ok ov idx lv ->
  sub1 cnt = Ok cnt' -> idx_step ss idx = Ok ss4 -> code_at im (m_pc s) (counter_post ov) ->
  exists n s' lv' r', esteps n im s = Some (s', []) /\ sim ss4 s' /\ m_pc s' = m_pc s + zlength (counter_post ov) /\
                      m_frames s' = FLoop lv' d :: r' /\ erase r' = erase r /\ m_stack s' = m_stack s /\
                      lv_get lv' LV_COUNTER = Some cnt' /\ idx_ok ov idx lv' /\ s_trace ss4 = s_trace ss.
Proof.
  intros Hsim Hfr HlC Hidx Hsub Hstep Hc. destruct ov as [v|], idx as [[v' incr]|]; cbn [idx_ok] in Hidx; try contradiction.
  - destruct Hidx as [-> HlI]. cbn [idx_step] in Hstep. destruct (idx_next ss v incr) as [nv|e] eqn:En; cbn [bind] in Hstep; [|discriminate]. injection Hstep as <-.
    assert (HlI' : lv_get lv LV_INCR = Some incr) by (apply (lv_val_some lv LV_INCR incr HlI); exact (idx_next_incr ss v incr nv En)).
    destruct (range_post_steps im ss s v lv d r cnt cnt' incr nv Hsim Hfr HlC HlI' Hsub En Hc) as (s' & lv' & r' & E & Hs' & Hpc & Hfr' & Her & Hsk & HlC' & HlI2).
    exists 8%nat, s', lv', r'. split; [exact E|]. split; [exact Hs'|]. split; [exact Hpc|]. split; [exact Hfr'|]. split; [exact Her|]. split; [exact Hsk|].
    split; [exact HlC'|]. split; [split; [reflexivity|unfold lv_val; rewrite HlI2; reflexivity]|exact (proj2 (proj2 (assign_other_fields ss v nv)))].
  - cbn [idx_step] in Hstep. injection Hstep as <-.
    pose proof (counter_post_steps im s lv d r cnt cnt' Hfr HlC Hsub Hc) as E.
    exists 4%nat, (with_counter s cnt' 4), (lv_set lv LV_COUNTER cnt'), r.
    split; [exact E|]. split; [apply sim_with_counter; exact Hsim|]. split; [reflexivity|].
    split; [cbn [with_counter m_frames]; rewrite Hfr; reflexivity|]. split; [reflexivity|]. split; [reflexivity|].
    split; [apply lv_get_set|]. split; [exact I|reflexivity].
Qed.


(* END_LOOP with names still on the stack (after a break): they go with the loop frame *)
Lemma end_loop_step_extra im ss s0 s lv r extra :
  sim ss s0 -> fetch im (m_pc s0) = Some (I0 OC_END_LOOP) ->
  m_frames s0 = FLoop lv (zlength (m_stack s)) :: r -> erase r = erase (m_frames s) -> m_stack s0 = extra ++ m_stack s ->
  exists s1, esteps 1 im s0 = Some (s1, []) /\ sim ss s1 /\ m_pc s1 = m_pc s0 + 1 /\ (m_stack s1, fr s1) = (m_stack s, fr s).
Proof.
  intros Hs0 Hf Hfr Her Hst.
  set (d := zlength (m_stack s)) in *.
  set (s1 := advance (with_stack (with_frames s0 r) (truncate_to (m_stack s0) d))).
  exists s1.
  assert (Htr : truncate_to (m_stack s0) d = m_stack s) by (rewrite Hst; apply truncate_extra).
  split; [apply (estep1 im s0 _ _ _ Hf); cbn [Machine.exec i_op I0]; rewrite Hfr; reflexivity|].
  split.
  { destruct Hs0 as [Hr Hfu Hg Hv Hse Hw Hu Hdf]. rewrite Hfr in Hv, Hse. constructor; cbn; assumption. }
  split; [reflexivity|]. unfold fr. change (m_stack s1) with (truncate_to (m_stack s0) d). change (m_frames s1) with r. rewrite Htr, Her. reflexivity.
Qed.

Lemma loop_frame_kept_any s4 s3 lv d r :
  (m_stack s4, fr s4) = (m_stack s3, fr s3) -> m_frames s3 = FLoop lv d :: r ->
  m_stack s4 = m_stack s3 /\ exists r', m_frames s4 = FLoop lv d :: r' /\ erase r' = erase r.
Proof.
  intros H Hfk. injection H as H1 H2. split; [exact H1|].
  unfold fr in H2. rewrite Hfk in H2. exact (erase_loop_inv _ _ _ _ H2).
Qed.

(* ---- repeat in <lights, groups, locations joined by and> as x [with ...] ---- *)
Definition plain_src (src : light_src) : bool := match src with SrcLight n | SrcGroup n | SrcLocation n => plain_rval mt n end.

(* what one source contributes: a single light (any value but the empty one), or the members of a group / location *)
Definition src_values (src : light_src) (f : nat) (ss : sstate) : sres (list value) :=
  match src with
  | SrcLight n => let* (x, s2) := eval_rval rt mt f false ss n in match x with VNone => RErr EAssert s2 | _ => ROk [x] s2 end
  | SrcGroup n => let* (x, s2) := eval_rval rt mt f false ss n in ROk (map VStr (members_of OD_GROUP (s_world s2) x)) s2
  | SrcLocation n => let* (x, s2) := eval_rval rt mt f false ss n in ROk (map VStr (members_of OD_LOCATION (s_world s2) x)) s2
  end.

Lemma eval_srcs_nil f ss : eval_srcs rt mt (S f) false ss [] = ROk [] ss.
Proof. reflexivity. Qed.
Lemma eval_srcs_cons f ss src r : eval_srcs rt mt (S f) false ss (src :: r) =
  (let* (rest, s1) := eval_srcs rt mt f false ss r in let* (own, s2) := src_values src f s1 in ROk (own ++ rest) s2).
Proof.
  assert (E : eval_srcs rt mt (S f) false ss (src :: r) =
    (let* (rest, s1) := eval_srcs rt mt f false ss r in
     match src with
     | SrcLight n => let* (x, s2) := eval_rval rt mt f false s1 n in match x with VNone => RErr EAssert s2 | _ => ROk (x :: rest) s2 end
     | SrcGroup n => let* (x, s2) := eval_rval rt mt f false s1 n in
                     ROk (match set_members OD_GROUP (s_world s2) x with Some l => map VStr l | None => [] end ++ rest) s2
     | SrcLocation n => let* (x, s2) := eval_rval rt mt f false s1 n in
                        ROk (match set_members OD_LOCATION (s_world s2) x with Some l => map VStr l | None => [] end ++ rest) s2
     end)) by reflexivity.
  rewrite E. clear E. destruct (eval_srcs rt mt f false ss r) as [rest s1|e s1|s1]; cbn [sbind]; try reflexivity.
  destruct src as [n|n|n]; cbn [src_values]; destruct (eval_rval rt mt f false s1 n) as [x s2|e s2|s2]; cbn [sbind]; try reflexivity.
  - destruct x; reflexivity.
  - unfold members_of. destruct (set_members OD_GROUP (s_world s2) x); reflexivity.
  - unfold members_of. destruct (set_members OD_LOCATION (s_world s2) x); reflexivity.
Qed.

Lemma c_src_no_routine src : plain_src src = true -> forallb not_routine (c_src rt mt src) = true.
Proof.
  destruct src as [n|n|n]; cbn [plain_src c_src]; intros H.
  - rewrite !forallb_app, (c_rval_no_routine rt mt n (DReg R_RESULT) H (plain_ok_result mt n H)). reflexivity.
  - rewrite forallb_app, (c_rval_lv_no_routine rt mt LV_FIRST n H). reflexivity.
  - rewrite forallb_app, (c_rval_lv_no_routine rt mt LV_FIRST n H). reflexivity.
Qed.

Lemma src_run src : plain_src src = true ->
  forall f ss own s1 im s lv d r k,
  src_values src f ss = ROk own s1 ->
  sim ss s -> m_frames s = FLoop lv d :: r -> lv_get lv LV_COUNTER = Some (VInt k) -> lv_get lv LV_INCR = None ->
  code_at im (m_pc s) (c_src rt mt src) ->
  s1 = ss /\ exists n s' lv', esteps n im s = Some (s', []) /\ sim ss s' /\ m_pc s' = m_pc s + zlength (c_src rt mt src) /\
             m_frames s' = FLoop lv' d :: r /\ m_stack s' = own ++ m_stack s /\
             lv_get lv' LV_COUNTER = Some (VInt (k + Z.of_nat (length own))) /\ lv_get lv' LV_INCR = None.
Proof.
  intros Hp f ss own s1 im s lv d r k He Hsim Hfr HlC HlI Hc.
  destruct src as [n|n|n]; cbn [plain_src src_values c_src] in *.
  - (* one light: its value goes to RESULT, onto the stack, and is counted *)
    destruct (eval_rval rt mt f false ss n) as [x s2|e s2|s2] eqn:Ev; cbn [sbind] in He; try discriminate.
    apply code_at_app in Hc. destruct Hc as [Hcv Hc]. apply code_at_app in Hc. destruct Hc as [Hpush Hadd]. cbn [code_at] in Hpush. destruct Hpush as [Hfp _].
    rewrite zlength1 in Hadd.
    destruct (c_rval_runs rt mt n (DReg R_RESULT) Hp (plain_ok_result mt n Hp) im ss s x s2 f Hsim Hcv Ev) as [-> [n1 E1]].
    set (kV := zlength (c_rval rt mt n (DReg R_RESULT))) in *.
    assert (Hx : x <> VNone /\ own = [x] /\ s1 = ss) by (destruct x; try discriminate; injection He as <- <-; repeat split; discriminate).
    destruct Hx as (Hnx & -> & ->). split; [reflexivity|].
    set (sa := put_vm s (DReg R_RESULT) x kV) in *.
    assert (Hsa : sim ss sa) by (apply sim_put_reg_hidden; [exact Hsim|reflexivity|reflexivity]).
    assert (Hfa : fetch im (m_pc sa) = Some (push_of (PReg R_RESULT))) by exact Hfp.
    assert (Hoa : operand sa (PReg R_RESULT) = Some x) by (cbn [operand register_eqb]; unfold sa; cbn [put_vm m_regs]; apply rf_get_set_same).
    pose proof (push_step im sa (PReg R_RESULT) x Hfa Hoa Hnx) as E2.
    set (sb := advance (with_stack sa (x :: m_stack sa))) in *.
    assert (Hsb : sim ss sb) by (destruct Hsa; constructor; assumption).
    assert (Hfrb : m_frames sb = FLoop lv d :: r) by exact Hfr.
    assert (E3 : esteps 4 im sb = Some (with_lv sb LV_COUNTER (VInt (k + 1)) 4, [])).
    { apply (lv_group im sb (PLoopVar LV_COUNTER) (PInt 1) OP_ADD LV_COUNTER (VInt k) (VInt 1) (VInt (k + 1)) lv d r); try reflexivity; try discriminate.
      - exact Hadd.
      - exact Hfrb.
      - cbn [operand]. unfold get_loopvar. rewrite Hfrb, HlC. reflexivity. }
    exists (n1 + (1 + 4))%nat, (with_lv sb LV_COUNTER (VInt (k + 1)) 4), (lv_set lv LV_COUNTER (VInt (k + 1))).
    split; [replace (@nil event) with (@nil event ++ (@nil event ++ @nil event)) by reflexivity; eapply esteps_app; [exact E1|eapply esteps_app; [exact E2|exact E3]]|].
    split; [apply sim_with_lv; exact Hsb|].
    split; [cbn [with_lv sb advance with_pc with_stack sa put_vm m_pc]; unfold zlength; rewrite !app_length, !Nat2Z.inj_add; fold (zlength (c_rval rt mt n (DReg R_RESULT))); fold kV; cbn [length op_equals]; lia|].
    split; [cbn [with_lv m_frames]; rewrite Hfrb; reflexivity|]. split; [reflexivity|].
    split; [apply lv_get_set|rewrite lv_get_set_other by reflexivity; exact HlI].
  - (* a group: its name to FIRST, then the scan over its members *)
    destruct (eval_rval rt mt f false ss n) as [x s2|e s2|s2] eqn:Ev; cbn [sbind] in He; try discriminate.
    apply code_at_app in Hc. destruct Hc as [Hcv Hsc].
    destruct (lv_init rt mt LV_FIRST n Hp im ss s x s2 f lv d r Hsim Hfr Hcv Ev) as [-> [n1 E1]]. injection He as <- <-. split; [reflexivity|].
    set (kV := zlength (c_rval rt mt n (DLoop LV_FIRST))) in *. set (sa := with_lv s LV_FIRST x kV) in *.
    assert (Hsa : sim ss sa) by (apply sim_with_lv; exact Hsim).
    assert (Hfra : m_frames sa = FLoop (lv_set lv LV_FIRST x) d :: r) by (unfold sa; cbn [with_lv m_frames]; rewrite Hfr; reflexivity).
    assert (Hsca : code_at im (m_pc sa) (scan_members OD_GROUP)) by exact Hsc.
    destruct (scan_members_names im ss sa OD_GROUP _ d r k x (or_introl eq_refl) Hsa Hfra ltac:(rewrite lv_get_set_other by reflexivity; exact HlC) (lv_get_set _ _ _) Hsca)
      as (n2 & s' & lv' & E2 & Hs' & Hpc' & Hfr' & Hst' & HlC' & HlI').
    assert (Hw : m_world sa = s_world ss) by exact (sim_world _ _ Hsim). rewrite Hw in Hst', HlC'.
    exists (n1 + n2)%nat, s', lv'. split; [replace (@nil event) with (@nil event ++ @nil event) by reflexivity; eapply esteps_app; [exact E1|exact E2]|].
    split; [exact Hs'|]. split; [rewrite Hpc'; unfold sa; cbn [with_lv m_pc]; unfold zlength; rewrite app_length, Nat2Z.inj_add; fold (zlength (c_rval rt mt n (DLoop LV_FIRST))); fold kV; change (Z.of_nat (length (scan_members OD_GROUP))) with 16; lia|].
    split; [exact Hfr'|]. split; [exact Hst'|]. split; [rewrite HlC', map_length; reflexivity|rewrite HlI', lv_get_set_other by reflexivity; exact HlI].
  - (* a location *)
    destruct (eval_rval rt mt f false ss n) as [x s2|e s2|s2] eqn:Ev; cbn [sbind] in He; try discriminate.
    apply code_at_app in Hc. destruct Hc as [Hcv Hsc].
    destruct (lv_init rt mt LV_FIRST n Hp im ss s x s2 f lv d r Hsim Hfr Hcv Ev) as [-> [n1 E1]]. injection He as <- <-. split; [reflexivity|].
    set (kV := zlength (c_rval rt mt n (DLoop LV_FIRST))) in *. set (sa := with_lv s LV_FIRST x kV) in *.
    assert (Hsa : sim ss sa) by (apply sim_with_lv; exact Hsim).
    assert (Hfra : m_frames sa = FLoop (lv_set lv LV_FIRST x) d :: r) by (unfold sa; cbn [with_lv m_frames]; rewrite Hfr; reflexivity).
    assert (Hsca : code_at im (m_pc sa) (scan_members OD_LOCATION)) by exact Hsc.
    destruct (scan_members_names im ss sa OD_LOCATION _ d r k x (or_intror eq_refl) Hsa Hfra ltac:(rewrite lv_get_set_other by reflexivity; exact HlC) (lv_get_set _ _ _) Hsca)
      as (n2 & s' & lv' & E2 & Hs' & Hpc' & Hfr' & Hst' & HlC' & HlI').
    assert (Hw : m_world sa = s_world ss) by exact (sim_world _ _ Hsim). rewrite Hw in Hst', HlC'.
    exists (n1 + n2)%nat, s', lv'. split; [replace (@nil event) with (@nil event ++ @nil event) by reflexivity; eapply esteps_app; [exact E1|exact E2]|].
    split; [exact Hs'|]. split; [rewrite Hpc'; unfold sa; cbn [with_lv m_pc]; unfold zlength; rewrite app_length, Nat2Z.inj_add; fold (zlength (c_rval rt mt n (DLoop LV_FIRST))); fold kV; change (Z.of_nat (length (scan_members OD_LOCATION))) with 16; lia|].
    split; [exact Hfr'|]. split; [exact Hst'|]. split; [rewrite HlC', map_length; reflexivity|rewrite HlI', lv_get_set_other by reflexivity; exact HlI].
Qed.

Lemma srcs_run : forall srcs, forallb plain_src srcs = true ->
  forall f ss names s1 im s lv d r k,
  eval_srcs rt mt f false ss srcs = ROk names s1 ->
  sim ss s -> m_frames s = FLoop lv d :: r -> lv_get lv LV_COUNTER = Some (VInt k) -> lv_get lv LV_INCR = None ->
  code_at im (m_pc s) (flat_map (c_src rt mt) (rev srcs)) ->
  s1 = ss /\ exists n s' lv', esteps n im s = Some (s', []) /\ sim ss s' /\ m_pc s' = m_pc s + zlength (flat_map (c_src rt mt) (rev srcs)) /\
             m_frames s' = FLoop lv' d :: r /\ m_stack s' = names ++ m_stack s /\
             lv_get lv' LV_COUNTER = Some (VInt (k + Z.of_nat (length names))) /\ lv_get lv' LV_INCR = None.
Proof.
  induction srcs as [|src rs IH]; intros Hp f ss names s1 im s lv d r k He Hsim Hfr HlC HlI Hc.
  - destruct f as [|f]; [discriminate|]. rewrite eval_srcs_nil in He. injection He as <- <-. split; [reflexivity|].
    exists 0%nat, s, lv. split; [reflexivity|]. split; [exact Hsim|]. split; [cbn; lia|]. split; [exact Hfr|]. split; [reflexivity|].
    split; [rewrite HlC; f_equal; f_equal; cbn [length]; lia|exact HlI].
  - cbn [forallb] in Hp. apply andb_true_iff in Hp. destruct Hp as [Hps Hpr].
    destruct f as [|f]; [discriminate|]. rewrite eval_srcs_cons in He.
    destruct (eval_srcs rt mt f false ss rs) as [rest sa|e sa|sa] eqn:Er; cbn [sbind] in He; try discriminate.
    destruct (src_values src f sa) as [own sb|e sb|sb] eqn:Eo; cbn [sbind] in He; try discriminate. injection He as <- <-.
    cbn [rev] in Hc |- *. rewrite flat_map_app in Hc |- *. cbn [flat_map] in Hc |- *. rewrite app_nil_r in Hc |- *.
    apply code_at_app in Hc. destruct Hc as [Hc1 Hc2].
    destruct (IH Hpr f ss rest sa im s lv d r k Er Hsim Hfr HlC HlI Hc1) as [-> (n1 & s2 & lv2 & E1 & Hs2 & Hpc2 & Hfr2 & Hst2 & HlC2 & HlI2)].
    assert (Hc2' : code_at im (m_pc s2) (c_src rt mt src)) by (rewrite Hpc2; exact Hc2).
    destruct (src_run src Hps f ss own sb im s2 lv2 d r _ Eo Hs2 Hfr2 HlC2 HlI2 Hc2') as [-> (n2 & s3 & lv3 & E2 & Hs3 & Hpc3 & Hfr3 & Hst3 & HlC3 & HlI3)].
    split; [reflexivity|]. exists (n1 + n2)%nat, s3, lv3.
    split; [replace (@nil event) with (@nil event ++ @nil event) by reflexivity; eapply esteps_app; [exact E1|exact E2]|].
    split; [exact Hs3|]. split; [rewrite Hpc3, Hpc2; unfold zlength; rewrite app_length, Nat2Z.inj_add; lia|].
    split; [exact Hfr3|]. split; [rewrite Hst3, Hst2, app_assoc; reflexivity|].
    split; [rewrite HlC3; f_equal; f_equal; rewrite app_length, Nat2Z.inj_add; lia|exact HlI3].
Qed.

Definition lin_pre (srcs : list light_src) (w : option loop_with) : program :=
  [I2 OC_MOVEQ (PInt 0) (PLoopVar LV_COUNTER)] ++ flat_map (c_src rt mt) (rev srcs) ++ with_code w.

Lemma lin_form srcs x w : forallb plain_src srcs = true -> plain_with_opt w = true -> light_form (LIn srcs x w) x (with_ov w) (lin_pre srcs w).
Proof.
  intros Hps Hpw. split; [intros body; destruct w as [[v a b|v st]|]; reflexivity|]. split.
  { unfold lin_pre. rewrite !forallb_app.
    assert (Hs : forallb not_routine (flat_map (c_src rt mt) (rev srcs)) = true).
    { assert (Hr : forallb plain_src (rev srcs) = true) by (apply forallb_forall; intros y Hy; apply (proj1 (forallb_forall _ _) Hps); apply in_rev; exact Hy).
      revert Hr. generalize (rev srcs). intros l. induction l as [|y t IHt]; intros H; [reflexivity|]. cbn [forallb flat_map] in *. apply andb_true_iff in H. destruct H as [Hy Ht].
      rewrite forallb_app, (c_src_no_routine y Hy), (IHt Ht). reflexivity. }
    rewrite Hs. destruct w as [w'|]; [cbn [with_code plain_with_opt] in *; rewrite (c_with_no_routine rt mt w' Hpw)|]; reflexivity. }
  intros f0 ss body sig ss' im s d r He Hsim Hfr Hc.
  destruct f0 as [|[|f]]; try discriminate.
  assert (E : Sem.exec rt mt (S (S f)) false ss (SRepeat (LIn srcs x w) body) =
              (let* (names, s1) := eval_srcs rt mt f false ss srcs in light_loop_values rt mt f false s1 names x w body)) by reflexivity.
  rewrite E in He. clear E.
  destruct (eval_srcs rt mt f false ss srcs) as [names sa|e sa|sa] eqn:Es; cbn [sbind] in He; try discriminate.
  destruct f as [|f]; [discriminate|].
  assert (E : light_loop_values rt mt (S f) false sa names x w body =
              (let cnt := VInt (Z.of_nat (length names)) in
               match w with
               | None => iterate rt mt f false sa None (Some cnt) None (Some (x, names)) body
               | Some w' => let* (vi, s1) := prep_with rt mt f false sa cnt w' in iterate rt mt f false s1 None (Some cnt) (Some vi) (Some (x, names)) body
               end)) by reflexivity.
  rewrite E in He. clear E. cbv zeta in He. set (cnt := VInt (Z.of_nat (length names))) in *.
  unfold lin_pre in Hc |- *. apply code_at_app in Hc. destruct Hc as [Hz Hc]. cbn [code_at] in Hz. destruct Hz as [Hfz _]. rewrite zlength1 in Hc.
  apply code_at_app in Hc. destruct Hc as [Hsc Hw].
  pose proof (moveq_lv_step im s LV_COUNTER 0 [] d r Hfz Hfr) as E0.
  set (s1 := with_lv s LV_COUNTER (VInt 0) 1) in *.
  assert (Hs1 : sim ss s1) by (apply sim_with_lv; exact Hsim).
  assert (Hfr1 : m_frames s1 = FLoop (lv_set [] LV_COUNTER (VInt 0)) d :: r) by (unfold s1; cbn [with_lv m_frames]; rewrite Hfr; reflexivity).
  assert (Hsc1 : code_at im (m_pc s1) (flat_map (c_src rt mt) (rev srcs))) by exact Hsc.
  destruct (srcs_run srcs Hps (S f) ss names sa im s1 _ d r 0 Es Hs1 Hfr1 (lv_get_set _ _ _) eq_refl Hsc1)
    as [-> (n2 & s2 & lv2 & E2 & Hs2 & Hpc2 & Hfr2 & Hst2 & HlC2 & HlI2)].
  assert (Hcnt : VInt (0 + Z.of_nat (length names)) = cnt) by reflexivity. rewrite Hcnt in HlC2.
  set (kS := zlength (flat_map (c_src rt mt) (rev srcs))) in *.
  assert (Hpc2' : m_pc s2 = m_pc s + 1 + kS) by (rewrite Hpc2; reflexivity).
  destruct w as [w'|]; cbn [with_code with_ov plain_with_opt] in *.
  - destruct (prep_with rt mt f false ss cnt w') as [vi sp|e sp|sp] eqn:Ep; cbn [sbind] in He; try discriminate.
    assert (Hw2 : code_at im (m_pc s2) (fst (c_with rt mt w'))) by (rewrite Hpc2'; exact Hw).
    destruct (with_prep rt mt w' Hpw im ss s2 cnt vi sp f lv2 d r Hs2 Hfr2 HlC2 HlI2 Hw2 Ep) as (Hv & Htr & n3 & s3 & lv3 & r3 & E3 & Hs3 & Hpc3 & Hfr3 & Her3 & Hst3 & HlC3 & HlI3).
    exists f, names, (Some vi), sp, (1 + (n2 + n3))%nat, s3, lv3, r3.
    split; [lia|]. split; [exact He|].
    split; [destruct vi as [v' incr]; cbn [idx_ok fst snd] in *; split; [rewrite Hv, c_with_var; reflexivity|exact HlI3]|].
    split; [exact Htr|].
    split; [replace (@nil event) with (@nil event ++ (@nil event ++ @nil event)) by reflexivity; eapply esteps_app; [exact E0|eapply esteps_app; [exact E2|exact E3]]|].
    split; [exact Hs3|].
    split; [rewrite Hpc3, Hpc2'; unfold zlength; rewrite !app_length, !Nat2Z.inj_add; fold (zlength (flat_map (c_src rt mt) (rev srcs))); fold kS; cbn [length]; unfold zlength; lia|].
    split; [exact Hfr3|]. split; [exact Her3|]. split; [rewrite Hst3; exact Hst2|exact HlC3].
  - exists f, names, None, ss, (1 + n2)%nat, s2, lv2, r.
    split; [lia|]. split; [exact He|]. split; [exact I|]. split; [reflexivity|].
    split; [replace (@nil event) with (@nil event ++ @nil event) by reflexivity; eapply esteps_app; [exact E0|exact E2]|].
    split; [exact Hs2|].
    split; [rewrite Hpc2'; rewrite app_nil_r; unfold zlength; rewrite !app_length, !Nat2Z.inj_add; fold (zlength (flat_map (c_src rt mt) (rev srcs))); fold kS; cbn [length]; lia|].
    split; [exact Hfr2|]. split; [reflexivity|]. split; [exact Hst2|exact HlC2].
Qed.

End LightLoop.