(* C01: forward simulation, reference semantics => compiled code on the machine model, for
   straight-line top-level statements: register settings, unit switches, assignments, print /
   println, wait, set / on / off of all lights or of lists of lights, groups and locations, and
   blocks of these, with every value an ordinary rvalue or a call-free numeric expression.
   For every such statement, every state of the reference semantics in which it runs to
   completion and every machine state that corresponds to it, the compiled code -- wherever it
   sits in the image -- runs to a corresponding state and emits exactly the same events.
   Loops, conditionals, routines, zones and matrix blocks are outside this theorem (they are
   covered by the oracle and correspondence runs). *)
From Coq Require Import ZArith String List Bool Lia.
From Bardolph Require Import Time.TimeCore Gen.Codes Lang.Value Lang.Instr Lang.Loader Lang.World Lang.Units0 Lang.Regs Lang.Devices Lang.Scope
  Lang.Machine Lang.Syntax Lang.Sem Lang.CodeGen Lang.ExprCompile.
Open Scope string_scope.
Open Scope list_scope.
Import ListNotations.
Open Scope Z_scope.

(* ---------- steps with events ---------- *)
Fixpoint esteps (n : nat) (im : image) (s : mstate) : option (mstate * list event) :=
  match n with
  | O => Some (s, [])
  | S k => match fetch im (m_pc s) with
           | Some i => match Machine.exec im i s with
                       | Next s' evs => match esteps k im s' with
                                        | Some (s'', evs') => Some (s'', evs ++ evs')
                                        | None => None
                                        end
                       | _ => None
                       end
           | None => None
           end
  end.

Lemma esteps_app n1 : forall n2 im s s1 e1 s2 e2,
  esteps n1 im s = Some (s1, e1) -> esteps n2 im s1 = Some (s2, e2) -> esteps (n1 + n2) im s = Some (s2, e1 ++ e2).
Proof.
  induction n1 as [|n1 IH]; intros n2 im s s1 e1 s2 e2 H1 H2; cbn [esteps Nat.add] in *.
  - inversion H1. subst. exact H2.
  - destruct (fetch im (m_pc s)) as [i|]; [|discriminate].
    destruct (Machine.exec im i s) as [s' evs| |e evs]; try discriminate.
    destruct (esteps n1 im s') as [[s'' evs']|] eqn:E; [|discriminate].
    inversion H1. subst. rewrite (IH n2 im s' s1 evs' s2 e2 E H2). rewrite app_assoc. reflexivity.
Qed.

Lemma steps_esteps n : forall im s s', steps n im s = Some s' -> esteps n im s = Some (s', []).
Proof.
  induction n as [|n IH]; intros im s s' H; cbn [steps esteps] in *.
  - inversion H. reflexivity.
  - destruct (fetch im (m_pc s)) as [i|]; [|discriminate].
    destruct (Machine.exec im i s) as [s1 evs| |e evs]; try discriminate. destruct evs; [|discriminate].
    rewrite (IH im s1 s' H). reflexivity.
Qed.

Lemma run_from_esteps n : forall im s s' evs f acc,
  esteps n im s = Some (s', evs) -> run_from (n + f) im s acc = run_from f im s' (rev_append evs acc).
Proof.
  induction n as [|n IH]; intros im s s' evs f acc H; cbn [esteps Nat.add] in *.
  - inversion H. reflexivity.
  - destruct (fetch im (m_pc s)) as [i|] eqn:Ef; [|discriminate].
    destruct (Machine.exec im i s) as [s1 e1| |e e1] eqn:Ee; try discriminate.
    destruct (esteps n im s1) as [[s2 e2]|] eqn:E; [|discriminate]. inversion H. subst.
    cbn [run_from]. rewrite (fetch_some_in_range _ _ _ Ef), Ef, Ee.
    rewrite (IH im s1 s' e2 f (rev_append e1 acc) E). rewrite !rev_append_rev, rev_app_distr, app_assoc. reflexivity.
Qed.

(* one instruction *)
Lemma estep1 im s i s' evs : fetch im (m_pc s) = Some i -> Machine.exec im i s = Next s' evs -> esteps 1 im s = Some (s', evs).
Proof. intros Hf He. cbn [esteps]. rewrite Hf, He, app_nil_r. reflexivity. Qed.

(* ---------- registers ---------- *)
Lemma register_eqb_refl r : register_eqb r r = true.
Proof. destruct r; reflexivity. Qed.
Lemma register_eqb_eq a b : register_eqb a b = true -> a = b.
Proof. destruct a, b; cbn; intros H; try reflexivity; discriminate. Qed.

Lemma rf_get_set_same rf r v : rf_get (rf_set rf r v) r = Some v.
Proof.
  induction rf as [|[r' v'] t IH]; cbn [rf_set rf_get]; [rewrite register_eqb_refl; reflexivity|].
  destruct (register_eqb r r') eqn:E; cbn [rf_get]; [rewrite register_eqb_refl; reflexivity|]. rewrite E. exact IH.
Qed.
Lemma rf_get_set_other rf r v r' : register_eqb r' r = false -> rf_get (rf_set rf r v) r' = rf_get rf r'.
Proof.
  intros Hn. induction rf as [|[r0 v0] t IH]; cbn [rf_set rf_get]; [rewrite Hn; reflexivity|].
  destruct (register_eqb r r0) eqn:E; cbn [rf_get].
  - apply register_eqb_eq in E. subst r0. rewrite Hn. reflexivity.
  - destruct (register_eqb r' r0); [reflexivity|exact IH].
Qed.
Lemma rreg_set_same rf r v : rreg (rf_set rf r v) r = v.
Proof. unfold rreg. rewrite rf_get_set_same. reflexivity. Qed.
Lemma rreg_set_other rf r v r' : register_eqb r' r = false -> rreg (rf_set rf r v) r' = rreg rf r'.
Proof. intros H. unfold rreg. rewrite (rf_get_set_other _ _ _ _ H). reflexivity. Qed.

(* the registers a script can name or a device command reads; the rest (name, operand, result,
   zone / row / column bounds, pc, discovery direction) are the compiler's scratch registers *)
Definition visible (r : register) : bool :=
  match r with
  | R_HUE | R_SATURATION | R_BRIGHTNESS | R_KELVIN | R_RED | R_GREEN | R_BLUE
  | R_DURATION | R_TIME | R_POWER | R_UNIT_MODE | R_DEFAULT | R_MATRIX => true
  | _ => false
  end.

Definition agree (a b : regfile) : Prop := forall r, visible r = true -> rf_get a r = rf_get b r.

Lemma agree_rreg a b r : agree a b -> visible r = true -> rreg a r = rreg b r.
Proof. intros H Hv. unfold rreg. rewrite (H r Hv). reflexivity. Qed.

Lemma agree_set a b r v : agree a b -> agree (rf_set a r v) (rf_set b r v).
Proof.
  intros H r' Hv. destruct (register_eqb r' r) eqn:E.
  - apply register_eqb_eq in E. subst r'. rewrite !rf_get_set_same. reflexivity.
  - rewrite !rf_get_set_other by exact E. apply H. exact Hv.
Qed.
Lemma agree_set_hidden a b r v : agree a b -> visible r = false -> agree (rf_set a r v) b.
Proof.
  intros H Hh r' Hv. rewrite rf_get_set_other; [apply H; exact Hv|].
  destruct (register_eqb r' r) eqn:E; [|reflexivity]. apply register_eqb_eq in E. subst r'. rewrite Hv in Hh. discriminate.
Qed.
Lemma agree_refl a : agree a a.
Proof. intros r _. reflexivity. Qed.
Lemma agree_trans a b c : agree a b -> agree b c -> agree a c.
Proof. intros H1 H2 r Hv. rewrite (H1 r Hv). apply H2. exact Hv. Qed.
Lemma agree_sym a b : agree a b -> agree b a.
Proof. intros H r Hv. symmetry. apply H. exact Hv. Qed.

(* ---------- what the device commands read ---------- *)
Lemma unit_mode_agree a b : agree a b -> rf_unit_mode a = rf_unit_mode b.
Proof. intros H. unfold rf_unit_mode. rewrite (agree_rreg a b R_UNIT_MODE H eq_refl). reflexivity. Qed.

Lemma get_color_agree a b : agree a b -> rf_get_color a = rf_get_color b.
Proof.
  intros H. unfold rf_get_color. rewrite (unit_mode_agree a b H).
  rewrite (agree_rreg a b R_RED H eq_refl), (agree_rreg a b R_GREEN H eq_refl), (agree_rreg a b R_BLUE H eq_refl),
    (agree_rreg a b R_KELVIN H eq_refl), (agree_rreg a b R_HUE H eq_refl), (agree_rreg a b R_SATURATION H eq_refl),
    (agree_rreg a b R_BRIGHTNESS H eq_refl). reflexivity.
Qed.

Lemma sent_color_agree a b : agree a b -> sent_color a = sent_color b.
Proof. intros H. unfold sent_color, rf_raw_color. rewrite (unit_mode_agree a b H), (get_color_agree a b H). reflexivity. Qed.

Lemma sent_duration_agree a b : agree a b -> sent_duration a = sent_duration b.
Proof.
  intros H. unfold sent_duration, rf_raw_duration. rewrite (unit_mode_agree a b H), (agree_rreg a b R_DURATION H eq_refl). reflexivity.
Qed.

Lemma power_sent_agree a b : agree a b -> power_sent a = power_sent b.
Proof. intros H. unfold power_sent. rewrite (agree_rreg a b R_POWER H eq_refl). reflexivity. Qed.

Lemma rf_wait_agree a b : agree a b -> rf_wait a = rf_wait b.
Proof. intros H. unfold rf_wait. rewrite (agree_rreg a b R_TIME H eq_refl), (unit_mode_agree a b H). reflexivity. Qed.

(* a device command that leaves the registers alone, computed on other registers *)
Definition rebase (rf : regfile) (r : dres) : dres :=
  match r with Ok d => Ok (mkDev rf (d_world d) (d_events d)) | Err e => Err e end.

Lemma do_color_all_agree a b w : agree a b -> do_color_all a w = rebase a (do_color_all b w).
Proof.
  intros H. unfold do_color_all. rewrite (sent_color_agree a b H), (sent_duration_agree a b H).
  destruct (sent_color b); cbn [bind rebase]; [|reflexivity]. destruct (sent_duration b); reflexivity.
Qed.

Lemma do_color_names_agree a b w names : agree a b -> do_color_names a w names = rebase a (do_color_names b w names).
Proof.
  intros H. unfold do_color_names. rewrite (sent_color_agree a b H), (sent_duration_agree a b H).
  destruct (sent_color b) as [c|]; cbn [bind rebase]; [|reflexivity]. destruct (sent_duration b) as [d|]; cbn [bind rebase]; [|reflexivity].
  destruct (color_each names c d w). reflexivity.
Qed.

Lemma do_color_light_agree a b w name : agree a b -> do_color_light a w name = rebase a (do_color_light b w name).
Proof.
  intros H. unfold do_color_light. destruct (as_name name) as [n|]; [|reflexivity]. destruct (find_light w n); [|reflexivity].
  apply do_color_names_agree. exact H.
Qed.

Lemma do_color_set_agree k a b w name : agree a b -> do_color_set k a w name = rebase a (do_color_set k b w name).
Proof.
  intros H. unfold do_color_set. destruct (set_members k w name); [|reflexivity]. apply do_color_names_agree. exact H.
Qed.

Lemma do_power_all_agree a b w : agree a b -> do_power_all a w = rebase a (do_power_all b w).
Proof.
  intros H. unfold do_power_all. rewrite (sent_duration_agree a b H), (power_sent_agree a b H).
  destruct (sent_duration b); reflexivity.
Qed.

Lemma do_power_light_agree a b w name : agree a b -> do_power_light a w name = rebase a (do_power_light b w name).
Proof.
  intros H. unfold do_power_light. destruct (as_name name) as [n|]; [|reflexivity]. destruct (find_light w n); [|reflexivity].
  rewrite (sent_duration_agree a b H), (power_sent_agree a b H). destruct (sent_duration b); reflexivity.
Qed.

Lemma do_power_set_agree k a b w name : agree a b -> do_power_set k a w name = rebase a (do_power_set k b w name).
Proof.
  intros H. unfold do_power_set. destruct (set_members k w name); [|reflexivity].
  rewrite (sent_duration_agree a b H), (power_sent_agree a b H). destruct (sent_duration b); reflexivity.
Qed.

(* ---------- the correspondence of states (outside routines and matrix blocks) ---------- *)
Definition regs_full (rf : regfile) : Prop := forall r, visible r = true -> rf_get rf r <> None.

(* the machine may be inside loops: loop frames hold the loop's own variables only *)
Definition loops_only (fs : frames) : bool := forallb (fun f => match f with FLoop _ _ => true | _ => false end) fs.
Lemma vars_of_loops fs : loops_only fs = true -> vars_of fs = None.
Proof. induction fs as [|[p b r|lv d] t IH]; cbn; intros H; try reflexivity; try discriminate. apply IH. exact H. Qed.
Lemma params_of_loops fs : loops_only fs = true -> params_of fs = [].
Proof. induction fs as [|[p b r|lv d] t IH]; cbn; intros H; try reflexivity; try discriminate. apply IH. exact H. Qed.
Lemma upd_vars_loops fs f : loops_only fs = true -> upd_vars fs f = None.
Proof. induction fs as [|[p b r|lv d] t IH]; cbn; intros H; try reflexivity; try discriminate. rewrite (IH H). reflexivity. Qed.

Record sim (ss : sstate) (s : mstate) : Prop := mkSim {
  sim_regs : agree (m_regs s) (s_regs ss);
  sim_full : regs_full (s_regs ss);
  sim_globals : m_globals s = s_globals ss;
  sim_vars : vars_of (m_frames s) = s_locals ss;          (* the variables of the call in progress, if any *)
  sim_settled : settled (m_frames s) = true;               (* no call is being set up *)
  sim_world : m_world s = s_world ss;
  sim_unnamed : m_unnamed s = [];
  sim_disc : rf_get (m_regs s) R_DISC_FORWARD = Some (VBool false)   (* lights are scanned from the last name to the first; no statement changes that *)
}.

(* frames up to the dictionary of the call in progress (the innermost entered call frame): an assignment inside a
   routine changes that dictionary and nothing else -- the loop frames above it and everything below it stay as they are *)
Fixpoint erase (fs : frames) : frames :=
  match fs with
  | [] => []
  | FLoop lv d :: r => FLoop lv d :: erase r
  | FCall _ true ra :: r => FCall [] true ra :: r
  | FCall p false ra :: r => FCall p false ra :: erase r
  end.
Definition fr (s : mstate) : frames := erase (m_frames s).

Lemma erase_upd_params fs f : settled fs = true -> erase (upd_params fs f) = erase fs.
Proof. induction fs as [|[p [|] ra|lv d] t IH]; cbn [settled upd_params erase]; intros H; try reflexivity; try discriminate. f_equal. exact (IH H). Qed.
Lemma erase_upd_vars fs f fs' : upd_vars fs f = Some fs' -> erase fs' = erase fs.
Proof.
  revert fs'. induction fs as [|[p [|] ra|lv d] t IH]; cbn [upd_vars]; intros fs' H; try discriminate.
  - injection H as <-. reflexivity.
  - destruct (upd_vars t f) as [t'|]; [|discriminate]. injection H as <-. cbn [erase]. f_equal. apply IH. reflexivity.
  - destruct (upd_vars t f) as [t'|]; [|discriminate]. injection H as <-. cbn [erase]. f_equal. apply IH. reflexivity.
Qed.
Lemma erase_put_var g fs y x : settled fs = true -> erase (snd (put_var g fs y x)) = erase fs.
Proof.
  intros Hs. unfold put_var. destruct (env_has (params_of fs) y); [apply erase_upd_params; exact Hs|].
  destruct (env_has g y); [reflexivity|]. destruct (upd_vars fs (fun e => env_set e y x)) as [fs'|] eqn:E; [|reflexivity].
  exact (erase_upd_vars fs _ fs' E).
Qed.
Lemma erase_loop_inv fs lv d r : erase fs = erase (FLoop lv d :: r) -> exists r', fs = FLoop lv d :: r' /\ erase r' = erase r.
Proof.
  destruct fs as [|[p [|] ra|lv' d'] t]; cbn [erase]; intros H; try discriminate.
  injection H as Hl Hd Ht. subst. exists t. split; [reflexivity|exact Ht].
Qed.

Lemma regs_full_set rf r v : regs_full rf -> regs_full (rf_set rf r v).
Proof.
  intros H r' Hv. destruct (register_eqb r' r) eqn:E.
  - apply register_eqb_eq in E. subst. rewrite rf_get_set_same. discriminate.
  - rewrite rf_get_set_other by exact E. apply H. exact Hv.
Qed.

Lemma sim_lookup ss s x : sim ss s -> get_var (m_globals s) (m_frames s) x = lookup ss x.
Proof. intros H. unfold get_var, lookup. rewrite (sim_vars _ _ H), (sim_globals _ _ H). reflexivity. Qed.

Lemma sim_get_reg ss s r : sim ss s -> visible r = true -> get_reg s r = Ok (rreg (s_regs ss) r).
Proof.
  intros H Hv. assert (Hn : register_eqb r R_PC = false) by (destruct r; try reflexivity; discriminate).
  rewrite (get_reg_not_pc s r Hn). unfold rg_vm, rreg. rewrite (sim_regs _ _ H r Hv).
  pose proof (sim_full _ _ H r Hv) as Hf. destruct (rf_get (s_regs ss) r); [reflexivity|contradiction].
Qed.

(* what reading needs: the same correspondence without the demand that no call is being set up (while the arguments of
   a call are evaluated a frame under construction lies on top; it is invisible to reads) *)
Record simr (ss : sstate) (s : mstate) : Prop := mkSimr {
  simr_regs : agree (m_regs s) (s_regs ss);
  simr_full : regs_full (s_regs ss);
  simr_globals : m_globals s = s_globals ss;
  simr_vars : vars_of (m_frames s) = s_locals ss;
  simr_world : m_world s = s_world ss;
  simr_disc : rf_get (m_regs s) R_DISC_FORWARD = Some (VBool false)
}.
Lemma sim_simr ss s : sim ss s -> simr ss s.
Proof. intros [Hr Hf Hg Hv Hst Hw Hu Hdf]. constructor; assumption. Qed.
Lemma simr_lookup ss s x : simr ss s -> get_var (m_globals s) (m_frames s) x = lookup ss x.
Proof. intros H. unfold get_var, lookup. rewrite (simr_vars _ _ H), (simr_globals _ _ H). reflexivity. Qed.
Lemma simr_get_reg ss s r : simr ss s -> visible r = true -> get_reg s r = Ok (rreg (s_regs ss) r).
Proof.
  intros H Hv. assert (Hn : register_eqb r R_PC = false) by (destruct r; try reflexivity; discriminate).
  rewrite (get_reg_not_pc s r Hn). unfold rg_vm, rreg. rewrite (simr_regs _ _ H r Hv).
  pose proof (simr_full _ _ H r Hv) as Hf. destruct (rf_get (s_regs ss) r); [reflexivity|contradiction].
Qed.

Section Sim.
Variable rt : rtable.
Variable mt : mtable.

(* expressions whose registers are script registers *)
Fixpoint regs_visible (e : expr) : bool :=
  match e with
  | EReg r => visible r
  | EBin _ a b => regs_visible a && regs_visible b
  | ENeg a | EPos a | EParen a => regs_visible a
  | _ => true
  end.

Lemma peval_sim e ss s : sim ss s -> supported mt e = true -> regs_visible e = true ->
  peval mt (rd_vm s) (rg_vm s) e = peval mt (rd_sem ss) (rg_sem ss) e.
Proof.
  intros H. induction e as [l|m|x|r|g args|op a IHa b IHb|a IHa|a IHa|a IHa]; intros Hs Hr; cbn [supported regs_visible peval] in *; try reflexivity.
  - unfold rd_vm, rd_sem. rewrite (sim_lookup ss s x H). reflexivity.
  - unfold rg_vm, rg_sem, rreg. rewrite (sim_regs _ _ H r Hr). pose proof (sim_full _ _ H r Hr) as Hf.
    destruct (rf_get (s_regs ss) r); [reflexivity|contradiction].
  - apply andb_true_iff in Hs. destruct Hs as [Hsa Hsb]. apply andb_true_iff in Hr. destruct Hr as [Hra Hrb].
    rewrite (IHa Hsa Hra), (IHb Hsb Hrb). reflexivity.
  - rewrite (IHa Hs Hr). reflexivity.
  - exact (IHa Hs Hr).
  - exact (IHa Hs Hr).
Qed.

Lemma peval_simr e ss s : simr ss s -> supported mt e = true -> regs_visible e = true ->
  peval mt (rd_vm s) (rg_vm s) e = peval mt (rd_sem ss) (rg_sem ss) e.
Proof.
  intros H. induction e as [l|m|x|r|g args|op a IHa b IHb|a IHa|a IHa|a IHa]; intros Hs Hr; cbn [supported regs_visible peval] in *; try reflexivity.
  - unfold rd_vm, rd_sem. rewrite (simr_lookup ss s x H). reflexivity.
  - unfold rg_vm, rg_sem, rreg. rewrite (simr_regs _ _ H r Hr). pose proof (simr_full _ _ H r Hr) as Hf.
    destruct (rf_get (s_regs ss) r); [reflexivity|contradiction].
  - apply andb_true_iff in Hs. destruct Hs as [Hsa Hsb]. apply andb_true_iff in Hr. destruct Hr as [Hra Hrb].
    rewrite (IHa Hsa Hra), (IHb Hsb Hrb). reflexivity.
  - rewrite (IHa Hs Hr). reflexivity.
  - exact (IHa Hs Hr).
  - exact (IHa Hs Hr).
Qed.

Definition simple_value (v : value) : bool :=
  match v with VInt _ | VFlt _ | VBool _ | VStr _ | VNone | VOperand _ | VMode _ | VTime _ => true | _ => false end.

Lemma param_value_of_value v : simple_value v = true -> param_value (value_param v) = Some v.
Proof. destruct v; cbn; intros H; try reflexivity; discriminate. Qed.

Definition plain_rval (v : rval) : bool :=
  match v with
  | RLit _ => true
  | RNeg l => match neg_value (lit_value l) with Ok r => simple_value r | Err _ => false end
  | RMacro m => simple_value (macro mt m)
  | RNegMacro m => match neg_value (macro mt m) with Ok r => simple_value r | Err _ => false end
  | RVar _ => true
  | RReg r => visible r
  | RExpr e => supported mt e && regs_visible e
  | _ => false
  end.

Definition rheight (v : rval) : nat := match v with RExpr e => S (height e) | _ => 1%nat end.

Definition writable (r : register) : bool :=
  match r with R_PC | R_MAT_BODY | R_MAT_TIP | R_UNIT_MODE => false | _ => true end.

Definition ok_dest (d : dest) (v : rval) : bool :=
  match d with
  | DReg r => writable r && match v with RReg r' => negb (register_eqb r' r) | _ => true end
  | DVar y => match v with RVar x => negb (String.eqb x y) | _ => true end
  | _ => false
  end.

Definition put_vm (s : mstate) (d : dest) (x : value) (k : Z) : mstate :=
  match d with
  | DReg r => mkM (m_pc s + k) (rf_set (m_regs s) r x) (m_globals s) (m_frames s) (m_stack s) (m_unnamed s) (m_world s)
  | DVar y => let '(g, fs) := put_var (m_globals s) (m_frames s) y x in mkM (m_pc s + k) (m_regs s) g fs (m_stack s) (m_unnamed s) (m_world s)
  | _ => s
  end.

Lemma put_dest_reg s r x : writable r = true -> put_dest s (PReg r) x = Ok (with_regs s (rf_set (m_regs s) r x)).
Proof. destruct r; cbn; intros H; try reflexivity; discriminate. Qed.

Lemma put_dest_var s y x : put_dest s (PStr y) x = Ok (let '(g, fs) := put_var (m_globals s) (m_frames s) y x in with_vars s g fs).
Proof. cbn [put_dest]. destruct (put_var (m_globals s) (m_frames s) y x). reflexivity. Qed.

(* the effect of a store into an allowed destination *)
Lemma put_dest_ok s d x k : ok_dest d (RLit (LInt 0)) = true ->
  (do s' <- put_dest s (dest_param d) x; Ok (with_pc s' (m_pc s' + k))) = Ok (put_vm s d x k).
Proof.
  intros Hd. destruct d as [r|y|lv|]; cbn [ok_dest] in Hd; try discriminate.
  - rewrite andb_true_r in Hd. cbn [dest_param]. rewrite (put_dest_reg s r x Hd). reflexivity.
  - cbn [dest_param put_vm]. rewrite (put_dest_var s y x). destruct (put_var (m_globals s) (m_frames s) y x). reflexivity.
Qed.
End Sim.

Section Sim2.
Variable rt : rtable.
Variable mt : mtable.

Lemma ok_dest_weaken d v : ok_dest d v = true -> ok_dest d (RLit (LInt 0)) = true.
Proof.
  destruct d as [r|y|lv|]; cbn [ok_dest]; intros H; try discriminate; [|reflexivity].
  apply andb_true_iff in H. destruct H as [H _]. rewrite H. reflexivity.
Qed.

Lemma exec_moveq im s p d v : ok_dest d (RLit (LInt 0)) = true -> param_value p = Some v ->
  Machine.exec im (I2 OC_MOVEQ p (dest_param d)) s = lift (do s' <- put_dest s (dest_param d) v; Ok (advance s')) [].
Proof.
  intros Hd Hp. destruct d as [r|y|lv|]; cbn [ok_dest] in Hd; try discriminate.
  - destruct r; try discriminate; cbn [Machine.exec i_op i_p0 i_p1 I2 dest_param]; rewrite Hp; reflexivity.
  - cbn [Machine.exec i_op i_p0 i_p1 I2 dest_param]. rewrite Hp. reflexivity.
Qed.

Lemma lift_put s d x : ok_dest d (RLit (LInt 0)) = true ->
  lift (do s' <- put_dest s (dest_param d) x; Ok (advance s')) [] = Next (put_vm s d x 1) [].
Proof.
  intros Hd. unfold advance. rewrite (put_dest_ok s d x 1 Hd). reflexivity.
Qed.

Lemma zlength1 {A} (a : A) : zlength [a] = 1.
Proof. reflexivity. Qed.

Lemma eval_rval_S f im ss v :
  eval_rval rt mt (S f) im ss v =
  match v with
  | RLit l => ROk (lit_value l) ss
  | RNeg l => lift_res (neg_value (lit_value l)) ss
  | RMacro m => ROk (macro mt m) ss
  | RNegMacro m => lift_res (neg_value (macro mt m)) ss
  | RVar x => ROk (lookup ss x) ss
  | RReg r => ROk (rreg (s_regs ss) r) ss
  | RExpr e => eval_expr rt mt f im ss e
  | RCall g args => call rt mt f im ss g args
  end.
Proof. destruct v; reflexivity. Qed.

Lemma c_rval_lit l d : c_rval rt mt (RLit l) d = move_const (lit_param l) d. Proof. reflexivity. Qed.
Lemma c_rval_macro m d : c_rval rt mt (RMacro m) d = move_const (macro_param mt m) d. Proof. reflexivity. Qed.
Lemma c_rval_neg l d : c_rval rt mt (RNeg l) d = move_const (neg_param (lit_value l)) d. Proof. reflexivity. Qed.
Lemma c_rval_negmacro m d : c_rval rt mt (RNegMacro m) d = move_const (neg_param (macro mt m)) d. Proof. reflexivity. Qed.
(* a negated constant: the compiler computes the value, the code is that of a constant *)
Lemma neg_plain v : match neg_value v with Ok r => simple_value r | Err _ => false end = true ->
  exists r, neg_value v = Ok r /\ neg_param v = value_param r /\ param_value (value_param r) = Some r.
Proof.
  unfold neg_param, neg_value. destruct (eval_binop OP_MUL v (VInt (-1))) as [r|e]; [|discriminate]. intros H. exists r.
  split; [reflexivity|]. split; [reflexivity|]. apply param_value_of_value. exact H.
Qed.
Lemma c_rval_var y d : c_rval rt mt (RVar y) d = move_ref (PStr y) d. Proof. reflexivity. Qed.
Lemma c_rval_reg r d : c_rval rt mt (RReg r) d = move_ref (PReg r) d. Proof. reflexivity. Qed.
Lemma c_rval_expr e d : c_rval rt mt (RExpr e) d = c_expr rt mt e ++ [I1 OC_POP (dest_param d)]. Proof. reflexivity. Qed.

Lemma c_rval_runs_r v d : plain_rval mt v = true -> ok_dest d v = true ->
  forall im ss s x ss1 fuel, simr ss s -> code_at im (m_pc s) (c_rval rt mt v d) ->
  eval_rval rt mt fuel false ss v = ROk x ss1 ->
  ss1 = ss /\ exists n, esteps n im s = Some (put_vm s d x (zlength (c_rval rt mt v d)), []).
Proof.
  intros Hp Hd im ss s x ss1 fuel Hsim Hc He.
  pose proof (ok_dest_weaken d v Hd) as Hd0.
  destruct fuel as [|fuel]; [destruct v; discriminate|].
  assert (Hnp : forall p, move_const p d = [I2 OC_MOVEQ p (dest_param d)]).
  { intros p. destruct d; cbn [ok_dest] in Hd0; try discriminate; reflexivity. }
  rewrite eval_rval_S in He.
  destruct v as [l|l|m|m|y|r|e|g args]; cbn [plain_rval] in Hp; try discriminate.
  - (* literal *)
    injection He as Hx Hs; subst x ss1. split; [reflexivity|]. rewrite c_rval_lit in *. rewrite Hnp in *. cbn [code_at] in Hc. destruct Hc as [Hf _].
    exists 1%nat. apply (estep1 im s _ _ _ Hf). rewrite (exec_moveq im s _ d (lit_value l) Hd0) by (destruct l; reflexivity).
    rewrite zlength1. apply lift_put; assumption.
  - (* negated literal *)
    destruct (neg_plain _ Hp) as (r0 & Hn & Hnpar & Hpv). rewrite Hn in He. cbn [lift_res] in He.
    injection He as Hx Hs; subst x ss1. split; [reflexivity|]. rewrite c_rval_neg in *. rewrite Hnp, Hnpar in *. cbn [code_at] in Hc. destruct Hc as [Hf _].
    exists 1%nat. apply (estep1 im s _ _ _ Hf). rewrite (exec_moveq im s _ d r0 Hd0 Hpv).
    rewrite zlength1. apply lift_put; assumption.
  - (* macro *)
    injection He as Hx Hs; subst x ss1. split; [reflexivity|]. rewrite c_rval_macro in *. rewrite Hnp in *. cbn [code_at] in Hc. destruct Hc as [Hf _].
    exists 1%nat. apply (estep1 im s _ _ _ Hf). unfold macro_param. rewrite (exec_moveq im s _ d (macro mt m) Hd0) by (apply param_value_of_value; exact Hp).
    rewrite zlength1. apply lift_put; assumption.
  - (* negated constant *)
    destruct (neg_plain _ Hp) as (r0 & Hn & Hnpar & Hpv). rewrite Hn in He. cbn [lift_res] in He.
    injection He as Hx Hs; subst x ss1. split; [reflexivity|]. rewrite c_rval_negmacro in *. rewrite Hnp, Hnpar in *. cbn [code_at] in Hc. destruct Hc as [Hf _].
    exists 1%nat. apply (estep1 im s _ _ _ Hf). rewrite (exec_moveq im s _ d r0 Hd0 Hpv).
    rewrite zlength1. apply lift_put; assumption.
  - (* variable *)
    injection He as Hx Hs; subst x ss1. split; [reflexivity|]. rewrite c_rval_var in *.
    assert (Hmv : move_ref (PStr y) d = [I2 OC_MOVE (PStr y) (dest_param d)]).
    { destruct d as [r|z|lv|]; cbn [ok_dest] in Hd; try discriminate; cbn [move_ref dest_param]; [reflexivity|].
      apply negb_true_iff in Hd. rewrite Hd. reflexivity. }
    rewrite Hmv in *. cbn [code_at] in Hc. destruct Hc as [Hf _].
    exists 1%nat. apply (estep1 im s _ _ _ Hf). cbn [Machine.exec i_op i_p0 i_p1 I2 read_name bind].
    rewrite (simr_lookup ss s y Hsim). rewrite zlength1. apply lift_put; assumption.
  - (* register *)
    injection He as Hx Hs; subst x ss1. split; [reflexivity|]. rewrite c_rval_reg in *.
    assert (Hmv : move_ref (PReg r) d = [I2 OC_MOVE (PReg r) (dest_param d)]).
    { destruct d as [r'|z|lv|]; cbn [ok_dest] in Hd; try discriminate; cbn [move_ref dest_param]; [|reflexivity].
      apply andb_true_iff in Hd. destruct Hd as [_ Hd]. apply negb_true_iff in Hd. rewrite Hd. reflexivity. }
    rewrite Hmv in *. cbn [code_at] in Hc. destruct Hc as [Hf _].
    exists 1%nat. apply (estep1 im s _ _ _ Hf). cbn [Machine.exec i_op i_p0 i_p1 I2].
    rewrite (simr_get_reg ss s r Hsim Hp). cbn [bind]. rewrite zlength1. apply lift_put; assumption.
  - (* expression *)
    apply andb_true_iff in Hp. destruct Hp as [Hsup Hvis].
    destruct (eval_expr_ok rt mt e Hsup fuel false ss x ss1 He) as [Hs1 Ep]. subst ss1. split; [reflexivity|].
    rewrite c_rval_expr in *. apply code_at_app in Hc. destruct Hc as [Hce Hpop]. cbn [code_at] in Hpop. destruct Hpop as [Hfp _].
    rewrite <- (peval_simr mt e ss s Hsim Hsup Hvis) in Ep.
    destruct (c_expr_pushes_value rt mt e Hsup im s x Hce Ep) as [n Hn].
    exists (n + 1)%nat. replace (@nil event) with (@nil event ++ @nil event) by reflexivity.
    eapply esteps_app; [apply steps_esteps; exact Hn|].
    apply (estep1 im (pushed s x (zlength (c_expr rt mt e))) _ _ _ Hfp).
    cbn [Machine.exec i_op i_p0 I1]. unfold pop1. cbn [pushed m_stack bind].
    assert (Hdp : match dest_param d with PReg _ | PStr _ | PLoopVar _ => true | _ => false end = true)
      by (destruct d; cbn [ok_dest] in Hd0; try discriminate; reflexivity).
    set (s1 := with_stack (pushed s x (zlength (c_expr rt mt e))) (m_stack s)).
    pose proof (put_dest_ok s1 d x 1 Hd0) as Hput. unfold advance.
    destruct (dest_param d) eqn:Edp; try discriminate;
      (destruct (put_dest s1 _ x) as [s2|er2] eqn:E2; cbn [bind] in Hput |- *; [|discriminate];
       cbn [lift]; inversion Hput as [Hs2]; rewrite Hs2; f_equal;
       destruct d as [r0|y0|lv0|]; try discriminate; unfold put_vm, s1, pushed, with_stack; cbn;
       try (destruct (put_var (m_globals s) (m_frames s) y0 x));
       unfold zlength; rewrite app_length; cbn [length]; rewrite Nat2Z.inj_add; f_equal; cbn; lia).
Qed.
Lemma c_rval_runs v d : plain_rval mt v = true -> ok_dest d v = true ->
  forall im ss s x ss1 fuel, sim ss s -> code_at im (m_pc s) (c_rval rt mt v d) ->
  eval_rval rt mt fuel false ss v = ROk x ss1 ->
  ss1 = ss /\ exists n, esteps n im s = Some (put_vm s d x (zlength (c_rval rt mt v d)), []).
Proof. intros Hp Hd im ss s x ss1 fuel Hsim. exact (c_rval_runs_r v d Hp Hd im ss s x ss1 fuel (sim_simr _ _ Hsim)). Qed.
End Sim2.

(* ---------- stores preserve the correspondence ---------- *)
Lemma sim_put_reg_visible ss s r x k : sim ss s -> visible r = true ->
  sim (s_with_regs ss (rf_set (s_regs ss) r x)) (put_vm s (DReg r) x k).
Proof.
  intros H Hv. destruct H as [Hr Hf Hg Hfr Hl Hw Hu Hdf]. constructor; cbn; try assumption.
  - apply agree_set. exact Hr.
  - apply regs_full_set. exact Hf.
  - rewrite rf_get_set_other; [exact Hdf|]. destruct r; try reflexivity; discriminate.
Qed.

Lemma sim_put_reg_hidden ss s r x k : sim ss s -> visible r = false -> register_eqb R_DISC_FORWARD r = false -> sim ss (put_vm s (DReg r) x k).
Proof.
  intros H Hv Hnd. destruct H as [Hr Hf Hg Hfr Hl Hw Hu Hdf]. constructor; cbn; try assumption.
  - apply agree_set_hidden; assumption.
  - rewrite rf_get_set_other; [exact Hdf|exact Hnd].
Qed.

Lemma assign_other_fields ss y x : s_regs (assign ss y x) = s_regs ss /\ s_world (assign ss y x) = s_world ss /\ s_trace (assign ss y x) = s_trace ss.
Proof. unfold assign. destruct (s_locals ss) as [l|]; [destruct (env_has l y); [|destruct (env_has (s_globals ss) y)]|]; repeat split. Qed.

Lemma sim_put_var ss s y x k : sim ss s -> sim (assign ss y x) (put_vm s (DVar y) x k).
Proof.
  intros H. destruct H as [Hr Hf Hg Hv Hst Hw Hu Hdf].
  pose proof (put_var_refines (m_globals s) (m_frames s) y x Hst) as Hp.
  pose proof (sem_assign_is_scope_assign ss y x) as Ha.
  destruct (assign_other_fields ss y x) as [Er [Ew Et]].
  cbn [put_vm]. destruct (put_var (m_globals s) (m_frames s) y x) as [g' fs'] eqn:Ep. destruct Hp as [Hsc Hs'].
  unfold scope_of in Hsc. rewrite Hg, Hv, <- Ha in Hsc. injection Hsc as Hg' Hv'.
  constructor; cbn [m_regs m_globals m_frames m_world m_unnamed]; rewrite ?Er, ?Ew; assumption.
Qed.

Lemma put_vm_var_pc s y x k : m_pc (put_vm s (DVar y) x k) = m_pc s + k.
Proof. cbn [put_vm]. destruct (put_var (m_globals s) (m_frames s) y x). reflexivity. Qed.
Lemma put_vm_var_stack_fr s y x k : settled (m_frames s) = true -> (m_stack (put_vm s (DVar y) x k), fr (put_vm s (DVar y) x k)) = (m_stack s, fr s).
Proof.
  intros Hs. pose proof (erase_put_var (m_globals s) (m_frames s) y x Hs) as He. unfold fr. cbn [put_vm].
  destruct (put_var (m_globals s) (m_frames s) y x) as [g fs]. cbn [snd] in He. cbn [m_stack m_frames]. rewrite He. reflexivity.
Qed.

(* a hidden register can be set to anything *)
Definition set_hidden (s : mstate) (r : register) (x : value) (k : Z) : mstate := put_vm s (DReg r) x k.

(* ---------- unit switch ---------- *)
Lemma store_color_agree a b c : agree a b -> regs_full b ->
  match rf_store_color b c with
  | Ok rb => exists ra, rf_store_color a c = Ok ra /\ agree ra rb /\ regs_full rb
  | Err e => rf_store_color a c = Err e
  end.
Proof.
  intros H Hf. unfold rf_store_color. rewrite (unit_mode_agree a b H).
  destruct (rf_unit_mode b) as [m|e]; cbn [bind]; [|reflexivity].
  destruct c as [|c1 [|c2 [|c3 [|c4 [|c5 t]]]]]; try reflexivity.
  eexists. split; [reflexivity|]. destruct m; cbn [fold_left fst snd]; (split; [repeat apply agree_set; exact H|repeat apply regs_full_set; exact Hf]).
Qed.

Lemma switch_agree a b v rb : agree a b -> regs_full b -> rf_switch_unit_mode b v = Ok rb ->
  exists ra, rf_switch_unit_mode a v = Ok ra /\ agree ra rb /\ regs_full rb.
Proof.
  intros H Hf. unfold rf_switch_unit_mode. rewrite (unit_mode_agree a b H).
  destruct (rf_unit_mode b) as [from|e]; cbn [bind]; [|discriminate].
  destruct v; try discriminate.
  destruct (unit_mode_eqb from m).
  - intros E. inversion E. subst. exists a. auto.
  - rewrite (get_color_agree a b H). destruct (rf_get_color b) as [orig|e]; cbn [bind]; [|discriminate].
    destruct (convert_color from m orig) as [conv|e]; cbn [bind]; [|discriminate].
    pose proof (store_color_agree (rf_set a R_UNIT_MODE (VMode m)) (rf_set b R_UNIT_MODE (VMode m)) conv
                  (agree_set a b R_UNIT_MODE (VMode m) H) (regs_full_set b R_UNIT_MODE (VMode m) Hf)) as Hs.
    destruct (rf_store_color (rf_set b R_UNIT_MODE (VMode m)) conv) as [rb2|e]; cbn [bind]; [|discriminate].
    destruct Hs as (ra2 & Hsa & Hag & Hfull). rewrite Hsa. cbn [bind].
    rewrite (agree_rreg ra2 rb2 R_DURATION Hag eq_refl), (agree_rreg ra2 rb2 R_TIME Hag eq_refl).
    destruct m, from;
      try (intros E; inversion E; subst; eexists; split; [reflexivity|split; assumption]);
      (destruct (time_conv _ (rreg rb2 R_DURATION)) as [dd|e]; cbn [bind]; [|discriminate];
       destruct (time_conv _ (rreg rb2 R_TIME)) as [tt|e]; cbn [bind]; [|discriminate];
       intros E; inversion E; subst; eexists; split; [reflexivity|split; [repeat apply agree_set; exact Hag|repeat apply regs_full_set; exact Hfull]]).
Qed.

(* the unit switch rewrites the mode, the colour settings and the two times, nothing else *)
Lemma store_color_keeps a c ra r : rf_store_color a c = Ok ra ->
  match r with R_RED | R_GREEN | R_BLUE | R_KELVIN | R_HUE | R_SATURATION | R_BRIGHTNESS => False | _ => True end ->
  rf_get ra r = rf_get a r.
Proof.
  unfold rf_store_color. destruct (rf_unit_mode a) as [m|e]; cbn [bind]; [|discriminate].
  destruct c as [|c1 [|c2 [|c3 [|c4 [|c5 t]]]]]; try discriminate. intros E Hr. injection E as <-.
  destruct m; cbn [fold_left fst snd]; rewrite !rf_get_set_other; try reflexivity; destruct r; try reflexivity; contradiction.
Qed.
Lemma switch_keeps_disc a v ra : rf_switch_unit_mode a v = Ok ra -> rf_get ra R_DISC_FORWARD = rf_get a R_DISC_FORWARD.
Proof.
  unfold rf_switch_unit_mode. destruct (rf_unit_mode a) as [from|e]; cbn [bind]; [|discriminate].
  destruct v; try discriminate. destruct (unit_mode_eqb from m); [intros E; injection E as <-; reflexivity|].
  destruct (rf_get_color a) as [orig|e]; cbn [bind]; [|discriminate].
  destruct (convert_color from m orig) as [conv|e]; cbn [bind]; [|discriminate].
  destruct (rf_store_color (rf_set a R_UNIT_MODE (VMode m)) conv) as [r2|e] eqn:Es; cbn [bind]; [|discriminate].
  pose proof (store_color_keeps _ _ _ R_DISC_FORWARD Es I) as H2. rewrite rf_get_set_other in H2 by reflexivity.
  destruct m, from; try (intros E; injection E as <-; exact H2);
    (destruct (time_conv _ (rreg r2 R_DURATION)) as [dd|e]; cbn [bind]; [|discriminate];
     destruct (time_conv _ (rreg r2 R_TIME)) as [tt|e]; cbn [bind]; [|discriminate];
     intros E; injection E as <-; rewrite !rf_get_set_other by reflexivity; exact H2).
Qed.

Section Sim3.
Variable rt : rtable.
Variable mt : mtable.

Definition simulates (im : image) (ss : sstate) (s : mstate) (ss' : sstate) (code : program) : Prop :=
  exists n s' evs, esteps n im s = Some (s', evs) /\ sim ss' s' /\ m_pc s' = m_pc s + zlength code /\
                   (m_stack s', fr s') = (m_stack s, fr s) /\ rev (s_trace ss') = rev (s_trace ss) ++ evs.

(* the registers a script sets by name *)
Definition script_reg (r : register) : bool :=
  match r with
  | R_HUE | R_SATURATION | R_BRIGHTNESS | R_KELVIN | R_RED | R_GREEN | R_BLUE | R_DURATION | R_TIME => true
  | _ => false
  end.
Lemma script_reg_visible r : script_reg r = true -> visible r = true.
Proof. destruct r; cbn; intros H; try reflexivity; discriminate. Qed.
Lemma script_reg_writable r : script_reg r = true -> writable r = true.
Proof. destruct r; cbn; intros H; try reflexivity; discriminate. Qed.

(* unfolding of the reference semantics, one statement form at a time *)
Lemma exec_reg f ss r v : Sem.exec rt mt (S f) false ss (SReg r v) =
  (let* (x, s1) := eval_rval rt mt f false ss v in ROk SigNormal (s_with_regs s1 (rf_set (s_regs s1) r x))).
Proof. reflexivity. Qed.
Lemma exec_assign f ss y v : Sem.exec rt mt (S f) false ss (SAssign y v) =
  (let* (x, s1) := eval_rval rt mt f false ss v in ROk SigNormal (assign s1 y x)).
Proof. reflexivity. Qed.
Lemma exec_units f ss m : Sem.exec rt mt (S f) false ss (SUnits m) =
  match rf_switch_unit_mode (s_regs ss) (VMode m) with Ok rf => ROk SigNormal (s_with_regs ss rf) | Err e => RErr e ss end.
Proof. reflexivity. Qed.
Lemma exec_wait f ss : Sem.exec rt mt (S f) false ss SWait = (let* (_, s1) := do_wait ss in ROk SigNormal s1).
Proof. reflexivity. Qed.
Lemma exec_print f ss v : Sem.exec rt mt (S f) false ss (SPrint (Some v)) =
  (let* (x, s1) := eval_rval rt mt f false ss v in ROk SigNormal (s_emit s1 [EvOut x])).
Proof. reflexivity. Qed.
Lemma exec_println f ss v : Sem.exec rt mt (S f) false ss (SPrintln (Some v)) =
  (let* (x, s1) := eval_rval rt mt f false ss v in ROk SigNormal (s_emit s1 [EvOut x; EvNewline])).
Proof. reflexivity. Qed.
Lemma exec_println0 f ss : Sem.exec rt mt (S f) false ss (SPrintln None) = ROk SigNormal (s_emit ss [EvNewline]).
Proof. reflexivity. Qed.
Lemma exec_print0 f ss : Sem.exec rt mt (S f) false ss (SPrint None) = ROk SigNormal ss.
Proof. reflexivity. Qed.

Lemma trace_emit ss evs : rev (s_trace (s_emit ss evs)) = rev (s_trace ss) ++ evs.
Proof. unfold s_emit. cbn [s_trace]. rewrite rev_append_rev, rev_app_distr, rev_involutive. reflexivity. Qed.

Lemma sim_emit ss s evs : sim ss s -> sim (s_emit ss evs) s.
Proof. intros H. destruct H. constructor; assumption. Qed.

(* ---- register setting ---- *)
Lemma sim_SReg r v : script_reg r = true -> plain_rval mt v = true -> ok_dest (DReg r) v = true ->
  forall im ss s ss' fuel, sim ss s -> code_at im (m_pc s) (c_stmt rt mt false None (SReg r v)) ->
  Sem.exec rt mt fuel false ss (SReg r v) = ROk SigNormal ss' -> simulates im ss s ss' (c_stmt rt mt false None (SReg r v)).
Proof.
  intros Hr Hp Hd im ss s ss' fuel Hsim Hc He. destruct fuel as [|fuel]; [discriminate|]. rewrite exec_reg in He.
  change (c_stmt rt mt false None (SReg r v)) with (c_rval rt mt v (DReg r)) in *.
  destruct (eval_rval rt mt fuel false ss v) as [x s1|e s1|s1] eqn:Ev; cbn [sbind] in He; try discriminate.
  destruct (c_rval_runs rt mt v (DReg r) Hp Hd im ss s x s1 fuel Hsim Hc Ev) as [Hs1 [n Hn]]. subst s1.
  injection He as He. subst ss'. exists n, (put_vm s (DReg r) x (zlength (c_rval rt mt v (DReg r)))), [].
  split; [exact Hn|]. split; [apply sim_put_reg_visible; [exact Hsim|apply script_reg_visible; exact Hr]|].
  split; [reflexivity|]. split; [reflexivity|]. rewrite app_nil_r. reflexivity.
Qed.

(* ---- assignment ---- *)
Lemma sim_SAssign y v : plain_rval mt v = true -> ok_dest (DVar y) v = true ->
  forall im ss s ss' fuel, sim ss s -> code_at im (m_pc s) (c_stmt rt mt false None (SAssign y v)) ->
  Sem.exec rt mt fuel false ss (SAssign y v) = ROk SigNormal ss' -> simulates im ss s ss' (c_stmt rt mt false None (SAssign y v)).
Proof.
  intros Hp Hd im ss s ss' fuel Hsim Hc He. destruct fuel as [|fuel]; [discriminate|]. rewrite exec_assign in He.
  change (c_stmt rt mt false None (SAssign y v)) with (c_rval rt mt v (DVar y)) in *.
  destruct (eval_rval rt mt fuel false ss v) as [x s1|e s1|s1] eqn:Ev; cbn [sbind] in He; try discriminate.
  destruct (c_rval_runs rt mt v (DVar y) Hp Hd im ss s x s1 fuel Hsim Hc Ev) as [Hs1 [n Hn]]. subst s1.
  injection He as He. subst ss'. exists n, (put_vm s (DVar y) x (zlength (c_rval rt mt v (DVar y)))), [].
  split; [exact Hn|]. split; [apply sim_put_var; exact Hsim|].
  split; [apply put_vm_var_pc|]. split; [apply put_vm_var_stack_fr; exact (sim_settled _ _ Hsim)|]. rewrite app_nil_r. destruct (assign_other_fields ss y x) as [_ [_ Et]]. rewrite Et. reflexivity.
Qed.
End Sim3.

Section Sim4.
Variable rt : rtable.
Variable mt : mtable.

Lemma plain_ok_result v : plain_rval mt v = true -> ok_dest (DReg R_RESULT) v = true.
Proof. destruct v; cbn; intros H; try reflexivity; try discriminate. destruct r; try reflexivity; discriminate. Qed.

(* ---- units ---- *)
Lemma sim_SUnits m im ss s ss' fuel : sim ss s -> code_at im (m_pc s) (c_stmt rt mt false None (SUnits m)) ->
  Sem.exec rt mt fuel false ss (SUnits m) = ROk SigNormal ss' -> simulates im ss s ss' (c_stmt rt mt false None (SUnits m)).
Proof.
  intros Hsim Hc He. destruct fuel as [|fuel]; [discriminate|]. rewrite exec_units in He.
  destruct (rf_switch_unit_mode (s_regs ss) (VMode m)) as [rb|e] eqn:Es; [|discriminate]. injection He as He. subst ss'.
  destruct (switch_agree (m_regs s) (s_regs ss) (VMode m) rb (sim_regs _ _ Hsim) (sim_full _ _ Hsim) Es) as (ra & Ha & Hag & Hfull).
  change (c_stmt rt mt false None (SUnits m)) with [I2 OC_MOVEQ (PMode m) (PReg R_UNIT_MODE)] in *.
  cbn [code_at] in Hc. destruct Hc as [Hf _].
  exists 1%nat, (advance (with_regs s ra)), []. split.
  - apply (estep1 im s _ _ _ Hf). cbn [Machine.exec i_op i_p0 i_p1 I2 param_value]. unfold switch_unit_mode. rewrite Ha. reflexivity.
  - destruct Hsim as [Hr Hfu Hg Hfr Hl Hw Hu Hdf]. split; [constructor; cbn; try assumption; rewrite (switch_keeps_disc _ _ _ Ha); exact Hdf|].
    split; [reflexivity|]. split; [reflexivity|]. rewrite app_nil_r. reflexivity.
Qed.

(* ---- wait ---- *)
Lemma wait_sim im ss s ss1 : sim ss s -> fetch im (m_pc s) = Some (I0 OC_WAIT) -> do_wait ss = ROk tt ss1 ->
  exists evs, esteps 1 im s = Some (advance s, evs) /\ sim ss1 (advance s) /\ rev (s_trace ss1) = rev (s_trace ss) ++ evs.
Proof.
  intros Hsim Hf Hw. unfold do_wait in Hw. pose proof (rf_wait_agree (m_regs s) (s_regs ss) (sim_regs _ _ Hsim)) as Ha.
  assert (Hadv : forall ss0, sim ss0 s -> sim ss0 (advance s)) by (intros ss0 H; destruct H; constructor; assumption).
  destruct (rf_wait (s_regs ss)) as [[|t|p]|e] eqn:Er; try discriminate; injection Hw as Hw; subst ss1.
  - exists []. split; [apply (estep1 im s _ _ _ Hf); cbn [Machine.exec i_op I0]; rewrite Ha; reflexivity|].
    split; [apply Hadv; exact Hsim|rewrite app_nil_r; reflexivity].
  - exists [EvPause t]. split; [apply (estep1 im s _ _ _ Hf); cbn [Machine.exec i_op I0]; rewrite Ha; reflexivity|].
    split; [apply Hadv; apply sim_emit; exact Hsim|apply trace_emit].
  - exists [EvWaitUntil p]. split; [apply (estep1 im s _ _ _ Hf); cbn [Machine.exec i_op I0]; rewrite Ha; reflexivity|].
    split; [apply Hadv; apply sim_emit; exact Hsim|apply trace_emit].
Qed.

Lemma sim_SWait im ss s ss' fuel : sim ss s -> code_at im (m_pc s) (c_stmt rt mt false None SWait) ->
  Sem.exec rt mt fuel false ss SWait = ROk SigNormal ss' -> simulates im ss s ss' (c_stmt rt mt false None SWait).
Proof.
  intros Hsim Hc He. destruct fuel as [|fuel]; [discriminate|]. rewrite exec_wait in He.
  destruct (do_wait ss) as [[] s1|e s1|s1] eqn:Ew; cbn [sbind] in He; try discriminate. injection He as He. subst ss'.
  change (c_stmt rt mt false None SWait) with [I0 OC_WAIT] in *. cbn [code_at] in Hc. destruct Hc as [Hf _].
  destruct (wait_sim im ss s s1 Hsim Hf Ew) as (evs & Hst & Hs & Ht).
  exists 1%nat, (advance s), evs. split; [exact Hst|]. split; [exact Hs|]. split; [reflexivity|]. split; [reflexivity|exact Ht].
Qed.

(* ---- time at ---- *)
Definition pat_of (t : time_ref) : option tp :=
  match t with TPat _ q => Some q | TMacro m => match macro mt m with VTime q => Some q | _ => None end end.
Definition pat_param (t : time_ref) : param := match t with TPat _ p => PTime p | TMacro m => macro_param mt m end.
Definition is_pat (t : time_ref) : bool := match pat_of t with Some _ => true | None => false end.
Definition pats_of (r : list time_ref) : list tp := flat_map (fun t => match pat_of t with Some q => [q] | None => [] end) r.
(* the patterns of `time at p or q ...`: literals, or constants defined as patterns *)
Definition simple_times (ps : list time_ref) : bool := match ps with [] => false | _ => forallb is_pat ps end.

Lemma pat_param_of t q : pat_of t = Some q -> pat_param t = PTime q.
Proof.
  destruct t as [x p|m]; cbn [pat_of pat_param]; [intros H; injection H as <-; reflexivity|].
  unfold macro_param. destruct (macro mt m); try discriminate. intros H; injection H as <-. reflexivity.
Qed.
Lemma rf_set_set rf r a b : rf_set (rf_set rf r a) r b = rf_set rf r b.
Proof.
  induction rf as [|[r' v'] t IH]; cbn [rf_set]; [rewrite register_eqb_refl; reflexivity|].
  destruct (register_eqb r r') eqn:E; cbn [rf_set]; [rewrite register_eqb_refl; reflexivity|]. rewrite E, IH. reflexivity.
Qed.
Lemma rf_set_get rf r v : rf_get rf r = Some v -> rf_set rf r v = rf.
Proof.
  induction rf as [|[r' v'] t IH]; cbn [rf_set rf_get]; [discriminate|].
  destruct (register_eqb r r') eqn:E; [apply register_eqb_eq in E; subst r'; intros H; injection H as <-; reflexivity|].
  intros H. rewrite (IH H). reflexivity.
Qed.
Lemma s_with_regs_same ss : s_with_regs ss (s_regs ss) = ss.
Proof. destruct ss; reflexivity. Qed.
Lemma s_with_regs_twice ss a b : s_with_regs (s_with_regs ss a) b = s_with_regs ss b.
Proof. destruct ss; reflexivity. Qed.
Lemma exec_timeat f ss ps : Sem.exec rt mt (S f) false ss (STimeAt ps) =
  match map pat_of ps with
  | Some p :: rest =>
      if forallb (fun o : option tp => match o with Some _ => true | None => false end) rest
      then ROk SigNormal (s_with_regs ss (rf_set (s_regs ss) R_TIME (VTime (tp_union_all p (flat_map (fun o : option tp => match o with Some q => [q] | None => [] end) rest)))))
      else RErr (EInternal "time pattern expected") ss
  | _ => RErr (EInternal "time pattern expected") ss
  end.
Proof. reflexivity. Qed.
Lemma forallb_pats r : forallb (fun o : option tp => match o with Some _ => true | None => false end) (map pat_of r) = forallb is_pat r.
Proof. induction r as [|t r IH]; [reflexivity|]. cbn [map forallb]. rewrite IH. reflexivity. Qed.
Lemma flat_map_pats r : flat_map (fun o : option tp => match o with Some q => [q] | None => [] end) (map pat_of r) = pats_of r.
Proof. induction r as [|t r IH]; [reflexivity|]. unfold pats_of in *. cbn [map flat_map]. rewrite IH. reflexivity. Qed.

(* TIME_PATTERN UNION q, one per further pattern *)
Lemma time_unions im : forall r ss s cur, sim ss s -> rf_get (s_regs ss) R_TIME = Some (VTime cur) -> forallb is_pat r = true ->
  code_at im (m_pc s) (map (fun q => I2 OC_TIME_PATTERN (PSetOp SO_UNION) (pat_param q)) r) ->
  exists s', esteps (length r) im s = Some (s', []) /\
             sim (s_with_regs ss (rf_set (s_regs ss) R_TIME (VTime (fold_left tp_union (pats_of r) cur)))) s' /\
             m_pc s' = m_pc s + zlength r /\ (m_stack s', fr s') = (m_stack s, fr s).
Proof.
  induction r as [|t r IH]; intros ss s cur Hsim Hcur Hall Hc.
  - exists s. split; [reflexivity|]. cbn [pats_of flat_map fold_left]. rewrite (rf_set_get _ _ _ Hcur), s_with_regs_same.
    split; [exact Hsim|]. split; [unfold zlength; cbn; lia|reflexivity].
  - cbn [forallb] in Hall. apply andb_true_iff in Hall. destruct Hall as [Ht Hr]. unfold is_pat in Ht.
    destruct (pat_of t) as [q|] eqn:Eq; [|discriminate].
    cbn [map code_at] in Hc. destruct Hc as [Hf Hc]. rewrite (pat_param_of t q Eq) in Hf.
    set (x := VTime (tp_union cur q)).
    set (s1 := put_vm s (DReg R_TIME) x 1).
    set (ss1 := s_with_regs ss (rf_set (s_regs ss) R_TIME x)).
    assert (E1 : esteps 1 im s = Some (s1, [])).
    { apply (estep1 im s _ _ _ Hf). cbn [Machine.exec i_op i_p0 i_p1 I2]. unfold reg. rewrite (sim_get_reg ss s R_TIME Hsim eq_refl). unfold rreg. rewrite Hcur.
      exact (lift_put s (DReg R_TIME) x eq_refl). }
    assert (Hs1 : sim ss1 s1) by (apply sim_put_reg_visible; [exact Hsim|reflexivity]).
    assert (Hcur1 : rf_get (s_regs ss1) R_TIME = Some (VTime (tp_union cur q))) by apply rf_get_set_same.
    destruct (IH ss1 s1 (tp_union cur q) Hs1 Hcur1 Hr Hc) as (s' & E & Hs' & Hpc & Hsf).
    exists s'. split; [change (length (t :: r)) with (1 + length r)%nat; replace (@nil event) with (@nil event ++ @nil event) by reflexivity; eapply esteps_app; eassumption|].
    unfold ss1 in Hs'. rewrite s_with_regs_twice in Hs'.
    assert (Hregs : s_regs (s_with_regs ss (rf_set (s_regs ss) R_TIME x)) = rf_set (s_regs ss) R_TIME x) by (destruct ss; reflexivity).
    rewrite Hregs, rf_set_set in Hs'.
    unfold pats_of. cbn [flat_map]. rewrite Eq. cbn [app fold_left]. fold (pats_of r).
    split; [exact Hs'|]. split; [rewrite Hpc; unfold s1; cbn [put_vm m_pc]; unfold zlength; cbn [length]; lia|]. rewrite Hsf. reflexivity.
Qed.

Lemma sim_STimeAt ps im ss s ss' fuel : simple_times ps = true -> sim ss s -> code_at im (m_pc s) (c_stmt rt mt false None (STimeAt ps)) ->
  Sem.exec rt mt fuel false ss (STimeAt ps) = ROk SigNormal ss' -> simulates im ss s ss' (c_stmt rt mt false None (STimeAt ps)).
Proof.
  intros Hp Hsim Hc He. destruct fuel as [|fuel]; [discriminate|]. rewrite exec_timeat in He.
  destruct ps as [|t r]; [discriminate|]. cbn [simple_times forallb] in Hp. apply andb_true_iff in Hp. destruct Hp as [Ht Hr]. unfold is_pat in Ht.
  destruct (pat_of t) as [p|] eqn:Ep; [|discriminate].
  cbn [map] in He. rewrite Ep, forallb_pats, Hr, flat_map_pats in He. injection He as He. subst ss'.
  change (c_stmt rt mt false None (STimeAt (t :: r))) with
    (I2 OC_TIME_PATTERN (PSetOp SO_INIT) (pat_param t) :: map (fun q => I2 OC_TIME_PATTERN (PSetOp SO_UNION) (pat_param q)) r) in *.
  cbn [code_at] in Hc. destruct Hc as [Hf Hc]. rewrite (pat_param_of t p Ep) in Hf.
  set (s1 := put_vm s (DReg R_TIME) (VTime p) 1).
  set (ss1 := s_with_regs ss (rf_set (s_regs ss) R_TIME (VTime p))).
  assert (E1 : esteps 1 im s = Some (s1, [])).
  { apply (estep1 im s _ _ _ Hf). cbn [Machine.exec i_op i_p0 i_p1 I2]. exact (lift_put s (DReg R_TIME) (VTime p) eq_refl). }
  assert (Hs1 : sim ss1 s1) by (apply sim_put_reg_visible; [exact Hsim|reflexivity]).
  assert (Hcur1 : rf_get (s_regs ss1) R_TIME = Some (VTime p)) by apply rf_get_set_same.
  destruct (time_unions im r ss1 s1 p Hs1 Hcur1 Hr Hc) as (s' & E & Hs' & Hpc & Hsf).
  unfold ss1 in Hs'. rewrite s_with_regs_twice in Hs'.
  assert (Hregs : s_regs (s_with_regs ss (rf_set (s_regs ss) R_TIME (VTime p))) = rf_set (s_regs ss) R_TIME (VTime p)) by (destruct ss; reflexivity).
  rewrite Hregs, rf_set_set in Hs'.
  exists (1 + length r)%nat, s', ([] ++ []). split; [eapply esteps_app; eassumption|]. split; [exact Hs'|].
  split; [rewrite Hpc; unfold s1; cbn [put_vm m_pc]; unfold zlength; cbn [length]; rewrite map_length; lia|]. split; [rewrite Hsf; reflexivity|].
  rewrite app_nil_r. destruct ss; reflexivity.
Qed.
End Sim4.

Section Sim5.
Variable rt : rtable.
Variable mt : mtable.

(* ---- print / println ---- *)
Lemma out_register_print im s x (nl : bool) :
  m_unnamed s = [] -> rf_get (m_regs s) R_RESULT = Some x ->
  code_at im (m_pc s) ([I2 OC_OUT (PIoOp IO_REGISTER) (PReg R_RESULT); I1 OC_OUT (PIoOp IO_PRINT)] ++ (if nl then [I1 OC_OUT (PIoOp IO_PRINT_END)] else [])) ->
  esteps (if nl then 3 else 2) im s =
    Some (with_pc s (m_pc s + (if nl then 3 else 2)), EvOut x :: (if nl then [EvNewline] else [])).
Proof.
  intros Hu Hr Hc. cbn [app code_at] in Hc. destruct Hc as [Hf1 [Hf2 Hc3]].
  set (s1 := advance (with_unnamed s (m_unnamed s ++ [x]))).
  assert (E1 : Machine.exec im (I2 OC_OUT (PIoOp IO_REGISTER) (PReg R_RESULT)) s = Next s1 []).
  { cbn [Machine.exec i_op i_p0 i_p1 I2]. unfold get_reg. rewrite Hr. reflexivity. }
  set (s2 := advance (with_unnamed s1 [])).
  assert (E2 : Machine.exec im (I1 OC_OUT (PIoOp IO_PRINT)) s1 = Next s2 [EvOut x]).
  { cbn [Machine.exec i_op i_p0 I1]. unfold s1. cbn [m_unnamed advance with_pc with_unnamed]. rewrite Hu. reflexivity. }
  assert (Hs2 : s2 = with_pc s (m_pc s + 2)).
  { unfold s2, s1, advance, with_pc, with_unnamed. cbn. rewrite Hu. f_equal. lia. }
  destruct nl.
  - destruct Hc3 as [Hf3 _].
    change 3%nat with (1 + (1 + 1))%nat. replace (EvOut x :: [EvNewline]) with ([] ++ ([EvOut x] ++ [EvNewline])) by reflexivity.
    eapply esteps_app; [apply (estep1 im s _ _ _ Hf1 E1)|]. eapply esteps_app; [apply (estep1 im s1 _ _ _ Hf2 E2)|].
    assert (Hf3' : fetch im (m_pc s2) = Some (I1 OC_OUT (PIoOp IO_PRINT_END))) by (rewrite Hs2; cbn [m_pc with_pc]; replace (m_pc s + 2) with (m_pc s + 1 + 1) by lia; exact Hf3).
    apply (estep1 im s2 _ _ _ Hf3'). cbn [Machine.exec i_op i_p0 I1]. rewrite Hs2. unfold advance, with_pc. cbn. do 2 f_equal. lia.
  - change 2%nat with (1 + 1)%nat. replace [EvOut x] with ([] ++ [EvOut x]) by reflexivity.
    eapply esteps_app; [apply (estep1 im s _ _ _ Hf1 E1)|]. rewrite <- Hs2. apply (estep1 im s1 _ _ _ Hf2 E2).
Qed.

Lemma sim_print_gen (nl : bool) v im ss s ss' fuel : plain_rval mt v = true -> sim ss s ->
  code_at im (m_pc s) (c_stmt rt mt false None (if nl then SPrintln (Some v) else SPrint (Some v))) ->
  Sem.exec rt mt fuel false ss (if nl then SPrintln (Some v) else SPrint (Some v)) = ROk SigNormal ss' ->
  simulates im ss s ss' (c_stmt rt mt false None (if nl then SPrintln (Some v) else SPrint (Some v))).
Proof.
  intros Hp Hsim Hc He. destruct fuel as [|fuel]; [discriminate|].
  set (tail := [I2 OC_OUT (PIoOp IO_REGISTER) (PReg R_RESULT); I1 OC_OUT (PIoOp IO_PRINT)] ++ (if nl then [I1 OC_OUT (PIoOp IO_PRINT_END)] else [])).
  assert (Hcode : c_stmt rt mt false None (if nl then SPrintln (Some v) else SPrint (Some v)) = c_rval rt mt v (DReg R_RESULT) ++ tail)
    by (destruct nl; reflexivity).
  rewrite Hcode in *. apply code_at_app in Hc. destruct Hc as [Hcv Hct].
  assert (Hex : exists x, eval_rval rt mt fuel false ss v = ROk x ss /\ ss' = s_emit ss (EvOut x :: (if nl then [EvNewline] else []))).
  { destruct nl; [rewrite exec_println in He|rewrite exec_print in He];
      destruct (eval_rval rt mt fuel false ss v) as [x s1|e s1|s1] eqn:Ev; cbn [sbind] in He; try discriminate;
      destruct (c_rval_runs rt mt v (DReg R_RESULT) Hp (plain_ok_result mt v Hp) im ss s x s1 fuel Hsim Hcv Ev) as [Hs1 _]; subst s1;
      injection He as He; exists x; (split; [reflexivity|symmetry; exact He]). }
  destruct Hex as (x & Ev & Hss'). subst ss'.
  destruct (c_rval_runs rt mt v (DReg R_RESULT) Hp (plain_ok_result mt v Hp) im ss s x ss fuel Hsim Hcv Ev) as [_ [n Hn]].
  set (k := zlength (c_rval rt mt v (DReg R_RESULT))) in *.
  set (s1 := put_vm s (DReg R_RESULT) x k) in *.
  assert (Hsim1 : sim ss s1) by (apply sim_put_reg_hidden; [exact Hsim|reflexivity|reflexivity]).
  assert (Hu1 : m_unnamed s1 = []) by exact (sim_unnamed _ _ Hsim1).
  assert (Hr1 : rf_get (m_regs s1) R_RESULT = Some x) by (unfold s1; cbn [put_vm m_regs]; apply rf_get_set_same).
  assert (Hct1 : code_at im (m_pc s1) tail) by exact Hct.
  pose proof (out_register_print im s1 x nl Hu1 Hr1 Hct1) as Hout.
  exists (n + (if nl then 3 else 2))%nat, (with_pc s1 (m_pc s1 + (if nl then 3 else 2))), ([] ++ EvOut x :: (if nl then [EvNewline] else [])).
  split; [eapply esteps_app; [exact Hn|exact Hout]|].
  split.
  { apply sim_emit. destruct Hsim1 as [Hr Hfu Hg Hfr Hl Hw Hu Hdf]. constructor; cbn; assumption. }
  split.
  { cbn [m_pc with_pc]. unfold s1. cbn [put_vm m_pc]. unfold zlength, tail. rewrite !app_length. destruct nl; cbn [length]; rewrite !Nat2Z.inj_add; cbn; unfold k, zlength; lia. }
  split; [reflexivity|]. cbn [app]. apply trace_emit.
Qed.

Lemma sim_SPrint v im ss s ss' fuel : plain_rval mt v = true -> sim ss s ->
  code_at im (m_pc s) (c_stmt rt mt false None (SPrint (Some v))) ->
  Sem.exec rt mt fuel false ss (SPrint (Some v)) = ROk SigNormal ss' -> simulates im ss s ss' (c_stmt rt mt false None (SPrint (Some v))).
Proof. exact (sim_print_gen false v im ss s ss' fuel). Qed.

Lemma sim_SPrintln v im ss s ss' fuel : plain_rval mt v = true -> sim ss s ->
  code_at im (m_pc s) (c_stmt rt mt false None (SPrintln (Some v))) ->
  Sem.exec rt mt fuel false ss (SPrintln (Some v)) = ROk SigNormal ss' -> simulates im ss s ss' (c_stmt rt mt false None (SPrintln (Some v))).
Proof. exact (sim_print_gen true v im ss s ss' fuel). Qed.
End Sim5.

(* ---------- device commands ---------- *)
Lemma dev_sim (f : regfile -> world -> dres) :
  (forall a b w, agree a b -> f a w = rebase a (f b w)) ->
  forall ss s ss1, sim ss s -> dev_step ss (f (s_regs ss) (s_world ss)) = ROk tt ss1 ->
  exists s1 evs, dev_outcome s (f (m_regs s) (m_world s)) = Next s1 evs /\ sim ss1 s1 /\ m_pc s1 = m_pc s + 1 /\
                 (m_stack s1, fr s1) = (m_stack s, fr s) /\ rev (s_trace ss1) = rev (s_trace ss) ++ evs.
Proof.
  intros Hresp ss s ss1 Hsim Hd.
  pose proof (Hresp (m_regs s) (s_regs ss) (s_world ss) (sim_regs _ _ Hsim)) as Hvm.
  pose proof (Hresp (s_regs ss) (s_regs ss) (s_world ss) (agree_refl _)) as Hkeep.
  rewrite (sim_world _ _ Hsim). rewrite Hvm.
  destruct (f (s_regs ss) (s_world ss)) as [d|e] eqn:Ef; cbn [dev_step] in Hd; [|discriminate].
  cbn [rebase] in Hkeep. injection Hkeep as Hkeep. injection Hd as Hd. subst ss1.
  cbn [rebase dev_outcome d_regs d_world d_events].
  eexists. exists (d_events d). split; [reflexivity|].
  destruct Hsim as [Hr Hfu Hg Hfr Hl Hw Hu Hdf].
  split.
  { constructor; cbn; try assumption; try reflexivity.
    - rewrite Hkeep. cbn [d_regs]. exact Hr.
    - rewrite Hkeep. cbn [d_regs]. exact Hfu. }
  split; [reflexivity|]. split; [reflexivity|].
  cbn [s_trace]. rewrite rev_append_rev, rev_app_distr, rev_involutive. reflexivity.
Qed.

Section Sim6.
Variable rt : rtable.
Variable mt : mtable.

Lemma exec_set f ss ops : Sem.exec rt mt (S f) false ss (SSet ops) =
  (let* (_, s1) := do_wait ss in let* (_, s2) := exec_ops rt mt f false s1 true ops in ROk SigNormal s2).
Proof. reflexivity. Qed.
Lemma exec_power f ss (on : bool) ops : Sem.exec rt mt (S f) false ss (if on then SOn ops else SOff ops) =
  (let s0 := s_with_regs ss (rf_set (s_regs ss) R_POWER (VBool on)) in
   let* (_, s1) := do_wait s0 in let* (_, s2) := exec_ops rt mt f false s1 false ops in ROk SigNormal s2).
Proof. destruct on; reflexivity. Qed.
Lemma exec_ops_all f ss (c : bool) : exec_ops rt mt (S f) false ss c OpAll =
  dev_step ss (if c then do_color_all (s_regs ss) (s_world ss) else do_power_all (s_regs ss) (s_world ss)).
Proof. reflexivity. Qed.
Lemma exec_ops_default f ss (c : bool) : exec_ops rt mt (S f) false ss c OpDefault =
  dev_step ss (if c then do_color_default (s_regs ss) (s_world ss) else Err (EInternal "POWER with an operand it has no handler for")).
Proof. reflexivity. Qed.
Lemma c_ops_default op : c_ops rt mt false op OpDefault = [I2 OC_MOVEQ (POperand OD_DEFAULT) (PReg R_OPERAND); I0 op].
Proof. reflexivity. Qed.
Lemma raw_color_agree a b : agree a b -> rf_raw_color a = rf_raw_color b.
Proof. intros H. unfold rf_raw_color. rewrite (unit_mode_agree a b H), (get_color_agree a b H). reflexivity. Qed.
Lemma exec_ops_list f ss (c : bool) l : exec_ops rt mt (S f) false ss c (OpList l) = exec_oplist rt mt f false ss c l.
Proof. reflexivity. Qed.
Lemma exec_oplist_nil f ss (c : bool) : exec_oplist rt mt (S f) false ss c [] = ROk tt ss.
Proof. reflexivity. Qed.
Lemma exec_oplist_cons f ss (c : bool) o r : exec_oplist rt mt (S f) false ss c (o :: r) =
  (let* (_, s1) := exec_operand rt mt f false ss c o in exec_oplist rt mt f false s1 c r).
Proof. reflexivity. Qed.

Definition target_cmdv (k : target_kind) (c : bool) (name : value) (rf : regfile) (w : world) : dres :=
  match k, c with
  | TLight, true => do_color_light rf w name
  | TGroup, true => do_color_set OD_GROUP rf w name
  | TLocation, true => do_color_set OD_LOCATION rf w name
  | TLight, false => do_power_light rf w name
  | TGroup, false => do_power_set OD_GROUP rf w name
  | TLocation, false => do_power_set OD_LOCATION rf w name
  end.
Definition target_cmd (k : target_kind) (c : bool) (n : string) (rf : regfile) (w : world) : dres := target_cmdv k c (VStr n) rf w.
Lemma exec_operand_targetv f ss (c : bool) k n : exec_operand rt mt (S f) false ss c (Target k n) =
  dev_step ss (target_cmdv k c (name_of mt ss n) (s_regs ss) (s_world ss)).
Proof. destruct k, c; reflexivity. Qed.
Lemma exec_operand_target f ss (c : bool) k n : exec_operand rt mt (S f) false ss c (Target k (NStr n)) =
  dev_step ss (target_cmd k c n (s_regs ss) (s_world ss)).
Proof. destruct k, c; reflexivity. Qed.

Lemma target_cmdv_respects k c name a b w : agree a b -> target_cmdv k c name a w = rebase a (target_cmdv k c name b w).
Proof.
  intros H. destruct k, c; cbn [target_cmdv];
    [apply do_color_light_agree|apply do_power_light_agree|apply do_color_set_agree|apply do_power_set_agree|apply do_color_set_agree|apply do_power_set_agree]; exact H.
Qed.
Lemma target_cmd_respects k c n a b w : agree a b -> target_cmd k c n a w = rebase a (target_cmd k c n b w).
Proof. apply target_cmdv_respects. Qed.

Definition all_cmd (c : bool) (rf : regfile) (w : world) : dres := if c then do_color_all rf w else do_power_all rf w.
Lemma all_cmd_respects c a b w : agree a b -> all_cmd c a w = rebase a (all_cmd c b w).
Proof. intros H. destruct c; [apply do_color_all_agree|apply do_power_all_agree]; exact H. Qed.

Definition kind_operand (k : target_kind) : operand := match k with TLight => OD_LIGHT | TGroup => OD_GROUP | TLocation => OD_LOCATION end.
Definition cmd_op (c : bool) : opcode := if c then OC_COLOR else OC_POWER.

(* the machine's command instruction, once NAME and OPERAND are loaded *)
Lemma exec_cmd_targetv im s (c : bool) k name :
  rf_get (m_regs s) R_NAME = Some name -> rf_get (m_regs s) R_OPERAND = Some (VOperand (kind_operand k)) ->
  Machine.exec im (I0 (cmd_op c)) s = dev_outcome s (target_cmdv k c name (m_regs s) (m_world s)).
Proof.
  intros Hn Ho. destruct c; cbn [cmd_op Machine.exec i_op I0]; unfold cmd_color, cmd_power, reg, get_reg; rewrite Hn, Ho; destruct k; reflexivity.
Qed.
Lemma exec_cmd_target im s (c : bool) k n :
  rf_get (m_regs s) R_NAME = Some (VStr n) -> rf_get (m_regs s) R_OPERAND = Some (VOperand (kind_operand k)) ->
  Machine.exec im (I0 (cmd_op c)) s = dev_outcome s (target_cmd k c n (m_regs s) (m_world s)).
Proof. apply exec_cmd_targetv. Qed.
Lemma exec_cmd_all im s (c : bool) :
  rf_get (m_regs s) R_OPERAND = Some (VOperand OD_ALL) ->
  Machine.exec im (I0 (cmd_op c)) s = dev_outcome s (all_cmd c (m_regs s) (m_world s)).
Proof.
  intros Ho. destruct c; cbn [cmd_op Machine.exec i_op I0]; unfold cmd_color, cmd_power, reg, get_reg; rewrite Ho; reflexivity.
Qed.

(* ---- get ---- *)
Lemma do_get_agree a b w x : agree a b -> regs_full b ->
  match do_get b w x with
  | Ok d => exists ra, do_get a w x = Ok (mkDev ra (d_world d) (d_events d)) /\ agree ra (d_regs d) /\ regs_full (d_regs d) /\
                       rf_get ra R_DISC_FORWARD = rf_get a R_DISC_FORWARD
  | Err e => do_get a w x = Err e
  end.
Proof.
  intros H Hf. unfold do_get. destruct (as_name x) as [n|]; [|exists a; repeat split; assumption].
  destruct (find_light w n) as [l|]; [|exists a; repeat split; assumption].
  destruct (l_kind l); try (exists a; repeat split; assumption).
  rewrite (unit_mode_agree a b H). destruct (rf_unit_mode b) as [m|e]; cbn [bind]; [|reflexivity].
  destruct (assure_units m (map VInt (l_color l))) as [c|e]; cbn [bind]; [|reflexivity].
  pose proof (store_color_agree a b c H Hf) as Hs. destruct (rf_store_color b c) as [rb|e]; [|rewrite Hs; reflexivity].
  destruct Hs as (ra & Ha & Hag & Hfull). rewrite Ha. exists ra. split; [reflexivity|]. split; [exact Hag|]. split; [exact Hfull|].
  exact (store_color_keeps a c ra R_DISC_FORWARD Ha I).
Qed.

Lemma exec_get f ss n : Sem.exec rt mt (S f) false ss (SGet n) =
  (let* (x, s1) := eval_rval rt mt f false ss n in let* (_, s2) := dev_step s1 (do_get (s_regs s1) (s_world s1) x) in ROk SigNormal s2).
Proof. reflexivity. Qed.

Lemma sim_SGet n im ss s ss' fuel : plain_rval mt n = true -> sim ss s -> code_at im (m_pc s) (c_stmt rt mt false None (SGet n)) ->
  Sem.exec rt mt fuel false ss (SGet n) = ROk SigNormal ss' -> simulates im ss s ss' (c_stmt rt mt false None (SGet n)).
Proof.
  intros Hp Hsim Hc He. destruct fuel as [|fuel]; [discriminate|]. rewrite exec_get in He.
  change (c_stmt rt mt false None (SGet n)) with (c_rval rt mt n (DReg R_RESULT) ++ [I2 OC_MOVE (PReg R_RESULT) (PReg R_NAME); I0 OC_GET_COLOR]) in *.
  apply code_at_app in Hc. destruct Hc as [Hcv Hct]. cbn [code_at] in Hct. destruct Hct as [Hf1 [Hf2 _]].
  destruct (eval_rval rt mt fuel false ss n) as [x sa|e sa|sa] eqn:Ev; cbn [sbind] in He; try discriminate.
  destruct (c_rval_runs rt mt n (DReg R_RESULT) Hp (plain_ok_result mt n Hp) im ss s x sa fuel Hsim Hcv Ev) as [Hsa [k0 Hn]]. subst sa.
  set (k := zlength (c_rval rt mt n (DReg R_RESULT))) in *.
  set (s1 := put_vm s (DReg R_RESULT) x k) in *.
  assert (Hs1 : sim ss s1) by (apply sim_put_reg_hidden; [exact Hsim|reflexivity|reflexivity]).
  set (s2 := put_vm s1 (DReg R_NAME) x 1).
  assert (E2 : esteps 1 im s1 = Some (s2, [])).
  { apply (estep1 im s1 _ _ _ Hf1). cbn [Machine.exec i_op i_p0 i_p1 I2].
    assert (Hg : get_reg s1 R_RESULT = Ok x) by (unfold s1; cbn [put_vm get_reg m_regs]; rewrite rf_get_set_same; reflexivity).
    rewrite Hg. cbn [bind]. exact (lift_put s1 (DReg R_NAME) x eq_refl). }
  assert (Hs2 : sim ss s2) by (apply sim_put_reg_hidden; [exact Hs1|reflexivity|reflexivity]).
  assert (Hname : reg s2 R_NAME = x) by (unfold reg, s2; cbn [put_vm get_reg m_regs]; rewrite rf_get_set_same; reflexivity).
  pose proof (do_get_agree (m_regs s2) (s_regs ss) (s_world ss) x (sim_regs _ _ Hs2) (sim_full _ _ Hs2)) as Hag.
  destruct (do_get (s_regs ss) (s_world ss) x) as [d|e] eqn:Ed; cbn [dev_step sbind] in He; [|discriminate].
  injection He as He. subst ss'. destruct Hag as (ra & Ha & Hagr & Hfull & Hdisc).
  set (s3 := advance (with_world (with_regs s2 ra) (d_world d))).
  assert (E3 : esteps 1 im s2 = Some (s3, d_events d ++ [])).
  { assert (Hf2' : fetch im (m_pc s2) = Some (I0 OC_GET_COLOR)).
    { unfold s2, s1. cbn [put_vm m_pc]. fold k. replace (m_pc s + k + 1) with (m_pc s + k + Z.of_nat 1) by lia. exact Hf2. }
    cbn [esteps]. rewrite Hf2'. cbn [Machine.exec i_op I0]. unfold cmd_get_color. rewrite Hname, (sim_world _ _ Hs2), Ha. reflexivity. }
  exists (k0 + (1 + 1))%nat, s3, ([] ++ ([] ++ (d_events d ++ []))).
  split; [eapply esteps_app; [exact Hn|eapply esteps_app; [exact E2|exact E3]]|].
  destruct Hs2 as [Hr Hfu Hg Hfr Hl Hw Hu Hdf].
  split.
  { constructor; cbn [s3 advance with_pc with_world with_regs m_regs m_globals m_frames m_world m_unnamed s_regs s_globals s_locals s_world]; try assumption; try reflexivity.
    rewrite Hdisc. exact Hdf. }
  split; [unfold s3, s2, s1; cbn [advance with_pc with_world with_regs put_vm m_pc]; fold k; unfold zlength; rewrite app_length, Nat2Z.inj_add; cbn [length]; unfold k, zlength; lia|].
  split; [reflexivity|]. cbn [app s_trace]. rewrite app_nil_r, rev_append_rev, rev_app_distr, rev_involutive. reflexivity.
Qed.
End Sim6.

Section Sim7.
Variable rt : rtable.
Variable mt : mtable.

Definition simple_name (n : nameref) : bool := match n with NStr _ | NVar _ => true | NMacro m => simple_value (macro mt m) end.
Definition zone_ok (n : nameref) (a : rval) (b : option rval) : bool :=
  simple_name n && plain_rval mt a && match b with Some b' => plain_rval mt b' | None => true end.
Definition opt_plain (b : option rval) : bool := match b with Some b' => plain_rval mt b' | None => true end.
Definition span_plain (sp : span) : bool := match sp with Some (a, ob) => plain_rval mt a && opt_plain ob | None => true end.
Definition inline_ok (n : nameref) (rows cols : span) : bool := simple_name n && span_plain rows && span_plain cols.
(* (a zone range or a matrix range is an operand of `set` only: c = the command is a colour command) *)
Definition simple_opnd (c : bool) (o : opnd) : bool :=
  match o with
  | Target _ n => simple_name n
  | Zone n a b => c && zone_ok n a b
  | MatrixInline n rows cols _ => c && inline_ok n rows cols
  | _ => false
  end.
Definition simple_ops (c : bool) (ops : operands) : bool :=
  match ops with OpAll => true | OpList l => forallb (simple_opnd c) l | OpDefault => true end.

Lemma c_ops_all op : c_ops rt mt false op OpAll = [I2 OC_MOVEQ (POperand OD_ALL) (PReg R_OPERAND); I0 op].
Proof. reflexivity. Qed.
Lemma c_ops_nil op : c_ops rt mt false op (OpList []) = [].
Proof. reflexivity. Qed.
Definition zone_code (n : nameref) (a : rval) (b : option rval) : program :=
  c_name mt n ++ c_range rt mt (a, b) R_FIRST_ZONE R_LAST_ZONE ++ [I2 OC_MOVEQ (POperand OD_MZ_LIGHT) (PReg R_OPERAND); I0 OC_COLOR].
Definition inline_code (n : nameref) (rows cols : span) (rows_first : bool) : program :=
  c_name mt n ++ [I0 OC_MATRIX] ++ c_spans rt mt rows cols rows_first ++ [I0 OC_COLOR; I1 OC_END (POperand OD_MATRIX)] ++
  [I2 OC_MOVEQ (POperand OD_MATRIX_LIGHT) (PReg R_OPERAND); I0 OC_COLOR].
Lemma c_ops_cons_inline n rows cols rf r : c_ops rt mt false OC_COLOR (OpList (MatrixInline n rows cols rf :: r)) =
  inline_code n rows cols rf ++ c_ops rt mt false OC_COLOR (OpList r).
Proof. unfold inline_code. cbn [c_ops c_operand]. rewrite <- !app_assoc. reflexivity. Qed.
Lemma c_ops_cons_zone n a b r : c_ops rt mt false OC_COLOR (OpList (Zone n a b :: r)) = zone_code n a b ++ c_ops rt mt false OC_COLOR (OpList r).
Proof. unfold zone_code. cbn [c_ops c_operand]. rewrite <- !app_assoc. reflexivity. Qed.
Lemma c_ops_cons op k n r : c_ops rt mt false op (OpList (Target k n :: r)) =
  (c_name mt n ++ [I2 OC_MOVEQ (POperand (kind_operand k)) (PReg R_OPERAND); I0 op]) ++ c_ops rt mt false op (OpList r).
Proof. destruct k, n; reflexivity. Qed.

(* loading a scratch register *)
Lemma load_hidden im ss s p r v : sim ss s -> visible r = false -> register_eqb R_DISC_FORWARD r = false -> writable r = true -> param_value p = Some v ->
  fetch im (m_pc s) = Some (I2 OC_MOVEQ p (PReg r)) ->
  esteps 1 im s = Some (put_vm s (DReg r) v 1, []) /\ sim ss (put_vm s (DReg r) v 1).
Proof.
  intros Hsim Hv Hnd Hw Hp Hf. split; [|apply sim_put_reg_hidden; assumption].
  apply (estep1 im s _ _ _ Hf). change (PReg r) with (dest_param (DReg r)).
  assert (Hok : ok_dest (DReg r) (RLit (LInt 0)) = true) by (cbn [ok_dest]; rewrite Hw; reflexivity).
  rewrite (exec_moveq im s p (DReg r) v Hok Hp).
  apply lift_put; exact Hok.
Qed.

(* NAME := the name the operand denotes: a string, the value of a macro or of a variable *)
Lemma load_name n im ss s : simple_name n = true -> sim ss s -> code_at im (m_pc s) (c_name mt n) ->
  esteps 1 im s = Some (put_vm s (DReg R_NAME) (name_of mt ss n) 1, []) /\ sim ss (put_vm s (DReg R_NAME) (name_of mt ss n) 1).
Proof.
  intros Hn Hsim Hc. destruct n as [x|m|x]; cbn [c_name code_at name_of simple_name] in *; destruct Hc as [Hf _].
  - exact (load_hidden im ss s (PStr x) R_NAME (VStr x) Hsim eq_refl eq_refl eq_refl eq_refl Hf).
  - exact (load_hidden im ss s (macro_param mt m) R_NAME (macro mt m) Hsim eq_refl eq_refl eq_refl (param_value_of_value _ Hn) Hf).
  - split; [|apply sim_put_reg_hidden; [exact Hsim|reflexivity|reflexivity]].
    apply (estep1 im s _ _ _ Hf). cbn [Machine.exec i_op i_p0 i_p1 I2 read_name]. rewrite (sim_lookup ss s x Hsim). cbn [bind].
    change (PReg R_NAME) with (dest_param (DReg R_NAME)). apply lift_put. reflexivity.
Qed.

Lemma sim_one_target (c : bool) k n im ss s ss1 : simple_name n = true -> sim ss s ->
  code_at im (m_pc s) (c_name mt n ++ [I2 OC_MOVEQ (POperand (kind_operand k)) (PReg R_OPERAND); I0 (cmd_op c)]) ->
  dev_step ss (target_cmdv k c (name_of mt ss n) (s_regs ss) (s_world ss)) = ROk tt ss1 ->
  exists s1 evs, esteps 3 im s = Some (s1, evs) /\ sim ss1 s1 /\ m_pc s1 = m_pc s + 3 /\ (m_stack s1, fr s1) = (m_stack s, fr s) /\
                 rev (s_trace ss1) = rev (s_trace ss) ++ evs.
Proof.
  intros Hnm Hsim Hc Hd. apply code_at_app in Hc. destruct Hc as [Hcn Hc].
  assert (Hzn : zlength (c_name mt n) = 1) by (destruct n; reflexivity). rewrite Hzn in Hc. cbn [code_at] in Hc. destruct Hc as [Hf2 [Hf3 _]].
  destruct (load_name n im ss s Hnm Hsim Hcn) as [E1 Hs1].
  set (name := name_of mt ss n) in *.
  set (s1 := put_vm s (DReg R_NAME) name 1) in *.
  destruct (load_hidden im ss s1 (POperand (kind_operand k)) R_OPERAND (VOperand (kind_operand k)) Hs1 eq_refl eq_refl eq_refl eq_refl Hf2) as [E2 Hs2].
  set (s2 := put_vm s1 (DReg R_OPERAND) (VOperand (kind_operand k)) 1) in *.
  assert (Hn : rf_get (m_regs s2) R_NAME = Some name).
  { unfold s2, s1. cbn [put_vm m_regs]. rewrite rf_get_set_other by reflexivity. apply rf_get_set_same. }
  assert (Ho : rf_get (m_regs s2) R_OPERAND = Some (VOperand (kind_operand k))) by (unfold s2; cbn [put_vm m_regs]; apply rf_get_set_same).
  destruct (dev_sim (target_cmdv k c name) (target_cmdv_respects k c name) ss s2 ss1 Hs2 Hd) as (s3 & evs & Ho3 & Hs3 & Hpc & Hst & Htr).
  assert (Hf3' : fetch im (m_pc s2) = Some (I0 (cmd_op c))) by exact Hf3.
  exists s3, evs. split.
  - change 3%nat with (1 + (1 + 1))%nat. replace evs with ([] ++ ([] ++ evs)) by reflexivity.
    eapply esteps_app; [exact E1|]. eapply esteps_app; [exact E2|].
    apply (estep1 im s2 _ _ _ Hf3'). rewrite (exec_cmd_targetv im s2 c k name Hn Ho). exact Ho3.
  - split; [exact Hs3|]. split; [rewrite Hpc; unfold s2, s1; cbn [put_vm m_pc]; lia|]. split; [rewrite Hst; reflexivity|exact Htr].
Qed.

(* ---- set "Strip" zone a b ---- *)
Lemma raw_duration_agree a b : agree a b -> rf_raw_duration a = rf_raw_duration b.
Proof. intros H. unfold rf_raw_duration. rewrite (unit_mode_agree a b H), (agree_rreg a b R_DURATION H eq_refl). reflexivity. Qed.
Lemma do_color_zone_respects name x y a b w : agree a b -> do_color_zone a w name x y = rebase a (do_color_zone b w name x y).
Proof.
  intros H. unfold do_color_zone. destruct (as_name name) as [n|]; [|reflexivity]. destruct (find_light w n) as [l|]; [|reflexivity].
  destruct (l_kind l); try reflexivity.
  rewrite (raw_color_agree a b H), (raw_duration_agree a b H).
  destruct (eval_binop OP_ADD match y with VNone => x | _ => y end (VInt 1)) as [e|]; cbn [bind rebase]; [|reflexivity].
  destruct (rf_raw_color b) as [rc|]; cbn [bind rebase]; [|reflexivity]. destruct (rf_raw_duration b) as [rd|]; cbn [bind rebase]; [|reflexivity].
  destruct (param_16 x); cbn [bind rebase]; [|reflexivity]. destruct (param_16 e); cbn [bind rebase]; [|reflexivity].
  destruct (param_color rc); cbn [bind rebase]; [|reflexivity]. destruct (param_32 rd); reflexivity.
Qed.
Lemma plain_ok_hidden r v : plain_rval mt v = true -> visible r = false -> writable r = true -> ok_dest (DReg r) v = true.
Proof.
  intros Hp Hv Hw. cbn [ok_dest]. rewrite Hw. destruct v; try reflexivity. cbn [plain_rval] in Hp. cbn [andb].
  destruct (register_eqb r0 r) eqn:E; [|reflexivity]. apply register_eqb_eq in E. subst r0. rewrite Hv in Hp. discriminate.
Qed.
Lemma exec_operand_zone f ss (c : bool) n a b : exec_operand rt mt (S f) false ss c (Zone n a b) =
  (let* (x, s1) := eval_rval rt mt f false ss a in
   let* (y, s2) := (match b with Some b' => eval_rval rt mt f false s1 b' | None => ROk VNone s1 end) in
   dev_step s2 (do_color_zone (s_regs s2) (s_world s2) (name_of mt ss n) x y)).
Proof. reflexivity. Qed.

Lemma sim_one_zone n a b im ss s ss1 fuel : zone_ok n a b = true -> sim ss s -> code_at im (m_pc s) (zone_code n a b) ->
  exec_operand rt mt fuel false ss true (Zone n a b) = ROk tt ss1 ->
  exists k s1 evs, esteps k im s = Some (s1, evs) /\ sim ss1 s1 /\ m_pc s1 = m_pc s + zlength (zone_code n a b) /\ (m_stack s1, fr s1) = (m_stack s, fr s) /\
                   rev (s_trace ss1) = rev (s_trace ss) ++ evs.
Proof.
  intros Hz Hsim Hc He. unfold zone_ok in Hz. apply andb_true_iff in Hz. destruct Hz as [Hz Hpb]. apply andb_true_iff in Hz. destruct Hz as [Hnm Hpa].
  destruct fuel as [|fuel]; [discriminate|]. rewrite exec_operand_zone in He.
  destruct (eval_rval rt mt fuel false ss a) as [x sa|e sa|sa] eqn:Ea; cbn [sbind] in He; try discriminate.
  unfold zone_code in Hc |- *. apply code_at_app in Hc. destruct Hc as [Hcn Hc].
  assert (Hzn : zlength (c_name mt n) = 1) by (destruct n; reflexivity). rewrite Hzn in Hc.
  unfold c_range in Hc |- *. cbn [fst snd] in Hc |- *. apply code_at_app in Hc. destruct Hc as [Hcr Hc]. apply code_at_app in Hcr. destruct Hcr as [Hca Hcb].
  set (name := name_of mt ss n) in *.
  destruct (load_name n im ss s Hnm Hsim Hcn) as [E1 Hs1]. fold name in E1, Hs1.
  set (s1 := put_vm s (DReg R_NAME) name 1) in *.
  assert (Hca1 : code_at im (m_pc s1) (c_rval rt mt a (DReg R_FIRST_ZONE))) by exact Hca.
  destruct (c_rval_runs rt mt a (DReg R_FIRST_ZONE) Hpa (plain_ok_hidden R_FIRST_ZONE a Hpa eq_refl eq_refl) im ss s1 x sa fuel Hs1 Hca1 Ea) as [Hsa [n2 E2]]. subst sa.
  set (ka := zlength (c_rval rt mt a (DReg R_FIRST_ZONE))) in *.
  set (s2 := put_vm s1 (DReg R_FIRST_ZONE) x ka) in *.
  assert (Hs2 : sim ss s2) by (apply sim_put_reg_hidden; [exact Hs1|reflexivity|reflexivity]).
  (* the end of the range *)
  set (cb := match b with Some b' => c_rval rt mt b' (DReg R_LAST_ZONE) | None => [I2 OC_MOVEQ PNone (PReg R_LAST_ZONE)] end) in *.
  set (kb := zlength cb) in *.
  assert (Hb : exists y n3, (match b with Some b' => eval_rval rt mt fuel false ss b' | None => ROk VNone ss end) = ROk y ss /\
                            esteps n3 im s2 = Some (put_vm s2 (DReg R_LAST_ZONE) y kb, [])).
  { assert (Hcb2 : code_at im (m_pc s2) cb) by exact Hcb.
    destruct b as [b'|].
    - destruct (eval_rval rt mt fuel false ss b') as [y sb|e sb|sb] eqn:Eb; cbn [sbind] in He; try discriminate.
      destruct (c_rval_runs rt mt b' (DReg R_LAST_ZONE) Hpb (plain_ok_hidden R_LAST_ZONE b' Hpb eq_refl eq_refl) im ss s2 y sb fuel Hs2 Hcb2 Eb) as [Hsb [n3 E3]]. subst sb.
      exists y, n3. split; [reflexivity|exact E3].
    - exists VNone, 1%nat. split; [reflexivity|]. unfold cb in Hcb2. cbn [code_at] in Hcb2. destruct Hcb2 as [Hf _].
      exact (proj1 (load_hidden im ss s2 PNone R_LAST_ZONE VNone Hs2 eq_refl eq_refl eq_refl eq_refl Hf)). }
  destruct Hb as (y & n3 & Eyb & E3). rewrite Eyb in He. cbn [sbind] in He.
  set (s3 := put_vm s2 (DReg R_LAST_ZONE) y kb) in *.
  assert (Hs3 : sim ss s3) by (apply sim_put_reg_hidden; [exact Hs2|reflexivity|reflexivity]).
  cbn [code_at] in Hc. destruct Hc as [Hf4 [Hf5 _]].
  assert (Hf4' : fetch im (m_pc s3) = Some (I2 OC_MOVEQ (POperand OD_MZ_LIGHT) (PReg R_OPERAND))).
  { unfold s3, s2, s1. cbn [put_vm m_pc]. fold ka. fold kb.
    replace (m_pc s + 1 + ka + kb) with (m_pc s + 1 + zlength (c_rval rt mt a (DReg R_FIRST_ZONE) ++ cb)); [exact Hf4|].
    unfold zlength. rewrite app_length, Nat2Z.inj_add. unfold ka, kb, zlength. lia. }
  destruct (load_hidden im ss s3 (POperand OD_MZ_LIGHT) R_OPERAND (VOperand OD_MZ_LIGHT) Hs3 eq_refl eq_refl eq_refl eq_refl Hf4') as [E4 Hs4].
  set (s4 := put_vm s3 (DReg R_OPERAND) (VOperand OD_MZ_LIGHT) 1) in *.
  assert (Hn4 : reg s4 R_NAME = name).
  { unfold reg, get_reg, s4, s3, s2, s1. cbn [put_vm m_regs]. rewrite !rf_get_set_other by reflexivity. rewrite rf_get_set_same. reflexivity. }
  assert (Hx4 : reg s4 R_FIRST_ZONE = x).
  { unfold reg, get_reg, s4, s3, s2. cbn [put_vm m_regs]. rewrite !rf_get_set_other by reflexivity. rewrite rf_get_set_same. reflexivity. }
  assert (Hy4 : reg s4 R_LAST_ZONE = y).
  { unfold reg, get_reg, s4, s3. cbn [put_vm m_regs]. rewrite !rf_get_set_other by reflexivity. rewrite rf_get_set_same. reflexivity. }
  assert (Ho4 : rf_get (m_regs s4) R_OPERAND = Some (VOperand OD_MZ_LIGHT)) by (unfold s4; cbn [put_vm m_regs]; apply rf_get_set_same).
  destruct (dev_sim (fun rf w => do_color_zone rf w name x y) (fun p q w H => do_color_zone_respects name x y p q w H) ss s4 ss1 Hs4 He)
    as (s5 & evs & Ho5 & Hs5 & Hpc5 & Hst5 & Htr5).
  assert (Hf5' : fetch im (m_pc s4) = Some (I0 OC_COLOR)).
  { unfold s4. cbn [put_vm m_pc]. replace (m_pc s3 + 1) with (m_pc s3 + Z.of_nat 1) by lia. unfold s3, s2, s1. cbn [put_vm m_pc]. fold ka. fold kb.
    replace (m_pc s + 1 + ka + kb + Z.of_nat 1) with (m_pc s + 1 + zlength (c_rval rt mt a (DReg R_FIRST_ZONE) ++ cb) + Z.of_nat 1); [exact Hf5|].
    unfold zlength. rewrite app_length, Nat2Z.inj_add. unfold ka, kb, zlength. lia. }
  assert (E5 : esteps 1 im s4 = Some (s5, evs ++ [])).
  { cbn [esteps]. rewrite Hf5'. cbn [Machine.exec i_op I0]. unfold cmd_color. rewrite Hn4, Hx4, Hy4. unfold reg at 1, get_reg. rewrite Ho4. rewrite Ho5. reflexivity. }
  exists (1 + (n2 + (n3 + (1 + 1))))%nat, s5, ([] ++ ([] ++ ([] ++ ([] ++ (evs ++ []))))).
  split; [eapply esteps_app; [exact E1|eapply esteps_app; [exact E2|eapply esteps_app; [exact E3|eapply esteps_app; [exact E4|exact E5]]]]|].
  split; [exact Hs5|].
  split.
  { rewrite Hpc5. unfold s4, s3, s2, s1. cbn [put_vm m_pc]. fold ka. fold kb.
    match goal with |- _ = _ + zlength ?L => assert (Hlen : zlength L = 1 + (ka + kb) + 2) end.
    { unfold zlength in *. rewrite !app_length, !Nat2Z.inj_add. cbn [length]. unfold ka, kb, cb, zlength. destruct n; destruct b; cbn [c_name Datatypes.length]; lia. }
    rewrite Hlen. lia. }
  split; [rewrite Hst5; reflexivity|]. cbn [app]. rewrite app_nil_r. exact Htr5.
Qed.

(* ---- set L row r1 r2 column c1 c2 ---- *)
Lemma do_stage_agree a b r1 r2 c1 c2 : agree a b -> regs_full b ->
  match do_stage b r1 r2 c1 c2 with
  | Ok rb => exists ra, do_stage a r1 r2 c1 c2 = Ok ra /\ agree ra rb /\ regs_full rb /\ rf_get ra R_DISC_FORWARD = rf_get a R_DISC_FORWARD
  | Err e => do_stage a r1 r2 c1 c2 = Err e
  end.
Proof.
  intros H Hf. unfold do_stage. rewrite (get_color_agree a b H), (agree_rreg a b R_MATRIX H eq_refl).
  destruct (rf_get_color b) as [c|e]; cbn [bind]; [|reflexivity].
  destruct (rreg b R_MATRIX) as [| | | | | | | | |h w cells]; try reflexivity; try (exists a; repeat split; assumption).
  destruct (index_of r1) as [a1|]; cbn [bind]; [|reflexivity]. destruct (index_of r2) as [a2|]; cbn [bind]; [|reflexivity].
  destruct (index_of c1) as [b1|]; cbn [bind]; [|reflexivity]. destruct (index_of c2) as [b2|]; cbn [bind]; [|reflexivity].
  destruct (normalize_axis a1 a2 h) as [top bottom]. destruct (normalize_axis b1 b2 w) as [lft rgt].
  destruct (overlay h w cells top bottom lft rgt c) as [cells'|]; cbn [bind]; [|reflexivity].
  eexists. split; [reflexivity|]. split; [apply agree_set; exact H|]. split; [apply regs_full_set; exact Hf|]. apply rf_get_set_other. reflexivity.
Qed.

Lemma do_matrix_light_agree a b w name : agree a b -> regs_full b ->
  match do_matrix_light b w name with
  | Ok d => exists ra, do_matrix_light a w name = Ok (mkDev ra (d_world d) (d_events d)) /\ agree ra (d_regs d) /\ regs_full (d_regs d) /\
                       rf_get ra R_DISC_FORWARD = rf_get a R_DISC_FORWARD
  | Err e => do_matrix_light a w name = Err e
  end.
Proof.
  intros H Hf. unfold do_matrix_light. destruct (as_name name) as [n|]; [|exists a; repeat split; assumption].
  destruct (find_light w n) as [l|]; [|exists a; repeat split; assumption].
  destruct (l_kind l); try (exists a; repeat split; assumption).
  rewrite (agree_rreg a b R_MATRIX H eq_refl), (unit_mode_agree a b H), (agree_rreg a b R_DEFAULT H eq_refl), (agree_rreg a b R_DURATION H eq_refl).
  destruct (rreg b R_MATRIX) as [| | | | | | | | |h0 wd cells]; try reflexivity.
  destruct (rf_unit_mode b) as [m|e]; cbn [bind]; [|reflexivity].
  destruct (map_res _ cells) as [conv|e]; cbn [bind]; [|reflexivity].
  destruct (as_raw_time m (rreg b R_DURATION)) as [d|e]; cbn [bind]; [|reflexivity].
  destruct (map_res standardize_raw _) as [sent|e]; cbn [bind]; [|reflexivity].
  destruct m; (eexists; split; [reflexivity|]; cbn [d_regs]);
    try (split; [exact H|split; [exact Hf|reflexivity]]);
    (split; [apply agree_set; exact H|split; [apply regs_full_set; exact Hf|apply rf_get_set_other; reflexivity]]).
Qed.

(* a device command that may change registers a script can see (get, the matrix commands) *)
Lemma dev_sim_regs (f : regfile -> world -> dres) :
  (forall a b w, agree a b -> regs_full b ->
     match f b w with
     | Ok d => exists ra, f a w = Ok (mkDev ra (d_world d) (d_events d)) /\ agree ra (d_regs d) /\ regs_full (d_regs d) /\
                          rf_get ra R_DISC_FORWARD = rf_get a R_DISC_FORWARD
     | Err e => f a w = Err e
     end) ->
  forall ss s ss1, sim ss s -> dev_step ss (f (s_regs ss) (s_world ss)) = ROk tt ss1 ->
  exists s1 evs, dev_outcome s (f (m_regs s) (m_world s)) = Next s1 evs /\ sim ss1 s1 /\ m_pc s1 = m_pc s + 1 /\
                 (m_stack s1, fr s1) = (m_stack s, fr s) /\ rev (s_trace ss1) = rev (s_trace ss) ++ evs.
Proof.
  intros Hresp ss s ss1 Hsim Hd.
  pose proof (Hresp (m_regs s) (s_regs ss) (s_world ss) (sim_regs _ _ Hsim) (sim_full _ _ Hsim)) as Hvm.
  rewrite (sim_world _ _ Hsim).
  destruct (f (s_regs ss) (s_world ss)) as [d|e] eqn:Ef; cbn [dev_step] in Hd; [|discriminate].
  injection Hd as Hd. subst ss1. destruct Hvm as (ra & Ha & Hag & Hfull & Hdisc). rewrite Ha. cbn [dev_outcome d_regs d_world d_events].
  eexists. exists (d_events d). split; [reflexivity|].
  destruct Hsim as [Hr Hfu Hg Hfr Hl Hw Hu Hdf].
  split.
  { constructor; cbn; try assumption; try reflexivity. rewrite Hdisc. exact Hdf. }
  split; [reflexivity|]. split; [reflexivity|].
  cbn [s_trace]. rewrite rev_append_rev, rev_app_distr, rev_involutive. reflexivity.
Qed.

Definition range_end (b : option rval) (last : register) : program :=
  match b with Some b' => c_rval rt mt b' (DReg last) | None => [I2 OC_MOVEQ PNone (PReg last)] end.
(* first .. last of a range into two scratch registers *)
Lemma range_runs first last a b : visible first = false -> writable first = true -> register_eqb R_DISC_FORWARD first = false ->
  visible last = false -> writable last = true -> register_eqb R_DISC_FORWARD last = false ->
  plain_rval mt a = true -> opt_plain b = true ->
  forall im ss s fuel x y sa sb, sim ss s -> code_at im (m_pc s) (c_range rt mt (a, b) first last) ->
  eval_rval rt mt fuel false ss a = ROk x sa ->
  (match b with Some b' => eval_rval rt mt fuel false sa b' | None => ROk VNone sa end) = ROk y sb ->
  sa = ss /\ sb = ss /\
  exists n, esteps n im s = Some (put_vm (put_vm s (DReg first) x (zlength (c_rval rt mt a (DReg first)))) (DReg last) y (zlength (range_end b last)), []).
Proof.
  intros Hv1 Hw1 Hd1 Hv2 Hw2 Hd2 Hpa Hpb im ss s fuel x y sa sb Hsim Hc Ea Eb.
  unfold c_range in Hc. cbn [fst snd] in Hc. apply code_at_app in Hc. destruct Hc as [Hca Hcb].
  destruct (c_rval_runs rt mt a (DReg first) Hpa (plain_ok_hidden first a Hpa Hv1 Hw1) im ss s x sa fuel Hsim Hca Ea) as [Hsa [n1 E1]]. subst sa.
  set (s1 := put_vm s (DReg first) x (zlength (c_rval rt mt a (DReg first)))) in *.
  assert (Hs1 : sim ss s1) by (apply sim_put_reg_hidden; assumption).
  assert (Hcb1 : code_at im (m_pc s1) (range_end b last)) by exact Hcb.
  split; [reflexivity|]. destruct b as [b'|]; cbn [opt_plain range_end] in *.
  - destruct (c_rval_runs rt mt b' (DReg last) Hpb (plain_ok_hidden last b' Hpb Hv2 Hw2) im ss s1 y sb fuel Hs1 Hcb1 Eb) as [Hsb [n2 E2]]. subst sb.
    split; [reflexivity|]. exists (n1 + n2)%nat. replace (@nil event) with (@nil event ++ @nil event) by reflexivity. eapply esteps_app; eassumption.
  - injection Eb as <- <-. split; [reflexivity|]. cbn [code_at] in Hcb1. destruct Hcb1 as [Hf _].
    exists (n1 + 1)%nat. replace (@nil event) with (@nil event ++ @nil event) by reflexivity. eapply esteps_app; [exact E1|].
    exact (proj1 (load_hidden im ss s1 PNone last VNone Hs1 Hv2 Hd2 Hw2 eq_refl Hf)).
Qed.

Lemma eval_span_S f ss a ob : eval_span rt mt (S f) false ss (Some (a, ob)) =
  (let* (x, s1) := eval_rval rt mt f false ss a in
   let* (y, s2) := (match ob with Some b => eval_rval rt mt f false s1 b | None => ROk VNone s1 end) in ROk (x, y) s2).
Proof. destruct ob; reflexivity. Qed.
Lemma eval_spans_S f ss rows cols (rows_first : bool) : eval_spans rt mt (S f) false ss rows cols rows_first =
  (if rows_first then
     let* (r, s1) := eval_span rt mt f false ss rows in let* (c, s2) := eval_span rt mt f false s1 cols in ROk (fst r, snd r, fst c, snd c) s2
   else
     let* (c, s1) := eval_span rt mt f false ss cols in let* (r, s2) := eval_span rt mt f false s1 rows in ROk (fst r, snd r, fst c, snd c) s2).
Proof. reflexivity. Qed.
Lemma exec_operand_inline f ss (c : bool) n rows cols rows_first : exec_operand rt mt (S f) false ss c (MatrixInline n rows cols rows_first) =
  (let name := name_of mt ss n in
   let s0 := s_with_regs ss (do_matrix_begin (s_regs ss) (s_world ss) name) in
   let* (rc, s1) := eval_spans rt mt f false s0 rows cols rows_first in
   let '(r1, r2, c1, c2) := rc in
   match do_stage (s_regs s1) r1 r2 c1 c2 with
   | Ok rf => dev_step (s_with_regs s1 rf) (do_matrix_light rf (s_world s1) name)
   | Err e => RErr e s1
   end).
Proof. reflexivity. Qed.
Lemma do_stage_keeps a r1 r2 c1 c2 ra r : do_stage a r1 r2 c1 c2 = Ok ra -> register_eqb r R_MATRIX = false -> rf_get ra r = rf_get a r.
Proof.
  unfold do_stage. destruct (rf_get_color a) as [c|e]; cbn [bind]; [|discriminate].
  destruct (rreg a R_MATRIX) as [| | | | | | | | |h w cells]; try discriminate; [intros H _; injection H as <-; reflexivity|].
  destruct (index_of r1) as [a1|]; cbn [bind]; [|discriminate]. destruct (index_of r2) as [a2|]; cbn [bind]; [|discriminate].
  destruct (index_of c1) as [b1|]; cbn [bind]; [|discriminate]. destruct (index_of c2) as [b2|]; cbn [bind]; [|discriminate].
  destruct (normalize_axis a1 a2 h) as [top bottom]. destruct (normalize_axis b1 b2 w) as [lft rgt].
  destruct (overlay h w cells top bottom lft rgt c) as [cells'|]; cbn [bind]; [|discriminate].
  intros H Hr. injection H as <-. apply rf_get_set_other. exact Hr.
Qed.

(* the one-line matrix command with both clauses: the name; MATRIX; the matrix operand; the two ranges in the order written; COLOR
   (stage); END; the matrix-light operand; COLOR (the whole matrix is sent) *)

Lemma put_reg_other s r x k r' : register_eqb r' r = false -> rf_get (m_regs (put_vm s (DReg r) x k)) r' = rf_get (m_regs s) r'.
Proof. intros H. cbn [put_vm m_regs]. apply rf_get_set_other. exact H. Qed.
Lemma put_reg_same s r x k : rf_get (m_regs (put_vm s (DReg r) x k)) r = Some x.
Proof. cbn [put_vm m_regs]. apply rf_get_set_same. Qed.

Lemma two_ranges f1 l1 f2 l2 a ob c oc :
  visible f1 = false -> writable f1 = true -> register_eqb R_DISC_FORWARD f1 = false ->
  visible l1 = false -> writable l1 = true -> register_eqb R_DISC_FORWARD l1 = false ->
  visible f2 = false -> writable f2 = true -> register_eqb R_DISC_FORWARD f2 = false ->
  visible l2 = false -> writable l2 = true -> register_eqb R_DISC_FORWARD l2 = false ->
  register_eqb f1 l1 = false -> register_eqb f1 f2 = false -> register_eqb f1 l2 = false ->
  register_eqb l1 f2 = false -> register_eqb l1 l2 = false -> register_eqb f2 l2 = false ->
  plain_rval mt a = true -> opt_plain ob = true -> plain_rval mt c = true -> opt_plain oc = true ->
  forall im ss s fuel p q sa sb, sim ss s -> code_at im (m_pc s) (c_range rt mt (a, ob) f1 l1 ++ c_range rt mt (c, oc) f2 l2) ->
  eval_span rt mt (S fuel) false ss (Some (a, ob)) = ROk p sa -> eval_span rt mt (S fuel) false sa (Some (c, oc)) = ROk q sb ->
  sa = ss /\ sb = ss /\
  exists n s', esteps n im s = Some (s', []) /\ sim ss s' /\ m_pc s' = m_pc s + zlength (c_range rt mt (a, ob) f1 l1 ++ c_range rt mt (c, oc) f2 l2) /\
               m_stack s' = m_stack s /\ m_frames s' = m_frames s /\
               rf_get (m_regs s') f1 = Some (fst p) /\ rf_get (m_regs s') l1 = Some (snd p) /\
               rf_get (m_regs s') f2 = Some (fst q) /\ rf_get (m_regs s') l2 = Some (snd q) /\
               (forall r, register_eqb r f1 = false -> register_eqb r l1 = false -> register_eqb r f2 = false -> register_eqb r l2 = false ->
                          rf_get (m_regs s') r = rf_get (m_regs s) r).
Proof.
  intros Hv1 Hw1 Hd1 Hv2 Hw2 Hd2 Hv3 Hw3 Hd3 Hv4 Hw4 Hd4 N12 N13 N14 N23 N24 N34 Hpa Hpob Hpc Hpoc im ss s fuel p q sa sb Hsim Hc Ep Eq.
  rewrite eval_span_S in Ep.
  destruct (eval_rval rt mt fuel false ss a) as [x s1|e s1|s1] eqn:Ea; cbn [sbind] in Ep; try discriminate.
  destruct (match ob with Some b => eval_rval rt mt fuel false s1 b | None => ROk VNone s1 end) as [y s2|e s2|s2] eqn:Eb; cbn [sbind] in Ep; try discriminate.
  injection Ep as <- <-.
  apply code_at_app in Hc. destruct Hc as [Hc1 Hc2].
  destruct (range_runs f1 l1 a ob Hv1 Hw1 Hd1 Hv2 Hw2 Hd2 Hpa Hpob im ss s fuel x y s1 s2 Hsim Hc1 Ea Eb) as [Hs1 [Hs2 [n1 E1]]]. subst s1 s2.
  set (k1 := zlength (c_rval rt mt a (DReg f1))) in *. set (k2 := zlength (range_end ob l1)) in *.
  set (sA := put_vm (put_vm s (DReg f1) x k1) (DReg l1) y k2) in *.
  assert (HsA : sim ss sA) by (apply sim_put_reg_hidden; [apply sim_put_reg_hidden; assumption|assumption|assumption]).
  assert (Hlen1 : zlength (c_range rt mt (a, ob) f1 l1) = k1 + k2) by (unfold c_range, zlength; cbn [fst snd]; rewrite app_length, Nat2Z.inj_add; reflexivity).
  assert (Hc2A : code_at im (m_pc sA) (c_range rt mt (c, oc) f2 l2)).
  { unfold sA. cbn [put_vm m_pc]. rewrite Hlen1 in Hc2. replace (m_pc s + k1 + k2) with (m_pc s + (k1 + k2)) by lia. exact Hc2. }
  rewrite eval_span_S in Eq.
  destruct (eval_rval rt mt fuel false ss c) as [x' s1|e s1|s1] eqn:Ec; cbn [sbind] in Eq; try discriminate.
  destruct (match oc with Some b => eval_rval rt mt fuel false s1 b | None => ROk VNone s1 end) as [y' s2|e s2|s2] eqn:Ed; cbn [sbind] in Eq; try discriminate.
  injection Eq as <- <-.
  destruct (range_runs f2 l2 c oc Hv3 Hw3 Hd3 Hv4 Hw4 Hd4 Hpc Hpoc im ss sA fuel x' y' s1 s2 HsA Hc2A Ec Ed) as [Hs1 [Hs2 [n2 E2]]]. subst s1 s2.
  set (k3 := zlength (c_rval rt mt c (DReg f2))) in *. set (k4 := zlength (range_end oc l2)) in *.
  set (sB := put_vm (put_vm sA (DReg f2) x' k3) (DReg l2) y' k4) in *.
  split; [reflexivity|]. split; [reflexivity|]. exists (n1 + n2)%nat, sB.
  split; [replace (@nil event) with (@nil event ++ @nil event) by reflexivity; eapply esteps_app; eassumption|].
  split; [apply sim_put_reg_hidden; [apply sim_put_reg_hidden; assumption|assumption|assumption]|].
  split.
  { unfold sB, sA. cbn [put_vm m_pc]. unfold zlength. rewrite app_length, Nat2Z.inj_add. fold (zlength (c_range rt mt (a, ob) f1 l1)). rewrite Hlen1.
    assert (Hlen2 : Z.of_nat (length (c_range rt mt (c, oc) f2 l2)) = k3 + k4) by (unfold c_range, k3, k4, zlength; cbn [fst snd]; rewrite app_length, Nat2Z.inj_add; reflexivity).
    rewrite Hlen2. lia. }
  split; [reflexivity|]. split; [reflexivity|]. cbn [fst snd].
  assert (S12 : register_eqb l1 f1 = false) by (destruct f1, l1; try reflexivity; discriminate).
  assert (S13 : register_eqb f2 f1 = false) by (destruct f1, f2; try reflexivity; discriminate).
  assert (S14 : register_eqb l2 f1 = false) by (destruct f1, l2; try reflexivity; discriminate).
  assert (S23 : register_eqb f2 l1 = false) by (destruct l1, f2; try reflexivity; discriminate).
  assert (S24 : register_eqb l2 l1 = false) by (destruct l1, l2; try reflexivity; discriminate).
  assert (S34 : register_eqb l2 f2 = false) by (destruct f2, l2; try reflexivity; discriminate).
  split; [unfold sB, sA; rewrite (put_reg_other _ l2 _ _ f1 N14), (put_reg_other _ f2 _ _ f1 N13), (put_reg_other _ l1 _ _ f1 N12); apply put_reg_same|].
  split; [unfold sB, sA; rewrite (put_reg_other _ l2 _ _ l1 N24), (put_reg_other _ f2 _ _ l1 N23); apply put_reg_same|].
  split; [unfold sB; rewrite (put_reg_other _ l2 _ _ f2 N34); apply put_reg_same|].
  split; [unfold sB; apply put_reg_same|].
  intros r R1 R2 R3 R4. unfold sB, sA. rewrite (put_reg_other _ l2 _ _ r R4), (put_reg_other _ f2 _ _ r R3), (put_reg_other _ l1 _ _ r R2), (put_reg_other _ f1 _ _ r R1). reflexivity.
Qed.

Lemma eval_rval_plain_pure v : plain_rval mt v = true -> forall fuel ss x s1, eval_rval rt mt fuel false ss v = ROk x s1 -> s1 = ss.
Proof.
  intros Hp fuel ss x s1 He. destruct fuel as [|fuel]; [destruct v; discriminate|]. rewrite eval_rval_S in He.
  destruct v as [l|l|m|m|y|r|e|g args]; cbn [plain_rval] in Hp; try discriminate.
  - injection He as _ <-. reflexivity.
  - destruct (neg_value (lit_value l)); cbn [lift_res] in He; [injection He as _ <-; reflexivity|discriminate].
  - injection He as _ <-. reflexivity.
  - destruct (neg_value (macro mt m)); cbn [lift_res] in He; [injection He as _ <-; reflexivity|discriminate].
  - injection He as _ <-. reflexivity.
  - injection He as _ <-. reflexivity.
  - apply andb_true_iff in Hp. destruct Hp as [Hs _]. exact (proj1 (eval_expr_ok rt mt e Hs fuel false ss x s1 He)).
Qed.

(* a range clause that may be absent: its code, and the code that puts None into the registers of an absent clause *)
Definition span_code (sp : span) (f l : register) : program := match sp with Some p => c_range rt mt p f l | None => [] end.
Definition dflt_code (sp : span) (f l : register) : program :=
  match sp with None => [I2 OC_MOVEQ PNone (PReg f); I2 OC_MOVEQ PNone (PReg l)] | Some _ => [] end.
Lemma c_spans_parts rows cols (rf : bool) : c_spans rt mt rows cols rf =
  [I2 OC_MOVEQ (POperand OD_MATRIX) (PReg R_OPERAND)] ++
  (if rf then span_code rows R_FIRST_ROW R_LAST_ROW ++ span_code cols R_FIRST_COLUMN R_LAST_COLUMN
   else span_code cols R_FIRST_COLUMN R_LAST_COLUMN ++ span_code rows R_FIRST_ROW R_LAST_ROW) ++
  dflt_code rows R_FIRST_ROW R_LAST_ROW ++ dflt_code cols R_FIRST_COLUMN R_LAST_COLUMN.
Proof. destruct rows as [[a ob]|], cols as [[c oc]|]; reflexivity. Qed.

Definition pair_after (s s' : mstate) (f l : register) (p : option (value * value)) : Prop :=
  match p with
  | Some (x, y) => rf_get (m_regs s') f = Some x /\ rf_get (m_regs s') l = Some y
  | None => rf_get (m_regs s') f = rf_get (m_regs s) f /\ rf_get (m_regs s') l = rf_get (m_regs s) l
  end.
Definition seg_result (im : image) (ss : sstate) (s : mstate) (K : program) (f l : register) (p : option (value * value)) : Prop :=
  exists n s', esteps n im s = Some (s', []) /\ sim ss s' /\ m_pc s' = m_pc s + zlength K /\ m_stack s' = m_stack s /\ m_frames s' = m_frames s /\
               pair_after s s' f l p /\
               (forall r, register_eqb r f = false -> register_eqb r l = false -> rf_get (m_regs s') r = rf_get (m_regs s) r).

Lemma span_seg f l sp : visible f = false -> writable f = true -> register_eqb R_DISC_FORWARD f = false ->
  visible l = false -> writable l = true -> register_eqb R_DISC_FORWARD l = false -> register_eqb f l = false -> span_plain sp = true ->
  forall im ss s fuel p sa, sim ss s -> code_at im (m_pc s) (span_code sp f l) -> eval_span rt mt (S fuel) false ss sp = ROk p sa ->
  sa = ss /\ seg_result im ss s (span_code sp f l) f l (match sp with Some _ => Some p | None => None end).
Proof.
  intros Hv1 Hw1 Hd1 Hv2 Hw2 Hd2 Nfl Hpl im ss s fuel p sa Hsim Hc Ep. destruct sp as [[a ob]|]; cbn [span_plain span_code] in *.
  - apply andb_true_iff in Hpl. destruct Hpl as [Hpa Hpob]. rewrite eval_span_S in Ep.
    destruct (eval_rval rt mt fuel false ss a) as [x s1|e s1|s1] eqn:Ea; cbn [sbind] in Ep; try discriminate.
    destruct (match ob with Some b => eval_rval rt mt fuel false s1 b | None => ROk VNone s1 end) as [y s2|e s2|s2] eqn:Eb; cbn [sbind] in Ep; try discriminate.
    injection Ep as <- <-.
    destruct (range_runs f l a ob Hv1 Hw1 Hd1 Hv2 Hw2 Hd2 Hpa Hpob im ss s fuel x y s1 s2 Hsim Hc Ea Eb) as [Hs1 [Hs2 [n1 E1]]]. subst s1 s2.
    split; [reflexivity|]. eexists n1, _. split; [exact E1|].
    split; [apply sim_put_reg_hidden; [apply sim_put_reg_hidden; assumption|assumption|assumption]|].
    split; [cbn [put_vm m_pc]; unfold c_range, zlength, range_end; cbn [fst snd]; rewrite app_length, Nat2Z.inj_add; destruct ob; lia|].
    split; [reflexivity|]. split; [reflexivity|].
    split; [split; [rewrite (put_reg_other _ l _ _ f Nfl); apply put_reg_same|apply put_reg_same]|].
    intros r R1 R2. rewrite (put_reg_other _ l _ _ r R2), (put_reg_other _ f _ _ r R1). reflexivity.
  - destruct fuel; injection Ep as <- <-; (split; [reflexivity|]); exists 0%nat, s; (split; [reflexivity|]); (split; [exact Hsim|]);
      (split; [unfold zlength; cbn; lia|]); repeat split; reflexivity.
Qed.

Lemma dflt_seg f l sp : visible f = false -> writable f = true -> register_eqb R_DISC_FORWARD f = false ->
  visible l = false -> writable l = true -> register_eqb R_DISC_FORWARD l = false -> register_eqb f l = false ->
  forall im ss s, sim ss s -> code_at im (m_pc s) (dflt_code sp f l) ->
  seg_result im ss s (dflt_code sp f l) f l (match sp with None => Some (VNone, VNone) | Some _ => None end).
Proof.
  intros Hv1 Hw1 Hd1 Hv2 Hw2 Hd2 Nfl im ss s Hsim Hc. destruct sp as [p0|]; cbn [dflt_code] in *.
  - exists 0%nat, s. split; [reflexivity|]. split; [exact Hsim|]. split; [unfold zlength; cbn; lia|]. repeat split; reflexivity.
  - cbn [code_at] in Hc. destruct Hc as [Hf1 [Hf2 _]].
    destruct (load_hidden im ss s PNone f VNone Hsim Hv1 Hd1 Hw1 eq_refl Hf1) as [E1 Hs1].
    set (s1 := put_vm s (DReg f) VNone 1) in *.
    assert (Hf2' : fetch im (m_pc s1) = Some (I2 OC_MOVEQ PNone (PReg l))) by (unfold s1; cbn [put_vm m_pc]; replace (m_pc s + 1) with (m_pc s + Z.of_nat 1) by lia; exact Hf2).
    destruct (load_hidden im ss s1 PNone l VNone Hs1 Hv2 Hd2 Hw2 eq_refl Hf2') as [E2 Hs2].
    eexists 2%nat, _. split; [change 2%nat with (1 + 1)%nat; replace (@nil event) with (@nil event ++ @nil event) by reflexivity; eapply esteps_app; eassumption|].
    split; [exact Hs2|]. split; [unfold s1; cbn [put_vm m_pc]; unfold zlength; cbn [length]; lia|]. split; [reflexivity|]. split; [reflexivity|].
    split; [split; [unfold s1; rewrite (put_reg_other _ l _ _ f Nfl); apply put_reg_same|apply put_reg_same]|].
    intros r R1 R2. unfold s1. rewrite (put_reg_other _ l _ _ r R2), (put_reg_other _ f _ _ r R1). reflexivity.
Qed.

Lemma matrix_begin_is_set w name : exists v, forall rf, do_matrix_begin rf w name = rf_set rf R_MATRIX v.
Proof.
  unfold do_matrix_begin. destruct (match as_name name with Some n0 => _ | None => _ end) as [h wd]. eexists. intros rf. reflexivity.
Qed.
Lemma sim_one_inline n rows cols rows_first im ss s ss1 fuel : inline_ok n rows cols = true -> sim ss s ->
  code_at im (m_pc s) (inline_code n rows cols rows_first) ->
  exec_operand rt mt fuel false ss true (MatrixInline n rows cols rows_first) = ROk tt ss1 ->
  exists k s1 evs, esteps k im s = Some (s1, evs) /\ sim ss1 s1 /\ m_pc s1 = m_pc s + zlength (inline_code n rows cols rows_first) /\
                   (m_stack s1, fr s1) = (m_stack s, fr s) /\ rev (s_trace ss1) = rev (s_trace ss) ++ evs.
Proof.
  intros Hok Hsim Hc He. unfold inline_ok in Hok. apply andb_true_iff in Hok. destruct Hok as [Hok Hpcs]. apply andb_true_iff in Hok. destruct Hok as [Hnm Hprs].
  destruct fuel as [|fuel]; [discriminate|]. rewrite exec_operand_inline in He. cbv zeta in He.
  set (name := name_of mt ss n) in *.
  set (ss0 := s_with_regs ss (do_matrix_begin (s_regs ss) (s_world ss) name)) in *.
  destruct fuel as [|fuel]; [discriminate|]. rewrite eval_spans_S in He. destruct fuel as [|fuel]; [destruct rows_first; discriminate|].
  (* the code *)
  unfold inline_code in Hc |- *. apply code_at_app in Hc. destruct Hc as [Hcn Hc].
  assert (Hzn : zlength (c_name mt n) = 1) by (destruct n; reflexivity). rewrite Hzn in Hc.
  apply code_at_app in Hc. destruct Hc as [Hmx Hc]. cbn [code_at] in Hmx. destruct Hmx as [Hfm _]. rewrite zlength1 in Hc.
  apply code_at_app in Hc. destruct Hc as [Hsp Hc].
  set (K1 := if rows_first then span_code rows R_FIRST_ROW R_LAST_ROW else span_code cols R_FIRST_COLUMN R_LAST_COLUMN) in *.
  set (K2 := if rows_first then span_code cols R_FIRST_COLUMN R_LAST_COLUMN else span_code rows R_FIRST_ROW R_LAST_ROW) in *.
  set (K3 := dflt_code rows R_FIRST_ROW R_LAST_ROW) in *. set (K4 := dflt_code cols R_FIRST_COLUMN R_LAST_COLUMN) in *.
  assert (Hspans : c_spans rt mt rows cols rows_first = [I2 OC_MOVEQ (POperand OD_MATRIX) (PReg R_OPERAND)] ++ ((K1 ++ K2) ++ K3 ++ K4)).
  { rewrite c_spans_parts. unfold K1, K2, K3, K4. destruct rows_first; rewrite <- ?app_assoc; reflexivity. }
  rewrite Hspans in *. apply code_at_app in Hsp. destruct Hsp as [Hop Hrc]. cbn [code_at] in Hop. destruct Hop as [Hfo _]. rewrite zlength1 in Hrc.
  set (kRC := zlength ((K1 ++ K2) ++ K3 ++ K4)) in *.
  assert (HkS : zlength ([I2 OC_MOVEQ (POperand OD_MATRIX) (PReg R_OPERAND)] ++ ((K1 ++ K2) ++ K3 ++ K4)) = 1 + kRC)
    by (unfold kRC, zlength; rewrite app_length, Nat2Z.inj_add; reflexivity).
  rewrite HkS in Hc. apply code_at_app in Hc. destruct Hc as [Hce Hc]. cbn [code_at] in Hce, Hc. destruct Hce as [Hfc1 [Hfend _]]. destruct Hc as [Hfo2 [Hfc2 _]].
  (* the name, MATRIX *)
  destruct (load_name n im ss s Hnm Hsim Hcn) as [E1 Hs1]. fold name in E1, Hs1.
  set (s1 := put_vm s (DReg R_NAME) name 1) in *.
  assert (Hn1 : reg s1 R_NAME = name) by (unfold reg, get_reg, s1; cbn [put_vm m_regs]; rewrite rf_get_set_same; reflexivity).
  set (s2 := advance (with_regs s1 (do_matrix_begin (m_regs s1) (m_world s1) name))).
  assert (E2 : esteps 1 im s1 = Some (s2, [])).
  { apply (estep1 im s1 _ _ _ Hfm). cbn [Machine.exec i_op I0]. rewrite Hn1. reflexivity. }
  assert (Hs2 : sim ss0 s2).
  { destruct Hs1 as [Hr Hfu Hg Hfr Hl Hw Hu Hdf]. destruct (matrix_begin_is_set (s_world ss) name) as [mv Hmv].
    constructor; cbn [s2 ss0 advance with_pc with_regs s_with_regs m_regs m_globals m_frames m_world m_unnamed s_regs s_globals s_locals s_world]; try assumption.
    - rewrite Hw, !Hmv. apply agree_set. exact Hr.
    - rewrite Hmv. apply regs_full_set. exact Hfu.
    - rewrite Hw, Hmv. rewrite rf_get_set_other; [exact Hdf|reflexivity]. }
  assert (Hn2 : rf_get (m_regs s2) R_NAME = Some name).
  { unfold s2. cbn [advance with_pc with_regs m_regs]. destruct (matrix_begin_is_set (m_world s1) name) as [mv Hmv]. rewrite Hmv.
    rewrite rf_get_set_other by reflexivity. unfold s1. cbn [put_vm m_regs]. apply rf_get_set_same. }
  (* the matrix operand *)
  assert (Hfo' : fetch im (m_pc s2) = Some (I2 OC_MOVEQ (POperand OD_MATRIX) (PReg R_OPERAND))) by exact Hfo.
  destruct (load_hidden im ss0 s2 (POperand OD_MATRIX) R_OPERAND (VOperand OD_MATRIX) Hs2 eq_refl eq_refl eq_refl eq_refl Hfo') as [E3 Hs3].
  set (s3 := put_vm s2 (DReg R_OPERAND) (VOperand OD_MATRIX) 1) in *.
  assert (Hn3 : rf_get (m_regs s3) R_NAME = Some name) by (unfold s3; rewrite put_reg_other by reflexivity; exact Hn2).
  assert (Ho3 : rf_get (m_regs s3) R_OPERAND = Some (VOperand OD_MATRIX)) by apply put_reg_same.
  assert (Hrc3 : code_at im (m_pc s3) ((K1 ++ K2) ++ K3 ++ K4)) by exact Hrc.
  apply code_at_app in Hrc3. destruct Hrc3 as [H12 H34]. apply code_at_app in H12. destruct H12 as [HK1 HK2]. apply code_at_app in H34. destruct H34 as [HK3 HK4].
  (* the clauses in the order written, then None for an absent clause *)
  assert (Hrun : exists r1 r2 c1 c2 n4 s4, eval_spans rt mt (S (S fuel)) false ss0 rows cols rows_first = ROk (r1, r2, c1, c2) ss0 /\
            esteps n4 im s3 = Some (s4, []) /\ sim ss0 s4 /\ m_pc s4 = m_pc s3 + kRC /\ m_stack s4 = m_stack s3 /\ m_frames s4 = m_frames s3 /\
            rf_get (m_regs s4) R_FIRST_ROW = Some r1 /\ rf_get (m_regs s4) R_LAST_ROW = Some r2 /\
            rf_get (m_regs s4) R_FIRST_COLUMN = Some c1 /\ rf_get (m_regs s4) R_LAST_COLUMN = Some c2 /\
            rf_get (m_regs s4) R_NAME = Some name /\ rf_get (m_regs s4) R_OPERAND = Some (VOperand OD_MATRIX)).
  { assert (Hev : exists p q, eval_span rt mt (S fuel) false ss0 rows = ROk p ss0 /\ eval_span rt mt (S fuel) false ss0 cols = ROk q ss0 /\
                              seg_result im ss0 s3 K1 (if rows_first then R_FIRST_ROW else R_FIRST_COLUMN) (if rows_first then R_LAST_ROW else R_LAST_COLUMN)
                                (if rows_first then match rows with Some _ => Some p | None => None end else match cols with Some _ => Some q | None => None end) /\
                              eval_spans rt mt (S (S fuel)) false ss0 rows cols rows_first = ROk (fst p, snd p, fst q, snd q) ss0).
    { rewrite eval_spans_S. destruct rows_first.
      - destruct (eval_span rt mt (S fuel) false ss0 rows) as [p sa|e sa|sa] eqn:Ep; cbn [sbind] in He; try discriminate.
        destruct (span_seg R_FIRST_ROW R_LAST_ROW rows eq_refl eq_refl eq_refl eq_refl eq_refl eq_refl eq_refl Hprs im ss0 s3 fuel p sa Hs3 HK1 Ep) as [Hsa Hseg]. subst sa.
        destruct (eval_span rt mt (S fuel) false ss0 cols) as [q sb|e sb|sb] eqn:Eq; cbn [sbind] in He; try discriminate.
        assert (Hsb : sb = ss0).
        { destruct cols as [[c oc]|]; [|destruct fuel; injection Eq as _ <-; reflexivity]. cbn [span_plain] in Hpcs. apply andb_true_iff in Hpcs. destruct Hpcs as [Hpc0 Hpoc].
          rewrite eval_span_S in Eq. destruct (eval_rval rt mt fuel false ss0 c) as [x t1|e t1|t1] eqn:Ec; cbn [sbind] in Eq; try discriminate.
          destruct (match oc with Some b => eval_rval rt mt fuel false t1 b | None => ROk VNone t1 end) as [y t2|e t2|t2] eqn:Ed; cbn [sbind] in Eq; try discriminate.
          injection Eq as _ <-.
          pose proof (eval_rval_plain_pure c Hpc0 fuel ss0 x t1 Ec) as H1. subst t1.
          destruct oc as [b|]; [exact (eval_rval_plain_pure b Hpoc fuel ss0 y t2 Ed)|injection Ed as _ <-; reflexivity]. }
        subst sb. exists p, q. split; [reflexivity|]. split; [reflexivity|]. split; [exact Hseg|]. cbn [sbind]. rewrite Eq. reflexivity.
      - destruct (eval_span rt mt (S fuel) false ss0 cols) as [q sa|e sa|sa] eqn:Eq; cbn [sbind] in He; try discriminate.
        destruct (span_seg R_FIRST_COLUMN R_LAST_COLUMN cols eq_refl eq_refl eq_refl eq_refl eq_refl eq_refl eq_refl Hpcs im ss0 s3 fuel q sa Hs3 HK1 Eq) as [Hsa Hseg]. subst sa.
        destruct (eval_span rt mt (S fuel) false ss0 rows) as [p sb|e sb|sb] eqn:Ep; cbn [sbind] in He; try discriminate.
        assert (Hsb : sb = ss0).
        { destruct rows as [[c oc]|]; [|destruct fuel; injection Ep as _ <-; reflexivity]. cbn [span_plain] in Hprs. apply andb_true_iff in Hprs. destruct Hprs as [Hpc0 Hpoc].
          rewrite eval_span_S in Ep. destruct (eval_rval rt mt fuel false ss0 c) as [x t1|e t1|t1] eqn:Ec; cbn [sbind] in Ep; try discriminate.
          destruct (match oc with Some b => eval_rval rt mt fuel false t1 b | None => ROk VNone t1 end) as [y t2|e t2|t2] eqn:Ed; cbn [sbind] in Ep; try discriminate.
          injection Ep as _ <-.
          pose proof (eval_rval_plain_pure c Hpc0 fuel ss0 x t1 Ec) as H1. subst t1.
          destruct oc as [b|]; [exact (eval_rval_plain_pure b Hpoc fuel ss0 y t2 Ed)|injection Ed as _ <-; reflexivity]. }
        subst sb. exists p, q. split; [reflexivity|]. split; [reflexivity|]. split; [exact Hseg|]. cbn [sbind]. rewrite Ep. reflexivity. }
    destruct Hev as (p & q & Ep & Eq & (nA & sA & EA & HsA & HpcA & HskA & HfrA & PA & OA) & Esp).
    (* the second clause *)
    assert (HK2A : code_at im (m_pc sA) K2) by (rewrite HpcA; exact HK2).
    assert (HsegB : seg_result im ss0 sA K2 (if rows_first then R_FIRST_COLUMN else R_FIRST_ROW) (if rows_first then R_LAST_COLUMN else R_LAST_ROW)
                      (if rows_first then match cols with Some _ => Some q | None => None end else match rows with Some _ => Some p | None => None end)).
    { unfold K2 in *. destruct rows_first.
      - exact (proj2 (span_seg R_FIRST_COLUMN R_LAST_COLUMN cols eq_refl eq_refl eq_refl eq_refl eq_refl eq_refl eq_refl Hpcs im ss0 sA fuel q ss0 HsA HK2A Eq)).
      - exact (proj2 (span_seg R_FIRST_ROW R_LAST_ROW rows eq_refl eq_refl eq_refl eq_refl eq_refl eq_refl eq_refl Hprs im ss0 sA fuel p ss0 HsA HK2A Ep)). }
    destruct HsegB as (nB & sB & EB & HsB & HpcB & HskB & HfrB & PB & OB).
    assert (HK3B : code_at im (m_pc sB) K3).
    { rewrite HpcB, HpcA. replace (m_pc s3 + zlength K1 + zlength K2) with (m_pc s3 + zlength (K1 ++ K2)); [exact HK3|]. unfold zlength. rewrite app_length, Nat2Z.inj_add. lia. }
    destruct (dflt_seg R_FIRST_ROW R_LAST_ROW rows eq_refl eq_refl eq_refl eq_refl eq_refl eq_refl eq_refl im ss0 sB HsB HK3B) as (nC & sC & EC & HsC & HpcC & HskC & HfrC & PC & OC).
    assert (HK4C : code_at im (m_pc sC) K4).
    { rewrite HpcC, HpcB, HpcA. change (dflt_code rows R_FIRST_ROW R_LAST_ROW) with K3. replace (m_pc s3 + zlength K1 + zlength K2 + zlength K3) with (m_pc s3 + zlength (K1 ++ K2) + zlength K3); [exact HK4|]. unfold zlength. rewrite app_length, Nat2Z.inj_add. lia. }
    destruct (dflt_seg R_FIRST_COLUMN R_LAST_COLUMN cols eq_refl eq_refl eq_refl eq_refl eq_refl eq_refl eq_refl im ss0 sC HsC HK4C) as (nD & sD & ED & HsD & HpcD & HskD & HfrD & PD & OD).
    exists (fst p), (snd p), (fst q), (snd q), (nA + (nB + (nC + nD)))%nat, sD.
    split; [exact Esp|].
    split; [change (@nil event) with ([] ++ ([] ++ ([] ++ @nil event))); eapply esteps_app; [exact EA|eapply esteps_app; [exact EB|eapply esteps_app; [exact EC|exact ED]]]|].
    split; [exact HsD|].
    split; [rewrite HpcD, HpcC, HpcB, HpcA; unfold kRC, K3, K4, zlength; rewrite !app_length, !Nat2Z.inj_add; lia|].
    split; [rewrite HskD, HskC, HskB, HskA; reflexivity|]. split; [rewrite HfrD, HfrC, HfrB, HfrA; reflexivity|].
    (* the values of the four registers *)
    assert (Hrowsv : rf_get (m_regs sD) R_FIRST_ROW = Some (fst p) /\ rf_get (m_regs sD) R_LAST_ROW = Some (snd p)).
    { rewrite (OD R_FIRST_ROW eq_refl eq_refl), (OD R_LAST_ROW eq_refl eq_refl).
      destruct rows as [sp|].
      - cbn [pair_after] in PC. destruct PC as [PC1 PC2]. rewrite PC1, PC2. destruct rows_first.
        + rewrite (OB R_FIRST_ROW eq_refl eq_refl), (OB R_LAST_ROW eq_refl eq_refl). destruct p as [x y]. exact PA.
        + destruct p as [x y]. exact PB.
      - destruct fuel; injection Ep as <-; exact PC. }
    assert (Hcolsv : rf_get (m_regs sD) R_FIRST_COLUMN = Some (fst q) /\ rf_get (m_regs sD) R_LAST_COLUMN = Some (snd q)).
    { destruct cols as [sp|].
      - cbn [pair_after] in PD. destruct PD as [PD1 PD2]. rewrite PD1, PD2, (OC R_FIRST_COLUMN eq_refl eq_refl), (OC R_LAST_COLUMN eq_refl eq_refl). destruct rows_first.
        + destruct q as [x y]. exact PB.
        + rewrite (OB R_FIRST_COLUMN eq_refl eq_refl), (OB R_LAST_COLUMN eq_refl eq_refl). destruct q as [x y]. exact PA.
      - destruct fuel; injection Eq as <-; exact PD. }
    destruct Hrowsv as [G1 G2]. destruct Hcolsv as [G3 G4].
    split; [exact G1|]. split; [exact G2|]. split; [exact G3|]. split; [exact G4|].
    assert (Hkeep : forall r, register_eqb r R_FIRST_ROW = false -> register_eqb r R_LAST_ROW = false -> register_eqb r R_FIRST_COLUMN = false -> register_eqb r R_LAST_COLUMN = false ->
                    rf_get (m_regs sD) r = rf_get (m_regs s3) r).
    { intros r R1 R2 R3 R4. rewrite (OD r R3 R4), (OC r R1 R2). destruct rows_first; [rewrite (OB r R3 R4), (OA r R1 R2)|rewrite (OB r R1 R2), (OA r R3 R4)]; reflexivity. }
    split; [rewrite (Hkeep R_NAME eq_refl eq_refl eq_refl eq_refl); exact Hn3|rewrite (Hkeep R_OPERAND eq_refl eq_refl eq_refl eq_refl); exact Ho3]. }
  destruct Hrun as (r1 & r2 & c1 & c2 & n4 & s4 & Esp & E4 & Hs4 & Hpc4 & Hsk4 & Hfr4 & G1 & G2 & G3 & G4 & Hn4 & Ho4).
  rewrite <- eval_spans_S in He. rewrite Esp in He. cbn [sbind] in He.
  (* COLOR: the stage *)
  pose proof (do_stage_agree (m_regs s4) (s_regs ss0) r1 r2 c1 c2 (sim_regs _ _ Hs4) (sim_full _ _ Hs4)) as Hst.
  destruct (do_stage (s_regs ss0) r1 r2 c1 c2) as [rf|e] eqn:Est; [|discriminate]. destruct Hst as (ra & Hra & Hag & Hfull & Hdisc).
  set (s5 := advance (with_regs s4 ra)).
  assert (Hpc4' : m_pc s4 = m_pc s + 1 + 1 + 1 + kRC) by (rewrite Hpc4; unfold s3, s2, s1; cbn [put_vm advance with_pc with_regs m_pc]; lia).
  assert (E5 : esteps 1 im s4 = Some (s5, [])).
  { assert (Hf : fetch im (m_pc s4) = Some (I0 OC_COLOR)) by (rewrite Hpc4'; replace (m_pc s + 1 + 1 + 1 + kRC) with (m_pc s + 1 + 1 + (1 + kRC)) by lia; exact Hfc1).
    apply (estep1 im s4 _ _ _ Hf). cbn [Machine.exec i_op I0]. unfold cmd_color, reg, get_reg. rewrite Ho4, G1, G2, G3, G4, Hra. reflexivity. }
  set (ss5 := s_with_regs ss0 rf) in *.
  assert (Hs5 : sim ss5 s5).
  { destruct Hs4 as [Hr Hfu Hg Hfr Hl Hw Hu Hdf].
    constructor; cbn [s5 ss5 ss0 advance with_pc with_regs s_with_regs m_regs m_globals m_frames m_world m_unnamed s_regs s_globals s_locals s_world]; try assumption.
    rewrite Hdisc. exact Hdf. }
  assert (Hn5 : rf_get (m_regs s5) R_NAME = Some name) by (unfold s5; cbn [advance with_pc with_regs m_regs]; rewrite (do_stage_keeps _ _ _ _ _ _ R_NAME Hra eq_refl); exact Hn4).
  (* END; the matrix-light operand *)
  set (s6 := advance s5).
  assert (E6 : esteps 1 im s5 = Some (s6, [])).
  { assert (Hf : fetch im (m_pc s5) = Some (I1 OC_END (POperand OD_MATRIX))).
    { unfold s5. cbn [advance with_pc with_regs m_pc]. rewrite Hpc4'. replace (m_pc s + 1 + 1 + 1 + kRC + 1) with (m_pc s + 1 + 1 + (1 + kRC) + Z.of_nat 1) by lia. exact Hfend. }
    apply (estep1 im s5 _ _ _ Hf). reflexivity. }
  assert (Hs6 : sim ss5 s6) by (destruct Hs5; constructor; assumption).
  assert (Hpc6 : m_pc s6 = m_pc s + 1 + 1 + (1 + kRC) + 2) by (unfold s6, s5; cbn [advance with_pc with_regs m_pc]; rewrite Hpc4'; lia).
  assert (Hfo6 : fetch im (m_pc s6) = Some (I2 OC_MOVEQ (POperand OD_MATRIX_LIGHT) (PReg R_OPERAND))).
  { rewrite Hpc6. replace (m_pc s + 1 + 1 + (1 + kRC) + 2) with (m_pc s + 1 + 1 + (1 + kRC) + zlength [I0 OC_COLOR; I1 OC_END (POperand OD_MATRIX)]) by reflexivity. exact Hfo2. }
  destruct (load_hidden im ss5 s6 (POperand OD_MATRIX_LIGHT) R_OPERAND (VOperand OD_MATRIX_LIGHT) Hs6 eq_refl eq_refl eq_refl eq_refl Hfo6) as [E7 Hs7].
  set (s7 := put_vm s6 (DReg R_OPERAND) (VOperand OD_MATRIX_LIGHT) 1) in *.
  assert (Hn7 : reg s7 R_NAME = name).
  { unfold reg, get_reg, s7. rewrite put_reg_other by reflexivity. change (m_regs s6) with (m_regs s5). rewrite Hn5. reflexivity. }
  assert (Ho7 : rf_get (m_regs s7) R_OPERAND = Some (VOperand OD_MATRIX_LIGHT)) by apply put_reg_same.
  (* COLOR: the matrix is sent *)
  change (do_matrix_light rf (s_world ss0) name) with ((fun rf0 w => do_matrix_light rf0 w name) (s_regs ss5) (s_world ss5)) in He.
  destruct (dev_sim_regs (fun rf0 w => do_matrix_light rf0 w name) (fun p q w Hpq Hq => do_matrix_light_agree p q w name Hpq Hq) ss5 s7 ss1 Hs7 He)
    as (s8 & evs & Ho8 & Hs8 & Hpc8 & Hst8 & Htr8).
  assert (E8 : esteps 1 im s7 = Some (s8, evs ++ [])).
  { assert (Hf : fetch im (m_pc s7) = Some (I0 OC_COLOR)).
    { unfold s7. cbn [put_vm m_pc]. rewrite Hpc6.
      replace (m_pc s + 1 + 1 + (1 + kRC) + 2 + 1) with (m_pc s + 1 + 1 + (1 + kRC) + zlength [I0 OC_COLOR; I1 OC_END (POperand OD_MATRIX)] + Z.of_nat 1) by (unfold zlength; cbn [length]; lia). exact Hfc2. }
    cbn [esteps]. rewrite Hf. cbn [Machine.exec i_op I0]. unfold cmd_color. rewrite Hn7. unfold reg at 1, get_reg. rewrite Ho7, Ho8. reflexivity. }
  exists (1 + (1 + (1 + (n4 + (1 + (1 + (1 + 1)))))))%nat, s8, ([] ++ ([] ++ ([] ++ ([] ++ ([] ++ ([] ++ ([] ++ (evs ++ [])))))))).
  split; [eapply esteps_app; [exact E1|eapply esteps_app; [exact E2|eapply esteps_app; [exact E3|eapply esteps_app; [exact E4|eapply esteps_app; [exact E5|eapply esteps_app; [exact E6|eapply esteps_app; [exact E7|exact E8]]]]]]]|].
  split; [exact Hs8|].
  split.
  { rewrite Hpc8. unfold s7. cbn [put_vm m_pc]. rewrite Hpc6.
    match goal with |- _ = _ + zlength ?L => assert (Hlen : zlength L = 1 + 1 + (1 + kRC) + 2 + 2) end.
    { unfold kRC, zlength. rewrite !app_length, !Nat2Z.inj_add. cbn [length]. destruct n; cbn [c_name length]; lia. }
    rewrite Hlen. lia. }
  split.
  { rewrite Hst8. unfold fr, s7, s6, s5. cbn [put_vm advance with_pc with_regs m_stack m_frames]. rewrite Hsk4, Hfr4. reflexivity. }
  cbn [app]. rewrite app_nil_r. rewrite Htr8. reflexivity.
Qed.

Lemma sim_oplist (c : bool) l : forallb (simple_opnd c) l = true ->
  forall im ss s ss1 fuel, sim ss s -> code_at im (m_pc s) (c_ops rt mt false (cmd_op c) (OpList l)) ->
  exec_oplist rt mt fuel false ss c l = ROk tt ss1 ->
  exists n s1 evs, esteps n im s = Some (s1, evs) /\ sim ss1 s1 /\ m_pc s1 = m_pc s + zlength (c_ops rt mt false (cmd_op c) (OpList l)) /\
                   (m_stack s1, fr s1) = (m_stack s, fr s) /\ rev (s_trace ss1) = rev (s_trace ss) ++ evs.
Proof.
  induction l as [|o r IH]; intros Hl im ss s ss1 fuel Hsim Hc He.
  - destruct fuel as [|fuel]; [discriminate|]. rewrite exec_oplist_nil in He. injection He as He. subst ss1.
    exists 0%nat, s, []. rewrite c_ops_nil. split; [reflexivity|]. split; [exact Hsim|]. split; [unfold zlength; cbn; lia|].
    split; [reflexivity|rewrite app_nil_r; reflexivity].
  - cbn [forallb] in Hl. apply andb_true_iff in Hl. destruct Hl as [Ho Hr].
    destruct o as [k n|n a b|n rows cols rf|]; cbn [simple_opnd] in Ho; try discriminate.
    3: { (* the one-line matrix command *)
      apply andb_true_iff in Ho. destruct Ho as [Hcc Hz]. subst c. cbn [cmd_op] in *.
      destruct fuel as [|fuel]; [discriminate|]. rewrite exec_oplist_cons in He.
      destruct (exec_operand rt mt fuel false ss true (MatrixInline n rows cols rf)) as [[] sa|e sa|sa] eqn:Ed; cbn [sbind] in He; try discriminate.
      rewrite c_ops_cons_inline in Hc |- *. apply code_at_app in Hc. destruct Hc as [Hc1 Hc2].
      destruct (sim_one_inline n rows cols rf im ss s sa fuel Hz Hsim Hc1 Ed) as (k1 & s1 & e1 & E1 & Hs1 & Hpc1 & Hst1 & Htr1).
      assert (Hc2' : code_at im (m_pc s1) (c_ops rt mt false OC_COLOR (OpList r))) by (rewrite Hpc1; exact Hc2).
      destruct (IH Hr im sa s1 ss1 fuel Hs1 Hc2' He) as (n2 & s2 & e2 & E2 & Hs2 & Hpc2 & Hst2 & Htr2).
      exists (k1 + n2)%nat, s2, (e1 ++ e2). split; [eapply esteps_app; eassumption|]. split; [exact Hs2|].
      split; [rewrite Hpc2, Hpc1; unfold zlength; rewrite app_length, Nat2Z.inj_add; lia|].
      split; [rewrite Hst2; exact Hst1|]. rewrite Htr2, Htr1, app_assoc. reflexivity. }
    2: { (* a zone range *)
      apply andb_true_iff in Ho. destruct Ho as [Hcc Hz]. subst c. cbn [cmd_op] in *.
      destruct fuel as [|fuel]; [discriminate|]. rewrite exec_oplist_cons in He.
      destruct (exec_operand rt mt fuel false ss true (Zone n a b)) as [[] sa|e sa|sa] eqn:Ed; cbn [sbind] in He; try discriminate.
      rewrite c_ops_cons_zone in Hc |- *. apply code_at_app in Hc. destruct Hc as [Hc1 Hc2].
      destruct (sim_one_zone n a b im ss s sa fuel Hz Hsim Hc1 Ed) as (k1 & s1 & e1 & E1 & Hs1 & Hpc1 & Hst1 & Htr1).
      assert (Hc2' : code_at im (m_pc s1) (c_ops rt mt false OC_COLOR (OpList r))) by (rewrite Hpc1; exact Hc2).
      destruct (IH Hr im sa s1 ss1 fuel Hs1 Hc2' He) as (n2 & s2 & e2 & E2 & Hs2 & Hpc2 & Hst2 & Htr2).
      exists (k1 + n2)%nat, s2, (e1 ++ e2). split; [eapply esteps_app; eassumption|]. split; [exact Hs2|].
      split; [rewrite Hpc2, Hpc1; unfold zlength; rewrite app_length, Nat2Z.inj_add; lia|].
      split; [rewrite Hst2; exact Hst1|]. rewrite Htr2, Htr1, app_assoc. reflexivity. }
    destruct fuel as [|fuel]; [discriminate|]. rewrite exec_oplist_cons in He.
    destruct fuel as [|fuel]; [discriminate|]. rewrite exec_operand_targetv in He.
    destruct (dev_step ss (target_cmdv k c (name_of mt ss n) (s_regs ss) (s_world ss))) as [[] sa|e sa|sa] eqn:Ed; cbn [sbind] in He; try discriminate.
    rewrite c_ops_cons in Hc |- *. apply code_at_app in Hc. destruct Hc as [Hc1 Hc2].
    assert (Hz3 : zlength (c_name mt n ++ [I2 OC_MOVEQ (POperand (kind_operand k)) (PReg R_OPERAND); I0 (cmd_op c)]) = 3) by (destruct n; reflexivity).
    rewrite Hz3 in Hc2.
    destruct (sim_one_target c k n im ss s sa Ho Hsim Hc1 Ed) as (s1 & e1 & E1 & Hs1 & Hpc1 & Hst1 & Htr1).
    assert (Hc2' : code_at im (m_pc s1) (c_ops rt mt false (cmd_op c) (OpList r))) by (rewrite Hpc1; exact Hc2).
    destruct (IH Hr im sa s1 ss1 (S fuel) Hs1 Hc2' He) as (n2 & s2 & e2 & E2 & Hs2 & Hpc2 & Hst2 & Htr2).
    exists (3 + n2)%nat, s2, (e1 ++ e2). split; [eapply esteps_app; eassumption|]. split; [exact Hs2|].
    split; [rewrite Hpc2, Hpc1; fold (zlength (c_name mt n ++ [I2 OC_MOVEQ (POperand (kind_operand k)) (PReg R_OPERAND); I0 (cmd_op c)])) in *; unfold zlength in *; rewrite app_length, Nat2Z.inj_add; lia|].
    split; [rewrite Hst2; exact Hst1|]. rewrite Htr2, Htr1, app_assoc. reflexivity.
Qed.
End Sim7.

Section Sim8.
Variable rt : rtable.
Variable mt : mtable.

Definition ops_size (ops : operands) : nat := match ops with OpList l => (2 * length l + 3)%nat | _ => 3%nat end.

Lemma sim_ops (c : bool) ops : simple_ops mt c ops = true ->
  forall im ss s ss1 fuel, sim ss s -> code_at im (m_pc s) (c_ops rt mt false (cmd_op c) ops) ->
  exec_ops rt mt fuel false ss c ops = ROk tt ss1 ->
  exists n s1 evs, esteps n im s = Some (s1, evs) /\ sim ss1 s1 /\ m_pc s1 = m_pc s + zlength (c_ops rt mt false (cmd_op c) ops) /\
                   (m_stack s1, fr s1) = (m_stack s, fr s) /\ rev (s_trace ss1) = rev (s_trace ss) ++ evs.
Proof.
  intros Hs im ss s ss1 fuel Hsim Hc He. destruct ops as [| |l]; cbn [simple_ops] in Hs; try discriminate.
  - (* all *)
    destruct fuel as [|fuel]; [discriminate|]. rewrite exec_ops_all in He.
    rewrite c_ops_all in *. cbn [code_at] in Hc. destruct Hc as [Hf1 [Hf2 _]].
    destruct (load_hidden im ss s (POperand OD_ALL) R_OPERAND (VOperand OD_ALL) Hsim eq_refl eq_refl eq_refl eq_refl Hf1) as [E1 Hs1].
    set (s1 := put_vm s (DReg R_OPERAND) (VOperand OD_ALL) 1) in *.
    assert (Ho : rf_get (m_regs s1) R_OPERAND = Some (VOperand OD_ALL)) by (unfold s1; cbn [put_vm m_regs]; apply rf_get_set_same).
    change (if c then do_color_all (s_regs ss) (s_world ss) else do_power_all (s_regs ss) (s_world ss)) with (all_cmd c (s_regs ss) (s_world ss)) in He.
    destruct (dev_sim (all_cmd c) (all_cmd_respects c) ss s1 ss1 Hs1 He) as (s2 & evs & Ho2 & Hs2 & Hpc & Hst & Htr).
    exists 2%nat, s2, evs. split.
    + change 2%nat with (1 + 1)%nat. replace evs with ([] ++ evs) by reflexivity. eapply esteps_app; [exact E1|].
      apply (estep1 im s1 _ _ _ Hf2). rewrite (exec_cmd_all im s1 c Ho). exact Ho2.
    + split; [exact Hs2|]. split; [rewrite Hpc; unfold s1; cbn [put_vm m_pc]; unfold zlength; cbn; lia|]. split; [rewrite Hst; reflexivity|exact Htr].
  - (* default: the colour goes to the default register *)
    destruct fuel as [|fuel]; [discriminate|]. rewrite exec_ops_default in He. destruct c; [|discriminate].
    rewrite c_ops_default in *. cbn [code_at] in Hc. destruct Hc as [Hf1 [Hf2 _]].
    destruct (load_hidden im ss s (POperand OD_DEFAULT) R_OPERAND (VOperand OD_DEFAULT) Hsim eq_refl eq_refl eq_refl eq_refl Hf1) as [E1 Hs1].
    set (s1 := put_vm s (DReg R_OPERAND) (VOperand OD_DEFAULT) 1) in *.
    assert (Ho : rf_get (m_regs s1) R_OPERAND = Some (VOperand OD_DEFAULT)) by (unfold s1; cbn [put_vm m_regs]; apply rf_get_set_same).
    unfold do_color_default in He.
    destruct (rf_raw_color (s_regs ss)) as [rc|e] eqn:Erc; cbn [bind dev_step] in He; [|discriminate]. injection He as He. subst ss1.
    set (s2 := advance (with_world (with_regs s1 (rf_set (m_regs s1) R_DEFAULT (VList rc))) (m_world s1))).
    exists 2%nat, s2, ([] ++ []). split.
    + change 2%nat with (1 + 1)%nat. eapply esteps_app; [exact E1|].
      apply (estep1 im s1 _ _ _ Hf2). cbn [cmd_op Machine.exec i_op I0]. unfold cmd_color, reg, get_reg. rewrite Ho.
      unfold do_color_default. rewrite (raw_color_agree _ _ (sim_regs _ _ Hs1)), Erc. reflexivity.
    + destruct Hs1 as [Hr Hfu Hg Hfr Hl Hw Hu Hdf]. split.
      { constructor; cbn [s2 advance with_pc with_world with_regs m_regs m_globals m_frames m_world m_unnamed d_regs d_world s_regs s_globals s_locals s_world]; try assumption.
        - apply agree_set. exact Hr.
        - apply regs_full_set. exact Hfu.
        - rewrite rf_get_set_other; [exact Hdf|reflexivity]. }
      split; [unfold s2, s1; cbn [advance with_pc with_world with_regs put_vm m_pc]; unfold zlength; cbn; lia|]. split; [reflexivity|].
      cbn [s_trace d_events rev_append app]. rewrite app_nil_r. reflexivity.
  - (* list *)
    destruct fuel as [|fuel]; [discriminate|]. rewrite exec_ops_list in He.
    exact (sim_oplist rt mt c l Hs im ss s ss1 fuel Hsim Hc He).
Qed.

Lemma c_set ops : c_stmt rt mt false None (SSet ops) = [I0 OC_WAIT] ++ c_ops rt mt false OC_COLOR ops.
Proof. reflexivity. Qed.
Lemma c_power (on : bool) ops : c_stmt rt mt false None (if on then SOn ops else SOff ops) =
  [I2 OC_MOVEQ (PBool on) (PReg R_POWER)] ++ [I0 OC_WAIT] ++ c_ops rt mt false OC_POWER ops.
Proof. destruct on; reflexivity. Qed.

Lemma sim_SSet ops im ss s ss' fuel : simple_ops mt true ops = true -> sim ss s ->
  code_at im (m_pc s) (c_stmt rt mt false None (SSet ops)) ->
  Sem.exec rt mt fuel false ss (SSet ops) = ROk SigNormal ss' -> simulates im ss s ss' (c_stmt rt mt false None (SSet ops)).
Proof.
  intros Hs Hsim Hc He. destruct fuel as [|fuel]; [discriminate|]. rewrite exec_set in He. rewrite c_set in *.
  destruct (do_wait ss) as [[] sa|e sa|sa] eqn:Ew; cbn [sbind] in He; try discriminate.
  destruct (exec_ops rt mt fuel false sa true ops) as [[] sb|e sb|sb] eqn:Eo; cbn [sbind] in He; try discriminate. injection He as He. subst ss'.
  apply code_at_app in Hc. destruct Hc as [Hc1 Hc2]. cbn [code_at] in Hc1. destruct Hc1 as [Hf _].
  destruct (wait_sim im ss s sa Hsim Hf Ew) as (e1 & E1 & Hs1 & Ht1).
  assert (Hc2' : code_at im (m_pc (advance s)) (c_ops rt mt false (cmd_op true) ops)) by exact Hc2.
  destruct (sim_ops true ops Hs im sa (advance s) sb fuel Hs1 Hc2' Eo) as (n2 & s2 & e2 & E2 & Hs2 & Hpc2 & Hst2 & Ht2).
  exists (1 + n2)%nat, s2, (e1 ++ e2). split; [eapply esteps_app; eassumption|]. split; [exact Hs2|].
  split; [rewrite Hpc2; cbn [advance with_pc m_pc cmd_op]; unfold zlength; rewrite app_length, Nat2Z.inj_add; cbn [length]; lia|].
  split; [rewrite Hst2; reflexivity|]. rewrite Ht2, Ht1, app_assoc. reflexivity.
Qed.

Lemma sim_power (on : bool) ops im ss s ss' fuel : simple_ops mt false ops = true -> sim ss s ->
  code_at im (m_pc s) (c_stmt rt mt false None (if on then SOn ops else SOff ops)) ->
  Sem.exec rt mt fuel false ss (if on then SOn ops else SOff ops) = ROk SigNormal ss' ->
  simulates im ss s ss' (c_stmt rt mt false None (if on then SOn ops else SOff ops)).
Proof.
  intros Hs Hsim Hc He. destruct fuel as [|fuel]; [discriminate|]. rewrite exec_power in He. rewrite c_power in *. cbv zeta in He.
  set (ss0 := s_with_regs ss (rf_set (s_regs ss) R_POWER (VBool on))) in *.
  destruct (do_wait ss0) as [[] sa|e sa|sa] eqn:Ew; cbn [sbind] in He; try discriminate.
  destruct (exec_ops rt mt fuel false sa false ops) as [[] sb|e sb|sb] eqn:Eo; cbn [sbind] in He; try discriminate. injection He as He. subst ss'.
  apply code_at_app in Hc. destruct Hc as [Hc0 Hc]. apply code_at_app in Hc. destruct Hc as [Hc1 Hc2].
  cbn [code_at] in Hc0, Hc1. destruct Hc0 as [Hf0 _]. destruct Hc1 as [Hf1 _].
  (* the power register *)
  set (s0 := put_vm s (DReg R_POWER) (VBool on) 1).
  assert (E0 : esteps 1 im s = Some (s0, [])).
  { apply (estep1 im s _ _ _ Hf0). change (PReg R_POWER) with (dest_param (DReg R_POWER)).
    rewrite (exec_moveq im s (PBool on) (DReg R_POWER) (VBool on) eq_refl eq_refl). apply lift_put; reflexivity. }
  assert (Hs0 : sim ss0 s0) by (apply sim_put_reg_visible; [exact Hsim|reflexivity]).
  assert (Hf1' : fetch im (m_pc s0) = Some (I0 OC_WAIT)) by exact Hf1.
  destruct (wait_sim im ss0 s0 sa Hs0 Hf1' Ew) as (e1 & E1 & Hs1 & Ht1).
  assert (Hc2' : code_at im (m_pc (advance s0)) (c_ops rt mt false (cmd_op false) ops)).
  { cbn [advance with_pc m_pc]. unfold s0. cbn [put_vm m_pc]. unfold zlength in Hc2. cbn [length] in Hc2.
    replace (m_pc s + 1 + 1) with (m_pc s + Z.of_nat 1 + Z.of_nat 1) by lia. exact Hc2. }
  destruct (sim_ops false ops Hs im sa (advance s0) sb fuel Hs1 Hc2' Eo) as (n2 & s2 & e2 & E2 & Hs2 & Hpc2 & Hst2 & Ht2).
  exists (1 + (1 + n2))%nat, s2, ([] ++ (e1 ++ e2)). split; [eapply esteps_app; [exact E0|eapply esteps_app; eassumption]|]. split; [exact Hs2|].
  split; [rewrite Hpc2; cbn [advance with_pc m_pc cmd_op]; unfold s0; cbn [put_vm m_pc]; unfold zlength; rewrite !app_length, !Nat2Z.inj_add; cbn [length]; lia|].
  split; [rewrite Hst2; reflexivity|]. cbn [app]. rewrite Ht2, Ht1, app_assoc. reflexivity.
Qed.
End Sim8.

Section Sim9.
Variable rt : rtable.
Variable mt : mtable.

Definition self_reg (r : register) (v : rval) : bool := match v with RReg r' => register_eqb r' r | _ => false end.
(* a register set to itself: nothing is compiled, nothing changes *)
Lemma sim_self_reg r im ss s ss' fuel : script_reg r = true -> sim ss s ->
  Sem.exec rt mt fuel false ss (SReg r (RReg r)) = ROk SigNormal ss' -> simulates im ss s ss' (c_stmt rt mt false None (SReg r (RReg r))).
Proof.
  intros Hr Hsim He. destruct fuel as [|fuel]; [discriminate|]. rewrite exec_reg in He. destruct fuel as [|fuel]; [discriminate|].
  rewrite eval_rval_S in He. cbn [sbind] in He. injection He as He. subst ss'.
  assert (Hcode : c_stmt rt mt false None (SReg r (RReg r)) = []).
  { change (c_stmt rt mt false None (SReg r (RReg r))) with (move_ref (PReg r) (DReg r)). unfold move_ref. rewrite register_eqb_refl. reflexivity. }
  rewrite Hcode.
  assert (Hsame : s_with_regs ss (rf_set (s_regs ss) r (rreg (s_regs ss) r)) = ss).
  { pose proof (sim_full _ _ Hsim r (script_reg_visible r Hr)) as Hf. unfold rreg. destruct (rf_get (s_regs ss) r) as [v|] eqn:Eg; [|contradiction].
    rewrite (rf_set_get _ _ _ Eg). apply s_with_regs_same. }
  rewrite Hsame. exists 0%nat, s, []. split; [reflexivity|]. split; [exact Hsim|]. split; [unfold zlength; cbn; lia|]. split; [reflexivity|]. rewrite app_nil_r. reflexivity.
Qed.

(* the statement forms of the theorem *)
Definition simple_atom (st : stmt) : bool :=
  match st with
  | SReg r v => script_reg r && ((plain_rval mt v && ok_dest (DReg r) v) || self_reg r v)     (* `kelvin kelvin`: no code *)
  | SAssign y v => plain_rval mt v && ok_dest (DVar y) v
  | SUnits _ | SWait => true
  | SGet n => plain_rval mt n
  | STimeAt ps => simple_times mt ps
  | SPrint (Some v) | SPrintln (Some v) => plain_rval mt v
  | SPrint None | SPrintln None | SDefineMacro _ _ => true     (* nothing / a line break / a constant: no value to compute *)
  | SSet ops => simple_ops mt true ops
  | SOn ops | SOff ops => simple_ops mt false ops
  | _ => false
  end.

Definition atom_size (st : stmt) : nat :=
  match st with
  | SReg _ v | SAssign _ v | SPrint (Some v) | SPrintln (Some v) | SGet v => S (rheight v)
  | SSet ops | SOn ops | SOff ops => S (ops_size ops)
  | _ => 1%nat
  end.

Theorem atom_simulation st : simple_atom st = true ->
  forall im ss s ss' fuel, sim ss s -> code_at im (m_pc s) (c_stmt rt mt false None st) ->
  Sem.exec rt mt fuel false ss st = ROk SigNormal ss' -> simulates im ss s ss' (c_stmt rt mt false None st).
Proof.
  intros Hs im ss s ss' fuel Hsim Hc He.
  destruct st as [r v|m|ops|ops|ops| |n| |ps|y v| | | | | | | |[v|]|[v|]| |]; cbn [simple_atom] in Hs; try discriminate.
  - apply andb_true_iff in Hs. destruct Hs as [Hr Hs]. apply orb_true_iff in Hs. destruct Hs as [Hs|Hs].
    + apply andb_true_iff in Hs. destruct Hs as [Hp Hd]. exact (sim_SReg rt mt r v Hr Hp Hd im ss s ss' fuel Hsim Hc He).
    + destruct v as [l|l|m|m|y|r'|e|g args]; try discriminate. cbn [self_reg] in Hs. apply register_eqb_eq in Hs. subst r'.
      exact (sim_self_reg r im ss s ss' fuel Hr Hsim He).
  - exact (sim_SUnits rt mt m im ss s ss' fuel Hsim Hc He).
  - exact (sim_SSet rt mt ops im ss s ss' fuel Hs Hsim Hc He).
  - exact (sim_power rt mt true ops im ss s ss' fuel Hs Hsim Hc He).
  - exact (sim_power rt mt false ops im ss s ss' fuel Hs Hsim Hc He).
  - exact (sim_SGet rt mt n im ss s ss' fuel Hs Hsim Hc He).
  - exact (sim_SWait rt mt im ss s ss' fuel Hsim Hc He).
  - exact (sim_STimeAt rt mt ps im ss s ss' fuel Hs Hsim Hc He).
  - apply andb_true_iff in Hs. destruct Hs as [Hp Hd].
    exact (sim_SAssign rt mt y v Hp Hd im ss s ss' fuel Hsim Hc He).
  - (* define m ...: the CONSTANT instruction does nothing at run time *)
    destruct fuel as [|fuel]; [discriminate|]. assert (Hss : ss' = ss) by (injection He as H; symmetry; exact H). subst ss'.
    cbn [c_stmt code_at] in Hc |- *. destruct Hc as [Hf _].
    exists 1%nat, (advance s), []. split; [apply (estep1 im s _ _ _ Hf); reflexivity|].
    split; [destruct Hsim; constructor; assumption|]. split; [reflexivity|]. split; [reflexivity|]. rewrite app_nil_r. reflexivity.
  - exact (sim_SPrint rt mt v im ss s ss' fuel Hs Hsim Hc He).
  - (* print without a value: no code *)
    destruct fuel as [|fuel]; [discriminate|]. assert (Hss : ss' = ss) by (injection He as H; symmetry; exact H). subst ss'.
    exists 0%nat, s, []. split; [reflexivity|]. split; [exact Hsim|]. split; [cbn; lia|]. split; [reflexivity|]. rewrite app_nil_r. reflexivity.
  - exact (sim_SPrintln rt mt v im ss s ss' fuel Hs Hsim Hc He).
  - (* println without a value: the line break *)
    destruct fuel as [|fuel]; [discriminate|]. assert (Hss : ss' = s_emit ss [EvNewline]) by (injection He as H; symmetry; exact H). subst ss'.
    cbn [c_stmt code_at] in Hc |- *. destruct Hc as [Hf _].
    exists 1%nat, (advance s), [EvNewline]. split; [apply (estep1 im s _ _ _ Hf); reflexivity|].
    split; [apply sim_emit; destruct Hsim; constructor; assumption|]. split; [reflexivity|]. split; [reflexivity|]. apply trace_emit.
Qed.

(* scripts: sequences of those statements *)
Fixpoint seq_size (p : list stmt) : nat := match p with [] => 1%nat | st :: r => S (atom_size st + seq_size r) end.

Lemma exec_seq_nil f ss : exec_seq rt mt (S f) false ss [] = ROk SigNormal ss.
Proof. reflexivity. Qed.
Lemma exec_seq_cons f ss st r : exec_seq rt mt (S f) false ss (st :: r) =
  (let* (sig, s1) := Sem.exec rt mt f false ss st in match sig with SigNormal => exec_seq rt mt f false s1 r | _ => ROk sig s1 end).
Proof. reflexivity. Qed.

(* the statements of the theorem always end normally (no break, no return) *)
Lemma atom_signal st fuel ss sig ss' : simple_atom st = true -> Sem.exec rt mt fuel false ss st = ROk sig ss' -> sig = SigNormal.
Proof.
  intros Hs He. destruct fuel as [|fuel]; [discriminate|].
  destruct st as [r v|m|ops|ops|ops| |n| |ps|y v| | | | | | | |[v|]|[v|]| |]; cbn [simple_atom] in Hs; try discriminate.
  - rewrite exec_reg in He. destruct (eval_rval rt mt fuel false ss v); cbn [sbind] in He; try discriminate. injection He as He _. auto.
  - rewrite exec_units in He. destruct (rf_switch_unit_mode _ _); [injection He as He _; auto|discriminate].
  - rewrite exec_set in He. destruct (do_wait ss) as [[] sa| |]; cbn [sbind] in He; try discriminate.
    destruct (exec_ops rt mt fuel false sa true ops) as [[] sb| |]; cbn [sbind] in He; try discriminate. injection He as He _. auto.
  - rewrite (exec_power rt mt fuel ss true ops) in He. cbv zeta in He. destruct (do_wait _) as [[] sa| |]; cbn [sbind] in He; try discriminate.
    destruct (exec_ops rt mt fuel false sa false ops) as [[] sb| |]; cbn [sbind] in He; try discriminate. injection He as He _. auto.
  - rewrite (exec_power rt mt fuel ss false ops) in He. cbv zeta in He. destruct (do_wait _) as [[] sa| |]; cbn [sbind] in He; try discriminate.
    destruct (exec_ops rt mt fuel false sa false ops) as [[] sb| |]; cbn [sbind] in He; try discriminate. injection He as He _. auto.
  - rewrite exec_get in He. destruct (eval_rval rt mt fuel false ss n) as [x sa| |]; cbn [sbind] in He; try discriminate.
    destruct (dev_step sa _) as [[] sb| |]; cbn [sbind] in He; try discriminate. injection He as He _. auto.
  - rewrite exec_wait in He. destruct (do_wait ss) as [[] sa| |]; cbn [sbind] in He; try discriminate. injection He as He _. auto.
  - rewrite exec_timeat in He. destruct (map (pat_of mt) ps) as [|[p|] rest]; try discriminate.
    destruct (forallb _ rest); [injection He as He _; auto|discriminate].
  - rewrite exec_assign in He. destruct (eval_rval rt mt fuel false ss v); cbn [sbind] in He; try discriminate. injection He as He _. auto.
  - injection He as He _. auto.
  - rewrite exec_print in He. destruct (eval_rval rt mt fuel false ss v); cbn [sbind] in He; try discriminate. injection He as He _. auto.
  - injection He as He _. auto.
  - rewrite exec_println in He. destruct (eval_rval rt mt fuel false ss v); cbn [sbind] in He; try discriminate. injection He as He _. auto.
  - injection He as He _. auto.
Qed.

Theorem script_simulation p : forallb simple_atom p = true ->
  forall im ss s ss' fuel, sim ss s -> code_at im (m_pc s) (flat_map (c_stmt rt mt false None) p) ->
  exec_seq rt mt fuel false ss p = ROk SigNormal ss' -> simulates im ss s ss' (flat_map (c_stmt rt mt false None) p).
Proof.
  induction p as [|st r IH]; intros Hs im ss s ss' fuel Hsim Hc He.
  - destruct fuel as [|fuel]; [discriminate|]. rewrite exec_seq_nil in He. injection He as He. subst ss'.
    exists 0%nat, s, []. split; [reflexivity|]. split; [exact Hsim|]. split; [unfold zlength; cbn; lia|]. split; [reflexivity|rewrite app_nil_r; reflexivity].
  - cbn [forallb] in Hs. apply andb_true_iff in Hs. destruct Hs as [Hst Hr].
    destruct fuel as [|fuel]; [discriminate|]. rewrite exec_seq_cons in He.
    destruct (Sem.exec rt mt fuel false ss st) as [sig sa|e sa|sa] eqn:Est; cbn [sbind] in He; try discriminate.
    pose proof (atom_signal st fuel ss sig sa Hst Est) as Hsig. subst sig.
    cbn [flat_map] in Hc |- *. apply code_at_app in Hc. destruct Hc as [Hc1 Hc2].
    destruct (atom_simulation st Hst im ss s sa fuel Hsim Hc1 Est) as (n1 & s1 & e1 & E1 & Hs1 & Hpc1 & Hst1 & Ht1).
    assert (Hc2' : code_at im (m_pc s1) (flat_map (c_stmt rt mt false None) r)) by (rewrite Hpc1; exact Hc2).
    destruct (IH Hr im sa s1 ss' fuel Hs1 Hc2' He) as (n2 & s2 & e2 & E2 & Hs2 & Hpc2 & Hst2 & Ht2).
    exists (n1 + n2)%nat, s2, (e1 ++ e2). split; [eapply esteps_app; eassumption|]. split; [exact Hs2|].
    split; [rewrite Hpc2, Hpc1; unfold zlength; rewrite app_length, Nat2Z.inj_add; lia|].
    split; [rewrite Hst2; exact Hst1|]. rewrite Ht2, Ht1, app_assoc. reflexivity.
Qed.
End Sim9.

(* ---------- whole programs ---------- *)
(* no routine marker: ROUTINE f / END f (the END that closes a matrix block is an ordinary instruction) *)
Definition not_routine (i : instr) : bool :=
  match i_op i with
  | OC_ROUTINE => false
  | OC_END => match i_p0 i with POperand OD_MATRIX => true | _ => false end
  | _ => true
  end.

Lemma load_go_no_routine p : forallb not_routine p = true ->
  forall R M nR tbl, load_go p None R M nR tbl = (R, rev p ++ M, tbl).
Proof.
  induction p as [|i r IH]; intros Hp R M nR tbl; [reflexivity|].
  cbn [forallb] in Hp. apply andb_true_iff in Hp. destruct Hp as [Hi Hr]. cbn [load_go].
  unfold not_routine in Hi. destruct (i_op i); try discriminate; rewrite (IH Hr); cbn [rev]; rewrite <- app_assoc; reflexivity.
Qed.

Lemma load_no_routine p : forallb not_routine p = true -> im_code (load p) = p.
Proof.
  intros Hp. unfold load. rewrite (load_go_no_routine p Hp). cbn [rev]. rewrite app_nil_r, rev_involutive. reflexivity.
Qed.

Lemma code_at_suffix im : forall pre c, im_code im = pre ++ c -> code_at im (zlength pre) c.
Proof.
  intros pre c. revert pre. induction c as [|i r IH]; intros pre H; cbn [code_at]; [exact I|].
  split.
  - unfold fetch, zlength. replace (Z.of_nat (length pre) <? 0) with false by (symmetry; apply Z.ltb_ge; lia).
    rewrite Nat2Z.id, H, nth_error_app2 by lia. rewrite Nat.sub_diag. reflexivity.
  - replace (zlength pre + 1) with (zlength (pre ++ [i])) by (unfold zlength; rewrite app_length, Nat2Z.inj_add; reflexivity).
    apply IH. rewrite H, <- app_assoc. reflexivity.
Qed.

Section Sim10.
Variable rt : rtable.
Variable mt : mtable.

Lemma c_expr_no_routine e : supported mt e = true -> forallb not_routine (c_expr rt mt e) = true.
Proof.
  induction e as [l|m|x|r|g args|op a IHa b IHb|a IHa|a IHa|a IHa]; intros Hs; cbn [supported] in Hs; try discriminate.
  - destruct l; try discriminate; reflexivity.
  - reflexivity.
  - reflexivity.
  - reflexivity.
  - apply andb_true_iff in Hs. destruct Hs as [Ha Hb].
    change (c_expr rt mt (EBin op a b)) with (c_expr rt mt a ++ c_expr rt mt b ++ [operator_instr op]).
    rewrite !forallb_app, (IHa Ha), (IHb Hb). reflexivity.
  - change (c_expr rt mt (ENeg a)) with (c_expr rt mt a ++ [I1 OC_PUSHQ (PInt (-1)); I1 OC_OP (POperator OP_MUL)]).
    rewrite forallb_app, (IHa Hs). reflexivity.
  - exact (IHa Hs).
  - exact (IHa Hs).
Qed.

Lemma c_rval_no_routine v d : plain_rval mt v = true -> ok_dest d v = true -> forallb not_routine (c_rval rt mt v d) = true.
Proof.
  intros Hp Hd. pose proof (ok_dest_weaken d v Hd) as Hd0.
  assert (Hmc : forall p, forallb not_routine (move_const p d) = true) by (intros p; destruct d; try discriminate; reflexivity).
  assert (Hmr : forall p, forallb not_routine (move_ref p d) = true).
  { intros p. unfold move_ref. destruct d; try discriminate; match goal with |- context [if ?c then _ else _] => destruct c end; reflexivity. }
  destruct v; cbn [plain_rval] in Hp; try discriminate.
  - rewrite c_rval_lit. apply Hmc.
  - rewrite c_rval_neg. apply Hmc.
  - rewrite c_rval_macro. apply Hmc.
  - rewrite c_rval_negmacro. apply Hmc.
  - rewrite c_rval_var. apply Hmr.
  - rewrite c_rval_reg. apply Hmr.
  - apply andb_true_iff in Hp. destruct Hp as [Hs _]. rewrite c_rval_expr, forallb_app, (c_expr_no_routine e Hs). reflexivity.
Qed.

Lemma range_no_routine first last a ob : visible first = false -> writable first = true -> visible last = false -> writable last = true ->
  plain_rval mt a = true -> opt_plain mt ob = true -> forallb not_routine (c_range rt mt (a, ob) first last) = true.
Proof.
  intros Hv1 Hw1 Hv2 Hw2 Hpa Hpb. unfold c_range. cbn [fst snd]. rewrite forallb_app, (c_rval_no_routine a (DReg first) Hpa (plain_ok_hidden mt first a Hpa Hv1 Hw1)).
  destruct ob as [b|]; [exact (c_rval_no_routine b (DReg last) Hpb (plain_ok_hidden mt last b Hpb Hv2 Hw2))|reflexivity].
Qed.
Lemma inline_no_routine n rows cols rf : inline_ok mt n rows cols = true -> forallb not_routine (inline_code rt mt n rows cols rf) = true.
Proof.
  intros Hok. unfold inline_ok in Hok. apply andb_true_iff in Hok. destruct Hok as [Hok Hpcs]. apply andb_true_iff in Hok. destruct Hok as [_ Hprs].
  assert (HR : forallb not_routine (span_code rt mt rows R_FIRST_ROW R_LAST_ROW) = true).
  { destruct rows as [[a ob]|]; [|reflexivity]. cbn [span_plain] in Hprs. apply andb_true_iff in Hprs. destruct Hprs as [Hpa Hpob].
    exact (range_no_routine R_FIRST_ROW R_LAST_ROW a ob eq_refl eq_refl eq_refl eq_refl Hpa Hpob). }
  assert (HC : forallb not_routine (span_code rt mt cols R_FIRST_COLUMN R_LAST_COLUMN) = true).
  { destruct cols as [[c oc]|]; [|reflexivity]. cbn [span_plain] in Hpcs. apply andb_true_iff in Hpcs. destruct Hpcs as [Hpc Hpoc].
    exact (range_no_routine R_FIRST_COLUMN R_LAST_COLUMN c oc eq_refl eq_refl eq_refl eq_refl Hpc Hpoc). }
  assert (HD : forallb not_routine (dflt_code rows R_FIRST_ROW R_LAST_ROW ++ dflt_code cols R_FIRST_COLUMN R_LAST_COLUMN) = true) by (destruct rows, cols; reflexivity).
  unfold inline_code. rewrite c_spans_parts, !forallb_app. rewrite forallb_app in HD. apply andb_true_iff in HD. destruct HD as [HD1 HD2]. rewrite HD1, HD2.
  destruct rf; rewrite ?forallb_app, HR, HC; destruct n; cbn; reflexivity.
Qed.
Lemma c_ops_no_routine (c : bool) ops : simple_ops mt c ops = true -> forallb not_routine (c_ops rt mt false (cmd_op c) ops) = true.
Proof.
  intros Hs. assert (Hop : not_routine (I0 (cmd_op c)) = true) by (destruct c; reflexivity).
  destruct ops as [| |l]; cbn [simple_ops] in Hs; try discriminate.
  - rewrite c_ops_all. cbn [forallb]. rewrite Hop. reflexivity.
  - rewrite c_ops_default. cbn [forallb]. rewrite Hop. reflexivity.
  - induction l as [|o r IH]; [reflexivity|]. cbn [forallb] in Hs. apply andb_true_iff in Hs. destruct Hs as [Ho Hr].
    destruct o as [k n|n a b|n rows cols rf|]; cbn [simple_opnd] in Ho; try discriminate.
    3: { apply andb_true_iff in Ho. destruct Ho as [Hcc Hz]. subst c. cbn [cmd_op] in *. rewrite c_ops_cons_inline, forallb_app, (IH Hr), (inline_no_routine n rows cols rf Hz). reflexivity. }
    + rewrite c_ops_cons, !forallb_app, (IH Hr). cbn [forallb]. rewrite Hop. destruct n; reflexivity.
    + apply andb_true_iff in Ho. destruct Ho as [Hcc Hz]. subst c. cbn [cmd_op] in *. rewrite c_ops_cons_zone, forallb_app, (IH Hr).
      unfold zone_ok in Hz. apply andb_true_iff in Hz. destruct Hz as [Hz Hpb]. apply andb_true_iff in Hz. destruct Hz as [_ Hpa].
      unfold zone_code, c_range. cbn [fst snd]. rewrite !forallb_app, (c_rval_no_routine a (DReg R_FIRST_ZONE) Hpa (plain_ok_hidden mt R_FIRST_ZONE a Hpa eq_refl eq_refl)).
      assert (Hb : forallb not_routine match b with Some b' => c_rval rt mt b' (DReg R_LAST_ZONE) | None => [I2 OC_MOVEQ PNone (PReg R_LAST_ZONE)] end = true).
      { destruct b as [b'|]; [exact (c_rval_no_routine b' (DReg R_LAST_ZONE) Hpb (plain_ok_hidden mt R_LAST_ZONE b' Hpb eq_refl eq_refl))|reflexivity]. }
      rewrite Hb. destruct n; reflexivity.
Qed.

Lemma atom_no_routine st : simple_atom mt st = true -> forallb not_routine (c_stmt rt mt false None st) = true.
Proof.
  intros Hs. destruct st as [r v|m|ops|ops|ops| |n| |ps|y v| | | | | | | |[v|]|[v|]| |]; cbn [simple_atom] in Hs; try discriminate.
  - apply andb_true_iff in Hs. destruct Hs as [_ Hs]. apply orb_true_iff in Hs. destruct Hs as [Hs|Hs].
    + apply andb_true_iff in Hs. destruct Hs as [Hp Hd]. change (c_stmt rt mt false None (SReg r v)) with (c_rval rt mt v (DReg r)). apply c_rval_no_routine; assumption.
    + destruct v as [l|l|m|m|y|r'|e|g args]; try discriminate. cbn [self_reg] in Hs. apply register_eqb_eq in Hs. subst r'.
      change (c_stmt rt mt false None (SReg r (RReg r))) with (move_ref (PReg r) (DReg r)). unfold move_ref. rewrite register_eqb_refl. reflexivity.
  - reflexivity.
  - pose proof (c_ops_no_routine true ops Hs) as Hn. cbn [cmd_op] in Hn. rewrite c_set, forallb_app, Hn. reflexivity.
  - pose proof (c_ops_no_routine false ops Hs) as Hn. cbn [cmd_op] in Hn. rewrite (c_power rt mt true ops), !forallb_app, Hn. reflexivity.
  - pose proof (c_ops_no_routine false ops Hs) as Hn. cbn [cmd_op] in Hn. rewrite (c_power rt mt false ops), !forallb_app, Hn. reflexivity.
  - change (c_stmt rt mt false None (SGet n)) with (c_rval rt mt n (DReg R_RESULT) ++ [I2 OC_MOVE (PReg R_RESULT) (PReg R_NAME); I0 OC_GET_COLOR]).
    rewrite forallb_app, (c_rval_no_routine n (DReg R_RESULT) Hs (plain_ok_result mt n Hs)). reflexivity.
  - reflexivity.
  - destruct ps as [|t r]; [reflexivity|].
    change (c_stmt rt mt false None (STimeAt (t :: r))) with
      (I2 OC_TIME_PATTERN (PSetOp SO_INIT) (pat_param mt t) :: map (fun q => I2 OC_TIME_PATTERN (PSetOp SO_UNION) (pat_param mt q)) r).
    cbn [forallb]. clear Hs. induction r as [|q r IH]; [reflexivity|]. cbn [map forallb]. exact IH.
  - apply andb_true_iff in Hs. destruct Hs as [Hp Hd].
    change (c_stmt rt mt false None (SAssign y v)) with (c_rval rt mt v (DVar y)). apply c_rval_no_routine; assumption.
  - reflexivity.
  - change (c_stmt rt mt false None (SPrint (Some v))) with (c_rval rt mt v (DReg R_RESULT) ++ [I2 OC_OUT (PIoOp IO_REGISTER) (PReg R_RESULT); I1 OC_OUT (PIoOp IO_PRINT)]).
    rewrite forallb_app, (c_rval_no_routine v (DReg R_RESULT) Hs (plain_ok_result mt v Hs)). reflexivity.
  - reflexivity.
  - change (c_stmt rt mt false None (SPrintln (Some v))) with (c_rval rt mt v (DReg R_RESULT) ++ [I2 OC_OUT (PIoOp IO_REGISTER) (PReg R_RESULT); I1 OC_OUT (PIoOp IO_PRINT); I1 OC_OUT (PIoOp IO_PRINT_END)]).
    rewrite forallb_app, (c_rval_no_routine v (DReg R_RESULT) Hs (plain_ok_result mt v Hs)). reflexivity.
  - reflexivity.
Qed.

Lemma script_no_routine p : forallb (simple_atom mt) p = true -> forallb not_routine (flat_map (c_stmt rt mt false None) p) = true.
Proof.
  induction p as [|st r IH]; intros Hs; [reflexivity|]. cbn [forallb] in Hs. apply andb_true_iff in Hs. destruct Hs as [Hst Hr].
  cbn [flat_map]. rewrite forallb_app, (atom_no_routine st Hst), (IH Hr). reflexivity.
Qed.
End Sim10.

Lemma sim_init w : sim (init_sstate w) (init_state w).
Proof.
  constructor; cbn; try reflexivity.
  - apply agree_refl.
  - intros r Hv. destruct r; cbn in Hv |- *; try discriminate.
Qed.

(* a straight-line script, compiled, loaded and run on the machine model from the initial state,
   finishes with exactly the events the reference semantics gives for the source *)
Theorem straightline_program_runs_as_its_source_says (p : script) (w : world) (fuel : nat) (evs : list event) :
  forallb (simple_atom (snd (collect p [] []))) p = true ->
  run_src fuel p w = SFinished evs ->
  exists k, run_program k (compile p) w = Finished evs.
Proof.
  intros Hs Hrun. unfold run_src, compile in *. destruct (collect p [] []) as [rt mt] eqn:Ec. cbn [snd] in Hs.
  destruct (exec_seq rt mt fuel false (init_sstate w) p) as [sig ss'|e ss'|ss'] eqn:Ee; try discriminate.
  assert (Hsig : sig = SigNormal).
  { clear -Hs Ee. revert fuel Ee. generalize (init_sstate w). induction p as [|st r IH]; intros ss0 fuel Ee.
    - destruct fuel; [discriminate|]. rewrite exec_seq_nil in Ee. injection Ee as E _. auto.
    - cbn [forallb] in Hs. apply andb_true_iff in Hs. destruct Hs as [Hst Hr]. destruct fuel; [discriminate|]. rewrite exec_seq_cons in Ee.
      destruct (Sem.exec rt mt fuel false ss0 st) as [sg sa| |] eqn:Est; cbn [sbind] in Ee; try discriminate.
      rewrite (atom_signal rt mt st fuel ss0 sg sa Hst Est) in Ee. exact (IH Hr sa fuel Ee). }
  subst sig. injection Hrun as Hrun.
  set (code := flat_map (c_stmt rt mt false None) p) in *.
  set (im := load code).
  assert (Him : im_code im = code) by (apply load_no_routine; apply script_no_routine; exact Hs).
  assert (Hc : code_at im (m_pc (init_state w)) code) by (apply (code_at_suffix im [] code); exact Him).
  destruct (script_simulation rt mt p Hs im (init_sstate w) (init_state w) ss' fuel (sim_init w) Hc Ee)
    as (n & s' & es & En & Hsim & Hpc & _ & Htr).
  exists (n + 1)%nat. unfold run_program, run_image. fold code. fold im.
  rewrite (run_from_esteps n im (init_state w) s' es 1 [] En). cbn [run_from].
  assert (Hend : (zlength (im_code im) <=? m_pc s') = true).
  { apply Z.leb_le. rewrite Him, Hpc. fold code. cbn [init_state m_pc]. lia. }
  rewrite Hend.
  cbn [fst]. unfold flush_events. rewrite (sim_unnamed _ _ Hsim). cbn [map app].
  rewrite rev_append_rev, app_nil_r, rev_involutive. cbn [init_sstate s_trace rev app] in Htr. rewrite <- Htr. f_equal. exact Hrun.
Qed.
